#!/usr/bin/env python3
"""Regenerates /verif/MANIFEST.json from the table below (kept in one place so the file is always valid)."""
import json, os, sys
HERE = os.path.dirname(os.path.abspath(__file__))

NOTE = ("Trusted base: go/types + go/packages (x/tools v0.29.0) type-checking /repo's working tree in workspace mode; the rule tables in "
        "checker/rules (anchors are type-resolved roles, frozen exceptions carry a reason); abstract locks per (type, field); panics are not edges; "
        "reflection/unsafe not modelled. The check decides the named structural necessary conditions only, never the run-time values.")

# property -> (claim text, technique, design_ref)
CLAIMS = {
 "C12": ("Structural necessary conditions of 'nothing written after removal / no overlapping writes / completion signalled once': every use of subscriptionState.writer is under writeMu after removed.Load()==false in the same critical section (lock-set + guard dominance on all paths); completed is closed at one site reachable only through CAS-won toClose lists; updater callbacks enter the resolver only under updater.mu after the done/ctx gate; workers are joined. Does not decide order/exactness of delivered messages.",
         "static analysis: path-sensitive must-lock-set and guard-dominance over the AST/CFG of package resolve (go/types-resolved), ownership (who-may-close/who-may-call)", "§2 C12"),
 "C13": ("Structural necessary conditions of 'triggers shared by input+headers, started once, always cleaned up': registry fields only under Resolver.mu (trigger.subscriptions written under both locks) on every path incl. inter-procedural entry sets; lock order updater.mu>Resolver.mu>trigger.mu and client I/O, cancel functions, closeSubs outside the registry locks; every field of every removal result consumed on all paths at all 5 call sites; registry insertions paired with counter increments; trigger id derives from input hash and headers hash; Source.Start has one call site, detached context, tear-down on error edge; sources call Done after Error/Complete. Does not decide 'counters return to zero for every history'.",
         "static analysis: inter-procedural must-lock-sets, lock-order and requires-no-lock rules, result-consumption (pairing on all exits), intra-procedural value derivation for the key, typestate Error/Complete→Done", "§2 C13"),
 "C11": ("Structural necessary conditions of 'de-duplication never wedges or crashes and shares only identical queries': leader finishes exactly once on every exit of both coalescing sites; fields read by followers are written before the wake-up close and the conditional publish decision is atomic with follower registration; shared records written only on the leader path, shared buffers never mutated in place; both keys derive from all documented components (request id, variables hash, headers hash / datasource id, input, headers hash); sharing dominated by query-only eligibility; every wait also selects on the participant's own context; a follower never returns the leader's cancellation verbatim. Does not decide byte equality of responses.",
         "static analysis: exactly-once pairing over all exits (path interpreter with defer replay), publish-before-close dominance, lock-set atomicity, ownership (who-may-write), value derivation for key completeness, guard dominance, select-shape check, context provenance", "§2 C11"),
 "C07": ("Structural necessary conditions of 'subgraph failures are isolated': every merge into the response tree is dominated by the absence of each failure condition and indexed merges by the entity-count check; error renderers append an error on every non-error return; every nil return of mergeResult is benign/merged/rendered; dependants are skipped before any prepare step, the skip and load errors are recorded (transitivity); plain errgroup joined on all paths; failed single-flight leader releases followers. Does not decide data identity under fault nor request-subset (value level).",
         "static analysis: guard dominance over all paths of mergeResult / loadPhase / preparePhase (AST path interpreter, type-resolved conditions), must-call on exits, ownership (no errgroup.WithContext), exactly-once pairing", "§2 C07"),
 "C08": ("Structural necessary conditions of 'fetch execution respects dependencies under every schedule': all state shared by concurrent fetch goroutines is accessed only under DataBuffer.mu (inter-procedural must/may lock sets; the load phase touches none of it); parallel nodes joined, sequences in index order stopping at first error, total node-kind dispatch; post-processing stages wired in the order their contracts require for all three plan kinds; merged fetches carry the union of member dependencies. Does not decide topological correctness of the ordering algorithms.",
         "static analysis: inter-procedural lock-set analysis with guarded-field tables, join/pairing on exits, dispatch exhaustiveness, stage-order (happens-before on all paths) rules, value derivation", "§2 C08"),
 "C10": ("Structural necessary conditions of 'well-formed @defer stream that terminates': shared writer/Resolvable/DataBuffer used only under DataBuffer.mu in resolveDeferSingle (render+counter+Flush in one section); counter written only by the two frame writers; exactly one counter update / completed / hasNext per frame with hasNext read after the update; announced and scheduled sets are the same liveChildDescriptors value; Complete() only from a defer registered after the first successful Flush; plain joined errgroup; defer normalization stage order. Does not decide reconstruction equality.",
         "static analysis: lock-set analysis, ownership (who-may-write), exactly-once counting over all paths, value identity via assignment-only derivation, defer-registration dominance, stage order", "§2 C10"),
 "C14": ("Structural necessary conditions of 'denied fields never reach the client, denied mutations never reach a subgraph': who-may-call chain to DataSource.Load*, load dominated by !skipLoad, every prepare*Fetch exit gated, authorization before rate limiting, cache gate refuses non-queries with any / queries with all root fields denied; field values walked only after authorizeField allowed, which allows only on documented edges and denies only with an error; authorizePreFetch before every loader start, subscriptions authorized before registration, fail-closed batch gate seeding every (source, coordinate) pair; collector descends unconditionally like the renderer; single source of the protected bit. Does not decide absence of denied bytes in responses.",
         "static analysis: who-may-call over resolved callees, guard dominance and necessary-conjunct (returns-true-only-if) rules on all paths, sibling agreement, value derivation", "§2 C14"),
 "C16": ("Structural necessary conditions of 'entities stored only from clean public responses for no longer than allowed; cache failures never fail a request': conjuncts and precedence of caching.TTL on every ok-return; all cleanliness guards dominate item construction; TTL provenance; key/value positional pairing; all-or-nothing lookup; cache errors flow only to the reporter and the store is never called under the data lock; key = entity hash + selection hash taken from offsets recorded between header and footer before the buffer is rewritten; parser arm ↔ decision field agreement against the RFC 9111 directive names. Does not decide transparency over histories nor the header lexer.",
         "static analysis: necessary-conjunct analysis of boolean results, guard dominance, error-flow (sinks) analysis, lock-set, value derivation and order rules, writer/reader field agreement", "§2 C16"),
}
PENDING = "no static rule is armed for this property yet in this revision (structural clauses planned in DESIGN.md §2); the behavioural statement itself quantifies over run-time values that static analysis cannot bound"

props = [json.loads(l)["id"] for l in open(os.path.join(HERE, "properties.jsonl"))]
checks, na = [], []
for pid in props:
    if pid in CLAIMS:
        text, tech, ref = CLAIMS[pid]
        checks.append({
            "property_id": pid,
            "quick_cmd": f"./run.sh {pid} quick",
            "thorough_cmd": f"./run.sh {pid} thorough",
            "evidence_file": f"/verif/evidence/{pid}.json",
            "replay_cmd_template": "./run.sh --replay {path}",
            "engine": "checker",
            "level_claimed": {"category": "other", "text": text, "design_ref": ref},
            "level_note": NOTE,
            "technique": tech,
        })
    else:
        na.append({"property_id": pid, "reason": PENDING})

manifest = {
 "version": 1,
 "setup_cmd": "./run.sh --build",
 "hooks": {"guard": "verif", "enable": "none needed: the checks read /repo's sources and never build instrumented binaries", 
           "baseline_off_cmd": "for m in v2 execution; do (cd /repo/$m && go test -vet=off -count=1 -timeout 25m ./...); done",
           "source_commits": [], "add_only": True},
 "engines": [{"name": "checker", "path": "/verif/checker", "serves_properties": sorted(CLAIMS),
              "kind_free_text": "repository-specific static analyser (Go, go/packages + go/types + AST path interpreter): guard dominance, pairing/exactly-once, must-lock-sets with inter-procedural entry sets, dispatch exhaustiveness, registry/visitor wiring, ownership, key completeness"}],
 "checks": checks,
 "not_applicable": na,
 "notes": "Every claim is at level 'other': a structural necessary condition of the property decided on all paths of the current source; see DESIGN.md. Exit 2 + CHECK-ERROR means the machinery could not decide (anchor missing, package does not type-check).",
}
json.dump(manifest, open(os.path.join(HERE, "MANIFEST.json"), "w"), indent=1)
print("claimed:", sorted(CLAIMS), "n/a:", len(na))
