package fw

import (
	"go/ast"
	"go/token"
	"go/types"
	"sort"
	"strings"
)

// ---------------------------------------------------------------------------------------
// Abstract state: a finite map fact -> (min,max) occurrence count on the paths reaching a
// point, both capped at 2. min>=1 is a must-fact ("on every path"), max>=1 a may-fact,
// max<=1 "at most once". nil *State is bottom (unreachable).
// ---------------------------------------------------------------------------------------

type Cnt struct{ Min, Max int8 }

type State struct{ F map[string]Cnt }

func NewState() *State { return &State{F: map[string]Cnt{}} }

func (s *State) Clone() *State {
	if s == nil {
		return nil
	}
	n := &State{F: make(map[string]Cnt, len(s.F))}
	for k, v := range s.F {
		n.F[k] = v
	}
	return n
}

func cap2(x int8) int8 {
	if x > 2 {
		return 2
	}
	return x
}

// Inc counts one more occurrence of f.
func (s *State) Inc(f string) {
	c := s.F[f]
	s.F[f] = Cnt{cap2(c.Min + 1), cap2(c.Max + 1)}
}

// Dec undoes one occurrence of f (not below zero).
func (s *State) Dec(f string) {
	c := s.F[f]
	if c.Min > 0 {
		c.Min--
	}
	if c.Max > 0 {
		c.Max--
	}
	if c == (Cnt{}) {
		delete(s.F, f)
	} else {
		s.F[f] = c
	}
}

// Set makes f hold (exactly once) on this path.
func (s *State) Set(f string) { s.F[f] = Cnt{1, 1} }

// Kill removes f.
func (s *State) Kill(f string) { delete(s.F, f) }

// KillPrefix removes every fact starting with prefix.
func (s *State) KillPrefix(prefix string) {
	for k := range s.F {
		if strings.HasPrefix(k, prefix) {
			delete(s.F, k)
		}
	}
}

// KillIf removes every fact selected by pred.
func (s *State) KillIf(pred func(string) bool) {
	for k := range s.F {
		if pred(k) {
			delete(s.F, k)
		}
	}
}

func (s *State) Must(f string) bool { return s != nil && s.F[f].Min >= 1 }
func (s *State) May(f string) bool  { return s != nil && s.F[f].Max >= 1 }
func (s *State) Get(f string) Cnt {
	if s == nil {
		return Cnt{}
	}
	return s.F[f]
}

// MustAny reports whether any of the facts is a must-fact.
func (s *State) MustAny(fs ...string) bool {
	for _, f := range fs {
		if s.Must(f) {
			return true
		}
	}
	return false
}

// Facts lists the must-facts with a given prefix (sorted).
func (s *State) Facts(prefix string) []string {
	var out []string
	if s == nil {
		return out
	}
	for k, v := range s.F {
		if v.Min >= 1 && strings.HasPrefix(k, prefix) {
			out = append(out, k)
		}
	}
	sort.Strings(out)
	return out
}

// Join is the control-flow merge.
func Join(a, b *State) *State {
	if a == nil {
		return b.Clone()
	}
	if b == nil {
		return a.Clone()
	}
	n := &State{F: map[string]Cnt{}}
	for k, va := range a.F {
		vb := b.F[k]
		c := Cnt{min8(va.Min, vb.Min), max8(va.Max, vb.Max)}
		if c != (Cnt{}) {
			n.F[k] = c
		}
	}
	for k, vb := range b.F {
		if _, ok := a.F[k]; ok {
			continue
		}
		c := Cnt{0, vb.Max}
		if c != (Cnt{}) {
			n.F[k] = c
		}
	}
	return n
}

func min8(a, b int8) int8 {
	if a < b {
		return a
	}
	return b
}
func max8(a, b int8) int8 {
	if a > b {
		return a
	}
	return b
}

func stateEq(a, b *State) bool {
	if a == nil || b == nil {
		return a == b
	}
	if len(a.F) != len(b.F) {
		return false
	}
	for k, v := range a.F {
		if b.F[k] != v {
			return false
		}
	}
	return true
}

// ---------------------------------------------------------------------------------------
// Structured interpreter over the AST of one function body (and the literals it inlines).
// It is a path-sensitive-on-structure forward dataflow: conditions are split on && || !,
// switch arms are visited in evaluation order, loops are iterated to a fixed point, deferred
// calls are replayed LIFO at every exit of the frame that registered them.
// ---------------------------------------------------------------------------------------

type LitMode int

const (
	LitSkip   LitMode = iota // do not interpret the body here (asynchronous or irrelevant)
	LitInline                // body runs synchronously at this point, zero or more times
	LitOnce                  // body runs synchronously exactly once at this point (immediately invoked)
)

// LitCtx tells a hook how a function literal is used.
type LitCtx struct {
	Call     *ast.CallExpr // call the literal is an argument of, or that invokes it (may be nil)
	ArgIndex int           // index among Call.Args, -1 if the literal is Call.Fun
	Deferred bool
	Go       bool
}

type Hooks struct {
	// Node is called, in evaluation order, for: *ast.CallExpr (after its operands),
	// *ast.SelectorExpr (field/method selections), *ast.UnaryExpr (receive), *ast.CompositeLit,
	// *ast.AssignStmt, *ast.IncDecStmt, *ast.SendStmt, *ast.RangeStmt (per iteration head),
	// *ast.ReturnStmt (before deferred calls), *ast.GoStmt, *ast.DeferStmt (at registration),
	// *ast.ValueSpec, *ast.IndexExpr, *ast.StarExpr.
	Node func(n ast.Node, st *State)
	// Cond: atomic condition e is known to evaluate to branch on this path.
	Cond func(e ast.Expr, branch bool, st *State)
	// Case: in a tagged switch, tag matched one of vals (match) or none of them (!match);
	// for the default clause vals is nil and match is true.
	Case func(tag ast.Expr, vals []ast.Expr, match bool, st *State)
	// TypeCase: entering a clause of a type switch.
	TypeCase func(sw *ast.TypeSwitchStmt, cc *ast.CaseClause, st *State)
	// Comm: a select clause was chosen.
	Comm func(cc *ast.CommClause, st *State)
	// Exit: a frame (function or inlined literal) exits; ret is nil when falling off the end.
	// Deferred calls of that frame have already been replayed. lit is nil for the function itself.
	Exit func(ret *ast.ReturnStmt, lit *ast.FuncLit, st *State)
	// Lit decides how to treat a function literal.
	Lit func(lit *ast.FuncLit, ctx LitCtx, st *State) LitMode
	// DeferredCall is called when a deferred non-literal call runs at an exit (in addition to Node).
}

type target struct {
	label      string
	isLoop     bool
	breakAcc   *State
	contAcc    *State
	hasBreak   bool
	isSelectOr bool
}

type deferRec struct {
	stmt *ast.DeferStmt
	fact string
}

type frame struct {
	lit     *ast.FuncLit
	defers  []deferRec
	exitAcc *State
}

type Interp struct {
	FI      *FuncInfo
	Info    *types.Info
	H       Hooks
	quiet   int
	targets []*target
	frames  []*frame
	// Unsupported is set when a construct the interpreter does not model was met (goto).
	Unsupported []string
	// litStack tracks the literals currently being inlined (innermost last).
	litStack []*ast.FuncLit
	// localLits maps a local variable to the single function literal assigned to it.
	localLits map[types.Object]*ast.FuncLit
	// SkippedLits collects the literals that were not interpreted inline (asynchronous
	// or of unknown use); engines analyse them as functions of their own.
	SkippedLits []*ast.FuncLit
	skippedSet  map[*ast.FuncLit]bool
}

// bindLocalLits records `f := func(){…}` / `var f = func(){…}` bindings of the function body
// (only variables assigned exactly once, so that a call f() has one possible target).
func (in *Interp) bindLocalLits(body ast.Node) {
	in.localLits = map[types.Object]*ast.FuncLit{}
	assigned := map[types.Object]int{}
	ast.Inspect(body, func(n ast.Node) bool {
		switch x := n.(type) {
		case *ast.AssignStmt:
			for i, l := range x.Lhs {
				id, ok := l.(*ast.Ident)
				if !ok {
					continue
				}
				obj := in.Info.Defs[id]
				if obj == nil {
					obj = in.Info.Uses[id]
				}
				if obj == nil {
					continue
				}
				assigned[obj]++
				if len(x.Rhs) == len(x.Lhs) {
					if lit, ok := ast.Unparen(x.Rhs[i]).(*ast.FuncLit); ok {
						in.localLits[obj] = lit
					}
				}
			}
		case *ast.ValueSpec:
			for i, id := range x.Names {
				obj := in.Info.Defs[id]
				if obj == nil {
					continue
				}
				if len(x.Values) == len(x.Names) {
					assigned[obj]++
					if lit, ok := ast.Unparen(x.Values[i]).(*ast.FuncLit); ok {
						in.localLits[obj] = lit
					}
				}
			}
		}
		return true
	})
	for o := range in.localLits {
		if assigned[o] != 1 {
			delete(in.localLits, o)
		}
	}
}

func (in *Interp) noteSkipped(lit *ast.FuncLit) {
	if in.skippedSet == nil {
		in.skippedSet = map[*ast.FuncLit]bool{}
	}
	if !in.skippedSet[lit] {
		in.skippedSet[lit] = true
		in.SkippedLits = append(in.SkippedLits, lit)
	}
}

// Final reports whether the current visit is the reporting pass (all enclosing loops converged).
func (in *Interp) Final() bool { return in.quiet == 0 }

// CurLit returns the innermost literal being interpreted (nil in the function body proper).
func (in *Interp) CurLit() *ast.FuncLit {
	if len(in.litStack) == 0 {
		return nil
	}
	return in.litStack[len(in.litStack)-1]
}

// NewInterp prepares an interpreter for fi; set in.H before calling Run/RunLit so that the
// hooks can refer to the interpreter (Final, CurLit).
func NewInterp(fi *FuncInfo) *Interp {
	in := &Interp{FI: fi, Info: fi.Info()}
	in.bindLocalLits(fi.Decl.Body)
	return in
}

// Run interprets the body of the function from entry and returns the joined exit state.
func (in *Interp) Run(entry *State) *State {
	if entry == nil {
		entry = NewState()
	}
	return in.runFrame(nil, in.FI.Decl.Body, entry.Clone())
}

// RunLit interprets a function literal as a function of its own (goroutine bodies etc.).
func (in *Interp) RunLit(lit *ast.FuncLit, entry *State) *State {
	if entry == nil {
		entry = NewState()
	}
	in.litStack = append(in.litStack, lit)
	out := in.runFrame(lit, lit.Body, entry.Clone())
	in.litStack = in.litStack[:len(in.litStack)-1]
	return out
}

// RunStmts interprets a statement list (a switch arm, a loop body) as a frame of its own and
// returns the state at its end joined with the states at `continue`/`break` that leave it;
// `return` statements inside are reported through Hooks.Exit and do not contribute.
func (in *Interp) RunStmts(list []ast.Stmt, entry *State) *State {
	if entry == nil {
		entry = NewState()
	}
	fr := &frame{}
	in.frames = append(in.frames, fr)
	saved := in.targets
	in.targets = nil
	t := in.push("", true)
	end := in.block(list, entry.Clone())
	end = Join(end, Join(t.contAcc, t.breakAcc))
	in.targets = saved
	in.frames = in.frames[:len(in.frames)-1]
	return end
}

// RunLoopBody interprets the body of a loop once from entry and returns separately the state that
// flows back to the loop head (end of body ∪ continue) and the state that leaves through break.
// Return statements are reported through Hooks.Exit.
func (in *Interp) RunLoopBody(list []ast.Stmt, entry *State) (next, brk *State) {
	if entry == nil {
		entry = NewState()
	}
	fr := &frame{}
	in.frames = append(in.frames, fr)
	saved := in.targets
	in.targets = nil
	t := in.push("", true)
	end := in.block(list, entry.Clone())
	next = Join(end, t.contAcc)
	brk = t.breakAcc
	in.targets = saved
	in.frames = in.frames[:len(in.frames)-1]
	return next, brk
}

// RunFunc is the one-shot form of NewInterp+Run.
func RunFunc(fi *FuncInfo, entry *State, h Hooks) (*State, *Interp) {
	in := NewInterp(fi)
	in.H = h
	return in.Run(entry), in
}

func (in *Interp) runFrame(lit *ast.FuncLit, body *ast.BlockStmt, st *State) *State {
	fr := &frame{lit: lit}
	in.frames = append(in.frames, fr)
	savedTargets := in.targets
	in.targets = nil
	end := in.block(body.List, st)
	if end != nil {
		in.exit(nil, end)
	}
	in.targets = savedTargets
	in.frames = in.frames[:len(in.frames)-1]
	return fr.exitAcc
}

func (in *Interp) inlining(lit *ast.FuncLit) bool {
	for _, l := range in.litStack {
		if l == lit {
			return true
		}
	}
	return false
}

func (in *Interp) curFrame() *frame { return in.frames[len(in.frames)-1] }

// exit replays the deferred calls of the current frame and records the exit.
func (in *Interp) exit(ret *ast.ReturnStmt, st *State) {
	fr := in.curFrame()
	for i := len(fr.defers) - 1; i >= 0; i-- {
		d := fr.defers[i]
		c := st.Get(d.fact)
		if c.Max == 0 {
			continue
		}
		ran := in.runDeferred(d.stmt, st.Clone())
		if c.Min >= 1 {
			if ran == nil {
				// deferred call never returns normally (panics): treat as terminating
				st = nil
				break
			}
			st = ran
		} else {
			st = Join(st, ran)
		}
	}
	if st == nil {
		return
	}
	if in.H.Exit != nil {
		in.H.Exit(ret, fr.lit, st)
	}
	fr.exitAcc = Join(fr.exitAcc, st)
}

func (in *Interp) runDeferred(d *ast.DeferStmt, st *State) *State {
	if lit, ok := ast.Unparen(d.Call.Fun).(*ast.FuncLit); ok {
		mode := LitOnce
		if in.H.Lit != nil {
			mode = in.H.Lit(lit, LitCtx{Call: d.Call, ArgIndex: -1, Deferred: true}, st)
		}
		if mode == LitSkip {
			in.noteSkipped(lit)
			return st
		}
		return in.inlineLit(lit, st, true)
	}
	if id, ok := ast.Unparen(d.Call.Fun).(*ast.Ident); ok {
		if lit := in.localLits[in.Info.Uses[id]]; lit != nil && !in.inlining(lit) {
			return in.inlineLit(lit, st, true)
		}
	}
	// plain deferred call: operands were evaluated at registration; the call happens now
	if in.H.Node != nil {
		in.H.Node(d.Call, st)
	}
	return st
}

// inlineLit interprets lit's body on st; once=false joins with "not executed".
func (in *Interp) inlineLit(lit *ast.FuncLit, st *State, once bool) *State {
	in.litStack = append(in.litStack, lit)
	out := in.runFrame(lit, lit.Body, st.Clone())
	in.litStack = in.litStack[:len(in.litStack)-1]
	if once {
		return out
	}
	return Join(st, out)
}

func (in *Interp) block(list []ast.Stmt, st *State) *State {
	for _, s := range list {
		if st == nil {
			return nil
		}
		st = in.stmt(s, st, "")
	}
	return st
}

func (in *Interp) node(n ast.Node, st *State) {
	if in.H.Node != nil && st != nil {
		in.H.Node(n, st)
	}
}

func (in *Interp) stmt(s ast.Stmt, st *State, label string) *State {
	if st == nil {
		return nil
	}
	switch s := s.(type) {
	case *ast.BadStmt, *ast.EmptyStmt:
		return st
	case *ast.ExprStmt:
		st = in.expr(s.X, st)
		if st != nil && in.neverReturns(s.X) {
			return nil
		}
		return st
	case *ast.SendStmt:
		st = in.expr(s.Chan, st)
		st = in.expr(s.Value, st)
		in.node(s, st)
		return st
	case *ast.IncDecStmt:
		st = in.lhs(s.X, st)
		in.node(s, st)
		return st
	case *ast.AssignStmt:
		for _, r := range s.Rhs {
			st = in.expr(r, st)
		}
		for _, l := range s.Lhs {
			st = in.lhs(l, st)
		}
		in.node(s, st)
		return st
	case *ast.GoStmt:
		st = in.callOperands(s.Call, st, LitCtx{Go: true})
		in.node(s, st)
		return st
	case *ast.DeferStmt:
		st = in.callOperands(s.Call, st, LitCtx{Deferred: true})
		fr := in.curFrame()
		fact := ""
		for _, d := range fr.defers {
			if d.stmt == s {
				fact = d.fact
			}
		}
		if fact == "" {
			fact = "\x00defer:" + itoa(len(in.frames)) + ":" + itoa(len(fr.defers))
			fr.defers = append(fr.defers, deferRec{stmt: s, fact: fact})
		}
		if st != nil {
			st.Set(fact)
		}
		in.node(s, st)
		return st
	case *ast.DeclStmt:
		if gd, ok := s.Decl.(*ast.GenDecl); ok && gd.Tok == token.VAR {
			for _, sp := range gd.Specs {
				vs := sp.(*ast.ValueSpec)
				for _, v := range vs.Values {
					st = in.expr(v, st)
				}
				in.node(vs, st)
			}
		}
		return st
	case *ast.LabeledStmt:
		return in.stmt(s.Stmt, st, s.Label.Name)
	case *ast.ReturnStmt:
		for _, r := range s.Results {
			st = in.expr(r, st)
		}
		if st == nil {
			return nil
		}
		in.node(s, st)
		in.exit(s, st)
		return nil
	case *ast.BranchStmt:
		return in.branch(s, st)
	case *ast.BlockStmt:
		return in.block(s.List, st)
	case *ast.IfStmt:
		if s.Init != nil {
			st = in.stmt(s.Init, st, "")
		}
		t, f := in.cond(s.Cond, st)
		t = in.stmt(s.Body, t, "")
		if s.Else != nil {
			f = in.stmt(s.Else, f, "")
		}
		return Join(t, f)
	case *ast.SwitchStmt:
		return in.switchStmt(s, st, label)
	case *ast.TypeSwitchStmt:
		return in.typeSwitch(s, st, label)
	case *ast.SelectStmt:
		return in.selectStmt(s, st, label)
	case *ast.ForStmt:
		return in.forStmt(s, st, label)
	case *ast.RangeStmt:
		return in.rangeStmt(s, st, label)
	}
	in.Unsupported = append(in.Unsupported, "statement")
	return st
}

func (in *Interp) neverReturns(e ast.Expr) bool {
	call, ok := ast.Unparen(e).(*ast.CallExpr)
	if !ok {
		return false
	}
	if Builtin(in.Info, call) == "panic" {
		return true
	}
	fn := Callee(in.Info, call)
	if fn == nil || fn.Pkg() == nil {
		return false
	}
	switch fn.Pkg().Path() + "." + fn.Name() {
	case "os.Exit", "log.Fatal", "log.Fatalf", "log.Fatalln", "log.Panic", "log.Panicf", "runtime.Goexit":
		return true
	}
	return false
}

func (in *Interp) branch(s *ast.BranchStmt, st *State) *State {
	switch s.Tok {
	case token.BREAK:
		for i := len(in.targets) - 1; i >= 0; i-- {
			t := in.targets[i]
			if s.Label == nil || t.label == s.Label.Name {
				t.breakAcc = Join(t.breakAcc, st)
				return nil
			}
		}
	case token.CONTINUE:
		for i := len(in.targets) - 1; i >= 0; i-- {
			t := in.targets[i]
			if !t.isLoop {
				continue
			}
			if s.Label == nil || t.label == s.Label.Name {
				t.contAcc = Join(t.contAcc, st)
				return nil
			}
		}
	case token.FALLTHROUGH:
		// handled by switchStmt (looks at the last statement of the clause)
		return st
	case token.GOTO:
		in.Unsupported = append(in.Unsupported, "goto")
		return nil
	}
	in.Unsupported = append(in.Unsupported, "branch without target")
	return nil
}

func (in *Interp) push(label string, loop bool) *target {
	t := &target{label: label, isLoop: loop}
	in.targets = append(in.targets, t)
	return t
}
func (in *Interp) pop() { in.targets = in.targets[:len(in.targets)-1] }

func (in *Interp) forStmt(s *ast.ForStmt, st *State, label string) *State {
	if s.Init != nil {
		st = in.stmt(s.Init, st, "")
	}
	if st == nil {
		return nil
	}
	entry := st
	head := entry.Clone()
	pass := func(head *State) (next, exit *State) {
		t := in.push(label, true)
		defer in.pop()
		var tt, ff *State
		if s.Cond != nil {
			tt, ff = in.cond(s.Cond, head.Clone())
		} else {
			tt, ff = head.Clone(), nil
		}
		end := in.stmt(s.Body, tt, "")
		end = Join(end, t.contAcc)
		if s.Post != nil && end != nil {
			end = in.stmt(s.Post, end, "")
		}
		return end, Join(ff, t.breakAcc)
	}
	in.quiet++
	for i := 0; i < 12; i++ {
		next, _ := pass(head)
		nh := Join(entry, next)
		if stateEq(nh, head) {
			break
		}
		head = nh
	}
	in.quiet--
	_, exit := pass(head)
	return exit
}

// RangeEval is delivered to Hooks.Node once per range statement, on the state before the loop,
// after the range operand was evaluated (the *ast.RangeStmt node itself is delivered on the
// per-iteration state).
type RangeEval struct{ Stmt *ast.RangeStmt }

func (r *RangeEval) Pos() token.Pos { return r.Stmt.X.Pos() }
func (r *RangeEval) End() token.Pos { return r.Stmt.X.End() }

func (in *Interp) rangeStmt(s *ast.RangeStmt, st *State, label string) *State {
	st = in.expr(s.X, st)
	if st == nil {
		return nil
	}
	in.node(&RangeEval{s}, st)
	entry := st
	head := entry.Clone()
	pass := func(head *State) (next, exit *State) {
		t := in.push(label, true)
		defer in.pop()
		body := head.Clone()
		in.node(s, body)
		end := in.stmt(s.Body, body, "")
		end = Join(end, t.contAcc)
		return end, Join(head, t.breakAcc)
	}
	in.quiet++
	for i := 0; i < 12; i++ {
		next, _ := pass(head)
		nh := Join(entry, next)
		if stateEq(nh, head) {
			break
		}
		head = nh
	}
	in.quiet--
	next, exit := pass(head)
	return Join(exit, next)
}

func endsWithFallthrough(body []ast.Stmt) bool {
	if len(body) == 0 {
		return false
	}
	b, ok := body[len(body)-1].(*ast.BranchStmt)
	return ok && b.Tok == token.FALLTHROUGH
}

func (in *Interp) switchStmt(s *ast.SwitchStmt, st *State, label string) *State {
	if s.Init != nil {
		st = in.stmt(s.Init, st, "")
	}
	if s.Tag != nil {
		st = in.expr(s.Tag, st)
	}
	if st == nil {
		return nil
	}
	clauses := s.Body.List
	entries := make([]*State, len(clauses))
	cur := st
	defIdx := -1
	for i, c := range clauses {
		cc := c.(*ast.CaseClause)
		if cc.List == nil {
			defIdx = i
			continue
		}
		if s.Tag == nil {
			var acc *State
			for _, e := range cc.List {
				t, f := in.cond(e, cur)
				acc = Join(acc, t)
				cur = f
			}
			entries[i] = acc
		} else {
			for _, e := range cc.List {
				cur = in.expr(e, cur)
			}
			m := cur.Clone()
			if in.H.Case != nil && m != nil {
				in.H.Case(s.Tag, cc.List, true, m)
			}
			entries[i] = m
			if in.H.Case != nil && cur != nil {
				cur = cur.Clone()
				in.H.Case(s.Tag, cc.List, false, cur)
			}
		}
	}
	var out *State
	if defIdx >= 0 {
		d := cur.Clone()
		if s.Tag != nil && in.H.Case != nil && d != nil {
			in.H.Case(s.Tag, nil, true, d)
		}
		entries[defIdx] = d
	} else {
		out = cur.Clone()
	}
	t := in.push(label, false)
	var carry *State
	for i, c := range clauses {
		cc := c.(*ast.CaseClause)
		e := Join(entries[i], carry)
		carry = nil
		end := in.block(cc.Body, e)
		if endsWithFallthrough(cc.Body) {
			carry = end
		} else {
			out = Join(out, end)
		}
	}
	in.pop()
	return Join(out, t.breakAcc)
}

func (in *Interp) typeSwitch(s *ast.TypeSwitchStmt, st *State, label string) *State {
	if s.Init != nil {
		st = in.stmt(s.Init, st, "")
	}
	switch a := s.Assign.(type) {
	case *ast.AssignStmt:
		for _, r := range a.Rhs {
			st = in.expr(r, st)
		}
	case *ast.ExprStmt:
		st = in.expr(a.X, st)
	}
	if st == nil {
		return nil
	}
	t := in.push(label, false)
	var out *State
	hasDefault := false
	for _, c := range s.Body.List {
		cc := c.(*ast.CaseClause)
		if cc.List == nil {
			hasDefault = true
		}
		e := st.Clone()
		if in.H.TypeCase != nil {
			in.H.TypeCase(s, cc, e)
		}
		out = Join(out, in.block(cc.Body, e))
	}
	if !hasDefault {
		out = Join(out, st)
	}
	in.pop()
	return Join(out, t.breakAcc)
}

func (in *Interp) selectStmt(s *ast.SelectStmt, st *State, label string) *State {
	t := in.push(label, false)
	var out *State
	for _, c := range s.Body.List {
		cc := c.(*ast.CommClause)
		e := st.Clone()
		if cc.Comm != nil {
			e = in.stmt(cc.Comm, e, "")
		}
		if in.H.Comm != nil && e != nil {
			in.H.Comm(cc, e)
		}
		out = Join(out, in.block(cc.Body, e))
	}
	in.pop()
	if len(s.Body.List) == 0 {
		return nil // select {} blocks forever
	}
	return Join(out, t.breakAcc)
}

// cond evaluates a boolean expression and returns the states on its true and false outcome.
func (in *Interp) cond(e ast.Expr, st *State) (t, f *State) {
	if st == nil {
		return nil, nil
	}
	switch x := ast.Unparen(e).(type) {
	case *ast.UnaryExpr:
		if x.Op == token.NOT {
			f, t = in.cond(x.X, st)
			return t, f
		}
	case *ast.BinaryExpr:
		switch x.Op {
		case token.LAND:
			t1, f1 := in.cond(x.X, st)
			t2, f2 := in.cond(x.Y, t1)
			t, f = t2, Join(f1, f2)
			in.compound(x, t, f)
			return t, f
		case token.LOR:
			t1, f1 := in.cond(x.X, st)
			t2, f2 := in.cond(x.Y, f1)
			t, f = Join(t1, t2), f2
			in.compound(x, t, f)
			return t, f
		}
	}
	st = in.expr(e, st)
	if st == nil {
		return nil, nil
	}
	t, f = st.Clone(), st.Clone()
	if in.H.Cond != nil {
		in.H.Cond(e, true, t)
		in.H.Cond(e, false, f)
	}
	return t, f
}

// compound delivers a whole && / || condition to Hooks.Cond as well (after its atoms), so that
// rules can recognise guards of the form `if A && B { return }` on the fall-through edge.
func (in *Interp) compound(e ast.Expr, t, f *State) {
	if in.H.Cond == nil {
		return
	}
	if t != nil {
		in.H.Cond(e, true, t)
	}
	if f != nil {
		in.H.Cond(e, false, f)
	}
}

// lhs evaluates the operands of an assignment target (not the target itself).
func (in *Interp) lhs(e ast.Expr, st *State) *State {
	switch x := ast.Unparen(e).(type) {
	case *ast.Ident:
		return st
	case *ast.SelectorExpr:
		return in.expr(x.X, st)
	case *ast.IndexExpr:
		st = in.expr(x.X, st)
		return in.expr(x.Index, st)
	case *ast.StarExpr:
		return in.expr(x.X, st)
	}
	return in.expr(e, st)
}

func (in *Interp) callOperands(call *ast.CallExpr, st *State, ctx LitCtx) *State {
	if lit, ok := ast.Unparen(call.Fun).(*ast.FuncLit); ok {
		if !ctx.Deferred {
			c := ctx
			c.Call, c.ArgIndex = call, -1
			st = in.lit(lit, c, st)
		}
	} else {
		st = in.expr(call.Fun, st)
	}
	for i, a := range call.Args {
		if lit, ok := ast.Unparen(a).(*ast.FuncLit); ok {
			c := ctx
			c.Deferred = false // a literal passed as an argument is not itself the deferred body
			c.Call, c.ArgIndex = call, i
			st = in.lit(lit, c, st)
			continue
		}
		if id, ok := ast.Unparen(a).(*ast.Ident); ok {
			if lit := in.localLits[in.Info.Uses[id]]; lit != nil && !in.inlining(lit) {
				c := ctx
				c.Deferred = false
				c.Call, c.ArgIndex = call, i
				st = in.lit(lit, c, st)
				continue
			}
		}
		st = in.expr(a, st)
	}
	return st
}

func (in *Interp) lit(lit *ast.FuncLit, ctx LitCtx, st *State) *State {
	if st == nil {
		return nil
	}
	mode := LitSkip
	if in.H.Lit != nil {
		mode = in.H.Lit(lit, ctx, st)
	} else if ctx.Call != nil && ctx.ArgIndex == -1 && !ctx.Go && !ctx.Deferred {
		mode = LitOnce
	}
	switch mode {
	case LitInline:
		return in.inlineLit(lit, st, false)
	case LitOnce:
		return in.inlineLit(lit, st, true)
	}
	if !(ctx.ArgIndex == -2 && in.isLocalBound(lit)) {
		in.noteSkipped(lit)
	}
	return st
}

func (in *Interp) isLocalBound(lit *ast.FuncLit) bool {
	for _, l := range in.localLits {
		if l == lit {
			return true
		}
	}
	return false
}

// expr evaluates e on st in evaluation order and returns the state after it.
func (in *Interp) expr(e ast.Expr, st *State) *State {
	if st == nil || e == nil {
		return st
	}
	switch x := e.(type) {
	case *ast.ParenExpr:
		return in.expr(x.X, st)
	case *ast.Ident, *ast.BasicLit:
		return st
	case *ast.FuncLit:
		return in.lit(x, LitCtx{ArgIndex: -2}, st)
	case *ast.CompositeLit:
		for _, el := range x.Elts {
			if kv, ok := el.(*ast.KeyValueExpr); ok {
				if _, isField := kv.Key.(*ast.Ident); !isField {
					st = in.expr(kv.Key, st)
				}
				st = in.expr(kv.Value, st)
			} else {
				st = in.expr(el, st)
			}
		}
		in.node(x, st)
		return st
	case *ast.SelectorExpr:
		st = in.expr(x.X, st)
		in.node(x, st)
		return st
	case *ast.IndexExpr:
		st = in.expr(x.X, st)
		st = in.expr(x.Index, st)
		in.node(x, st)
		return st
	case *ast.IndexListExpr:
		return in.expr(x.X, st)
	case *ast.SliceExpr:
		st = in.expr(x.X, st)
		st = in.expr(x.Low, st)
		st = in.expr(x.High, st)
		return in.expr(x.Max, st)
	case *ast.TypeAssertExpr:
		return in.expr(x.X, st)
	case *ast.StarExpr:
		st = in.expr(x.X, st)
		in.node(x, st)
		return st
	case *ast.UnaryExpr:
		st = in.expr(x.X, st)
		if x.Op == token.ARROW {
			in.node(x, st)
		}
		return st
	case *ast.BinaryExpr:
		if x.Op == token.LAND || x.Op == token.LOR {
			st = in.expr(x.X, st)
			return Join(st, in.expr(x.Y, st.Clone()))
		}
		st = in.expr(x.X, st)
		return in.expr(x.Y, st)
	case *ast.KeyValueExpr:
		st = in.expr(x.Key, st)
		return in.expr(x.Value, st)
	case *ast.CallExpr:
		st = in.callOperands(x, st, LitCtx{})
		if id, ok := ast.Unparen(x.Fun).(*ast.Ident); ok && st != nil {
			if lit := in.localLits[in.Info.Uses[id]]; lit != nil && !in.inlining(lit) {
				return in.inlineLit(lit, st, true)
			}
		}
		in.node(x, st)
		if st != nil && in.neverReturns(x) {
			return nil
		}
		return st
	}
	return st
}
