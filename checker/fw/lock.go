package fw

import (
	"go/ast"
	"go/token"
	"go/types"
	"sort"
	"strings"
)

// Lock facts: "L:<id>" exclusive, "R:<id>" shared; <id> = "<pkgbase>.<Type>.<field>" for a
// mutex field of a named struct (abstract lock per type, not per instance), "var:<name>" else.
// "rel:<id>" records a lock released that was not known to be held (used for summaries).

// LockOp classifies a call as a lock operation.
type LockOp struct {
	ID       string
	Acquire  bool
	Shared   bool
	Deferred bool
}

// LockOpOf recognises calls of sync.(RW)Mutex methods on a field or variable.
func LockOpOf(info *types.Info, call *ast.CallExpr) (LockOp, bool) {
	fn := Callee(info, call)
	if fn == nil || fn.Pkg() == nil || fn.Pkg().Path() != "sync" {
		return LockOp{}, false
	}
	sig := fn.Type().(*types.Signature)
	if sig.Recv() == nil {
		return LockOp{}, false
	}
	rn := RecvName(sig.Recv().Type())
	if rn != "Mutex" && rn != "RWMutex" {
		return LockOp{}, false
	}
	var op LockOp
	switch fn.Name() {
	case "Lock":
		op.Acquire = true
	case "RLock":
		op.Acquire, op.Shared = true, true
	case "Unlock":
	case "RUnlock":
		op.Shared = true
	default:
		return LockOp{}, false
	}
	sel, ok := ast.Unparen(call.Fun).(*ast.SelectorExpr)
	if !ok {
		return LockOp{}, false
	}
	op.ID = lockID(info, sel)
	return op, op.ID != ""
}

// lockID names the mutex a method selector x.mu.Lock / x.Lock (embedded) refers to.
func lockID(info *types.Info, methodSel *ast.SelectorExpr) string {
	// embedded mutex: x.Lock() where Lock is promoted through an embedded field
	if s := info.Selections[methodSel]; s != nil && len(s.Index()) > 1 {
		t := s.Recv()
		for i := 0; i < len(s.Index())-1; i++ {
			t = deref(t)
			st, _ := t.Underlying().(*types.Struct)
			if st == nil {
				return ""
			}
			f := st.Field(s.Index()[i])
			if i == len(s.Index())-2 {
				if n, ok := types.Unalias(t).(*types.Named); ok && n.Obj().Pkg() != nil {
					return pkgBase(n.Obj().Pkg().Path()) + "." + n.Obj().Name() + "." + f.Name()
				}
				return ""
			}
			t = f.Type()
		}
	}
	x := ast.Unparen(methodSel.X)
	if fsel, ok := x.(*ast.SelectorExpr); ok {
		if v, _ := Field(info, fsel); v != nil {
			p, t := FieldOwner(info, fsel)
			if t != "" {
				return pkgBase(p) + "." + t + "." + v.Name()
			}
		}
		if o := info.Uses[fsel.Sel]; o != nil {
			return "var:" + o.Name()
		}
	}
	if id, ok := x.(*ast.Ident); ok {
		return "var:" + id.Name
	}
	return ""
}

func pkgBase(p string) string {
	if i := strings.LastIndexByte(p, '/'); i >= 0 {
		return p[i+1:]
	}
	return p
}

// ApplyLockOp updates the lock facts of st.
func ApplyLockOp(op LockOp, st *State) {
	switch {
	case op.Acquire && !op.Shared:
		st.Set("L:" + op.ID)
	case op.Acquire && op.Shared:
		st.Set("R:" + op.ID)
	case !op.Shared:
		if !st.May("L:" + op.ID) {
			st.Set("rel:" + op.ID)
		}
		st.Kill("L:" + op.ID)
		st.KillPrefix("under:" + op.ID + ":")
	default:
		if !st.May("R:" + op.ID) {
			st.Set("rel:" + op.ID)
		}
		st.Kill("R:" + op.ID)
		st.KillPrefix("under:" + op.ID + ":")
	}
}

// Held reports whether lock id is held exclusively (or at least shared if sharedOK).
func Held(st *State, id string, sharedOK bool) bool {
	return st.Must("L:"+id) || (sharedOK && st.Must("R:"+id))
}

// HeldLocks lists all locks in the must-set.
func HeldLocks(st *State) []string {
	var out []string
	out = append(out, st.Facts("L:")...)
	out = append(out, st.Facts("R:")...)
	sort.Strings(out)
	return out
}

// MayHeldLocks lists the lock ids that are held on at least one path (exclusive or shared).
func MayHeldLocks(st *State) []string {
	seen := map[string]bool{}
	var out []string
	if st == nil {
		return out
	}
	for k, v := range st.F {
		if v.Max >= 1 && (strings.HasPrefix(k, "L:") || strings.HasPrefix(k, "R:")) && !seen[k[2:]] {
			seen[k[2:]] = true
			out = append(out, k[2:])
		}
	}
	sort.Strings(out)
	return out
}

// SyncLitCallee is the frozen list of callees that invoke a function-literal argument
// synchronously before returning (so the literal inherits the caller's lock set).
func SyncLitCallee(fn *types.Func) bool {
	if fn == nil || fn.Pkg() == nil {
		return false
	}
	p, n := fn.Pkg().Path(), FuncName(fn)
	switch p {
	case "sort":
		return n == "Slice" || n == "SliceStable" || n == "Search"
	case "slices":
		return true // every func-taking helper of package slices is synchronous
	case "sync":
		return n == "Once.Do"
	case "github.com/wundergraph/astjson":
		return n == "Object.Visit"
	case "strings", "bytes":
		return true
	}
	return false
}

// LockAnalysis computes, for the functions of a set of packages, the lock set that is held
// at every instruction: entry set = intersection over all resolved in-package call sites
// (∅ for functions that are exported API with no in-package caller, referenced as values,
// or started as goroutines); wrappers are summarised (net acquired / net released).
type LockAnalysis struct {
	Prog  *Prog
	Funcs []*FuncInfo
	entry map[*types.Func]*State // nil: no call site seen yet (top)
	summ  map[*types.Func]lockSumm
	// Extra lets a rule add its own transfer for facts other than locks (e.g. "checked removed").
	ExtraNode func(in *Interp, n ast.Node, st *State)
	ExtraCond func(in *Interp, e ast.Expr, branch bool, st *State)
	// KeepFacts: prefixes of non-lock facts that are propagated to callees' entry states.
	KeepFacts []string
}

type lockSumm struct{ acq, rel []string } // facts set / killed at exit relative to entry

func NewLockAnalysis(p *Prog, pkgs ...string) *LockAnalysis {
	la := &LockAnalysis{Prog: p, entry: map[*types.Func]*State{}, summ: map[*types.Func]lockSumm{}}
	for _, a := range pkgs {
		la.Funcs = append(la.Funcs, p.Funcs(a)...)
	}
	return la
}

func (la *LockAnalysis) lockOnly(st *State) *State {
	n := NewState()
	for k, v := range st.F {
		if v.Max < 1 {
			continue
		}
		keep := strings.HasPrefix(k, "L:") || strings.HasPrefix(k, "R:")
		for _, p := range la.KeepFacts {
			if strings.HasPrefix(k, p) {
				keep = true
			}
		}
		if keep {
			n.F[k] = Cnt{min8(v.Min, 1), 1}
		}
	}
	return n
}

// meet merges the lock state of one more call site into a callee's entry state: a lock is a
// must-lock at entry only if every call site holds it, and a may-lock if any does. nil = no
// call site seen yet.
func meet(a, b *State) *State { return Join(a, b) }

// hooks builds the interpreter hooks for one function; visit (may be nil) sees every node
// with the state before the node's own lock effect.
func (la *LockAnalysis) hooks(in *Interp, calls func(fn *types.Func, st *State), visit func(in *Interp, n ast.Node, st *State)) Hooks {
	info := in.Info
	return Hooks{
		Node: func(n ast.Node, st *State) {
			if visit != nil && in.Final() {
				visit(in, n, st)
			}
			if la.ExtraNode != nil {
				la.ExtraNode(in, n, st)
			}
			call, ok := n.(*ast.CallExpr)
			if !ok {
				return
			}
			if op, ok := LockOpOf(info, call); ok {
				ApplyLockOp(op, st)
				return
			}
			fn := Callee(info, call)
			if fn == nil {
				return
			}
			if calls != nil {
				calls(fn, st)
			}
			if s, ok := la.summ[fn]; ok {
				for _, r := range s.rel {
					st.Kill("L:" + r)
					st.Kill("R:" + r)
					st.KillPrefix("under:" + r + ":")
				}
				for _, a := range s.acq {
					st.Set(a)
				}
			}
		},
		Cond: func(e ast.Expr, branch bool, st *State) {
			if la.ExtraCond != nil {
				la.ExtraCond(in, e, branch, st)
			}
		},
		Lit: func(lit *ast.FuncLit, ctx LitCtx, st *State) LitMode {
			if ctx.Go {
				return LitSkip
			}
			if ctx.Deferred && ctx.ArgIndex == -1 {
				return LitOnce
			}
			if ctx.Call != nil && ctx.ArgIndex == -1 {
				return LitOnce
			}
			if ctx.Call != nil && ctx.ArgIndex >= 0 && SyncLitCallee(Callee(info, ctx.Call)) {
				return LitInline
			}
			return LitSkip
		},
	}
}

// Solve iterates entry sets and summaries to a fixed point.
func (la *LockAnalysis) Solve() {
	inPkg := map[*types.Func]bool{}
	for _, fi := range la.Funcs {
		inPkg[fi.Obj] = true
	}
	// functions referenced as values (method values, callbacks) can be entered with no lock held
	asValue := map[*types.Func]bool{}
	for _, fi := range la.Funcs {
		info := fi.Info()
		skip := map[*ast.Ident]bool{}
		ast.Inspect(fi.Decl.Body, func(n ast.Node) bool {
			if c, ok := n.(*ast.CallExpr); ok {
				switch f := ast.Unparen(c.Fun).(type) {
				case *ast.Ident:
					skip[f] = true
				case *ast.SelectorExpr:
					skip[f.Sel] = true
				}
			}
			return true
		})
		ast.Inspect(fi.Decl.Body, func(n ast.Node) bool {
			if id, ok := n.(*ast.Ident); ok && !skip[id] {
				if fn, ok := info.Uses[id].(*types.Func); ok && inPkg[fn.Origin()] {
					asValue[fn.Origin()] = true
				}
			}
			return true
		})
	}
	for round := 0; round < 8; round++ {
		next := map[*types.Func]*State{}
		for fn := range asValue {
			next[fn] = NewState()
		}
		newSumm := map[*types.Func]lockSumm{}
		for _, fi := range la.Funcs {
			ent := la.entry[fi.Obj]
			if ent == nil {
				ent = NewState()
			}
			record := func(fn *types.Func, st *State) {
				if inPkg[fn] {
					next[fn] = meet(next[fn], la.lockOnly(st))
				}
			}
			in := NewInterp(fi)
			in.H = la.hooks(in, record, nil)
			exit := in.Run(ent)
			// summary relative to an empty entry
			in0 := NewInterp(fi)
			in0.H = la.hooks(in0, nil, nil)
			ex0 := in0.Run(NewState())
			var s lockSumm
			if ex0 != nil {
				s.acq = append(ex0.Facts("L:"), ex0.Facts("R:")...)
				for _, r := range ex0.Facts("rel:") {
					s.rel = append(s.rel, strings.TrimPrefix(r, "rel:"))
				}
			}
			if len(s.acq)+len(s.rel) > 0 {
				newSumm[fi.Obj] = s
			}
			_ = exit
			// asynchronous literals start with no lock
			la.runSkipped(fi, in, record, nil)
		}
		changed := false
		for _, fi := range la.Funcs {
			n := next[fi.Obj]
			if n == nil {
				n = NewState()
			}
			if !stateEq(n, la.entry[fi.Obj]) {
				changed = true
			}
			la.entry[fi.Obj] = n
		}
		if len(newSumm) != len(la.summ) {
			changed = true
		} else {
			for k, v := range newSumm {
				o := la.summ[k]
				if strings.Join(o.acq, ",") != strings.Join(v.acq, ",") || strings.Join(o.rel, ",") != strings.Join(v.rel, ",") {
					changed = true
				}
			}
		}
		la.summ = newSumm
		if !changed {
			break
		}
	}
}

func (la *LockAnalysis) runSkipped(fi *FuncInfo, parent *Interp, calls func(fn *types.Func, st *State), visit func(in *Interp, n ast.Node, st *State)) {
	done := map[*ast.FuncLit]bool{}
	queue := append([]*ast.FuncLit{}, parent.SkippedLits...)
	for len(queue) > 0 {
		lit := queue[0]
		queue = queue[1:]
		if done[lit] {
			continue
		}
		done[lit] = true
		in := NewInterp(fi)
		in.H = la.hooks(in, calls, visit)
		in.RunLit(lit, NewState())
		queue = append(queue, in.SkippedLits...)
	}
}

// Entry returns the must-held lock set at entry of fn (after Solve).
func (la *LockAnalysis) Entry(fn *types.Func) *State {
	if s := la.entry[fn]; s != nil {
		return s.Clone()
	}
	return NewState()
}

// Visit replays every analysed function (and its asynchronous literals, from an empty lock
// set) and calls visit for every node with the state holding before the node.
func (la *LockAnalysis) Visit(visit func(in *Interp, n ast.Node, st *State)) {
	for _, fi := range la.Funcs {
		in := NewInterp(fi)
		in.H = la.hooks(in, nil, visit)
		in.Run(la.Entry(fi.Obj))
		la.runSkipped(fi, in, nil, visit)
	}
}

// SiteLabel renders "Func" or "Func$n" for the construct currently interpreted.
func SiteLabel(in *Interp) string {
	if l := in.CurLit(); l != nil {
		return LitLabel(in.FI, l)
	}
	return in.FI.Name()
}

// Guard declares which locks must be held to write / read a struct field.
// Write and Read are disjunctions of conjunctions of lock ids; an entry "L" means exclusive,
// for reads a shared hold of the same lock is accepted as well.
type Guard struct {
	Pkg, Type, Field string
	Write            [][]string
	Read             [][]string
	// Exempt: function name -> reason (constructors: object not yet shared).
	Exempt map[string]string
}

func satisfied(st *State, alts [][]string, sharedOK bool) bool {
	if len(alts) == 0 {
		return true
	}
	for _, conj := range alts {
		all := true
		for _, id := range conj {
			if !Held(st, id, sharedOK) {
				all = false
			}
		}
		if all {
			return true
		}
	}
	return false
}

// writtenTarget strips index/deref/slice operations from an assignment target.
func writtenTarget(e ast.Expr) ast.Expr {
	for {
		switch x := ast.Unparen(e).(type) {
		case *ast.IndexExpr:
			e = x.X
		case *ast.StarExpr:
			e = x.X
		case *ast.SliceExpr:
			e = x.X
		default:
			return ast.Unparen(e)
		}
	}
}

// WriteTargets lists the expressions a node stores into (assignment targets, inc/dec,
// delete/clear/copy destinations, append-to-self), stripped of index/deref.
func WriteTargets(info *types.Info, n ast.Node) []ast.Expr {
	var out []ast.Expr
	switch x := n.(type) {
	case *ast.AssignStmt:
		for _, l := range x.Lhs {
			out = append(out, writtenTarget(l))
		}
	case *ast.IncDecStmt:
		out = append(out, writtenTarget(x.X))
	case *ast.CallExpr:
		switch Builtin(info, x) {
		case "delete", "clear", "copy":
			if len(x.Args) > 0 {
				out = append(out, writtenTarget(x.Args[0]))
			}
		}
	case *ast.RangeStmt:
		if x.Tok == token.ASSIGN {
			if x.Key != nil {
				out = append(out, writtenTarget(x.Key))
			}
			if x.Value != nil {
				out = append(out, writtenTarget(x.Value))
			}
		}
	}
	return out
}

// CheckGuards emits one obligation per access of a guarded field. It returns the number of
// accesses seen per guard (for vacuity checks).
func (la *LockAnalysis) CheckGuards(r *Run, rule string, guards []Guard) map[string]int {
	counts := map[string]int{}
	p := la.Prog
	la.Visit(func(in *Interp, n ast.Node, st *State) {
		check := func(sel ast.Expr, write bool) {
			for _, g := range guards {
				if !IsFieldSel(in.Info, sel, g.Pkg, g.Type, g.Field) {
					continue
				}
				name := g.Type + "." + g.Field
				counts[name]++
				kind := "read"
				alts := g.Read
				if write {
					kind, alts = "write", g.Write
				}
				key := SiteLabel(in) + "/" + kind + ":" + name
				what := kind + " of " + name + " in " + SiteLabel(in)
				if why, ok := g.Exempt[in.FI.Name()]; ok {
					r.Pass(rule, key, p.Pos(sel.Pos()), what+" (exempt: "+why+")", false)
					continue
				}
				ok := satisfied(st, alts, !write)
				r.Check(ok, rule, key, p.Pos(sel.Pos()), what,
					"required lock(s) "+altString(alts)+" not held on every path to this "+kind+" (held: "+strings.Join(HeldLocks(st), ",")+"; entry set of "+in.FI.Name()+" = ∩ of its call sites)")
			}
		}
		if sel, ok := n.(*ast.SelectorExpr); ok {
			check(sel, false)
		}
		for _, t := range WriteTargets(in.Info, n) {
			check(t, true)
		}
	})
	return counts
}

func altString(alts [][]string) string {
	var parts []string
	for _, c := range alts {
		parts = append(parts, strings.Join(c, "∧"))
	}
	return strings.Join(parts, " ∨ ")
}
