package fw

import (
	"go/ast"
	"go/token"
	"go/types"
	"strings"
)

// CondAtom is an atomic condition together with its outcome, normalised:
//
//	x == nil (true) / x != nil (false)      → {Nil, x}
//	len(x) == 0, len(x) < 1 …               → {Empty, x} / {NonEmpty, x}
//	b / !b for a boolean expression b       → {True, b} / {False, b}
//	a == b, a != b, a < b …                 → {Eq|Ne|Lt|Le|Gt|Ge, a, b}   (outcome folded into the kind)
type CondAtom struct {
	Kind string
	X, Y ast.Expr
}

// Atom normalises condition e with outcome branch.
func Atom(info *types.Info, e ast.Expr, branch bool) CondAtom {
	e = ast.Unparen(e)
	// !c with outcome b is c with outcome !b (raw conditions; the interpreter strips negations itself)
	for {
		u, isNot := e.(*ast.UnaryExpr)
		if !isNot || u.Op != token.NOT {
			break
		}
		e, branch = ast.Unparen(u.X), !branch
	}
	if x, eq, ok := NilCheck(info, e); ok {
		if eq == branch {
			return CondAtom{Kind: "Nil", X: x}
		}
		return CondAtom{Kind: "NonNil", X: x}
	}
	if b, ok := e.(*ast.BinaryExpr); ok {
		op := b.Op
		if !branch {
			switch op {
			case token.EQL:
				op = token.NEQ
			case token.NEQ:
				op = token.EQL
			case token.LSS:
				op = token.GEQ
			case token.LEQ:
				op = token.GTR
			case token.GTR:
				op = token.LEQ
			case token.GEQ:
				op = token.LSS
			}
		}
		x, y := b.X, b.Y
		// canonical operand order: a constant goes to the right (400 > s is s < 400)
		if _, xc := ConstVal(info, x); xc {
			if _, yc := ConstVal(info, y); !yc {
				x, y = y, x
				switch op {
				case token.LSS:
					op = token.GTR
				case token.GTR:
					op = token.LSS
				case token.LEQ:
					op = token.GEQ
				case token.GEQ:
					op = token.LEQ
				}
			}
		}
		// len(x) against a constant
		lenArg := func(z ast.Expr) ast.Expr {
			if c, ok := ast.Unparen(z).(*ast.CallExpr); ok && Builtin(info, c) == "len" && len(c.Args) == 1 {
				return c.Args[0]
			}
			return nil
		}
		if la := lenArg(x); la != nil {
			if v, ok := ConstVal(info, y); ok {
				switch {
				case v == "0" && (op == token.EQL || op == token.LEQ), v == "1" && op == token.LSS:
					return CondAtom{Kind: "Empty", X: la}
				case v == "0" && (op == token.NEQ || op == token.GTR), v == "1" && op == token.GEQ:
					return CondAtom{Kind: "NonEmpty", X: la}
				}
			}
		}
		if la := lenArg(y); la != nil {
			if v, ok := ConstVal(info, x); ok && v == "0" {
				switch op {
				case token.EQL, token.GEQ:
					return CondAtom{Kind: "Empty", X: la}
				case token.NEQ, token.LSS:
					return CondAtom{Kind: "NonEmpty", X: la}
				}
			}
		}
		kind := map[token.Token]string{token.EQL: "Eq", token.NEQ: "Ne", token.LSS: "Lt", token.LEQ: "Le", token.GTR: "Gt", token.GEQ: "Ge"}[op]
		if kind != "" {
			return CondAtom{Kind: kind, X: x, Y: y}
		}
	}
	if branch {
		return CondAtom{Kind: "True", X: e}
	}
	return CondAtom{Kind: "False", X: e}
}

// GuardSpec names a guard and recognises the atoms that establish it.
type GuardSpec struct {
	Name  string
	Match func(info *types.Info, a CondAtom) bool
	// Sticky guards state a fact about an event ("call X succeeded") rather than about the
	// current value of a variable; they survive re-assignment of the variables in the atom.
	Sticky bool
}

// Guards is a reusable hook set: it turns matched atoms into must-facts "g:<Name>" and kills
// them when an object mentioned in the establishing atom is re-assigned.
type Guards struct {
	Info  *types.Info
	Specs []GuardSpec
	deps  map[string][]guardDep
}

type guardDep struct {
	root types.Object
	key  string
}

func NewGuards(info *types.Info, specs ...GuardSpec) *Guards {
	return &Guards{Info: info, Specs: specs, deps: map[string][]guardDep{}}
}

// Cond is to be called from Hooks.Cond.
func (g *Guards) Cond(e ast.Expr, branch bool, st *State) {
	a := Atom(g.Info, e, branch)
	for _, s := range g.Specs {
		if s.Match(g.Info, a) {
			st.Set("g:" + s.Name)
			if s.Sticky {
				continue
			}
			for _, x := range []ast.Expr{a.X, a.Y} {
				if x == nil {
					continue
				}
				// every variable mentioned in the atom is a dependency
				ast.Inspect(x, func(n ast.Node) bool {
					if id, ok := n.(*ast.Ident); ok {
						if v, ok := g.Info.Uses[id].(*types.Var); ok && !v.IsField() {
							g.deps[s.Name] = append(g.deps[s.Name], guardDep{v, ExprKey(g.Info, x)})
						}
					}
					return true
				})
			}
		}
	}
}

// Node is to be called from Hooks.Node: kills guards whose variables are written.
func (g *Guards) Node(n ast.Node, st *State) {
	for _, t := range WriteTargets(g.Info, n) {
		root := RootObj(g.Info, t)
		if root == nil {
			continue
		}
		tkey := ExprKey(g.Info, t)
		_, whole := ast.Unparen(t).(*ast.Ident)
		for name, ds := range g.deps {
			for _, d := range ds {
				if d.root != root {
					continue
				}
				if whole || strings.Contains(d.key, tkey) {
					st.Kill("g:" + name)
				}
			}
		}
	}
}

// Has reports whether guard name holds on every path to the current point.
func (g *Guards) Has(st *State, name string) bool { return st.Must("g:" + name) }

// Missing lists the guards among names that do not hold.
func (g *Guards) Missing(st *State, names ...string) []string {
	var out []string
	for _, n := range names {
		if !st.Must("g:" + n) {
			out = append(out, n)
		}
	}
	return out
}

// ---- common atom predicates -----------------------------------------------------------------

// AtomField: atom of the given kind whose X selects field pkg.typ.field.
func AtomField(kind, pkg, typ, field string) func(*types.Info, CondAtom) bool {
	return func(info *types.Info, a CondAtom) bool {
		return a.Kind == kind && IsFieldSel(info, a.X, pkg, typ, field)
	}
}

// AtomCall: atom True/False whose X is a call of pkg.name.
func AtomCall(kind, pkg, name string) func(*types.Info, CondAtom) bool {
	return func(info *types.Info, a CondAtom) bool {
		if a.Kind != kind {
			return false
		}
		c, ok := ast.Unparen(a.X).(*ast.CallExpr)
		return ok && CallIs(info, c, pkg, name)
	}
}

// AtomVarFromCall: atom of kind on a local variable that is (only) assigned from the i-th
// result of a call to pkg.name within fi.
func AtomVarFromCall(fi *FuncInfo, kind, pkg, name string, resultIdx int) func(*types.Info, CondAtom) bool {
	return func(info *types.Info, a CondAtom) bool {
		if a.Kind != kind {
			return false
		}
		id, ok := ast.Unparen(a.X).(*ast.Ident)
		if !ok {
			return false
		}
		return VarFromCall(fi, info.Uses[id], id.Pos(), pkg, name, resultIdx)
	}
}

// VarFromCall: the nearest assignment to obj before pos (in source order) takes the
// resultIdx-th result of a call of pkg.name.
func VarFromCall(fi *FuncInfo, obj types.Object, pos token.Pos, pkg, name string, resultIdx int) bool {
	if obj == nil {
		return false
	}
	info := fi.Info()
	var last ast.Expr
	var lastIdx int
	ast.Inspect(fi.Decl.Body, func(n ast.Node) bool {
		as, ok := n.(*ast.AssignStmt)
		if !ok || as.Pos() >= pos {
			return true
		}
		for i, l := range as.Lhs {
			id, ok := l.(*ast.Ident)
			if !ok {
				continue
			}
			o := info.Defs[id]
			if o == nil {
				o = info.Uses[id]
			}
			if o != obj {
				continue
			}
			if len(as.Rhs) == 1 && len(as.Lhs) > 1 {
				last, lastIdx = as.Rhs[0], i
			} else if i < len(as.Rhs) {
				last, lastIdx = as.Rhs[i], 0
			}
		}
		return true
	})
	if last == nil {
		return false
	}
	c, ok := ast.Unparen(last).(*ast.CallExpr)
	return ok && CallIs(info, c, pkg, name) && lastIdx == resultIdx
}

// NNF pushes the outcome through !, && and || and returns the condition "e has outcome branch" in
// negation normal form: op is "atom" (one leaf), "and" or "or" (all leaves joined by that one
// connective, nested same-connective groups flattened) or "mixed" (both connectives occur; the
// leaves are still returned, but their combination is not described). It makes a rule independent
// of how a compound guard is spelled: a && b false, !a || !b true and !(a && b) true all yield
// ("or", [¬a, ¬b]).
func NNF(info *types.Info, e ast.Expr, branch bool) (op string, leaves []CondAtom) {
	var walk func(e ast.Expr, branch bool) (string, []CondAtom)
	walk = func(e ast.Expr, branch bool) (string, []CondAtom) {
		e = ast.Unparen(e)
		if u, ok := e.(*ast.UnaryExpr); ok && u.Op == token.NOT {
			return walk(u.X, !branch)
		}
		if b, ok := e.(*ast.BinaryExpr); ok && (b.Op == token.LAND || b.Op == token.LOR) {
			mine := "and"
			if (b.Op == token.LAND) != branch {
				mine = "or"
			}
			var out []CondAtom
			for _, side := range []ast.Expr{b.X, b.Y} {
				o, ls := walk(side, branch)
				if o != "atom" && o != mine {
					mine = "mixed"
				}
				out = append(out, ls...)
			}
			return mine, out
		}
		return "atom", []CondAtom{Atom(info, e, branch)}
	}
	return walk(e, branch)
}

// AtomNNF is NNF applied to an atom delivered by the interpreter (whose X may still be a compound).
func AtomNNF(info *types.Info, a CondAtom) (string, []CondAtom) {
	switch a.Kind {
	case "True":
		return NNF(info, a.X, true)
	case "False":
		return NNF(info, a.X, false)
	}
	return "atom", []CondAtom{a}
}
