package fw

import (
	"go/ast"
	"go/token"
	"go/types"
	"sort"
	"strings"
)

// WiringIssue is one astvisitor callback implemented by a visitor type that is handed to a walker
// somewhere in the package, with whether that callback is registered anywhere in the package.
type WiringIssue struct {
	Type       string
	Method     string
	Pos        token.Pos
	Registered bool
	EmptyBody  bool
}

// VisitorWiring lists, for every concrete type passed to an astvisitor walker registration in the
// package, every method it declares whose name and signature match a method of a callback
// interface of package astvisitor, and whether that callback is among the ones registered for the
// type (composite registrations are expanded through the parameter interface's method set).
func VisitorWiring(p *Prog, pkgAlias string) []WiringIssue {
	pk := p.Pkg(pkgAlias)
	if pk == nil {
		return nil
	}
	var av *types.Package
	for _, imp := range pk.Types.Imports() {
		if imp.Path() == PkgPath("astvisitor") {
			av = imp
		}
	}
	if av == nil {
		return nil
	}
	// callback universe: name -> signature string, from every interface of astvisitor whose name ends in "Visitor"
	universe := map[string]string{}
	sc := av.Scope()
	for _, name := range sc.Names() {
		tn, ok := sc.Lookup(name).(*types.TypeName)
		if !ok || !strings.HasSuffix(name, "Visitor") {
			continue
		}
		it, ok := tn.Type().Underlying().(*types.Interface)
		if !ok {
			continue
		}
		for i := 0; i < it.NumMethods(); i++ {
			m := it.Method(i)
			universe[m.Name()] = sigString(m.Type().(*types.Signature))
		}
	}
	registered := map[*types.Named]map[string]bool{}
	info := pk.TypesInfo
	for _, fi := range p.Funcs(pkgAlias) {
		WalkAll(fi.Decl.Body, func(n ast.Node) bool {
			c, ok := n.(*ast.CallExpr)
			if !ok || len(c.Args) != 1 {
				return true
			}
			fn := Callee(info, c)
			if fn == nil || fn.Pkg() != av {
				return true
			}
			rn := ""
			if rt := fn.Type().(*types.Signature).Recv(); rt != nil {
				rn = RecvName(rt.Type())
			}
			if !(rn == "Walker" && strings.HasPrefix(fn.Name(), "Register")) && !(rn == "SimpleWalker" && fn.Name() == "SetVisitor") {
				return true
			}
			it, ok := fn.Type().(*types.Signature).Params().At(0).Type().Underlying().(*types.Interface)
			if !ok {
				return true
			}
			at := info.TypeOf(c.Args[0])
			named, _ := types.Unalias(deref(at)).(*types.Named)
			if named == nil || named.Obj().Pkg() != pk.Types {
				return true
			}
			if registered[named] == nil {
				registered[named] = map[string]bool{}
			}
			for i := 0; i < it.NumMethods(); i++ {
				registered[named][it.Method(i).Name()] = true
			}
			return true
		})
	}
	var out []WiringIssue
	for named, reg := range registered {
		for i := 0; i < named.NumMethods(); i++ {
			m := named.Method(i)
			want, isCallback := universe[m.Name()]
			if !isCallback || sigString(m.Type().(*types.Signature)) != want {
				continue
			}
			wi := WiringIssue{Type: named.Obj().Name(), Method: m.Name(), Pos: m.Pos(), Registered: reg[m.Name()]}
			if fi := p.FuncOf(m); fi != nil {
				wi.EmptyBody = len(fi.Decl.Body.List) == 0
			}
			out = append(out, wi)
		}
	}
	sort.Slice(out, func(i, j int) bool {
		if out[i].Type != out[j].Type {
			return out[i].Type < out[j].Type
		}
		return out[i].Method < out[j].Method
	})
	return out
}

func sigString(s *types.Signature) string {
	return types.TypeString(types.NewSignatureType(nil, nil, nil, s.Params(), s.Results(), s.Variadic()), func(p *types.Package) string { return p.Path() })
}
