package fw

import (
	"encoding/json"
	"fmt"
	"os"
	"path/filepath"
	"sort"
	"strconv"
	"strings"
	"time"
)

// Obligation is one decided instance of a rule: a construct (function, call site, switch,
// struct field …) together with the verdict and, for failures, the witness.
type Obligation struct {
	Rule       string `json:"rule"`
	Key        string `json:"key"` // rule+construct key, stable under unrelated edits (no line numbers)
	Pos        string `json:"pos"` // file:line, for the human
	What       string `json:"what"`
	OK         bool   `json:"ok"`
	Detail     string `json:"detail,omitempty"`
	Nontrivial bool   `json:"nontrivial"`
	Known      bool   `json:"known_finding,omitempty"`
}

// Run collects what one check of one property did.
type Run struct {
	Prop, Tier string
	Prog       *Prog
	Obls       []Obligation
	Notes      []string
	Errors     []string
	RuleDocs   map[string]string // rule id -> one-line statement
	ruleOrder  []string
	Sites      map[string][2]int // rule/role -> found, expected
	Assume     []string
	Extra      map[string]any
	start      time.Time
	seen       map[string]int
}

func NewRun(prop, tier string) *Run {
	return &Run{Prop: prop, Tier: tier, RuleDocs: map[string]string{}, Sites: map[string][2]int{}, Extra: map[string]any{}, start: time.Now(), seen: map[string]int{}}
}

// Rule declares a rule (id + statement) before its obligations are emitted.
func (r *Run) Rule(id, doc string) {
	if _, ok := r.RuleDocs[id]; !ok {
		r.ruleOrder = append(r.ruleOrder, id)
	}
	r.RuleDocs[id] = doc
}

func (r *Run) add(o Obligation) {
	// the same construct visited again (deferred call replayed at several exits, literal
	// inlined twice): one obligation, verdicts and-ed
	for i := range r.Obls {
		e := &r.Obls[i]
		if e.Rule == o.Rule && e.Pos == o.Pos && e.What == o.What && stripOrd(e.Key) == o.Key {
			if !o.OK && e.OK {
				e.OK, e.Detail, e.Nontrivial = false, o.Detail, true
			}
			return
		}
	}
	// keys are unique per run: equal constructs get an ordinal suffix in source order
	base := o.Rule + "|" + o.Key
	r.seen[base]++
	if n := r.seen[base]; n > 1 {
		o.Key = o.Key + "#" + strconv.Itoa(n)
	}
	r.Obls = append(r.Obls, o)
}

func stripOrd(k string) string {
	if i := strings.LastIndexByte(k, '#'); i > 0 {
		if _, err := strconv.Atoi(k[i+1:]); err == nil {
			return k[:i]
		}
	}
	return k
}

// Pass records a discharged obligation.
func (r *Run) Pass(rule, key, pos, what string, nontrivial bool) {
	r.add(Obligation{Rule: rule, Key: key, Pos: pos, What: what, OK: true, Nontrivial: nontrivial})
}

// Fail records a failed obligation.
func (r *Run) Fail(rule, key, pos, what, detail string) {
	r.add(Obligation{Rule: rule, Key: key, Pos: pos, What: what, OK: false, Detail: detail, Nontrivial: true})
}

// Check is Pass or Fail depending on ok.
func (r *Run) Check(ok bool, rule, key, pos, what, detail string) {
	if ok {
		r.Pass(rule, key, pos, what, true)
	} else {
		r.Fail(rule, key, pos, what, detail)
	}
}

func (r *Run) Note(format string, a ...any) { r.Notes = append(r.Notes, fmt.Sprintf(format, a...)) }

// Error records an undecidable situation (CHECK-ERROR, exit 2).
func (r *Run) Error(format string, a ...any) {
	r.Errors = append(r.Errors, fmt.Sprintf(format, a...))
}

// Expect is the vacuity guard: a role of a rule that matches zero sites cannot be decided;
// fewer sites than confirmed by hand is a NOTE (removing a site is not by itself a violation).
func (r *Run) Expect(rule, role string, found, expected int) {
	r.Sites[rule+"/"+role] = [2]int{found, expected}
	if found == 0 {
		r.Error("%s: role %q matched zero sites (expected %d) — anchor renamed or removed; rule cannot be decided", rule, role, expected)
	} else if found < expected {
		r.Note("%s: role %q matched %d sites, %d were confirmed by hand on the pinned tree", rule, role, found, expected)
	}
}

// ---- known findings ---------------------------------------------------------------------

type KnownFinding struct {
	Property string `json:"property"`
	Rule     string `json:"rule"`
	Key      string `json:"key"`
	What     string `json:"what"`
	Status   string `json:"status"` // "known" | "fixed: property=<id> <commit> <what failed>"
}

func VerifRoot() string {
	if r := os.Getenv("VERIF_ROOT"); r != "" {
		return r
	}
	return "/verif"
}

func loadKnown() ([]KnownFinding, error) {
	b, err := os.ReadFile(filepath.Join(VerifRoot(), "known_findings.json"))
	if err != nil {
		if os.IsNotExist(err) {
			return nil, nil
		}
		return nil, err
	}
	var f struct {
		Findings []KnownFinding `json:"findings"`
	}
	if err := json.Unmarshal(b, &f); err != nil {
		return nil, err
	}
	return f.Findings, nil
}

// ---- finishing --------------------------------------------------------------------------

type evidence struct {
	PropertyID  string         `json:"property_id"`
	Tier        string         `json:"tier"`
	Seed        int            `json:"seed"`
	Level       string         `json:"level"`
	Coverage    map[string]any `json:"coverage"`
	Assumptions []string       `json:"assumptions"`
	WallS       float64        `json:"wall_s"`
	Violations  int            `json:"violations"`
}

var commonAssumptions = []string{
	"structural necessary conditions only: the rules decide the shape of the code on every path, not the values computed at run time",
	"go/types-resolved callees and fields; reflection, unsafe and cgo are not modelled; abstract locks are per (struct type, field), not per instance",
	"panics are not control-flow edges; closures handed to callees outside the frozen synchronous list are analysed with an empty entry state",
	"_test.go files are type-checked but never matched by a rule",
}

// Finish prints the report, writes evidence and replay files, and returns the exit code.
func (r *Run) Finish(explanation string) int {
	known, kerr := loadKnown()
	if kerr != nil {
		r.Error("known_findings.json unreadable: %v", kerr)
	}
	sort.SliceStable(r.Obls, func(i, j int) bool {
		if r.Obls[i].Rule != r.Obls[j].Rule {
			return ruleLess(r.Obls[i].Rule, r.Obls[j].Rule)
		}
		return false
	})
	var viol []Obligation
	usedKnown := map[int]bool{}
	for i := range r.Obls {
		o := &r.Obls[i]
		if o.OK {
			continue
		}
		matched := false
		for ki, k := range known {
			if k.Status == "known" && k.Property == r.Prop && k.Rule == o.Rule && k.Key == o.Key {
				matched = true
				usedKnown[ki] = true
				o.Known = true
				fmt.Printf("KNOWN-FINDING: property=%s %s %s — %s\n", r.Prop, o.Rule, o.Key, k.What)
			}
		}
		if !matched {
			viol = append(viol, *o)
		}
	}
	for ki, k := range known {
		if k.Status == "known" && k.Property == r.Prop && !usedKnown[ki] {
			r.Note("known finding %s %s no longer reproduces (stale entry)", k.Rule, k.Key)
		}
	}
	// per-rule summary
	type rs struct{ n, ok, nt int }
	per := map[string]*rs{}
	distinct := map[string]bool{}
	for _, o := range r.Obls {
		s := per[o.Rule]
		if s == nil {
			s = &rs{}
			per[o.Rule] = s
		}
		s.n++
		if o.OK {
			s.ok++
		}
		if o.Nontrivial {
			s.nt++
			distinct[o.Rule+"|"+o.Key] = true
		}
	}
	fmt.Printf("== %s (%s) — %d obligations over %d packages / %d functions\n", r.Prop, r.Tier, len(r.Obls), len(r.Prog.pkgsSafe()), r.Prog.nfuncsSafe())
	var ruleSummaries []map[string]any
	for _, id := range r.ruleOrder {
		s := per[id]
		if s == nil {
			s = &rs{}
		}
		fmt.Printf("   %-8s %3d/%-3d  %s\n", id, s.ok, s.n, r.RuleDocs[id])
		ruleSummaries = append(ruleSummaries, map[string]any{"rule": id, "statement": r.RuleDocs[id], "obligations": s.n, "discharged": s.ok})
		if s.n == 0 {
			r.Error("%s emitted no obligation at all (vacuous)", id)
		}
	}
	for _, o := range r.Obls {
		if !o.OK {
			tag := "FAIL"
			if o.Known {
				tag = "KNOWN"
			}
			fmt.Printf("   %s %s %s [%s] %s — %s\n", tag, o.Pos, o.Rule, o.Key, o.What, o.Detail)
		}
	}
	if os.Getenv("VERIF_VERBOSE") != "" {
		for _, o := range r.Obls {
			if o.OK {
				fmt.Printf("   ok   %s %s [%s] %s\n", o.Pos, o.Rule, o.Key, o.What)
			}
		}
	}
	for _, n := range r.Notes {
		fmt.Printf("   NOTE %s\n", n)
	}
	// samples: up to 3 per rule, failures first
	var samples []Obligation
	cnt := map[string]int{}
	for _, o := range r.Obls {
		if !o.OK {
			samples = append(samples, o)
		}
	}
	for _, o := range r.Obls {
		if o.OK && cnt[o.Rule] < 3 {
			cnt[o.Rule]++
			samples = append(samples, o)
		}
	}
	discharged := 0
	for _, o := range r.Obls {
		if o.OK {
			discharged++
		}
	}
	sites := map[string]any{}
	for k, v := range r.Sites {
		sites[k] = map[string]int{"sites_found": v[0], "sites_expected": v[1]}
	}
	cov := map[string]any{
		"explanation":         explanation,
		"evaluations":         len(r.Obls),
		"distinct_nontrivial": len(distinct),
		"rule":                "one evaluation = one obligation (rule instance at a type-resolved construct: call site, exit path, switch, field, registration); non-trivial = the construct has more than one path/exit/guard or more than one candidate to compare, counted as distinct (rule,construct) keys",
		"samples":             samples,
		"obligations":         len(r.Obls),
		"discharged":          discharged,
		"rules":               ruleSummaries,
		"sites":               sites,
		"packages_analysed":   r.Prog.pkgNames(),
		"functions_analysed":  r.Prog.nfuncsSafe(),
		"files_analysed":      r.Prog.nfilesSafe(),
		"notes":               r.Notes,
		"check_errors":        r.Errors,
		"exhaustive":          false,
	}
	for k, v := range r.Extra {
		cov[k] = v
	}
	seed, _ := strconv.Atoi(os.Getenv("VERIF_SEED"))
	ev := evidence{PropertyID: r.Prop, Tier: r.Tier, Seed: seed, Level: "other", Coverage: cov,
		Assumptions: append(append([]string{}, commonAssumptions...), r.Assume...),
		WallS:       time.Since(r.start).Seconds(), Violations: len(viol)}
	evdir := filepath.Join(VerifRoot(), "evidence")
	_ = os.MkdirAll(evdir, 0o755)
	if b, err := json.MarshalIndent(ev, "", " "); err == nil {
		if err := os.WriteFile(filepath.Join(evdir, r.Prop+".json"), append(b, '\n'), 0o644); err != nil {
			r.Error("cannot write evidence: %v", err)
		}
	}
	code := 0
	if len(viol) > 0 {
		outdir := filepath.Join(VerifRoot(), "out")
		_ = os.MkdirAll(outdir, 0o755)
		path := filepath.Join(outdir, r.Prop+"-violations.json")
		rep := map[string]any{"property": r.Prop, "tier": r.Tier, "violations": viol,
			"rerun": fmt.Sprintf("./run.sh %s %s", r.Prop, r.Tier)}
		b, _ := json.MarshalIndent(rep, "", " ")
		_ = os.WriteFile(path, append(b, '\n'), 0o644)
		fmt.Printf("VIOLATION property=%s replay=%s\n", r.Prop, path)
		code = 1
	}
	for _, e := range r.Errors {
		fmt.Printf("CHECK-ERROR property=%s %s\n", r.Prop, e)
	}
	if code == 0 && len(r.Errors) > 0 {
		code = 2
	}
	if code == 0 {
		fmt.Printf("OK property=%s tier=%s obligations=%d discharged=%d wall=%.1fs\n", r.Prop, r.Tier, len(r.Obls), discharged, time.Since(r.start).Seconds())
	}
	return code
}

func ruleLess(a, b string) bool {
	na, nb := ruleNum(a), ruleNum(b)
	if na != nb {
		return na < nb
	}
	return a < b
}

func ruleNum(s string) int {
	i := strings.LastIndex(s, "-R")
	if i < 0 {
		return 0
	}
	n := 0
	for _, c := range s[i+2:] {
		if c < '0' || c > '9' {
			break
		}
		n = n*10 + int(c-'0')
	}
	return n
}

func (p *Prog) pkgsSafe() []string {
	if p == nil {
		return nil
	}
	return p.pkgNames()
}
func (p *Prog) nfuncsSafe() int {
	if p == nil {
		return 0
	}
	return p.NFuncs
}
func (p *Prog) nfilesSafe() int {
	if p == nil {
		return 0
	}
	return p.NFiles
}
func (p *Prog) pkgNames() []string {
	if p == nil {
		return nil
	}
	var out []string
	for k := range p.Pkgs {
		out = append(out, strings.TrimPrefix(k, "github.com/wundergraph/graphql-go-tools/"))
	}
	sort.Strings(out)
	return out
}
