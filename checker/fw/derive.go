package fw

import (
	"go/ast"
	"go/token"
	"go/types"
)

// Deriver is a flow-insensitive, intra-procedural "value may derive from" relation over the
// local variables of one function (used for key-completeness and context-provenance rules).
//
//	x = e / x := e / var x = e       x derives from everything e mentions
//	x op= e, x++                      likewise
//	f(a, b[:], &c, p)                 every argument passed by reference (slice, pointer, map,
//	                                  address-of, slice expression) derives from all other arguments
//	                                  and from the receiver
//	recv.M(args)                      recv (when a pointer/reference-like local) derives from args
//	for k, v := range e               k, v derive from e
//
// Sources are recognised by a caller-supplied predicate on expressions.
type Deriver struct {
	fi   *FuncInfo
	info *types.Info
	defs map[types.Object][]ast.Expr // expressions an object may derive from
	// ElementOpaque: x[<constant>] is treated as an atom — deriving from one fixed element of a
	// collection does not count as deriving from the collection.
	ElementOpaque bool
	// Barrier: sub-expressions for which it returns true are not descended into (sanitiser calls
	// in taint rules).
	Barrier func(ast.Expr) bool
}

// NewPureDeriver follows assignments only (no mutation through call arguments or receivers):
// use it where "derives" must mean "is computed from", e.g. value-identity rules.
func NewPureDeriver(fi *FuncInfo) *Deriver { return newDeriver(fi, false) }

func NewDeriver(fi *FuncInfo) *Deriver { return newDeriver(fi, true) }

func newDeriver(fi *FuncInfo, callEffects bool) *Deriver {
	d := &Deriver{fi: fi, info: fi.Info(), defs: map[types.Object][]ast.Expr{}}
	ast.Inspect(fi.Decl.Body, func(n ast.Node) bool {
		switch x := n.(type) {
		case *ast.AssignStmt:
			if len(x.Lhs) == len(x.Rhs) {
				for i, l := range x.Lhs {
					d.bind(l, x.Rhs[i])
				}
			} else if len(x.Rhs) == 1 {
				for _, l := range x.Lhs {
					d.bind(l, x.Rhs[0])
				}
			}
		case *ast.ValueSpec:
			for i, id := range x.Names {
				if len(x.Values) == len(x.Names) {
					d.bindObj(d.info.Defs[id], x.Values[i])
				} else if len(x.Values) == 1 {
					d.bindObj(d.info.Defs[id], x.Values[0])
				}
			}
		case *ast.RangeStmt:
			if x.Key != nil {
				d.bind(x.Key, x.X)
			}
			if x.Value != nil {
				d.bind(x.Value, x.X)
			}
		case *ast.CallExpr:
			if callEffects {
				d.callEffects(x)
			}
		}
		return true
	})
	return d
}

func (d *Deriver) bind(lhs ast.Expr, rhs ast.Expr) {
	d.bindObj(RootObj(d.info, lhs), rhs)
}

func (d *Deriver) bindObj(o types.Object, rhs ast.Expr) {
	if o == nil {
		return
	}
	if _, isVar := o.(*types.Var); !isVar {
		return
	}
	d.defs[o] = append(d.defs[o], rhs)
}

func refLike(t types.Type) bool {
	if t == nil {
		return false
	}
	switch t.Underlying().(type) {
	case *types.Pointer, *types.Slice, *types.Map, *types.Interface, *types.Chan:
		return true
	}
	return false
}

func (d *Deriver) callEffects(c *ast.CallExpr) {
	if b := Builtin(d.info, c); b != "" {
		if b == "copy" && len(c.Args) == 2 {
			d.bind(c.Args[0], c.Args[1])
		}
		return
	}
	var operands []ast.Expr
	if sel, ok := ast.Unparen(c.Fun).(*ast.SelectorExpr); ok {
		if s := d.info.Selections[sel]; s != nil && (s.Kind() == types.MethodVal) {
			operands = append(operands, sel.X)
		}
	}
	operands = append(operands, c.Args...)
	for i, a := range operands {
		byRef := false
		switch x := ast.Unparen(a).(type) {
		case *ast.UnaryExpr:
			byRef = x.Op == token.AND
		case *ast.SliceExpr:
			byRef = true
		default:
			byRef = refLike(d.info.TypeOf(a))
			if i == 0 && len(operands) > len(c.Args) { // receiver: methods with pointer receiver mutate addressable values too
				byRef = true
			}
		}
		if !byRef {
			continue
		}
		o := RootObj(d.info, a)
		if o == nil {
			continue
		}
		for j, other := range operands {
			if j != i {
				d.bindObj(o, other)
			}
		}
	}
}

// Derives reports whether e may derive from an expression satisfying src.
func (d *Deriver) Derives(e ast.Expr, src func(ast.Expr) bool) bool {
	return d.derives(e, src, map[types.Object]bool{})
}

func (d *Deriver) derives(e ast.Expr, src func(ast.Expr) bool, seen map[types.Object]bool) bool {
	found := false
	ast.Inspect(e, func(n ast.Node) bool {
		if found || n == nil {
			return false
		}
		x, ok := n.(ast.Expr)
		if !ok {
			return true
		}
		if d.Barrier != nil && d.Barrier(x) {
			return false
		}
		if src(x) {
			found = true
			return false
		}
		if d.ElementOpaque {
			if ix, ok := x.(*ast.IndexExpr); ok {
				if _, isConst := ConstVal(d.info, ix.Index); isConst {
					return false
				}
			}
		}
		if id, ok := x.(*ast.Ident); ok {
			o := d.info.Uses[id]
			if o == nil {
				o = d.info.Defs[id]
			}
			if o != nil && !seen[o] {
				seen[o] = true
				for _, r := range d.defs[o] {
					if d.derives(r, src, seen) {
						found = true
						return false
					}
				}
			}
		}
		return true
	})
	return found
}

// IsParam returns a predicate matching uses of the named parameter of the deriver's function.
func (d *Deriver) IsParam(name string) func(ast.Expr) bool {
	var obj types.Object
	sig := d.fi.Obj.Type().(*types.Signature)
	for i := 0; i < sig.Params().Len(); i++ {
		if sig.Params().At(i).Name() == name {
			obj = sig.Params().At(i)
		}
	}
	return func(e ast.Expr) bool {
		id, ok := e.(*ast.Ident)
		return ok && obj != nil && d.info.Uses[id] == obj
	}
}

// ParamAt matches uses of the i-th parameter (by position, robust against renames).
func (d *Deriver) ParamAt(i int) func(ast.Expr) bool {
	sig := d.fi.Obj.Type().(*types.Signature)
	var obj types.Object
	if i < sig.Params().Len() {
		obj = sig.Params().At(i)
	}
	return func(e ast.Expr) bool {
		id, ok := e.(*ast.Ident)
		return ok && obj != nil && d.info.Uses[id] == obj
	}
}

// IsCallTo matches call expressions whose callee is pkg.name.
func (d *Deriver) IsCallTo(pkg, name string) func(ast.Expr) bool {
	return func(e ast.Expr) bool {
		c, ok := e.(*ast.CallExpr)
		return ok && CallIs(d.info, c, pkg, name)
	}
}

// IsField matches selections of field pkg.typ.field.
func (d *Deriver) IsField(pkg, typ, field string) func(ast.Expr) bool {
	return func(e ast.Expr) bool { return IsFieldSel(d.info, e, pkg, typ, field) }
}
