package fw

import (
	"go/ast"
	"go/token"
	"go/types"
	"strings"

	"golang.org/x/tools/go/types/typeutil"
)

// Callee resolves the called function or method (static or interface method), nil for
// builtins, conversions and calls of function values.
func Callee(info *types.Info, call *ast.CallExpr) *types.Func {
	fn, _ := typeutil.Callee(info, call).(*types.Func)
	if fn != nil {
		return fn.Origin()
	}
	return nil
}

// Builtin returns the name of the builtin called, or "".
func Builtin(info *types.Info, call *ast.CallExpr) string {
	id, ok := ast.Unparen(call.Fun).(*ast.Ident)
	if !ok {
		return ""
	}
	if b, ok := info.Uses[id].(*types.Builtin); ok {
		return b.Name()
	}
	return ""
}

// FuncIs reports whether fn is pkg.(Recv.)Name; pkg is an alias or import path; name "Recv.Method" or "Func".
// Recv "*" matches any receiver.
func FuncIs(fn *types.Func, pkg, name string) bool {
	if fn == nil || fn.Pkg() == nil {
		return false
	}
	if fn.Pkg().Path() != PkgPath(pkg) {
		return false
	}
	if strings.HasPrefix(name, "*.") {
		return fn.Name() == name[2:]
	}
	return FuncName(fn) == name
}

// CallIs reports whether call's resolved callee is pkg.name.
func CallIs(info *types.Info, call *ast.CallExpr, pkg, name string) bool {
	return FuncIs(Callee(info, call), pkg, name)
}

// CallIsAny matches a list of "pkg:Name" references.
func CallIsAny(info *types.Info, call *ast.CallExpr, refs ...string) bool {
	fn := Callee(info, call)
	for _, r := range refs {
		i := strings.IndexByte(r, ':')
		if FuncIs(fn, r[:i], r[i+1:]) {
			return true
		}
	}
	return false
}

// Field resolves a selector expression to the struct field it denotes (nil if it is not a field).
func Field(info *types.Info, e ast.Expr) (*types.Var, *ast.SelectorExpr) {
	sel, ok := ast.Unparen(e).(*ast.SelectorExpr)
	if !ok {
		return nil, nil
	}
	s := info.Selections[sel]
	if s == nil || s.Kind() != types.FieldVal {
		return nil, nil
	}
	v, _ := s.Obj().(*types.Var)
	return v, sel
}

// FieldOwner returns the bare name of the named struct type that declares the selected field
// (following embedded fields), and its package path.
func FieldOwner(info *types.Info, sel *ast.SelectorExpr) (pkg, typ string) {
	s := info.Selections[sel]
	if s == nil {
		return "", ""
	}
	t := s.Recv()
	idx := s.Index()
	for i, ix := range idx {
		t = deref(t)
		named, _ := types.Unalias(t).(*types.Named)
		st, _ := t.Underlying().(*types.Struct)
		if st == nil {
			return "", ""
		}
		if i == len(idx)-1 {
			if named != nil && named.Obj().Pkg() != nil {
				return named.Obj().Pkg().Path(), named.Obj().Name()
			}
			return "", ""
		}
		t = st.Field(ix).Type()
	}
	return "", ""
}

func deref(t types.Type) types.Type {
	if p, ok := types.Unalias(t).Underlying().(*types.Pointer); ok {
		return p.Elem()
	}
	return t
}

// IsFieldSel reports whether e selects field `field` of named struct pkg.typ.
func IsFieldSel(info *types.Info, e ast.Expr, pkg, typ, field string) bool {
	v, sel := Field(info, e)
	if v == nil || v.Name() != field {
		return false
	}
	p, t := FieldOwner(info, sel)
	return p == PkgPath(pkg) && t == typ
}

// TypeIs reports whether t (after pointer deref) is the named type pkg.name.
func TypeIs(t types.Type, pkg, name string) bool {
	if t == nil {
		return false
	}
	n, _ := types.Unalias(deref(t)).(*types.Named)
	if n == nil || n.Obj().Pkg() == nil {
		return false
	}
	return n.Obj().Pkg().Path() == PkgPath(pkg) && n.Obj().Name() == name
}

// ExprKey renders an expression canonically with identifiers resolved to their objects'
// names (not positions), used to compare "the same variable/field path" inside one function.
func ExprKey(info *types.Info, e ast.Expr) string {
	var sb strings.Builder
	exprKey(info, e, &sb)
	return sb.String()
}

func exprKey(info *types.Info, e ast.Expr, sb *strings.Builder) {
	switch x := e.(type) {
	case *ast.ParenExpr:
		exprKey(info, x.X, sb)
	case *ast.Ident:
		sb.WriteString(x.Name)
	case *ast.SelectorExpr:
		exprKey(info, x.X, sb)
		sb.WriteByte('.')
		sb.WriteString(x.Sel.Name)
	case *ast.StarExpr:
		sb.WriteByte('*')
		exprKey(info, x.X, sb)
	case *ast.UnaryExpr:
		sb.WriteString(x.Op.String())
		exprKey(info, x.X, sb)
	case *ast.IndexExpr:
		exprKey(info, x.X, sb)
		sb.WriteByte('[')
		exprKey(info, x.Index, sb)
		sb.WriteByte(']')
	case *ast.CallExpr:
		exprKey(info, x.Fun, sb)
		sb.WriteByte('(')
		for i, a := range x.Args {
			if i > 0 {
				sb.WriteByte(',')
			}
			exprKey(info, a, sb)
		}
		sb.WriteByte(')')
	case *ast.BasicLit:
		sb.WriteString(x.Value)
	case *ast.BinaryExpr:
		exprKey(info, x.X, sb)
		sb.WriteString(x.Op.String())
		exprKey(info, x.Y, sb)
	default:
		sb.WriteString(types.ExprString(e))
	}
}

// RootObj returns the object of the left-most identifier of a selector/index/deref chain.
func RootObj(info *types.Info, e ast.Expr) types.Object {
	for {
		switch x := e.(type) {
		case *ast.ParenExpr:
			e = x.X
		case *ast.SelectorExpr:
			// package-qualified identifier?
			if id, ok := x.X.(*ast.Ident); ok {
				if _, isPkg := info.Uses[id].(*types.PkgName); isPkg {
					return info.Uses[x.Sel]
				}
			}
			e = x.X
		case *ast.IndexExpr:
			e = x.X
		case *ast.StarExpr:
			e = x.X
		case *ast.UnaryExpr:
			e = x.X
		case *ast.SliceExpr:
			e = x.X
		case *ast.TypeAssertExpr:
			e = x.X
		case *ast.Ident:
			if o := info.Uses[x]; o != nil {
				return o
			}
			return info.Defs[x]
		default:
			return nil
		}
	}
}

// NilCheck decomposes `x == nil` / `x != nil`; eq reports the operator.
func NilCheck(info *types.Info, e ast.Expr) (operand ast.Expr, eq bool, ok bool) {
	// !(x == nil) is x != nil
	if u, isNot := ast.Unparen(e).(*ast.UnaryExpr); isNot && u.Op == token.NOT {
		x, eq2, ok2 := NilCheck(info, u.X)
		return x, !eq2, ok2
	}
	b, isb := ast.Unparen(e).(*ast.BinaryExpr)
	if !isb || (b.Op != token.EQL && b.Op != token.NEQ) {
		return nil, false, false
	}
	isNil := func(x ast.Expr) bool {
		id, ok := ast.Unparen(x).(*ast.Ident)
		if !ok {
			return false
		}
		_, isn := info.Uses[id].(*types.Nil)
		return isn
	}
	switch {
	case isNil(b.Y):
		return b.X, b.Op == token.EQL, true
	case isNil(b.X):
		return b.Y, b.Op == token.EQL, true
	}
	return nil, false, false
}

// ConstVal returns the constant value string of an expression if it is a typed or untyped constant.
func ConstVal(info *types.Info, e ast.Expr) (string, bool) {
	tv, ok := info.Types[e]
	if !ok || tv.Value == nil {
		return "", false
	}
	return tv.Value.ExactString(), true
}

// ConstObj returns the *types.Const an expression names (identifier or pkg.Identifier).
func ConstObj(info *types.Info, e ast.Expr) *types.Const {
	switch x := ast.Unparen(e).(type) {
	case *ast.Ident:
		c, _ := info.Uses[x].(*types.Const)
		return c
	case *ast.SelectorExpr:
		c, _ := info.Uses[x.Sel].(*types.Const)
		return c
	}
	return nil
}

// WalkCalls visits every call expression below n, in post-order (arguments before the call),
// without entering function literals.
func WalkCalls(n ast.Node, f func(*ast.CallExpr)) {
	WalkNoLit(n, func(m ast.Node) {
		if c, ok := m.(*ast.CallExpr); ok {
			f(c)
		}
	})
}

// WalkNoLit visits nodes below n in post-order, skipping the bodies of function literals.
func WalkNoLit(n ast.Node, f func(ast.Node)) {
	if n == nil {
		return
	}
	var stack []ast.Node
	ast.Inspect(n, func(m ast.Node) bool {
		if m == nil {
			top := stack[len(stack)-1]
			stack = stack[:len(stack)-1]
			f(top)
			return true
		}
		if _, isLit := m.(*ast.FuncLit); isLit && m != n {
			f(m)
			return false
		}
		stack = append(stack, m)
		return true
	})
}

// WalkAll visits nodes below n in pre-order including function literal bodies.
func WalkAll(n ast.Node, f func(ast.Node) bool) {
	if n == nil {
		return
	}
	ast.Inspect(n, func(m ast.Node) bool {
		if m == nil {
			return true
		}
		return f(m)
	})
}

// EnclosingFuncs maps every node inside fi (including literals) to a path label like
// "Resolver.handleTriggerUpdate$1" — used for keys of sites inside closures.
func LitLabel(fi *FuncInfo, lit *ast.FuncLit) string {
	n := 0
	label := ""
	ast.Inspect(fi.Decl.Body, func(m ast.Node) bool {
		if l, ok := m.(*ast.FuncLit); ok {
			n++
			if l == lit {
				label = fi.Name() + "$" + itoa(n)
			}
		}
		return label == ""
	})
	return label
}

func itoa(n int) string {
	if n == 0 {
		return "0"
	}
	s := ""
	for n > 0 {
		s = string(rune('0'+n%10)) + s
		n /= 10
	}
	return s
}

// Implementers lists the named non-interface types of pkg whose value or pointer implements iface.
func Implementers(pkg *types.Package, iface *types.Interface) []*types.Named {
	var out []*types.Named
	sc := pkg.Scope()
	for _, name := range sc.Names() {
		tn, ok := sc.Lookup(name).(*types.TypeName)
		if !ok || tn.IsAlias() {
			continue
		}
		n, ok := tn.Type().(*types.Named)
		if !ok || types.IsInterface(n) || n.TypeParams().Len() > 0 {
			continue
		}
		if types.Implements(n, iface) || types.Implements(types.NewPointer(n), iface) {
			out = append(out, n)
		}
	}
	return out
}

// ConstsOfType lists the package-level constants of pkg whose type is exactly named type t.
func ConstsOfType(pkg *types.Package, t types.Type) []*types.Const {
	var out []*types.Const
	sc := pkg.Scope()
	for _, name := range sc.Names() {
		if c, ok := sc.Lookup(name).(*types.Const); ok && types.Identical(c.Type(), t) {
			out = append(out, c)
		}
	}
	return out
}

// EachNode visits every node of every function body of the given functions, pre-order,
// including function literals; stack is the path from the body to the node (inclusive).
func EachNode(fis []*FuncInfo, f func(fi *FuncInfo, n ast.Node, stack []ast.Node)) {
	for _, fi := range fis {
		var stack []ast.Node
		ast.Inspect(fi.Decl.Body, func(n ast.Node) bool {
			if n == nil {
				stack = stack[:len(stack)-1]
				return true
			}
			stack = append(stack, n)
			f(fi, n, stack)
			return true
		})
	}
}

// EachCall visits every call expression in the given functions.
func EachCall(fis []*FuncInfo, f func(fi *FuncInfo, call *ast.CallExpr, stack []ast.Node)) {
	EachNode(fis, func(fi *FuncInfo, n ast.Node, stack []ast.Node) {
		if c, ok := n.(*ast.CallExpr); ok {
			f(fi, c, stack)
		}
	})
}

// InnermostLit returns the innermost function literal on a node stack (nil if none).
func InnermostLit(stack []ast.Node) *ast.FuncLit {
	for i := len(stack) - 1; i >= 0; i-- {
		if l, ok := stack[i].(*ast.FuncLit); ok {
			return l
		}
	}
	return nil
}

// StackLabel is the site label (Func or Func$n) of a node stack.
func StackLabel(fi *FuncInfo, stack []ast.Node) string {
	if l := InnermostLit(stack); l != nil {
		return LitLabel(fi, l)
	}
	return fi.Name()
}

// AtomicCall recognises x.f.<Method>() where f is an atomic.* typed field `field` of pkg.typ.
func AtomicFieldCall(info *types.Info, e ast.Expr, pkg, typ, field, method string) (*ast.CallExpr, bool) {
	call, ok := ast.Unparen(e).(*ast.CallExpr)
	if !ok {
		return nil, false
	}
	sel, ok := ast.Unparen(call.Fun).(*ast.SelectorExpr)
	if !ok || sel.Sel.Name != method {
		return nil, false
	}
	fn := Callee(info, call)
	if fn == nil || fn.Pkg() == nil || fn.Pkg().Path() != "sync/atomic" {
		return nil, false
	}
	if !IsFieldSel(info, sel.X, pkg, typ, field) {
		return nil, false
	}
	return call, true
}

// ConstObjOrVar returns the name of the package-level constant or variable e denotes (literal.NULL is a variable), "" otherwise.
func ConstObjOrVar(info *types.Info, e ast.Expr) string {
	var id *ast.Ident
	switch x := ast.Unparen(e).(type) {
	case *ast.Ident:
		id = x
	case *ast.SelectorExpr:
		id = x.Sel
	}
	if id == nil {
		return ""
	}
	switch o := info.Uses[id].(type) {
	case *types.Const:
		return o.Name()
	case *types.Var:
		if o.Parent() != nil && o.Pkg() != nil && o.Parent() == o.Pkg().Scope() {
			return o.Name()
		}
	}
	return ""
}

// RecvNameOfFunc is the bare receiver type name of a method ("" for a plain function).
func RecvNameOfFunc(fn *types.Func) string {
	sig, _ := fn.Type().(*types.Signature)
	if sig == nil || sig.Recv() == nil {
		return ""
	}
	return RecvName(sig.Recv().Type())
}
