package fw

// Engine E12b "visitor wiring" and E12d "writer/reader field agreement" helpers.
//
// Visitor wiring: package astvisitor drives every schema/operation walk of the library through
// callbacks (EnterX/LeaveX). A visitor type gets a callback only if it was handed to the
// Walker.Register…Visitor method whose parameter interface contains that callback; a method that
// is implemented but never registered is dead code that looks alive — the walk silently skips it.
// Nothing here knows a callback or a registration method by name: the callback universe is the
// union of the method sets of the parameter interfaces of astvisitor's Register…Visitor methods,
// composite registrations (RegisterDocumentVisitor, RegisterAllNodesVisitor, SimpleWalker.SetVisitor …)
// are expanded through the complete (embedded) method set of their parameter interface, and
// in-package wrapper functions that forward an interface-typed parameter to a registration are
// summarised to a fixed point.

import (
	"go/ast"
	"go/token"
	"go/types"
	"reflect"
	"sort"
	"strings"

	"golang.org/x/tools/go/packages"
)

// WiringIssue is one implemented callback of one registered visitor type.
type WiringIssue struct {
	Type, Method string    // bare type name, callback name
	Pos          token.Pos // declaration of the method
	Registered   bool      // some registration call of the package hands a value of Type to an interface containing Method
}

// WiringReport is the full result of the wiring analysis of one package.
type WiringReport struct {
	// Issues lists every implemented (non-empty body) callback of every type of the package that is
	// passed to a registration call, sorted by type and method.
	Issues []WiringIssue
	// Unregistered lists the callback-shaped, non-empty methods of types of the package that are never
	// passed to any registration call of the package (Registered is false for all of them). Such a type
	// may be registered by another package; the caller decides whether that is possible.
	Unregistered []WiringIssue
	// Sites are the registration calls seen (direct astvisitor registrations and calls of forwarding wrappers).
	Sites []WiringSite
	// Unresolved are registration calls whose argument has no concrete named type (interface-typed value
	// that is not a forwarded parameter): the analysis cannot tell what is registered there.
	Unresolved []token.Pos
	// Universe is the number of callbacks of package astvisitor (0: astvisitor is not imported).
	Universe int
}

// WiringSite is one registration call.
type WiringSite struct {
	Pos       token.Pos
	Registrar string   // e.g. "Walker.RegisterDocumentVisitor"
	Type      string   // bare name of the registered type ("" if unresolved)
	Callbacks []string // callbacks the call registers (method set of the parameter interface)
}

// VisitorUniverse is the callback vocabulary of package astvisitor, computed from its declarations.
type VisitorUniverse struct {
	Pkg *types.Package
	// Callbacks maps a callback name to the interface method declaring it.
	Callbacks map[string]*types.Func
	// Registrars maps a registration method of astvisitor to the callbacks its (single) parameter registers.
	Registrars map[*types.Func][]string
}

// NewVisitorUniverse computes the callback universe from the type information of package astvisitor
// (export data suffices). Seed: the methods named Register…Visitor with exactly one parameter whose
// type is an interface declared in astvisitor; every other method of an astvisitor type that takes one
// such interface whose method set lies inside the seeded universe (SimpleWalker.SetVisitor) registers too.
func NewVisitorUniverse(av *types.Package) *VisitorUniverse {
	u := &VisitorUniverse{Pkg: av, Callbacks: map[string]*types.Func{}, Registrars: map[*types.Func][]string{}}
	if av == nil {
		return u
	}
	type cand struct {
		m     *types.Func
		iface *types.Interface
	}
	var seeds, others []cand
	sc := av.Scope()
	for _, name := range sc.Names() {
		tn, ok := sc.Lookup(name).(*types.TypeName)
		if !ok || tn.IsAlias() {
			continue
		}
		n, ok := tn.Type().(*types.Named)
		if !ok || types.IsInterface(n) {
			continue
		}
		for i := 0; i < n.NumMethods(); i++ {
			m := n.Method(i)
			sig := m.Type().(*types.Signature)
			if sig.Params().Len() != 1 || sig.Variadic() {
				continue
			}
			pn, ok := types.Unalias(sig.Params().At(0).Type()).(*types.Named)
			if !ok || pn.Obj().Pkg() != av {
				continue
			}
			it, ok := pn.Underlying().(*types.Interface)
			if !ok || it.NumMethods() == 0 {
				continue
			}
			if strings.HasPrefix(m.Name(), "Register") && strings.HasSuffix(m.Name(), "Visitor") {
				seeds = append(seeds, cand{m, it})
			} else {
				others = append(others, cand{m, it})
			}
		}
	}
	for _, c := range seeds {
		for i := 0; i < c.iface.NumMethods(); i++ {
			u.Callbacks[c.iface.Method(i).Name()] = c.iface.Method(i)
		}
	}
	names := func(it *types.Interface) []string {
		var out []string
		for i := 0; i < it.NumMethods(); i++ {
			out = append(out, it.Method(i).Name())
		}
		sort.Strings(out)
		return out
	}
	for _, c := range seeds {
		u.Registrars[c.m.Origin()] = names(c.iface)
	}
	for _, c := range others {
		inside := true
		for i := 0; i < c.iface.NumMethods(); i++ {
			if u.Callbacks[c.iface.Method(i).Name()] == nil {
				inside = false
			}
		}
		if inside {
			u.Registrars[c.m.Origin()] = names(c.iface)
		}
	}
	return u
}

// IsCallback reports whether m has the name and the signature of a callback of the universe.
func (u *VisitorUniverse) IsCallback(m *types.Func) bool {
	cb := u.Callbacks[m.Name()]
	return cb != nil && types.Identical(m.Type(), cb.Type()) // receivers are ignored by Identical
}

// wiringAstvisitorOf finds the type-checked astvisitor package as seen from pk: pk itself, or the nearest
// package of that path in pk's (transitive) import graph — a package can register visitors without
// importing astvisitor, through a *Walker field of an imported type (plan.Visitor.Walker).
func wiringAstvisitorOf(p *Prog, pk *packages.Package) *types.Package {
	path := PkgPath("astvisitor")
	seen := map[*types.Package]bool{}
	queue := []*types.Package{pk.Types}
	for len(queue) > 0 {
		cur := queue[0]
		queue = queue[1:]
		if cur == nil || seen[cur] {
			continue
		}
		seen[cur] = true
		if cur.Path() == path {
			return cur
		}
		queue = append(queue, cur.Imports()...)
	}
	return nil
}

// wiringConcreteNamed returns the named non-interface type behind t (pointers and aliases stripped,
// generic instances mapped to their origin), or nil.
func wiringConcreteNamed(t types.Type) *types.Named {
	if t == nil {
		return nil
	}
	n, _ := types.Unalias(deref(t)).(*types.Named)
	if n == nil || types.IsInterface(n) {
		return nil
	}
	return n.Origin()
}

// VisitorWiring lists every implemented callback of every visitor type that package pkgAlias passes to
// an astvisitor registration, with whether that callback is registered somewhere in the package.
// Callbacks with an empty body are exempt (registering them changes nothing) and are not listed;
// promoted methods are ignored (only methods the type defines itself count).
func VisitorWiring(p *Prog, pkgAlias string) []WiringIssue {
	return VisitorWiringReport(p, pkgAlias).Issues
}

// VisitorWiringReport is VisitorWiring plus the registration sites, the unresolved registrations and
// the callback-shaped methods of never-registered types.
func VisitorWiringReport(p *Prog, pkgAlias string) *WiringReport {
	rep := &WiringReport{}
	pk := p.Pkg(pkgAlias)
	if pk == nil {
		return rep
	}
	u := NewVisitorUniverse(wiringAstvisitorOf(p, pk))
	rep.Universe = len(u.Callbacks)
	if rep.Universe == 0 {
		return rep
	}
	info := pk.TypesInfo

	var files []*ast.File
	for _, f := range pk.Syntax {
		if !strings.HasSuffix(p.Fset.Position(f.Pos()).Filename, "_test.go") {
			files = append(files, f)
		}
	}

	// registrars: function -> parameter index -> callbacks registered for the value passed there.
	regs := map[*types.Func]map[int][]string{}
	for m, cbs := range u.Registrars {
		regs[m] = map[int][]string{0: cbs}
	}
	// forwarding wrappers of the package: a parameter of interface type handed on to a registrar.
	paramIndex := func(fn *types.Func, v types.Object) int {
		sig := fn.Type().(*types.Signature)
		for i := 0; i < sig.Params().Len(); i++ {
			if sig.Params().At(i) == v {
				return i
			}
		}
		return -1
	}
	for changed := true; changed; {
		changed = false
		for _, fi := range p.Funcs(pkgAlias) {
			WalkAll(fi.Decl.Body, func(n ast.Node) bool {
				call, ok := n.(*ast.CallExpr)
				if !ok {
					return true
				}
				by := regs[Callee(info, call)]
				for idx, cbs := range by {
					if idx >= len(call.Args) {
						continue
					}
					id, ok := ast.Unparen(call.Args[idx]).(*ast.Ident)
					if !ok {
						continue
					}
					v := info.Uses[id]
					if v == nil || !types.IsInterface(v.Type()) {
						continue
					}
					pi := paramIndex(fi.Obj, v)
					if pi < 0 {
						continue
					}
					if regs[fi.Obj] == nil {
						regs[fi.Obj] = map[int][]string{}
					}
					merged := wiringUnion(regs[fi.Obj][pi], cbs)
					if len(merged) != len(regs[fi.Obj][pi]) {
						regs[fi.Obj][pi] = merged
						changed = true
					}
				}
				return true
			})
		}
	}

	registered := map[*types.Named]map[string]bool{}
	var order []*types.Named
	for _, f := range files {
		ast.Inspect(f, func(n ast.Node) bool {
			call, ok := n.(*ast.CallExpr)
			if !ok {
				return true
			}
			callee := Callee(info, call)
			by := regs[callee]
			if by == nil {
				return true
			}
			idxs := make([]int, 0, len(by))
			for i := range by {
				idxs = append(idxs, i)
			}
			sort.Ints(idxs)
			for _, idx := range idxs {
				if idx >= len(call.Args) {
					continue
				}
				arg := call.Args[idx]
				t := info.TypeOf(arg)
				site := WiringSite{Pos: call.Pos(), Registrar: FuncName(callee), Callbacks: by[idx]}
				nt := wiringConcreteNamed(t)
				if nt == nil {
					// a forwarded parameter of a wrapper is accounted for at the wrapper's call sites
					if id, ok := ast.Unparen(arg).(*ast.Ident); ok {
						if v, ok := info.Uses[id].(*types.Var); ok && wiringForwardedParam(p, regs, v) {
							continue
						}
					}
					rep.Unresolved = append(rep.Unresolved, call.Pos())
					rep.Sites = append(rep.Sites, site)
					continue
				}
				site.Type = nt.Obj().Name()
				rep.Sites = append(rep.Sites, site)
				if registered[nt] == nil {
					registered[nt] = map[string]bool{}
					order = append(order, nt)
				}
				for _, cb := range by[idx] {
					registered[nt][cb] = true
				}
			}
			return true
		})
	}

	callbacksOf := func(nt *types.Named) []*types.Func {
		var out []*types.Func
		for i := 0; i < nt.NumMethods(); i++ {
			m := nt.Method(i)
			if !u.IsCallback(m) {
				continue
			}
			if fi := p.FuncOf(m); fi != nil && len(fi.Decl.Body.List) == 0 {
				continue // empty body: exempt
			}
			out = append(out, m)
		}
		return out
	}
	for _, nt := range order {
		if nt.Obj().Pkg() != pk.Types {
			continue // a type of another package: its methods may be registered there
		}
		for _, m := range callbacksOf(nt) {
			rep.Issues = append(rep.Issues, WiringIssue{Type: nt.Obj().Name(), Method: m.Name(), Pos: m.Pos(), Registered: registered[nt][m.Name()]})
		}
	}
	sc := pk.Types.Scope()
	for _, name := range sc.Names() {
		tn, ok := sc.Lookup(name).(*types.TypeName)
		if !ok || tn.IsAlias() {
			continue
		}
		nt, ok := tn.Type().(*types.Named)
		if !ok || types.IsInterface(nt) || registered[nt] != nil {
			continue
		}
		for _, m := range callbacksOf(nt) {
			rep.Unregistered = append(rep.Unregistered, WiringIssue{Type: nt.Obj().Name(), Method: m.Name(), Pos: m.Pos()})
		}
	}
	less := func(s []WiringIssue) func(i, j int) bool {
		return func(i, j int) bool {
			if s[i].Type != s[j].Type {
				return s[i].Type < s[j].Type
			}
			return s[i].Method < s[j].Method
		}
	}
	sort.Slice(rep.Issues, less(rep.Issues))
	sort.Slice(rep.Unregistered, less(rep.Unregistered))
	sort.Slice(rep.Sites, func(i, j int) bool { return rep.Sites[i].Pos < rep.Sites[j].Pos })
	return rep
}

func wiringForwardedParam(p *Prog, regs map[*types.Func]map[int][]string, v *types.Var) bool {
	for fn, by := range regs {
		sig := fn.Type().(*types.Signature)
		for idx := range by {
			if idx < sig.Params().Len() && sig.Params().At(idx) == v && p.FuncOf(fn) != nil {
				return true
			}
		}
	}
	return false
}

func wiringUnion(a, b []string) []string {
	set := map[string]bool{}
	for _, s := range a {
		set[s] = true
	}
	for _, s := range b {
		set[s] = true
	}
	out := make([]string, 0, len(set))
	for s := range set {
		out = append(out, s)
	}
	sort.Strings(out)
	return out
}

// ---- the walker's own wiring --------------------------------------------------------------------

// RegistrarInfo describes one registration method of package astvisitor (needs astvisitor with syntax).
type RegistrarInfo struct {
	Method    string    // "Walker.RegisterFieldVisitor"
	Pos       token.Pos // declaration
	Callbacks []string  // what the parameter interface promises (its complete method set)
	Stored    []string  // callbacks whose dispatch list the argument reaches, directly or through forwarded registrations
	Lists     []string  // the dispatch-list fields reached
	Opaque    bool      // the argument is stored somewhere else than in a typed dispatch list (SimpleWalker.SetVisitor)
}

// DispatchList is one typed callback list of the walker (a slice-of-interface field that a registrar appends to).
type DispatchList struct {
	Field      string
	Pos        token.Pos
	Callbacks  []string // method set of the element interface
	Dispatched []string // callbacks invoked on an element of the list somewhere in astvisitor
}

// WalkerWiring analyses package astvisitor itself: for every registration method, which dispatch lists
// its argument is appended to (following w.RegisterX(visitor) forwarding); for every dispatch list,
// which callbacks are invoked on its elements. ok is false when astvisitor was not loaded with syntax.
func WalkerWiring(p *Prog) (regs []RegistrarInfo, lists []DispatchList, ok bool) {
	pk := p.Pkg("astvisitor")
	if pk == nil {
		return nil, nil, false
	}
	info := pk.TypesInfo
	u := NewVisitorUniverse(pk.Types)
	listByField := map[*types.Var]*DispatchList{}
	ifaceNames := func(t types.Type) []string {
		it, _ := t.Underlying().(*types.Interface)
		if it == nil {
			return nil
		}
		var out []string
		for i := 0; i < it.NumMethods(); i++ {
			if u.Callbacks[it.Method(i).Name()] != nil {
				out = append(out, it.Method(i).Name())
			}
		}
		sort.Strings(out)
		return out
	}
	type summary struct {
		stored []string
		lists  []string
		opaque bool
	}
	memo := map[*types.Func]*summary{}
	var summarise func(fn *types.Func) *summary
	summarise = func(fn *types.Func) *summary {
		if s, done := memo[fn]; done {
			return s
		}
		s := &summary{}
		memo[fn] = s
		fi := p.FuncOf(fn)
		if fi == nil {
			s.opaque = true
			return s
		}
		param := fn.Type().(*types.Signature).Params().At(0)
		isParam := func(e ast.Expr) bool {
			id, ok := ast.Unparen(e).(*ast.Ident)
			return ok && info.Uses[id] == param
		}
		WalkAll(fi.Decl.Body, func(n ast.Node) bool {
			switch x := n.(type) {
			case *ast.AssignStmt:
				for i, rhs := range x.Rhs {
					if i >= len(x.Lhs) {
						break
					}
					if isParam(rhs) { // stored as a whole (SetVisitor)
						s.opaque = true
						continue
					}
					c, ok := ast.Unparen(rhs).(*ast.CallExpr)
					if !ok || Builtin(info, c) != "append" || len(c.Args) < 2 {
						continue
					}
					appended := false
					for _, a := range c.Args[1:] {
						if isParam(a) {
							appended = true
						}
					}
					if !appended {
						continue
					}
					f, _ := Field(info, x.Lhs[i])
					if f == nil {
						s.opaque = true
						continue
					}
					sl, ok := f.Type().Underlying().(*types.Slice)
					if !ok {
						s.opaque = true
						continue
					}
					dl := listByField[f]
					if dl == nil {
						dl = &DispatchList{Field: f.Name(), Pos: f.Pos(), Callbacks: ifaceNames(sl.Elem())}
						listByField[f] = dl
					}
					s.stored = wiringUnion(s.stored, dl.Callbacks)
					s.lists = wiringUnion(s.lists, []string{f.Name()})
				}
			case *ast.CallExpr:
				callee := Callee(info, x)
				if callee == nil || u.Registrars[callee] == nil || len(x.Args) != 1 || !isParam(x.Args[0]) {
					return true
				}
				sub := summarise(callee)
				s.stored = wiringUnion(s.stored, sub.stored)
				s.lists = wiringUnion(s.lists, sub.lists)
				s.opaque = s.opaque || sub.opaque
			}
			return true
		})
		return s
	}
	for m, cbs := range u.Registrars {
		s := summarise(m)
		regs = append(regs, RegistrarInfo{Method: FuncName(m), Pos: m.Pos(), Callbacks: cbs, Stored: s.stored, Lists: s.lists, Opaque: s.opaque})
	}
	sort.Slice(regs, func(i, j int) bool { return regs[i].Method < regs[j].Method })
	// dispatch: <list field>[i].Callback(...)
	for _, fi := range p.Funcs("astvisitor") {
		WalkAll(fi.Decl.Body, func(n ast.Node) bool {
			call, ok := n.(*ast.CallExpr)
			if !ok {
				return true
			}
			sel, ok := ast.Unparen(call.Fun).(*ast.SelectorExpr)
			if !ok {
				return true
			}
			ix, ok := ast.Unparen(sel.X).(*ast.IndexExpr)
			if !ok {
				return true
			}
			f, _ := Field(info, ix.X)
			if dl := listByField[f]; f != nil && dl != nil && u.Callbacks[sel.Sel.Name] != nil {
				dl.Dispatched = wiringUnion(dl.Dispatched, []string{sel.Sel.Name})
			}
			return true
		})
	}
	for _, dl := range listByField {
		lists = append(lists, *dl)
	}
	sort.Slice(lists, func(i, j int) bool { return lists[i].Field < lists[j].Field })
	return regs, lists, true
}

// ---- E12d: struct fields written / read by a set of functions -------------------------------------

// ModelFieldUse records where the fields of a set of struct types are written and read.
type ModelFieldUse struct {
	Writes map[string][]token.Pos // "Type.Field" -> positions
	Reads  map[string][]token.Pos
}

// StaticCallClosure returns roots plus every function with syntax in the same packages that is reachable from
// them through statically resolved calls (interface calls are not followed).
func StaticCallClosure(p *Prog, roots []*FuncInfo) []*FuncInfo {
	seen := map[*types.Func]bool{}
	var out []*FuncInfo
	var visit func(fi *FuncInfo)
	visit = func(fi *FuncInfo) {
		if fi == nil || seen[fi.Obj] {
			return
		}
		seen[fi.Obj] = true
		out = append(out, fi)
		info := fi.Info()
		WalkAll(fi.Decl.Body, func(n ast.Node) bool {
			if c, ok := n.(*ast.CallExpr); ok {
				visit(p.FuncOf(Callee(info, c)))
			}
			return true
		})
	}
	for _, r := range roots {
		visit(r)
	}
	return out
}

// ModelFieldUses collects, over the bodies of fis, every write and read of a field of one of the named
// struct types `owners` of package pkg. A write is an assignment target, an inc/dec, an append-to-self,
// or a keyed element of a composite literal; everything else that selects the field is a read
// (x.F = append(x.F, v) both reads and writes F, but the self-read of an append-to-self and of
// `x.F[i] = v` is not counted as a read: it does not consume the information). An empty
// initialisation (`F: make(…)`, `x.F = nil`, `F: []T{}`) stores no information and is not a write.
func ModelFieldUses(fis []*FuncInfo, pkg string, owners map[string]bool) *ModelFieldUse {
	fu := &ModelFieldUse{Writes: map[string][]token.Pos{}, Reads: map[string][]token.Pos{}}
	for _, fi := range fis {
		modelFieldUsesIn(fi.Info(), fi.Decl.Body, pkg, owners, fu)
	}
	return fu
}

// ModelFieldUsesIn is ModelFieldUses for one syntax node (a switch arm, a statement list element).
func ModelFieldUsesIn(info *types.Info, n ast.Node, pkg string, owners map[string]bool) *ModelFieldUse {
	fu := &ModelFieldUse{Writes: map[string][]token.Pos{}, Reads: map[string][]token.Pos{}}
	modelFieldUsesIn(info, n, pkg, owners, fu)
	return fu
}

func modelFieldUsesIn(info *types.Info, root ast.Node, pkg string, owners map[string]bool, fu *ModelFieldUse) {
	path := PkgPath(pkg)
	keyOf := func(sel *ast.SelectorExpr) string {
		v, s := Field(info, sel)
		if v == nil {
			return ""
		}
		pp, tn := FieldOwner(info, s)
		if pp != path || !owners[tn] {
			return ""
		}
		return tn + "." + v.Name()
	}
	written := map[*ast.SelectorExpr]bool{}
	markTarget := func(t ast.Expr) {
		if sel, ok := t.(*ast.SelectorExpr); ok {
			if k := keyOf(sel); k != "" {
				written[sel] = true
				fu.Writes[k] = append(fu.Writes[k], sel.Pos())
			}
		}
	}
	emptyInit := func(e ast.Expr) bool {
		switch v := ast.Unparen(e).(type) {
		case *ast.CallExpr:
			return Builtin(info, v) == "make"
		case *ast.Ident:
			_, isNil := info.Uses[v].(*types.Nil)
			return isNil
		case *ast.CompositeLit:
			if t := info.TypeOf(v); t != nil {
				switch t.Underlying().(type) {
				case *types.Slice, *types.Map:
					return len(v.Elts) == 0
				}
			}
		}
		return false
	}
	WalkAll(root, func(n ast.Node) bool {
		switch x := n.(type) {
		case *ast.AssignStmt:
			for i, l := range x.Lhs {
				t := writtenTarget(l)
				if len(x.Lhs) == len(x.Rhs) && ast.Unparen(l) == t && emptyInit(x.Rhs[i]) {
					if sel, ok := t.(*ast.SelectorExpr); ok && keyOf(sel) != "" {
						written[sel] = true // not a read either
					}
					continue
				}
				markTarget(t)
				// append-to-self: the first operand of append is not a consuming read
				if tsel, ok := t.(*ast.SelectorExpr); ok && written[tsel] && i < len(x.Rhs) {
					if c, ok := ast.Unparen(x.Rhs[i]).(*ast.CallExpr); ok && Builtin(info, c) == "append" && len(c.Args) > 0 {
						if asel, ok := ast.Unparen(c.Args[0]).(*ast.SelectorExpr); ok && ExprKey(info, asel) == ExprKey(info, tsel) {
							written[asel] = true
						}
					}
				}
			}
		case *ast.IncDecStmt:
			markTarget(writtenTarget(x.X))
		case *ast.CompositeLit:
			t := info.TypeOf(x)
			if t == nil {
				return true
			}
			nt, _ := types.Unalias(deref(t)).(*types.Named)
			if nt == nil || nt.Obj().Pkg() == nil || nt.Obj().Pkg().Path() != path || !owners[nt.Obj().Name()] {
				return true
			}
			st, _ := nt.Underlying().(*types.Struct)
			if st == nil {
				return true
			}
			for i, el := range x.Elts {
				if kv, ok := el.(*ast.KeyValueExpr); ok {
					if id, ok := kv.Key.(*ast.Ident); ok && !emptyInit(kv.Value) {
						k := nt.Obj().Name() + "." + id.Name
						fu.Writes[k] = append(fu.Writes[k], kv.Pos())
					}
				} else if i < st.NumFields() && !emptyInit(el) {
					k := nt.Obj().Name() + "." + st.Field(i).Name()
					fu.Writes[k] = append(fu.Writes[k], el.Pos())
				}
			}
		}
		return true
	})
	WalkAll(root, func(n ast.Node) bool {
		sel, ok := n.(*ast.SelectorExpr)
		if !ok || written[sel] {
			return true
		}
		if k := keyOf(sel); k != "" {
			fu.Reads[k] = append(fu.Reads[k], sel.Pos())
		}
		return true
	})
}

// JSONKeysOfStruct lists the JSON object keys a struct type serialises to with encoding/json
// (exported fields; `json:"-"` skipped; the name before the first comma of the tag, else the field name).
// Embedded structs are not flattened (none in the anchored models); it reports them via ok=false.
func JSONKeysOfStruct(st *types.Struct) (names map[string]string, ok bool) {
	names = map[string]string{}
	ok = true
	for i := 0; i < st.NumFields(); i++ {
		f := st.Field(i)
		if !f.Exported() {
			continue
		}
		if f.Embedded() {
			ok = false
			continue
		}
		tag, _ := reflect.StructTag(st.Tag(i)).Lookup("json")
		name := strings.Split(tag, ",")[0]
		if name == "-" && !strings.Contains(tag, ",") {
			continue
		}
		if name == "" {
			name = f.Name()
		}
		names[name] = f.Name()
	}
	return names, ok
}
