package fw

import (
	"go/ast"
	"go/types"
	"sort"
)

// SwitchInfo describes one switch statement relevant to a dispatch rule.
type SwitchInfo struct {
	Stmt       ast.Stmt
	Covered    map[string]bool // constant names or type names
	HasDefault bool
	Default    *ast.CaseClause
}

// ConstSwitches finds the tagged switches in fi whose tag has named type t and lists the
// constants of t named in their case clauses.
func ConstSwitches(fi *FuncInfo, t types.Type) []SwitchInfo {
	info := fi.Info()
	var out []SwitchInfo
	WalkAll(fi.Decl.Body, func(n ast.Node) bool {
		sw, ok := n.(*ast.SwitchStmt)
		if !ok || sw.Tag == nil {
			return true
		}
		tt := info.TypeOf(sw.Tag)
		if tt == nil || !types.Identical(tt, t) {
			return true
		}
		si := SwitchInfo{Stmt: sw, Covered: map[string]bool{}}
		for _, c := range sw.Body.List {
			cc := c.(*ast.CaseClause)
			if cc.List == nil {
				si.HasDefault, si.Default = true, cc
			}
			for _, e := range cc.List {
				if k := ConstObj(info, e); k != nil {
					si.Covered[k.Name()] = true
				}
			}
		}
		out = append(out, si)
		return true
	})
	return out
}

// TypeSwitches finds the type switches in fi whose operand has (interface) type t and lists
// the bare names of the case types.
func TypeSwitches(fi *FuncInfo, t types.Type) []SwitchInfo {
	info := fi.Info()
	var out []SwitchInfo
	WalkAll(fi.Decl.Body, func(n ast.Node) bool {
		sw, ok := n.(*ast.TypeSwitchStmt)
		if !ok {
			return true
		}
		var x ast.Expr
		switch a := sw.Assign.(type) {
		case *ast.AssignStmt:
			if ta, ok := ast.Unparen(a.Rhs[0]).(*ast.TypeAssertExpr); ok {
				x = ta.X
			}
		case *ast.ExprStmt:
			if ta, ok := ast.Unparen(a.X).(*ast.TypeAssertExpr); ok {
				x = ta.X
			}
		}
		if x == nil {
			return true
		}
		if xt := info.TypeOf(x); xt == nil || (t != nil && !types.Identical(xt, t)) {
			return true
		}
		si := SwitchInfo{Stmt: sw, Covered: map[string]bool{}}
		for _, c := range sw.Body.List {
			cc := c.(*ast.CaseClause)
			if cc.List == nil {
				si.HasDefault, si.Default = true, cc
			}
			for _, e := range cc.List {
				if ct := info.TypeOf(e); ct != nil {
					si.Covered[RecvName(ct)] = true
				}
			}
		}
		out = append(out, si)
		return true
	})
	return out
}

// MissingFrom returns the sorted names of want that are absent from covered.
func MissingFrom(covered map[string]bool, want []string) []string {
	var out []string
	for _, w := range want {
		if !covered[w] {
			out = append(out, w)
		}
	}
	sort.Strings(out)
	return out
}

// ConstNames lists the names of the constants of named type t declared in pkg, sorted.
func ConstNames(pkg *types.Package, t types.Type) []string {
	var out []string
	for _, c := range ConstsOfType(pkg, t) {
		out = append(out, c.Name())
	}
	sort.Strings(out)
	return out
}

// ImplementerNames lists the bare names of the types of pkg implementing iface, sorted.
func ImplementerNames(pkg *types.Package, iface *types.Interface) []string {
	var out []string
	for _, n := range Implementers(pkg, iface) {
		out = append(out, n.Obj().Name())
	}
	sort.Strings(out)
	return out
}
