// Package fw is the analysis framework: loading /repo in workspace mode, type-resolved
// matchers, a structured path interpreter (guards, pairing, lock sets), enumeration helpers
// and the obligation/evidence bookkeeping shared by all rules.
package fw

import (
	"fmt"
	"go/ast"
	"go/token"
	"go/types"
	"os"
	"path/filepath"
	"sort"
	"strings"

	"golang.org/x/tools/go/packages"
)

// Module roots of the workspace and the import-path prefixes they serve.
const (
	V2Prefix   = "github.com/wundergraph/graphql-go-tools/v2/"
	ExecPrefix = "github.com/wundergraph/graphql-go-tools/execution/"
)

// RepoRoot is the tree that is analysed; VERIF_REPO overrides it (used only by manual experiments).
func RepoRoot() string {
	if r := os.Getenv("VERIF_REPO"); r != "" {
		return r
	}
	return "/repo"
}

// Short names used in rule tables.
var pkgAlias = map[string]string{
	"resolve":        V2Prefix + "pkg/engine/resolve",
	"plan":           V2Prefix + "pkg/engine/plan",
	"postprocess":    V2Prefix + "pkg/engine/postprocess",
	"gqlds":          V2Prefix + "pkg/engine/datasource/graphql_datasource",
	"grpcds":         V2Prefix + "pkg/engine/datasource/grpc_datasource",
	"subclient":      V2Prefix + "pkg/engine/datasource/graphql_datasource/subscriptionclient",
	"subtransport":   V2Prefix + "pkg/engine/datasource/graphql_datasource/subscriptionclient/transport",
	"subprotocol":    V2Prefix + "pkg/engine/datasource/graphql_datasource/subscriptionclient/protocol",
	"subcommon":      V2Prefix + "pkg/engine/datasource/graphql_datasource/subscriptionclient/common",
	"httpclient":     V2Prefix + "pkg/engine/datasource/httpclient",
	"introspection":  V2Prefix + "pkg/introspection",
	"introspds":      V2Prefix + "pkg/engine/datasource/introspection_datasource",
	"ast":            V2Prefix + "pkg/ast",
	"astparser":      V2Prefix + "pkg/astparser",
	"astprinter":     V2Prefix + "pkg/astprinter",
	"astvisitor":     V2Prefix + "pkg/astvisitor",
	"astnorm":        V2Prefix + "pkg/astnormalization",
	"astvalidation":  V2Prefix + "pkg/astvalidation",
	"astminify":      V2Prefix + "pkg/astminify",
	"astimport":      V2Prefix + "pkg/astimport",
	"lexer":          V2Prefix + "pkg/lexer",
	"keyword":        V2Prefix + "pkg/lexer/keyword",
	"identkeyword":   V2Prefix + "pkg/lexer/identkeyword",
	"runes":          V2Prefix + "pkg/lexer/runes",
	"varsvalidation": V2Prefix + "pkg/variablesvalidation",
	"caching":        V2Prefix + "pkg/caching",
	"cachectl":       V2Prefix + "pkg/engine/cache",
	"opreport":       V2Prefix + "pkg/operationreport",
	"graphqlerrors":  V2Prefix + "pkg/graphqlerrors",
	"engine":         ExecPrefix + "engine",
	"graphql":        ExecPrefix + "graphql",
	"subscription":   ExecPrefix + "subscription",
	"websocket":      ExecPrefix + "subscription/websocket",
}

// PkgPath expands an alias to an import path (or returns its argument).
func PkgPath(alias string) string {
	if p, ok := pkgAlias[alias]; ok {
		return p
	}
	return alias
}

// Prog is the loaded, type-checked program.
type Prog struct {
	Fset  *token.FileSet
	Pkgs  map[string]*packages.Package // by import path, only packages with syntax
	Roots []*packages.Package          // packages matched by the patterns
	funcs map[*types.Func]*FuncInfo
	decls map[string][]*FuncInfo // by pkgpath
	// statistics for evidence
	NFiles, NFuncs int
}

// FuncInfo ties a declared function to its syntax and package.
type FuncInfo struct {
	Obj  *types.Func
	Decl *ast.FuncDecl
	Pkg  *packages.Package
	Prog *Prog
}

func (f *FuncInfo) Info() *types.Info { return f.Pkg.TypesInfo }

// Name is Recv.Name or Name, without package.
func (f *FuncInfo) Name() string { return FuncName(f.Obj) }

// QName is pkgshort.Recv.Name
func (f *FuncInfo) QName() string {
	return filepath.Base(f.Obj.Pkg().Path()) + "." + f.Name()
}

func (f *FuncInfo) Pos() string { return f.Prog.Pos(f.Decl.Pos()) }

// FuncName renders Recv.Name for methods, Name for functions.
func FuncName(fn *types.Func) string {
	sig, _ := fn.Type().(*types.Signature)
	if sig != nil && sig.Recv() != nil {
		return RecvName(sig.Recv().Type()) + "." + fn.Name()
	}
	return fn.Name()
}

// RecvName is the bare name of a (pointer to) named type, without type arguments.
func RecvName(t types.Type) string {
	for {
		switch u := t.(type) {
		case *types.Pointer:
			t = u.Elem()
			continue
		case *types.Named:
			return u.Obj().Name()
		case *types.Alias:
			t = types.Unalias(u)
			continue
		}
		return t.String()
	}
}

// LoadOpts describes one load.
type LoadOpts struct {
	// Patterns per module dir ("v2" / "execution"), e.g. {"v2": {"./pkg/engine/resolve"}}.
	Patterns map[string][]string
	Overlay  map[string][]byte
	Tests    bool
}

// Load type-checks the requested packages of /repo's working tree. Root packages get syntax
// and type info; dependencies come from export data (LoadSyntax) unless AllSyntax is set.
func Load(o LoadOpts, allSyntax bool) (*Prog, error) {
	fset := token.NewFileSet()
	p := &Prog{Fset: fset, Pkgs: map[string]*packages.Package{}, funcs: map[*types.Func]*FuncInfo{}, decls: map[string][]*FuncInfo{}}
	mode := packages.NeedName | packages.NeedFiles | packages.NeedCompiledGoFiles | packages.NeedImports |
		packages.NeedTypes | packages.NeedTypesSizes | packages.NeedSyntax | packages.NeedTypesInfo | packages.NeedModule
	if allSyntax {
		mode |= packages.NeedDeps
	}
	env := []string{}
	for _, kv := range os.Environ() {
		k := kv[:strings.IndexByte(kv, '=')]
		switch k {
		case "GOFLAGS", "GOWORK", "GOPROXY", "GOSUMDB", "GOTOOLCHAIN":
			continue
		}
		env = append(env, kv)
	}
	env = append(env, "GOFLAGS=", "GOPROXY=off", "GOTOOLCHAIN=auto", "GOWORK="+filepath.Join(RepoRoot(), "go.work"))
	mods := make([]string, 0, len(o.Patterns))
	for m := range o.Patterns {
		mods = append(mods, m)
	}
	sort.Strings(mods)
	for _, mod := range mods {
		cfg := &packages.Config{
			Mode:    mode,
			Dir:     filepath.Join(RepoRoot(), mod),
			Env:     env,
			Fset:    fset,
			Overlay: o.Overlay,
			Tests:   o.Tests,
		}
		pkgs, err := packages.Load(cfg, o.Patterns[mod]...)
		if err != nil {
			return nil, fmt.Errorf("packages.Load %s %v: %w", mod, o.Patterns[mod], err)
		}
		if len(pkgs) == 0 {
			return nil, fmt.Errorf("packages.Load %s %v: zero packages", mod, o.Patterns[mod])
		}
		var errs []string
		packages.Visit(pkgs, nil, func(pk *packages.Package) {
			for _, e := range pk.Errors {
				errs = append(errs, e.Error())
			}
		})
		if len(errs) > 0 {
			if len(errs) > 8 {
				errs = errs[:8]
			}
			return nil, fmt.Errorf("type/load errors in %s: %s", mod, strings.Join(errs, "; "))
		}
		for _, pk := range pkgs {
			if strings.HasSuffix(pk.ID, ".test") || strings.Contains(pk.ID, " [") {
				continue // test variants are only type-checked, never matched
			}
			p.Roots = append(p.Roots, pk)
		}
		isRoot := map[*packages.Package]bool{}
		for _, pk := range pkgs {
			isRoot[pk] = true
		}
		packages.Visit(pkgs, nil, func(pk *packages.Package) {
			if len(pk.Syntax) == 0 || pk.TypesInfo == nil {
				return
			}
			// without NeedDeps only the packages matched by the patterns are analysed: a dependency
			// that go/packages re-type-checks from source because an overlay touches it is not
			// indexed a second time (its objects would differ from the root instance's)
			if !allSyntax && !isRoot[pk] {
				return
			}
			if strings.HasSuffix(pk.ID, ".test") || strings.Contains(pk.ID, " [") {
				return
			}
			if _, dup := p.Pkgs[pk.PkgPath]; dup {
				return
			}
			if !strings.HasPrefix(pk.PkgPath, "github.com/wundergraph/graphql-go-tools/") {
				return
			}
			p.Pkgs[pk.PkgPath] = pk
		})
	}
	for _, pk := range p.Pkgs {
		p.index(pk)
	}
	if len(p.Pkgs) == 0 {
		return nil, fmt.Errorf("no packages with syntax loaded")
	}
	return p, nil
}

func (p *Prog) index(pk *packages.Package) {
	for _, f := range pk.Syntax {
		fname := p.Fset.Position(f.Pos()).Filename
		if strings.HasSuffix(fname, "_test.go") {
			continue
		}
		p.NFiles++
		for _, d := range f.Decls {
			fd, ok := d.(*ast.FuncDecl)
			if !ok || fd.Body == nil {
				continue
			}
			obj, _ := pk.TypesInfo.Defs[fd.Name].(*types.Func)
			if obj == nil {
				continue
			}
			fi := &FuncInfo{Obj: obj, Decl: fd, Pkg: pk, Prog: p}
			p.funcs[obj] = fi
			p.decls[pk.PkgPath] = append(p.decls[pk.PkgPath], fi)
			p.NFuncs++
		}
	}
	sort.Slice(p.decls[pk.PkgPath], func(i, j int) bool {
		a, b := p.decls[pk.PkgPath][i], p.decls[pk.PkgPath][j]
		return a.Name() < b.Name()
	})
}

// Pkg returns a loaded package by alias or path (nil if absent).
func (p *Prog) Pkg(alias string) *packages.Package { return p.Pkgs[PkgPath(alias)] }

// Funcs lists the declared, bodied, non-test functions of a package sorted by name.
func (p *Prog) Funcs(alias string) []*FuncInfo { return p.decls[PkgPath(alias)] }

// FuncOf maps a types.Func (origin) to its declaration if loaded with syntax.
func (p *Prog) FuncOf(fn *types.Func) *FuncInfo {
	if fn == nil {
		return nil
	}
	return p.funcs[fn.Origin()]
}

// Func finds pkg.(Recv.)Name; name is "Recv.Method" or "Func".
func (p *Prog) Func(alias, name string) *FuncInfo {
	for _, fi := range p.decls[PkgPath(alias)] {
		if fi.Name() == name {
			return fi
		}
	}
	return nil
}

// Pos renders a position relative to the repo root, as file:line.
func (p *Prog) Pos(pos token.Pos) string {
	if !pos.IsValid() {
		return "-"
	}
	ps := p.Fset.Position(pos)
	rel, err := filepath.Rel(RepoRoot(), ps.Filename)
	if err != nil {
		rel = ps.Filename
	}
	return fmt.Sprintf("%s:%d", rel, ps.Line)
}

// Named looks up a named type in a package.
func (p *Prog) Named(alias, name string) *types.Named {
	pk := p.Pkg(alias)
	if pk == nil {
		return nil
	}
	o := pk.Types.Scope().Lookup(name)
	if o == nil {
		return nil
	}
	n, _ := o.Type().(*types.Named)
	return n
}

// FileOf returns the base file name of a position.
func (p *Prog) FileOf(pos token.Pos) string {
	return filepath.Base(p.Fset.Position(pos).Filename)
}

// FuncsOfPath returns the functions of the package with the given import path.
func (p *Prog) FuncsOfPath(path string) []*FuncInfo { return p.decls[path] }

// AliasOrPath returns the alias registered for an import path, or the path below the module prefix.
func AliasOrPath(path string) string {
	for a, pth := range pkgAlias {
		if pth == path {
			return a
		}
	}
	path = strings.TrimPrefix(path, V2Prefix)
	path = strings.TrimPrefix(path, ExecPrefix)
	return path
}

// LoadedPaths lists the import paths of the packages loaded with syntax, sorted.
func (p *Prog) LoadedPaths() []string {
	var out []string
	for path := range p.decls {
		out = append(out, path)
	}
	sort.Strings(out)
	return out
}
