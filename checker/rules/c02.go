package rules

import (
	"go/ast"
	"go/token"
	"go/types"
	"sort"
	"strings"

	"verif/checker/fw"
)

func init() {
	Registry["C02"] = Spec{
		Pkgs: map[string][]string{"v2": {"resolve", "postprocess", "plan"}},
		Run:  runC02,
		Explanation: "Decides the structural half of 'the rendered response is well-formed and every null-propagation is reported': the node dispatch of the renderer covers every response-plan node kind (an unhandled kind leaves `\"key\":` without a value) and the composite-kind siblings agree; " +
			"every exit of a walk function that signals an error (return r.err()) has recorded an error on all paths in the validation pass; every leaf walker tests null-ness before it tests the JSON kind and, on the null edge, either renders null under Nullable or records the non-null violation; the JSON tree is nulled only in the validation pass (two idempotent array sites frozen); " +
			"the renderer's bookkeeping stacks (response path, runtime type names, enclosing type names) are balanced on every exit of every walk function. It does not decide JSON validity, key-set equality or projection equality (value level).",
		Mutants: []Mutant{
			{Name: "the enum error is worded as an array element whenever the path ends in an index (reverts the F98 fix)", File: resolvableGo, Rule: "C02-R15", Key: "Resolvable.renderInaccessibleEnumValueError/array-element-decision-reads-the-node",
				Old: "\tif len(e.Path) == 0 && pathLength > 1 && r.path[pathLength-1].Name == \"\" {", New: "\tif pathLength > 1 && r.path[pathLength-1].Name == \"\" {"},
			{Name: "an object is abstract only with more than one possible type (seeded changes C02-2, C02-12, C02-21)", File: "v2/pkg/engine/resolve/node_object.go", Rule: "C02-R13", Key: "Object.isAbstract/not-by-count-alone",
				Old: "\tif len(o.PossibleTypes) == 1 {\n\t\t_, self := o.PossibleTypes[o.TypeName]\n\t\treturn !self\n\t}\n\treturn false\n", New: "\treturn false\n"},
			{Name: "forwarded extension keys written raw (reverts the F45 fix)", File: "v2/pkg/engine/resolve/resolvable.go", Rule: "C02-R12", Key: "Resolvable.printExtensions/raw-string-content-printed",
				Old: "\t\t\tr.printBytes(encodedKey)\n", New: "\t\t\t_ = encodedKey\n\t\t\tr.printBytes(quote)\n\t\t\tr.printBytes([]byte(key))\n\t\t\tr.printBytes(quote)\n"},
			{Name: "non-JSON string content written between raw quotes (reverts the F44 fix)", File: "v2/pkg/engine/resolve/resolvable.go", Rule: "C02-R12", Key: "Resolvable.walkString/raw-string-content-printed",
				Old: "\t\t\t\t// not JSON after all: render the string itself, properly escaped\n\t\t\t\tr.renderScalarFieldValue(value, s.Nullable)\n", New: "\t\t\t\tr.printBytes(quote)\n\t\t\t\tr.printBytes(content)\n\t\t\t\tr.printBytes(quote)\n"},
			{Name: "inaccessible enum values looked up by binary search in an unsorted list (seeded change C02-22)", File: "v2/pkg/engine/resolve/node_enum.go", Rule: "C02-R11", Key: "Enum.isAccessibleValue/binary-search-over:InaccessibleValues",
				Old: "\treturn !slices.Contains(e.InaccessibleValues, returnedValue)\n", New: "\t_, inaccessible := slices.BinarySearch(e.InaccessibleValues, returnedValue)\n\treturn !inaccessible\n"},
			{Name: "kind-mismatch error of a list recorded with the already pushed path (the repaired defect F25)", File: "v2/pkg/engine/resolve/resolvable.go", Rule: "C02-R10", Key: "walkArray/addError-path-not-already-pushed",
				Old: "\t\tr.addError(\"Array cannot represent non-array value.\", nil)", New: "\t\tr.addError(\"Array cannot represent non-array value.\", arr.Path)"},
			{Name: "nested list nulls itself through its empty path (the repaired defect F24)", File: "v2/pkg/engine/resolve/resolvable.go", Rule: "C02-R9", Key: "walkArray/set-null-needs-a-path",
				Old: "\t\t\tif arr.Nullable && len(arr.Path) > 0 {", New: "\t\t\tif arr.Nullable {"},
			{Name: "errors member of a subscription event stored whatever its JSON kind (the repaired defect F23)", File: "v2/pkg/engine/resolve/resolvable.go", Rule: "C02-R8", Key: "InitSubscription/errors-assigned-an-array",
				Old: "\t\t\tif selectedInitialErrors != nil && selectedInitialErrors.Type() == astjson.TypeArray {", New: "\t\t\tif selectedInitialErrors != nil {"},
			{Name: "value completion extension does not set the comma flag (seeded change C02-13)", File: "v2/pkg/engine/resolve/resolvable.go", Rule: "C02-R7", Key: "Resolvable.printExtensions/section",
				Old: "\t\twriteComma = true\n\t\terr := r.printValueCompletionExtension()", New: "\t\terr := r.printValueCompletionExtension()"},
			{Name: "Object.Copy drops the possible types (the repaired defect F12)", File: "v2/pkg/engine/resolve/node_object.go", Rule: "C02-R6", Key: "Object.Copy/preserves:PossibleTypes",
				Old: "\t\tPossibleTypes:     o.PossibleTypes,\n", New: ""},
			{Name: "Array.Copy drops nullability", File: "v2/pkg/engine/resolve/node_array.go", Rule: "C02-R6", Key: "Array.Copy/preserves:Nullable",
				Old: "\t\tNullable: a.Nullable,\n\t\tItem:     a.Item.Copy(),", New: "\t\tItem:     a.Item.Copy(),"},
			{Name: "enum node kind dropped from the render dispatch", File: resolvableGo, Rule: "C02-R1", Key: "walkNode",
				Old: "\tcase *Enum:\n\t\treturn r.walkEnum(n, value)\n\tdefault:", New: "\tdefault:"},
			{Name: "type mismatch of a Float no longer reported", File: resolvableGo, Rule: "C02-R2", Key: "walkFloat",
				Old: "\t\tr.addError(fmt.Sprintf(\"Float cannot represent non-float value: \\\"%s\\\"\", string(r.marshalBuf)), f.Path)\n", New: ""},
			{Name: "String walker checks the kind before null-ness", File: resolvableGo, Rule: "C02-R3", Key: "walkString",
				Old: "\tif astjson.ValueIsNull(value) {\n\t\tif s.Nullable {\n\t\t\treturn r.walkNull()\n\t\t}\n\t\tr.addNonNullableFieldError(s.Path, parent)\n\t\treturn r.err()\n\t}\n\tif value.Type() != astjson.TypeString {",
				New: "\tif value != nil && value.Type() != astjson.TypeString && value.Type() != astjson.TypeNull {\n\t\tr.addError(\"String cannot represent non-string value\", s.Path)\n\t\treturn r.err()\n\t}\n\tif astjson.ValueIsNull(value) {\n\t\tif s.Nullable {\n\t\t\treturn r.walkNull()\n\t\t}\n\t\tr.addNonNullableFieldError(s.Path, parent)\n\t\treturn r.err()\n\t}\n\tif value.Type() != astjson.TypeString {"},
			{Name: "Integer walker ignores Nullable on the null edge", File: resolvableGo, Rule: "C02-R3", Key: "walkInteger",
				Old: "\tif astjson.ValueIsNull(value) {\n\t\tif i.Nullable {\n\t\t\treturn r.walkNull()\n\t\t}\n\t\tr.addNonNullableFieldError(i.Path, parent)\n\t\treturn r.err()\n\t}", New: "\tif astjson.ValueIsNull(value) {\n\t\t_ = parent\n\t\treturn r.walkNull()\n\t}"},
			{Name: "authorization nulling also runs in the render pass", File: resolvableGo, Rule: "C02-R4", Key: "walkFields",
				Old: "\t\tif !r.render() {\n\t\t\tskip := r.authorizeField(value, obj.Fields[i])", New: "\t\t{\n\t\t\tskip := r.authorizeField(value, obj.Fields[i])"},
			{Name: "runtime type-name stack popped inline only on the success path", File: resolvableGo, Rule: "C02-R5", Key: "walkObject",
				Old: "\tr.typeNames = append(r.typeNames, typeName)\n\tdefer func() {\n\t\tr.typeNames = r.typeNames[:len(r.typeNames)-1]\n\t}()\n\n\tif !r.deferMode {\n\t\tif r.walkFields(obj, value, parent, walkFieldsFilter{}) {\n\t\t\treturn true\n\t\t}\n",
				New: "\tr.typeNames = append(r.typeNames, typeName)\n\n\tif !r.deferMode {\n\t\tif r.walkFields(obj, value, parent, walkFieldsFilter{}) {\n\t\t\treturn true\n\t\t}\n\t\tr.typeNames = r.typeNames[:len(r.typeNames)-1]\n"},
			{Name: "response path of an object no longer popped (defer removed)", File: resolvableGo, Rule: "C02-R5", Key: "walkObject",
				Old: "\tr.pushNodePathElement(obj.Path)\n\tisRoot := r.depth < 2\n\tdefer r.popNodePathElement(obj.Path)\n", New: "\tr.pushNodePathElement(obj.Path)\n\tisRoot := r.depth < 2\n"},
		},
	}
}

var c02Recorders = map[string]bool{
	"addError": true, "addErrorWithCode": true, "addErrorWithCodeAndPath": true, "addNonNullableFieldError": true,
	"addValueCompletion": true, "addValueCompletionWithPath": true, "renderInaccessibleEnumValueError": true, "addRejectFieldError": true,
}

func runC02(r *fw.Run) {
	defer c02ArrayElementWordingReadsTheNode(r)
	defer c02CopyPreserves(r)
	defer c02UnmergeablePayloadsStaySoft(r)
	defer c02StringContentNeverPrintedRaw(r)
	defer c02BinarySearchNeedsSortedWriter(r)
	defer c02ErrorPathNotDoubled(r)
	defer c02SetNullNeedsAPath(r)
	defer c02AbstractnessNotByCountAlone(r)
	defer c02ErrorsIsAnArray(r)
	defer c02CommaFlags(r)
	p := r.Prog
	pk := p.Pkg("resolve")
	if pk == nil {
		r.Error("package resolve not loaded")
		return
	}
	info := pk.TypesInfo
	nodeT := p.Named("resolve", "Node")
	if nodeT == nil {
		r.Error("resolve.Node not found")
		return
	}
	nodeI := nodeT.Underlying().(*types.Interface)
	kinds := fw.ImplementerNames(pk.Types, nodeI)

	// ---- R1 node dispatch ---------------------------------------------------------------------------
	r.Rule("C02-R1", "Resolvable.walkNode dispatches every type of package resolve that implements Node; the siblings that descend the response plan cover the composite kinds Object and Array")
	if fi := p.Func("resolve", "Resolvable.walkNode"); fi == nil {
		r.Error("C02-R1: Resolvable.walkNode not found")
	} else {
		sws := fw.TypeSwitches(fi, nodeT)
		r.Expect("C02-R1", "type switch over Node in walkNode", len(sws), 1)
		for _, sw := range sws {
			miss := fw.MissingFrom(sw.Covered, kinds)
			r.Check(len(miss) == 0, "C02-R1", "Resolvable.walkNode/covers-node-kinds", p.Pos(sw.Stmt.Pos()), "walkNode has an arm for each of the "+itoa(len(kinds))+" node kinds",
				"node kinds without an arm: "+strings.Join(miss, ", ")+" — the default arm returns false after the field key was already printed, so the response contains `\"key\":` followed by nothing (malformed JSON) for exactly the plans that contain such a node")
		}
	}
	r.Expect("C02-R1", "Node implementations in package resolve", len(kinds), 14)
	for _, sib := range []struct{ pkg, fn string }{
		{"resolve", "Resolvable.walkUnreachedItem"},
		{"postprocess", "collectAuthorizationCoordinates.collectNode"},
	} {
		fi := p.Func(sib.pkg, sib.fn)
		if fi == nil {
			r.Error("C02-R1: %s not found", sib.fn)
			continue
		}
		cov := map[string]bool{}
		for _, sw := range fw.TypeSwitches(fi, nil) {
			for k := range sw.Covered {
				cov[k] = true
			}
		}
		if nk := p.Named("resolve", "NodeKind"); nk != nil {
			for _, sw := range fw.ConstSwitches(fi, nk) {
				for k := range sw.Covered {
					cov[strings.TrimPrefix(k, "NodeKind")] = true
				}
			}
		}
		miss := fw.MissingFrom(cov, []string{"Object", "Array"})
		r.Check(len(miss) == 0, "C02-R1", sib.fn+"/descends-composites", fi.Pos(), sib.fn+" descends into Object and Array nodes like the renderer",
			"composite kinds not descended into: "+strings.Join(miss, ", ")+" — the sibling walk sees a different plan than the renderer")
	}

	// ---- R2 every error exit recorded ----------------------------------------------------------------
	r.Rule("C02-R2", "every exit of a Resolvable walk function that returns r.err() has recorded an error on every path (validation pass); a result forwarded from a child walk is exempt")
	nErrExits := 0
	for _, fi := range p.Funcs("resolve") {
		if !strings.HasPrefix(fi.Name(), "Resolvable.walk") {
			continue
		}
		in := fw.NewInterp(fi)
		in.H = fw.Hooks{
			Lit: func(l *ast.FuncLit, ctx fw.LitCtx, st *fw.State) fw.LitMode {
				if ctx.Deferred {
					return fw.LitOnce
				}
				return fw.LitSkip
			},
			Cond: func(e ast.Expr, branch bool, st *fw.State) {
				// errors are recorded in the validation pass only (by design): the render-pass side of an
				// r.render() test counts as "recorded or not needed" — one fact, so that it survives the join
				if c, ok := ast.Unparen(e).(*ast.CallExpr); ok && fw.CallIs(info, c, "resolve", "Resolvable.render") && branch {
					st.Set("recorded")
				}
			},
			Node: func(nd ast.Node, st *fw.State) {
				if c, ok := nd.(*ast.CallExpr); ok {
					if fn := fw.Callee(info, c); fn != nil && fw.TypeIs(recvType(fn), "resolve", "Resolvable") && c02Recorders[fn.Name()] {
						st.Set("recorded")
					}
				}
				for _, t := range fw.WriteTargets(info, nd) {
					if fw.IsFieldSel(info, t, "resolve", "Resolvable", "authorizationError") {
						st.Set("recorded")
					}
				}
			},
			Exit: func(ret *ast.ReturnStmt, lit *ast.FuncLit, st *fw.State) {
				if ret == nil || lit != nil || !in.Final() || len(ret.Results) != 1 {
					return
				}
				c, ok := ast.Unparen(ret.Results[0]).(*ast.CallExpr)
				if !ok || !fw.CallIs(info, c, "resolve", "Resolvable.err") {
					return
				}
				nErrExits++
				r.Check(st.Must("recorded"), "C02-R2", fi.Name()+"/error-exit-recorded", p.Pos(ret.Pos()), "`return r.err()` in "+fi.Name()+" follows a recorded error",
					"an error exit is reachable on which no error was recorded (addError*/addNonNullableFieldError/addValueCompletion*/…): data is nulled (null propagation) but the response carries no error entry for that position")
			},
		}
		in.Run(nil)
	}
	r.Expect("C02-R2", "`return r.err()` exits in walk functions", nErrExits, 23)

	// ---- R3 leaf walkers --------------------------------------------------------------------------------
	r.Rule("C02-R3", "every leaf walker tests null-ness of the selected value before any JSON-kind test and, on the null edge, renders null only under Nullable and otherwise records the non-null violation")
	nLeaf := 0
	for _, kind := range kinds {
		fi := p.Func("resolve", "Resolvable.walk"+strings.TrimSuffix(kind, "Node"))
		if fi == nil || kind == "Object" || kind == "Array" {
			continue
		}
		sig := fi.Obj.Type().(*types.Signature)
		if sig.Params().Len() != 2 {
			continue // static nodes: no data access
		}
		nodeParam, valueParam := sig.Params().At(0), sig.Params().At(1)
		nLeaf++
		isNullTest := func(a fw.CondAtom, wantNull bool) bool {
			// astjson.ValueIsNull(value) / value == nil / value.Type() == TypeNull
			if c, ok := ast.Unparen(a.X).(*ast.CallExpr); ok && (a.Kind == "True" || a.Kind == "False") {
				if fn := fw.Callee(info, c); fn != nil && (fn.Name() == "ValueIsNull" || fn.Name() == "ValueIsNonNull") && len(c.Args) == 1 && fw.RootObj(info, c.Args[0]) == valueParam {
					isNull := (fn.Name() == "ValueIsNull") == (a.Kind == "True")
					return isNull == wantNull
				}
			}
			return false
		}
		typeCalls, nullExits := 0, 0
		in := fw.NewInterp(fi)
		in.H = fw.Hooks{
			Cond: func(e ast.Expr, branch bool, st *fw.State) {
				a := fw.Atom(info, e, branch)
				if isNullTest(a, false) {
					st.Set("non-null")
				}
				if isNullTest(a, true) {
					st.Set("is-null")
				}
				if a.Kind == "True" {
					if v, sel := fw.Field(info, a.X); v != nil && v.Name() == "Nullable" && fw.RootObj(info, sel.X) == nodeParam {
						st.Set("nullable")
					}
				}
			},
			Node: func(nd ast.Node, st *fw.State) {
				c, ok := nd.(*ast.CallExpr)
				if !ok {
					return
				}
				fn := fw.Callee(info, c)
				if fn == nil {
					return
				}
				if fn.Name() == "addNonNullableFieldError" {
					st.Set("violation-recorded")
				}
				if fn.Name() == "Type" && fn.Pkg() != nil && fn.Pkg().Path() == "github.com/wundergraph/astjson" && in.Final() {
					if sel, ok := ast.Unparen(c.Fun).(*ast.SelectorExpr); ok && fw.RootObj(info, sel.X) == valueParam {
						typeCalls++
						r.Check(st.Must("non-null"), "C02-R3", fi.Name()+"/null-before-kind", p.Pos(c.Pos()), "value.Type() in "+fi.Name()+" is reached only after the value was found non-null",
							"the JSON kind is tested before null-ness: a null in a nullable position becomes a type error (or a nil value is dereferenced) instead of rendering null")
					}
				}
			},
			Exit: func(ret *ast.ReturnStmt, lit *ast.FuncLit, st *fw.State) {
				if ret == nil || !in.Final() || !st.Must("is-null") {
					return
				}
				nullExits++
				r.Check(st.Must("nullable") || st.Must("violation-recorded"), "C02-R3", fi.Name()+"/null-edge", p.Pos(ret.Pos()), "exit of "+fi.Name()+" on the null edge: null rendered under Nullable, otherwise the non-null violation is recorded",
					"on the null edge the walker returns without consulting Nullable / without addNonNullableFieldError: a null in a non-null position is rendered as null with no error and no propagation to the nearest nullable ancestor")
			},
		}
		in.Run(nil)
		if typeCalls+nullExits == 0 {
			r.Note("C02-R3: %s has neither a kind test nor a null edge (no obligation)", fi.Name())
		}
	}
	r.Expect("C02-R3", "leaf walkers with data access", nLeaf, 8)

	// ---- R4 mutate only in the validation pass ------------------------------------------------------------
	r.Rule("C02-R4", "the JSON tree is nulled (astjson.SetNull / SetArrayItem) only in the validation pass; the two idempotent sites of walkArray are frozen")
	nMut := 0
	for _, fi := range p.Funcs("resolve") {
		if !strings.HasPrefix(fi.Name(), "Resolvable.walk") {
			continue
		}
		in := fw.NewInterp(fi)
		in.H = fw.Hooks{
			Cond: func(e ast.Expr, branch bool, st *fw.State) {
				if c, ok := ast.Unparen(e).(*ast.CallExpr); ok && fw.CallIs(info, c, "resolve", "Resolvable.render") {
					if branch {
						st.Set("render-pass")
					} else {
						st.Set("pre-walk")
					}
				}
			},
			Node: func(nd ast.Node, st *fw.State) {
				c, ok := nd.(*ast.CallExpr)
				if !ok || !in.Final() {
					return
				}
				fn := fw.Callee(info, c)
				if fn == nil || fn.Pkg() == nil || fn.Pkg().Path() != "github.com/wundergraph/astjson" || (fn.Name() != "SetNull" && fn.Name() != "SetArrayItem" && fn.Name() != "SetValue") {
					return
				}
				nMut++
				key := fi.Name() + "/mutates-only-in-pre-walk:" + fn.Name()
				if fi.Name() == "Resolvable.walkArray" {
					r.Pass("C02-R4", key, p.Pos(c.Pos()), fn.Name()+" in walkArray (frozen: idempotent — the validation pass already nulled the same position, the render pass repeats it on identical data)", true)
					return
				}
				r.Check(st.Must("pre-walk") || !st.May("render-pass") && preWalkOnlyAfterRenderReturn(fi, c), "C02-R4", key, p.Pos(c.Pos()), fn.Name()+" in "+fi.Name()+" runs only in the validation pass",
					"the response tree is mutated while it is being rendered: the two passes disagree (errors were recorded for one shape, another is printed)")
			},
		}
		in.Run(nil)
	}
	r.Expect("C02-R4", "tree mutations in walk functions", nMut, 5)

	// ---- R5 balanced stacks -----------------------------------------------------------------------------
	r.Rule("C02-R5", "the renderer's bookkeeping stacks (Resolvable slice fields grown by append and shrunk by re-slicing, and the push*/pop* helper pairs) are balanced on every exit of every walk function")
	nPush := 0
	for _, fi := range p.Funcs("resolve") {
		if fi.Decl.Recv == nil || !strings.HasPrefix(fi.Name(), "Resolvable.") {
			continue
		}
		if strings.HasPrefix(fi.Obj.Name(), "push") || strings.HasPrefix(fi.Obj.Name(), "pop") {
			continue
		}
		pushes := 0
		in := fw.NewInterp(fi)
		stackEvent := func(nd ast.Node) (string, int) {
			switch x := nd.(type) {
			case *ast.CallExpr:
				if fn := fw.Callee(info, x); fn != nil && fw.TypeIs(recvType(fn), "resolve", "Resolvable") {
					if strings.HasPrefix(fn.Name(), "push") {
						return strings.TrimPrefix(fn.Name(), "push"), +1
					}
					if strings.HasPrefix(fn.Name(), "pop") {
						return strings.TrimPrefix(fn.Name(), "pop"), -1
					}
				}
			case *ast.AssignStmt:
				if len(x.Lhs) == 1 && len(x.Rhs) == 1 {
					v, sel := fw.Field(info, x.Lhs[0])
					if v == nil {
						return "", 0
					}
					if _, tn := fw.FieldOwner(info, sel); tn != "Resolvable" {
						return "", 0
					}
					lk := fw.ExprKey(info, x.Lhs[0])
					if c, ok := ast.Unparen(x.Rhs[0]).(*ast.CallExpr); ok && fw.Builtin(info, c) == "append" && len(c.Args) == 2 && fw.ExprKey(info, c.Args[0]) == lk && !c.Ellipsis.IsValid() {
						return v.Name(), +1
					}
					if se, ok := ast.Unparen(x.Rhs[0]).(*ast.SliceExpr); ok && fw.ExprKey(info, se.X) == lk && se.Low == nil && se.High != nil {
						if b, ok := ast.Unparen(se.High).(*ast.BinaryExpr); ok && b.Op.String() == "-" {
							if one, ok := fw.ConstVal(info, b.Y); ok && one == "1" {
								return v.Name(), -1
							}
						}
					}
				}
			}
			return "", 0
		}
		in.H = fw.Hooks{
			Lit: func(l *ast.FuncLit, ctx fw.LitCtx, st *fw.State) fw.LitMode {
				if ctx.Deferred {
					return fw.LitOnce
				}
				return fw.LitSkip
			},
			Node: func(nd ast.Node, st *fw.State) {
				name, d := stackEvent(nd)
				if d > 0 {
					st.Inc("open:" + name)
					if in.Final() {
						pushes++
					}
				} else if d < 0 {
					st.Dec("open:" + name)
				}
			},
			Exit: func(ret *ast.ReturnStmt, lit *ast.FuncLit, st *fw.State) {
				if lit != nil || !in.Final() {
					return
				}
				var open []string
				for k, v := range st.F {
					if strings.HasPrefix(k, "open:") && v.Max > 0 {
						open = append(open, strings.TrimPrefix(k, "open:"))
					}
				}
				if pushes == 0 && len(open) == 0 {
					return
				}
				sort.Strings(open)
				pos := fi.Decl.End()
				if ret != nil {
					pos = ret.Pos()
				}
				r.Check(len(open) == 0, "C02-R5", fi.Name()+"/stacks-balanced", p.Pos(pos), "exit of "+fi.Name()+" leaves every bookkeeping stack as it found it",
					"an exit is reachable with an element still pushed on: "+strings.Join(open, ", ")+" — later siblings are evaluated against a stale runtime type / reported under a wrong response path (the validation pass skips a field the render pass prints: null in a non-null position without an error, or malformed JSON)")
			},
		}
		in.Run(nil)
		nPush += pushes
	}
	r.Expect("C02-R5", "stack pushes in Resolvable methods", nPush, 8)
}

// preWalkOnlyAfterRenderReturn: the site comes after an `if r.render() { … return/continue }` block in the same
// statement list, i.e. it is only reached in the validation pass although no `!r.render()` encloses it.
func preWalkOnlyAfterRenderReturn(fi *fw.FuncInfo, site *ast.CallExpr) bool {
	info := fi.Info()
	ok := false
	in := fw.NewInterp(fi)
	in.H = fw.Hooks{
		Cond: func(e ast.Expr, branch bool, st *fw.State) {
			if c, isC := ast.Unparen(e).(*ast.CallExpr); isC && fw.CallIs(info, c, "resolve", "Resolvable.render") && !branch {
				st.Set("pre-walk")
			}
		},
		Node: func(nd ast.Node, st *fw.State) {
			if nd == ast.Node(site) && in.Final() {
				ok = st.Must("pre-walk")
			}
		},
	}
	in.Run(nil)
	return ok
}

// c02CopyPreserves (R6): the Copy() methods of the response-plan nodes (and of Field) keep every field of the node that the
// renderer (methods of Resolvable) reads. postprocess.mergeFields copies nodes when it splits a field by type name; a
// field dropped by Copy() is a zero value for the renderer — e.g. without PossibleTypes an abstract object is no longer
// validated against its possible runtime types.
func c02CopyPreserves(r *fw.Run) {
	p := r.Prog
	r.Rule("C02-R6", "Copy() of every response-plan node type (and of Field) keeps every field that the planner fills in and the renderer (a method of Resolvable) reads")
	pk := p.Pkg("resolve")
	info := pk.TypesInfo
	// fields read by the renderer, per struct type name
	reads := map[string]map[string]bool{}
	for _, fi := range p.Funcs("resolve") {
		if fi.Decl.Recv == nil || !strings.HasPrefix(fi.Name(), "Resolvable.") {
			continue
		}
		fw.WalkAll(fi.Decl.Body, func(nd ast.Node) bool {
			sel, ok := nd.(*ast.SelectorExpr)
			if !ok {
				return true
			}
			v, s2 := fw.Field(info, sel)
			if v == nil {
				return true
			}
			if pkgPath, tn := fw.FieldOwner(info, s2); tn != "" && strings.HasSuffix(pkgPath, "/engine/resolve") {
				if reads[tn] == nil {
					reads[tn] = map[string]bool{}
				}
				reads[tn][v.Name()] = true
			}
			return true
		})
	}
	// fields the planner fills in (keys of composite literals of resolve types, and assignments, in package plan):
	// state that exists before post-processing copies anything
	planned := map[string]map[string]bool{}
	if ppk := p.Pkg("plan"); ppk == nil {
		r.Error("C02-R6: package plan not loaded")
		return
	} else {
		pinfo := ppk.TypesInfo
		note := func(tn, f string) {
			if planned[tn] == nil {
				planned[tn] = map[string]bool{}
			}
			planned[tn][f] = true
		}
		for _, fi := range p.Funcs("plan") {
			fw.WalkAll(fi.Decl.Body, func(nd ast.Node) bool {
				switch x := nd.(type) {
				case *ast.CompositeLit:
					if n, isN := pinfo.TypeOf(x).(*types.Named); isN && n.Obj().Pkg() != nil && strings.HasSuffix(n.Obj().Pkg().Path(), "/engine/resolve") {
						for _, el := range x.Elts {
							if kv, isKV := el.(*ast.KeyValueExpr); isKV {
								note(n.Obj().Name(), types.ExprString(kv.Key))
							}
						}
					}
				case *ast.AssignStmt:
					for _, l := range x.Lhs {
						if v, s2 := fw.Field(pinfo, l); v != nil {
							if pkgPath, owner := fw.FieldOwner(pinfo, s2); strings.HasSuffix(pkgPath, "/engine/resolve") {
								note(owner, v.Name())
							}
						}
					}
				}
				return true
			})
		}
	}
	frozen := map[string]string{
		"Array.SkipItem": "only arrays of the introspection fields (__Type.fields / enumValues) carry SkipItem, and every type of the introspection schema is concrete: none of their ancestors can have several type conditions, so such an array is never below a field that post-processing copies",
	}
	nCopies, nFields := 0, 0
	for _, fi := range p.Funcs("resolve") {
		if fi.Decl.Recv == nil || fi.Obj.Name() != "Copy" {
			continue
		}
		tn := strings.TrimSuffix(fi.Name(), ".Copy")
		named := p.Named("resolve", tn)
		if named == nil {
			continue
		}
		st, ok := named.Underlying().(*types.Struct)
		if !ok || st.NumFields() == 0 {
			continue
		}
		// only plan nodes: implementers of Node, and Field
		if tn != "Field" {
			isNode := false
			for _, im := range fw.Implementers(pk.Types, p.Named("resolve", "Node").Underlying().(*types.Interface)) {
				if im.Obj().Name() == tn {
					isNode = true
				}
			}
			if !isNode {
				continue
			}
		}
		// fields set in the literal(s) of type tn returned by Copy; a copy by value (*x / x := *s) preserves everything
		set := map[string]bool{}
		wholesale := false
		fw.WalkAll(fi.Decl.Body, func(nd ast.Node) bool {
			switch x := nd.(type) {
			case *ast.CompositeLit:
				if t := info.TypeOf(x); t != nil {
					if n, isN := t.(*types.Named); isN && n.Obj().Name() == tn {
						for _, el := range x.Elts {
							if kv, isKV := el.(*ast.KeyValueExpr); isKV {
								set[types.ExprString(kv.Key)] = true
							}
						}
					}
				}
			case *ast.StarExpr:
				if t := info.TypeOf(x); t != nil {
					if n, isN := t.(*types.Named); isN && n.Obj().Name() == tn {
						wholesale = true
					}
				}
			case *ast.AssignStmt:
				// c.F = … after the literal
				for _, l := range x.Lhs {
					if v, s2 := fw.Field(info, l); v != nil {
						if _, owner := fw.FieldOwner(info, s2); owner == tn {
							set[v.Name()] = true
						}
					}
				}
			}
			return true
		})
		nCopies++
		for i := 0; i < st.NumFields(); i++ {
			f := st.Field(i).Name()
			if !reads[tn][f] || !planned[tn][f] {
				continue
			}
			nFields++
			if why, ok := frozen[tn+"."+f]; ok {
				r.Pass("C02-R6", tn+".Copy/preserves:"+f, fi.Pos(), tn+"."+f+" (frozen: "+why+")", false)
				continue
			}
			r.Check(wholesale || set[f], "C02-R6", tn+".Copy/preserves:"+f, fi.Pos(), tn+".Copy() keeps "+f+", which the renderer reads",
				"the copy leaves "+tn+"."+f+" at its zero value although Resolvable reads it: a node that post-processing copied (a field selected under several type conditions) is rendered differently from its original — for Object.PossibleTypes/TypeName/InaccessibleTypes the abstract-type check of the value's __typename is skipped and an invalid or inaccessible type reaches the client without an error")
		}
	}
	r.Expect("C02-R6", "Copy methods of plan nodes", nCopies, 10)
	r.Expect("C02-R6", "renderer-read fields of copied nodes", nFields, 20)
}

// c02CommaFlags (R7, added after a seeded change dropped one `writeComma = true`): where a renderer function separates the
// optional members of a JSON object with a local flag (`if flag { print(comma) }` before a member), every section that
// prints a member and is followed by another section testing the flag sets the flag. Otherwise two members are written
// without a separator for exactly the option combination that enables both.
func c02CommaFlags(r *fw.Run) {
	p := r.Prog
	r.Rule("C02-R7", "in renderer functions that separate optional JSON members with a local comma flag, every member-printing section that precedes another section testing the flag sets the flag to true")
	info := p.Pkg("resolve").TypesInfo
	isPrint := func(c *ast.CallExpr) bool {
		fn := fw.Callee(info, c)
		if fn == nil || !strings.HasPrefix(fn.Name(), "print") {
			return false
		}
		sig, _ := fn.Type().(*types.Signature)
		return sig != nil && sig.Recv() != nil && fw.RecvName(sig.Recv().Type()) == "Resolvable"
	}
	isCommaPrint := func(st ast.Stmt) bool {
		es, ok := st.(*ast.ExprStmt)
		if !ok {
			return false
		}
		c, ok := es.X.(*ast.CallExpr)
		if !ok || !isPrint(c) || len(c.Args) != 1 {
			return false
		}
		o := fw.RootObj(info, c.Args[0])
		return o != nil && o.Name() == "comma" && o.Parent() == o.Pkg().Scope()
	}
	// flagTest: `if F { print(comma) }` → F
	flagTest := func(st ast.Stmt) types.Object {
		is, ok := st.(*ast.IfStmt)
		if !ok || is.Init != nil || is.Else != nil || len(is.Body.List) != 1 || !isCommaPrint(is.Body.List[0]) {
			return nil
		}
		id, ok := ast.Unparen(is.Cond).(*ast.Ident)
		if !ok {
			return nil
		}
		return info.Uses[id]
	}
	nFlags, nSections := 0, 0
	for _, fi := range p.Funcs("resolve") {
		if fi.Decl.Recv == nil || !strings.HasPrefix(fi.Name(), "Resolvable.") {
			continue
		}
		top := fi.Decl.Body.List
		// which flags are tested in which top-level statement
		tests := make([]map[types.Object]bool, len(top))
		flags := map[types.Object]bool{}
		for i, st := range top {
			tests[i] = map[types.Object]bool{}
			fw.WalkAll(st, func(nd ast.Node) bool {
				if s2, ok := nd.(ast.Stmt); ok {
					if f := flagTest(s2); f != nil {
						tests[i][f] = true
						flags[f] = true
					}
				}
				return true
			})
		}
		for f := range flags {
			nFlags++
			ord := 0
			for i, st := range top {
				is, ok := st.(*ast.IfStmt)
				if !ok {
					continue
				}
				prints := false
				sets := false
				fw.WalkAll(is.Body, func(nd ast.Node) bool {
					switch x := nd.(type) {
					case *ast.CallExpr:
						if isPrint(x) && !(len(x.Args) == 1 && fw.RootObj(info, x.Args[0]) != nil && fw.RootObj(info, x.Args[0]).Name() == "comma") {
							prints = true
						}
					case *ast.AssignStmt:
						for j, l := range x.Lhs {
							if id, ok := l.(*ast.Ident); ok && info.Uses[id] == f && j < len(x.Rhs) {
								if cv, isC := fw.ConstVal(info, x.Rhs[j]); isC && cv == "true" {
									sets = true
								}
							}
						}
					}
					return true
				})
				if !prints {
					continue
				}
				later := false
				for j := i + 1; j < len(top); j++ {
					if tests[j][f] {
						later = true
					}
				}
				if !later {
					continue
				}
				ord++
				nSections++
				r.Check(sets, "C02-R7", fi.Name()+"/section"+itoa(ord)+"-sets:"+f.Name(), p.Pos(is.Pos()), "member section "+itoa(ord)+" of "+fi.Name()+" sets "+f.Name(),
					"this section prints a member of the JSON object but does not set "+f.Name()+", and a later section prints its separator only when the flag is set: when both sections are enabled the two members are written back to back without a comma — the response is not valid JSON (only for that combination of options, which no test enables together)")
			}
		}
	}
	r.Expect("C02-R7", "comma flags", nFlags, 1)
	r.Expect("C02-R7", "member sections followed by a flag test", nSections, 6)
}

// c02ErrorsIsAnArray (R8): every null propagation is reported by appending to Resolvable.errors / Loader.errors, and the
// append helper silently does nothing when the target is not a JSON array. The two fields therefore only ever hold nil (the
// array is created on first use) or an array: every assignment is nil, a fresh astjson.ArrayValue, the other errors field,
// or a value whose Type() was tested equal to astjson.TypeArray on the way. A subgraph event with `"errors": null` stored
// as it comes makes every later error of that response disappear.
func c02ErrorsIsAnArray(r *fw.Run) {
	p := r.Prog
	r.Rule("C02-R8", "Resolvable.errors and Loader.errors only ever hold nil or a JSON array: every assignment is nil, astjson.ArrayValue(…), the other errors field, or a value whose Type() was tested equal to TypeArray")
	info := p.Pkg("resolve").TypesInfo
	isErrorsField := func(e ast.Expr) bool {
		return fw.IsFieldSel(info, e, "resolve", "Resolvable", "errors") || fw.IsFieldSel(info, e, "resolve", "Loader", "errors")
	}
	n := 0
	for _, fi := range p.Funcs("resolve") {
		has := false
		fw.WalkAll(fi.Decl.Body, func(nd ast.Node) bool {
			for _, t := range fw.WriteTargets(info, nd) {
				if isErrorsField(t) {
					has = true
				}
			}
			return true
		})
		if !has {
			continue
		}
		in := fw.NewInterp(fi)
		in.H = fw.Hooks{
			Cond: func(e ast.Expr, branch bool, st *fw.State) {
				be, ok := ast.Unparen(e).(*ast.BinaryExpr)
				if !ok || (be.Op != token.EQL && be.Op != token.NEQ) || (be.Op == token.EQL) != branch {
					return
				}
				for _, pr := range [][2]ast.Expr{{be.X, be.Y}, {be.Y, be.X}} {
					c, isCall := ast.Unparen(pr[0]).(*ast.CallExpr)
					if !isCall {
						continue
					}
					sel, isSel := ast.Unparen(c.Fun).(*ast.SelectorExpr)
					if !isSel || sel.Sel.Name != "Type" {
						continue
					}
					if co := fw.ConstObj(info, pr[1]); co != nil && co.Name() == "TypeArray" {
						if o := fw.RootObj(info, sel.X); o != nil {
							st.Set("is-array:" + o.Name())
						}
					}
				}
			},
			Node: func(nd ast.Node, st *fw.State) {
				as, ok := nd.(*ast.AssignStmt)
				if !ok || !in.Final() {
					return
				}
				for i, l := range as.Lhs {
					if !isErrorsField(l) || i >= len(as.Rhs) {
						continue
					}
					n++
					rhs := ast.Unparen(as.Rhs[i])
					ok := false
					if id, isID := rhs.(*ast.Ident); isID && id.Name == "nil" {
						ok = true
					}
					if c, isCall := rhs.(*ast.CallExpr); isCall {
						if fn := fw.Callee(info, c); fn != nil && fn.Name() == "ArrayValue" {
							ok = true
						}
					}
					if isErrorsField(rhs) {
						ok = true
					}
					if o := fw.RootObj(info, rhs); o != nil && st.Must("is-array:"+o.Name()) {
						if _, isID := rhs.(*ast.Ident); isID {
							ok = true
						}
					}
					r.Check(ok, "C02-R8", fi.Name()+"/errors-assigned-an-array#"+itoa(n), p.Pos(as.Pos()), "the errors field is assigned nil, a fresh array, the loader's array, or a value tested to be an array in "+fi.Name(),
						"a value of unknown JSON kind is stored as the errors array (e.g. `\"errors\": null` of a subscription event): it is not nil, so the array is never created, and appending to a non-array silently does nothing — every null-propagation error of that response disappears and the client receives nulled data without any error")
				}
			},
		}
		in.Run(nil)
	}
	r.Expect("C02-R8", "assignments of the errors fields", n, 14)
}

// c02SetNullNeedsAPath (R9): an Object or Array that is the item of a list has an empty Path. astjson.SetNull(parent,
// path...) indexes path[len(path)-1], so calling it with the Path of such a node panics. Every SetNull whose path is the
// Path of an Object/Array node is dominated by the test len(node.Path) > 0 (the walkers of objects do this; a list item is
// nulled by the enclosing list instead).
func c02SetNullNeedsAPath(r *fw.Run) {
	p := r.Prog
	r.Rule("C02-R9", "astjson.SetNull(parent, node.Path...) for an Object / Array node is dominated by len(node.Path) > 0 (a list item has an empty path; SetNull indexes the last path element)")
	info := p.Pkg("resolve").TypesInfo
	n := 0
	for _, fi := range p.Funcs("resolve") {
		if fi.Decl.Recv == nil || !strings.HasPrefix(fi.Name(), "Resolvable.") {
			continue
		}
		has := false
		fw.WalkAll(fi.Decl.Body, func(nd ast.Node) bool {
			if c, ok := nd.(*ast.CallExpr); ok {
				if fn := fw.Callee(info, c); fn != nil && fn.Name() == "SetNull" && c.Ellipsis.IsValid() {
					has = true
				}
			}
			return true
		})
		if !has {
			continue
		}
		in := fw.NewInterp(fi)
		in.H = fw.Hooks{
			Cond: func(e ast.Expr, branch bool, st *fw.State) {
				a := fw.Atom(info, e, branch)
				if a.Kind == "NonEmpty" {
					st.Set("nonempty:" + fw.ExprKey(info, a.X))
				}
			},
			Node: func(nd ast.Node, st *fw.State) {
				c, ok := nd.(*ast.CallExpr)
				if !ok || !in.Final() {
					return
				}
				fn := fw.Callee(info, c)
				if fn == nil || fn.Name() != "SetNull" || !c.Ellipsis.IsValid() || len(c.Args) < 3 {
					return
				}
				path := c.Args[len(c.Args)-1]
				v, sel := fw.Field(info, path)
				if v == nil || v.Name() != "Path" {
					return
				}
				if _, owner := fw.FieldOwner(info, sel); owner != "Object" && owner != "Array" {
					return
				}
				n++
				r.Check(st.Must("nonempty:"+fw.ExprKey(info, path)), "C02-R9", fi.Name()+"/set-null-needs-a-path#"+itoa(n), p.Pos(c.Pos()), "SetNull("+types.ExprString(path)+"...) in "+fi.Name()+" is dominated by len("+types.ExprString(path)+") > 0",
					"the node can be the item of a list, where its Path is empty: SetNull then indexes path[-1] and the request panics — e.g. [[Int!]] answered with [[1,2],[3,null]]: the inner list tries to null itself through an empty path instead of letting the outer list null the item")
			},
		}
		in.Run(nil)
	}
	r.Expect("C02-R9", "SetNull calls with the path of an Object/Array node", n, 3)
}

// c02ErrorPathNotDoubled (R10): the error recorders that take a field path (addError, addErrorWithCodeAndPath, …) push that
// path on the response-path stack themselves. They are therefore never called with a path P while P is already pushed by
// the calling walk function (between pushNodePathElement(P) and its pop) — the error would carry the last path segment
// twice, which is not the response path of the offending position.
func c02ErrorPathNotDoubled(r *fw.Run) {
	p := r.Prog
	r.Rule("C02-R10", "an error recorder that pushes its fieldPath argument itself is never called with a path that the calling walk function has currently pushed (the reported path is the response path of the offending position, not that path with its last segment doubled)")
	info := p.Pkg("resolve").TypesInfo
	// recorders: methods of Resolvable with a []string parameter that they hand to pushNodePathElement
	recorders := map[*types.Func]int{}
	for _, fi := range p.Funcs("resolve") {
		if fi.Decl.Recv == nil || !strings.HasPrefix(fi.Name(), "Resolvable.") || fi.Obj.Name() == "pushNodePathElement" {
			continue
		}
		sig := fi.Obj.Type().(*types.Signature)
		fw.WalkAll(fi.Decl.Body, func(nd ast.Node) bool {
			if c, ok := nd.(*ast.CallExpr); ok && fw.CallIs(info, c, "resolve", "Resolvable.pushNodePathElement") && len(c.Args) == 1 {
				if id, ok := ast.Unparen(c.Args[0]).(*ast.Ident); ok {
					for i := 0; i < sig.Params().Len(); i++ {
						if info.Uses[id] == sig.Params().At(i) {
							recorders[fi.Obj] = i
						}
					}
				}
			}
			return true
		})
	}
	n := 0
	for _, fi := range p.Funcs("resolve") {
		if fi.Decl.Recv == nil || !strings.HasPrefix(fi.Name(), "Resolvable.") {
			continue
		}
		if _, isRec := recorders[fi.Obj]; isRec {
			continue
		}
		pushes := false
		fw.WalkAll(fi.Decl.Body, func(nd ast.Node) bool {
			if c, ok := nd.(*ast.CallExpr); ok && fw.CallIs(info, c, "resolve", "Resolvable.pushNodePathElement") {
				pushes = true
			}
			return true
		})
		if !pushes {
			continue
		}
		in := fw.NewInterp(fi)
		in.H = fw.Hooks{
			Node: func(nd ast.Node, st *fw.State) {
				c, ok := nd.(*ast.CallExpr)
				if !ok {
					return
				}
				if fw.CallIs(info, c, "resolve", "Resolvable.pushNodePathElement") && len(c.Args) == 1 {
					st.Set("pushed:" + fw.ExprKey(info, c.Args[0]))
					return
				}
				if fw.CallIs(info, c, "resolve", "Resolvable.popNodePathElement") && len(c.Args) == 1 {
					st.Kill("pushed:" + fw.ExprKey(info, c.Args[0]))
					return
				}
				fn := fw.Callee(info, c)
				idx, isRec := recorders[fn]
				if !isRec || idx >= len(c.Args) || !in.Final() {
					return
				}
				arg := c.Args[idx]
				if id, isID := ast.Unparen(arg).(*ast.Ident); isID && id.Name == "nil" {
					return
				}
				n++
				r.Check(!st.May("pushed:"+fw.ExprKey(info, arg)), "C02-R10", fi.Name()+"/"+fn.Name()+"-path-not-already-pushed#"+itoa(n), p.Pos(c.Pos()), fn.Name()+"(…, "+types.ExprString(arg)+") in "+fi.Name()+" is called while "+types.ExprString(arg)+" is not on the path stack",
					"the recorder pushes "+types.ExprString(arg)+" itself, and the walk function has already pushed it: the error carries the last path segment twice (e.g. [\"o\",\"o\"]) — not the response path of the offending position")
			},
		}
		in.Run(nil)
	}
	r.Expect("C02-R10", "calls of path-pushing error recorders in walk functions that push a path", n, 1)
}

// c02BinarySearchNeedsSortedWriter (R11): the renderer decides "valid / accessible value" and "type is possible" by looking
// a name up in lists the planner filled (Enum.Values, Enum.InaccessibleValues, …) — in schema declaration order. A binary
// search over such a field answers "absent" for present elements unless every writer of the field sorts what it stores:
// with two or more unsorted @inaccessible values the inaccessible ones are rendered verbatim, with no error. The rule is a
// writer/reader agreement with (today) zero readers: every slices.BinarySearch* / sort.Search* / sort.Find over a field of
// a plan node requires that each function writing that field also sorts the stored value. The positive control is the
// seeded mutant of the thorough tier.
func c02BinarySearchNeedsSortedWriter(r *fw.Run) {
	p := r.Prog
	r.Rule("C02-R11", "a binary search over a field of a plan node (slices.BinarySearch*, sort.Search*, sort.Find) is allowed only if every function that writes that field sorts the stored value (the planner fills these lists in schema order)")
	isSearch := func(fn *types.Func) bool {
		if fn == nil || fn.Pkg() == nil {
			return false
		}
		switch fn.Pkg().Path() {
		case "slices":
			return strings.HasPrefix(fn.Name(), "BinarySearch")
		case "sort":
			return strings.HasPrefix(fn.Name(), "Search") || fn.Name() == "Find"
		}
		return false
	}
	isSort := func(fn *types.Func) bool {
		if fn == nil || fn.Pkg() == nil {
			return false
		}
		switch fn.Pkg().Path() {
		case "slices":
			return strings.HasPrefix(fn.Name(), "Sort")
		case "sort":
			return fn.Name() == "Strings" || fn.Name() == "Ints" || fn.Name() == "Slice" || fn.Name() == "SliceStable" || fn.Name() == "Sort" || fn.Name() == "Stable"
		}
		return false
	}
	pkgs := []string{"resolve", "plan", "postprocess"}
	nSearch, nScanned := 0, 0
	for _, pa := range pkgs {
		for _, fi := range p.Funcs(pa) {
			info := fi.Info()
			fw.WalkAll(fi.Decl.Body, func(nd ast.Node) bool {
				c, ok := nd.(*ast.CallExpr)
				if !ok {
					return true
				}
				nScanned++
				if !isSearch(fw.Callee(info, c)) || len(c.Args) == 0 {
					return true
				}
				fv, _ := fw.Field(info, c.Args[0])
				if fv == nil {
					return true
				}
				nSearch++
				// every writer of fv sorts
				unsorted := ""
				for _, pb := range pkgs {
					for _, w := range p.Funcs(pb) {
						wi := w.Info()
						writes, sorts := false, false
						fw.WalkAll(w.Decl.Body, func(m ast.Node) bool {
							switch x := m.(type) {
							case *ast.AssignStmt:
								for _, l := range x.Lhs {
									if f2, _ := fw.Field(wi, l); f2 == fv {
										writes = true
									}
								}
							case *ast.KeyValueExpr:
								if id, isID := x.Key.(*ast.Ident); isID && wi.Uses[id] == fv {
									writes = true
								}
							case *ast.CallExpr:
								if isSort(fw.Callee(wi, x)) {
									sorts = true
								}
							}
							return true
						})
						if writes && !sorts && unsorted == "" {
							unsorted = w.QName()
						}
					}
				}
				r.Check(unsorted == "", "C02-R11", fi.Name()+"/binary-search-over:"+fv.Name()+"#"+itoa(nSearch), p.Pos(c.Pos()), "the binary search over "+fv.Name()+" in "+fi.Name()+" reads a field all of whose writers sort it",
					"the field is written by "+unsorted+" without sorting (the planner stores schema declaration order): the binary search misses elements that are present — e.g. an @inaccessible enum value is judged accessible and rendered verbatim with no error")
				return true
			})
		}
	}
	r.Pass("C02-R11", "binary-searches-scanned", "-", "all "+itoa(nScanned)+" calls of resolve, plan and postprocess examined; "+itoa(nSearch)+" binary searches over plan-node fields", nScanned > 0)
}

// c02StringContentNeverPrintedRaw (R12): (*astjson.Value).GetStringBytes returns the *unescaped* content of a JSON string a
// subgraph sent. Written to the response between two quote bytes it is not a JSON string any more: a value containing a
// quote or a backslash makes the response unparsable, and `x","injected":"y` adds a sibling key to `data` — a string of one
// subgraph rewrites the structure of the response. The rule is a taint rule over the renderer: no argument of
// Resolvable.printBytes derives from GetStringBytes of a JSON value (the escaping sinks printNode / renderScalarFieldValue /
// MarshalTo, and renderScalarFieldBytes, which re-parses and fails loudly, are the sanctioned ways out).
func c02StringContentNeverPrintedRaw(r *fw.Run) {
	p := r.Prog
	r.Rule("C02-R12", "no argument of Resolvable.printBytes derives from the unescaped content of a subgraph string ((*astjson.Value).GetStringBytes) or from the key of a map of subgraph members (map[string]*astjson.Value): subgraph strings leave the renderer only through escaping or re-parsing sinks")
	nSinks, nTainted := 0, 0
	for _, fi := range p.Funcs("resolve") {
		if fw.RecvName(recvTypeOrNil(fi.Obj)) != "Resolvable" {
			continue
		}
		info := fi.Info()
		d := fw.NewPureDeriver(fi)
		isContent := func(e ast.Expr) bool {
			c, ok := e.(*ast.CallExpr)
			if !ok {
				return false
			}
			fn := fw.Callee(info, c)
			if fn == nil || fn.Name() != "GetStringBytes" {
				return false
			}
			sig, _ := fn.Type().(*types.Signature)
			return sig != nil && sig.Recv() != nil && strings.HasSuffix(sig.Recv().Type().String(), "astjson.Value") && len(c.Args) == 0
		}
		// an encoding call between source and sink cleans the value (json.Marshal, strconv.AppendQuote, MarshalTo)
		d.Barrier = func(e ast.Expr) bool {
			enc, isCall := e.(*ast.CallExpr)
			if !isCall {
				return false
			}
			fn := fw.Callee(info, enc)
			return fn != nil && (fn.Name() == "AppendQuote" || fn.Name() == "Marshal" || fn.Name() == "MarshalTo")
		}
		// second source: the key variable of a range over a map[string]*astjson.Value — such maps hold members copied from
		// subgraph objects (forwarded extensions), their keys are subgraph-controlled, unescaped strings
		subgraphKeys := map[types.Object]bool{}
		fw.WalkAll(fi.Decl.Body, func(nd ast.Node) bool {
			rs, ok := nd.(*ast.RangeStmt)
			if !ok || rs.Key == nil {
				return true
			}
			tv, okT := info.Types[rs.X]
			if !okT {
				return true
			}
			if m, isMap := tv.Type.Underlying().(*types.Map); isMap && strings.HasSuffix(m.Elem().String(), "astjson.Value") {
				if id, isID := rs.Key.(*ast.Ident); isID {
					if o := info.Defs[id]; o != nil {
						subgraphKeys[o] = true
					}
				}
			}
			return true
		})
		isSource := func(e ast.Expr) bool {
			if isContent(e) {
				return true
			}
			id, ok := e.(*ast.Ident)
			return ok && subgraphKeys[info.Uses[id]]
		}
		ord := 0
		fw.WalkAll(fi.Decl.Body, func(nd ast.Node) bool {
			c, ok := nd.(*ast.CallExpr)
			if !ok || !fw.CallIs(info, c, "resolve", "Resolvable.printBytes") || len(c.Args) != 1 {
				return true
			}
			nSinks++
			if d.Derives(c.Args[0], isSource) {
				nTainted++
				ord++
				r.Fail("C02-R12", fi.Name()+"/raw-string-content-printed#"+itoa(ord), p.Pos(c.Pos()), "string content of a subgraph value is never printed raw",
					"the unescaped content of a subgraph string is written to the response as is: a quote or backslash in it makes the response invalid JSON, and a value like `x\",\"injected\":\"y` closes the string and adds a sibling key to data")
			}
			return true
		})
	}
	r.Check(nTainted == 0, "C02-R12", "no-raw-string-content", "-", "none of the "+itoa(nSinks)+" printBytes calls of the renderer is fed from GetStringBytes()", "see the individual sites")
	r.Expect("C02-R12", "printBytes calls in Resolvable methods", nSinks, 100)
}

// c02AbstractnessNotByCountAlone (R13): an object without __typename is rejected where the position is abstract (its
// runtime type cannot be checked against the contract). A concrete position and an abstract position with exactly one
// accessible member both carry one possible type; they differ only in whether that type is the position's own type. The
// predicate that is conjoined with "the __typename is absent" therefore cannot be a function of the number of possible types
// alone: it has to read something else of the object (the type name, a membership test). The predicate is found by its role
// (the call tested together with the absence of the value read by GetStringBytes("__typename")), not by its name.
func c02AbstractnessNotByCountAlone(r *fw.Run) {
	p := r.Prog
	r.Rule("C02-R13", "the predicate that, together with an absent __typename, rejects an object is not a function of len(PossibleTypes) alone: a single-member abstract position and a concrete position have the same count")
	info := p.Pkg("resolve").TypesInfo
	n := 0
	seen := map[*fw.FuncInfo]bool{}
	for _, fi := range p.Funcs("resolve") {
		fw.WalkAll(fi.Decl.Body, func(nd ast.Node) bool {
			is, ok := nd.(*ast.IfStmt)
			if !ok {
				return true
			}
			op, leaves := fw.NNF(info, is.Cond, true)
			if op != "and" && op != "atom" {
				return true
			}
			absent := false
			var preds []*fw.FuncInfo
			for _, a := range leaves {
				switch a.Kind {
				case "Nil", "Empty":
					if id, isID := ast.Unparen(a.X).(*ast.Ident); isID && fromTypenameRead(fi, info, id) {
						absent = true
					}
				case "True":
					if c, isCall := ast.Unparen(a.X).(*ast.CallExpr); isCall {
						if callee := p.FuncOf(fw.Callee(info, c)); callee != nil && callee.Decl.Recv != nil {
							preds = append(preds, callee)
						}
					}
				}
			}
			if !absent {
				return true
			}
			for _, pred := range preds {
				if seen[pred] {
					continue
				}
				seen[pred] = true
				n++
				recv := receiverObj(pred)
				other := ""
				countOnly := 0
				var stack []ast.Node
				ast.Inspect(pred.Decl.Body, func(x ast.Node) bool {
					if x == nil {
						stack = stack[:len(stack)-1]
						return true
					}
					stack = append(stack, x)
					sel, isSel := x.(*ast.SelectorExpr)
					if !isSel {
						return true
					}
					if id, isID := ast.Unparen(sel.X).(*ast.Ident); !isID || recv == nil || info.ObjectOf(id) != recv {
						return true
					}
					if _, isField := info.ObjectOf(sel.Sel).(*types.Var); !isField {
						return true
					}
					// directly the argument of len(...)?
					for i := len(stack) - 2; i >= 0; i-- {
						if _, isParen := stack[i].(*ast.ParenExpr); isParen {
							continue
						}
						if c, isCall := stack[i].(*ast.CallExpr); isCall && fw.Builtin(info, c) == "len" {
							countOnly++
							return true
						}
						break
					}
					if other == "" {
						other = sel.Sel.Name
					}
					return true
				})
				r.Check(other != "", "C02-R13", pred.Name()+"/not-by-count-alone", p.Pos(pred.Decl.Pos()), pred.Name()+" (tested together with the absent __typename in "+fi.Name()+") reads more of the object than the number of its possible types",
					pred.Name()+" decides over len(PossibleTypes) alone: an abstract position with exactly one accessible member is taken for a concrete one, and an object without __typename is accepted there although its runtime type cannot be checked")
			}
			return true
		})
	}
	r.Expect("C02-R13", "predicates conjoined with an absent __typename", n, 1)
}

// fromTypenameRead: id is a variable assigned (anywhere in fi) from <v>.GetStringBytes("__typename") / Get("__typename").
func fromTypenameRead(fi *fw.FuncInfo, info *types.Info, id *ast.Ident) bool {
	obj := info.ObjectOf(id)
	if obj == nil {
		return false
	}
	found := false
	fw.WalkAll(fi.Decl.Body, func(nd ast.Node) bool {
		as, ok := nd.(*ast.AssignStmt)
		if !ok || len(as.Lhs) != 1 || len(as.Rhs) != 1 {
			return true
		}
		l, isID := as.Lhs[0].(*ast.Ident)
		if !isID || info.ObjectOf(l) != obj {
			return true
		}
		c, isCall := ast.Unparen(as.Rhs[0]).(*ast.CallExpr)
		if !isCall || len(c.Args) != 1 {
			return true
		}
		if v, isConst := fw.ConstVal(info, c.Args[0]); isConst && strings.Trim(v, "\"") == "__typename" {
			found = true
		}
		return true
	})
	return found
}

func receiverObj(fi *fw.FuncInfo) types.Object {
	if fi.Decl.Recv == nil || len(fi.Decl.Recv.List) == 0 || len(fi.Decl.Recv.List[0].Names) == 0 {
		return nil
	}
	return fi.Info().ObjectOf(fi.Decl.Recv.List[0].Names[0])
}

// c02UnmergeablePayloadsStaySoft (R14): whatever a subgraph answers, the client receives one well-formed GraphQL response:
// a payload the gateway cannot use becomes an entry of `errors` and null data for the positions it was meant for. A Go
// error returned by Loader.mergeResult aborts the whole operation instead — the resolver writes nothing at all. The merge
// of the subgraph's data into the response tree (astjson.MergeValuesWithPath) fails for payloads only a subgraph controls
// (`{"data":[1,2]}`, `{"data":"str"}` on a root fetch, an entity that echoes a key with another JSON kind), so its error
// must not become the function's error: no return statement of mergeResult carries an error that derives from a merge
// failure. (On today's tree three do; they are known findings, see DESIGN §4 K9.)
func c02UnmergeablePayloadsStaySoft(r *fw.Run) {
	p := r.Prog
	r.Rule("C02-R14", "Loader.mergeResult never returns a Go error that derives from a failed merge of subgraph-controlled data (astjson.MergeValues…): an unusable payload becomes an entry of errors, not the failure of the whole operation")
	fi := p.Func("resolve", "Loader.mergeResult")
	if fi == nil {
		r.Error("C02-R14: Loader.mergeResult not found")
		return
	}
	info := fi.Info()
	isMerge := func(e ast.Expr) bool {
		c, isCall := ast.Unparen(e).(*ast.CallExpr)
		if !isCall {
			return false
		}
		fn := fw.Callee(info, c)
		return fn != nil && strings.HasPrefix(fn.Name(), "MergeValues") && fn.Pkg() != nil && strings.HasSuffix(fn.Pkg().Path(), "/astjson")
	}
	// path-sensitive: an error variable holds a merge failure from the assignment of a merge call until it is re-assigned
	mergeErr := map[types.Object]bool{}
	n := 0
	seen := map[token.Pos]bool{}
	in := fw.NewInterp(fi)
	in.H = fw.Hooks{
		Lit: func(l *ast.FuncLit, ctx fw.LitCtx, st *fw.State) fw.LitMode { return fw.LitSkip },
		Node: func(nd ast.Node, st *fw.State) {
			switch x := nd.(type) {
			case *ast.AssignStmt:
				fromMerge := len(x.Rhs) == 1 && isMerge(x.Rhs[0])
				for i, l := range x.Lhs {
					id, isID := l.(*ast.Ident)
					if !isID || id.Name == "_" || info.ObjectOf(id) == nil {
						continue
					}
					if fromMerge && i == len(x.Lhs)-1 {
						mergeErr[info.ObjectOf(id)] = true
						st.Set("merge-err:" + id.Name)
					} else {
						st.Kill("merge-err:" + id.Name)
					}
				}
			case *ast.ReturnStmt:
				if !in.Final() || len(x.Results) != 1 || seen[x.Pos()] {
					return
				}
				derives := false
				fw.WalkAll(x.Results[0], func(m ast.Node) bool {
					if id, isID := m.(*ast.Ident); isID && mergeErr[info.ObjectOf(id)] && st.May("merge-err:"+id.Name) {
						derives = true
					}
					return true
				})
				if !derives {
					return
				}
				seen[x.Pos()] = true
				n++
				r.Fail("C02-R14", "Loader.mergeResult/merge-failure-returned#"+itoa(n), p.Pos(x.Pos()), "a failed merge of subgraph data in Loader.mergeResult is rendered as an error entry",
					"the error of merging the subgraph's data is returned as the error of mergeResult: the resolver aborts and the client receives no response at all — for a payload only the subgraph controls (`{\"data\":[1,2]}` on a root fetch, an entity echoing \"id\":11 where the parent holds \"id\":\"11\")")
			}
		},
	}
	in.Run(nil)
	if n == 0 {
		r.Pass("C02-R14", "Loader.mergeResult/no-merge-failure-returned", p.Pos(fi.Decl.Pos()), "no return of Loader.mergeResult carries the error of a failed merge ("+itoa(len(mergeErr))+" merge error variables)", len(mergeErr) > 0)
	}
}

// c02ArrayElementWordingReadsTheNode (R15): an error says where the offending value sits; its path is the response path of
// that position. A renderer that words and places an error as "array element … at index i" decides that from what it is
// given. A leaf that is an element of a list and a leaf that is a field of an object which is an element of a list are both
// rendered while the current path ends in an index (the field's own path is pushed later): the two states differ only in
// the node's own path, so a decision that does not read the node cannot tell them apart (an information argument, as for
// C02-R13). Rule: in every method of the Resolvable that takes the node it reports about as a parameter, a branch that
// calls the array-element wording is chosen by a condition that mentions that parameter.
func c02ArrayElementWordingReadsTheNode(r *fw.Run) {
	p := r.Prog
	r.Rule("C02-R15", "a Resolvable error renderer that is handed the node it reports about chooses the 'array element … at index' wording (and path) only under a condition that reads that node")
	n := 0
	for _, fi := range p.Funcs("resolve") {
		if fw.RecvNameOfFunc(fi.Obj) != "Resolvable" {
			continue
		}
		info := fi.Info()
		sig := fi.Obj.Type().(*types.Signature)
		var nodes []*types.Var
		for i := 0; i < sig.Params().Len(); i++ {
			if pt, ok := sig.Params().At(i).Type().(*types.Pointer); ok {
				if nt, isN := pt.Elem().(*types.Named); isN && nt.Obj().Pkg() == fi.Obj.Pkg() && planTypes[nt.Obj().Name()] {
					nodes = append(nodes, sig.Params().At(i))
				}
			}
		}
		if len(nodes) == 0 {
			continue
		}
		fw.WalkAll(fi.Decl.Body, func(nd ast.Node) bool {
			is, ok := nd.(*ast.IfStmt)
			if !ok {
				return true
			}
			words := false
			fw.WalkAll(is.Body, func(x ast.Node) bool {
				if c, isC := x.(*ast.CallExpr); isC {
					if fn := fw.Callee(info, c); fn != nil && fn.Name() == "writeArrayElementToBuffer" {
						words = true
					}
				}
				return true
			})
			if !words {
				return true
			}
			reads := false
			fw.WalkAll(is.Cond, func(x ast.Node) bool {
				if id, isID := x.(*ast.Ident); isID {
					for _, nv := range nodes {
						if info.Uses[id] == nv {
							reads = true
						}
					}
				}
				return true
			})
			n++
			r.Check(reads, "C02-R15", fi.Name()+"/array-element-decision-reads-the-node", p.Pos(is.Pos()), "the array-element wording in "+fi.Name()+" is chosen by a condition that reads the node",
				fi.Name()+" decides \"this value is an array element\" from the current path alone (it ends in an index): an enum *field* of an object that is itself a list element is rendered under the same path — `users: [User]`, `User.status: Status` with the inaccessible value `INTERNAL` in `users[1].status`: the error reads `Invalid value found for array element of type Status at index 1.` with path `[\"users\",1]`, the path of the surviving element, instead of `[\"users\",1,\"status\"]`")
			return true
		})
	}
	r.Expect("C02-R15", "array-element wordings chosen in renderers that are handed the node", n, 1)
}
