package rules

import (
	"go/ast"
	"strings"

	"verif/checker/fw"
)

// valueKindArmsOfVisitor looks at the methods of visitor type vt in package pkg: which ast.ValueKind constants they
// recognise (a switch arm, or a comparison with ValueKindVariable), and for which kinds the arm calls a method of the same
// visitor again (descends). Shared by the rules that need "variable uses are found at every depth of a literal".
func valueKindArmsOfVisitor(p *fw.Prog, pkg, vt string) (covered, descends map[string]bool) {
	covered, descends = map[string]bool{}, map[string]bool{}
	kindT := p.Named("ast", "ValueKind")
	if kindT == nil {
		return
	}
	for _, fi := range p.Funcs(pkg) {
		if !strings.HasPrefix(fi.Name(), vt+".") {
			continue
		}
		info := fi.Info()
		// a comparison with the constant recognises variable values as well as a switch arm does
		fw.WalkAll(fi.Decl.Body, func(nd ast.Node) bool {
			if b, ok := nd.(*ast.BinaryExpr); ok {
				for _, e := range []ast.Expr{b.X, b.Y} {
					if k := fw.ConstObj(info, e); k != nil && k.Name() == "ValueKindVariable" {
						covered["ValueKindVariable"] = true
					}
				}
			}
			return true
		})
		for _, sw := range fw.ConstSwitches(fi, kindT) {
			for _, c := range sw.Stmt.(*ast.SwitchStmt).Body.List {
				cc := c.(*ast.CaseClause)
				rec := false
				for _, st := range cc.Body {
					fw.WalkAll(st, func(nd ast.Node) bool {
						if call, ok := nd.(*ast.CallExpr); ok {
							if callee := p.FuncOf(fw.Callee(info, call)); callee != nil && strings.HasPrefix(callee.Name(), vt+".") {
								rec = true
							}
						}
						return true
					})
				}
				for _, e := range cc.List {
					if k := fw.ConstObj(info, e); k != nil {
						covered[k.Name()] = true
						if rec {
							descends[k.Name()] = true
						}
					}
				}
			}
		}
	}
	return
}
