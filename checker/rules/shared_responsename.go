package rules

import (
	"go/ast"
	"go/types"
	"strings"

	"verif/checker/fw"
)

// responseNamesNeverReachSchemaLookups: a field has two names — the name under which the schema defines it and the
// response name (alias, or the name when there is none) under which the client wants it. Everything that consults the
// schema or the planner configuration (field definitions by name, field configurations, root/child nodes of data sources)
// is keyed by the schema name; a response name handed to such a lookup works for every operation without aliases and fails
// (or finds another field) as soon as a client writes one. The rule is a taint analysis per function: sources are the
// results of the alias accessors of ast.Document (FieldAliasOrName…, FieldAlias…), followed through assignments; sinks are
// the arguments bound to a parameter that the callee declares as the schema-side field name (a parameter called fieldName
// of a function of packages ast, plan and the analysed packages themselves, and the name parameter of the by-name definition lookups of ast.Document).
// Returns the number of sink arguments examined.
func responseNamesNeverReachSchemaLookups(r *fw.Run, rule string, pkgs []string) int {
	p := r.Prog
	isSource := func(info *types.Info) func(ast.Expr) bool {
		return func(e ast.Expr) bool {
			c, ok := e.(*ast.CallExpr)
			if !ok {
				return false
			}
			fn := fw.Callee(info, c)
			if fn == nil || fn.Pkg() == nil || fn.Pkg().Path() != fw.PkgPath("ast") {
				return false
			}
			sig := fn.Type().(*types.Signature)
			if sig.Recv() == nil || !fw.TypeIs(sig.Recv().Type(), "ast", "Document") {
				return false
			}
			return strings.HasPrefix(fn.Name(), "FieldAlias")
		}
	}
	sinkParam := func(fn *types.Func) []int {
		if fn == nil || fn.Pkg() == nil {
			return nil
		}
		path := fn.Pkg().Path()
		own := false
		for _, alias := range pkgs {
			if path == fw.PkgPath(alias) {
				own = true
			}
		}
		if path != fw.PkgPath("ast") && path != fw.PkgPath("plan") && !own {
			return nil
		}
		sig := fn.Type().(*types.Signature)
		var out []int
		for i := 0; i < sig.Params().Len(); i++ {
			pv := sig.Params().At(i)
			if !isNameType(pv.Type()) {
				continue
			}
			if pv.Name() == "fieldName" {
				out = append(out, i)
			}
		}
		return out
	}
	// parameters called fieldName that are not schema-side names (one line of reason each)
	notASink := map[string]string{
		"pathBuilderVisitor.pushResponsePath": "the parameter is an element of the response path (its only use is the path pushed for the client response); the name is a misnomer",
		"Path.WithFieldNameItem":              "ast.Path items of kind FieldName hold response names by construction: the walker itself builds them from FieldAliasOrNameBytes",
	}
	n := 0
	for _, alias := range pkgs {
		for _, fi := range p.Funcs(alias) {
			info := fi.Info()
			var d *localDeriver
			fw.WalkAll(fi.Decl.Body, func(nd ast.Node) bool {
				c, ok := nd.(*ast.CallExpr)
				if !ok {
					return true
				}
				fn := fw.Callee(info, c)
				if fn != nil && notASink[fw.FuncName(fn)] != "" {
					return true
				}
				for _, i := range sinkParam(fn) {
					if i >= len(c.Args) || c.Ellipsis.IsValid() {
						continue
					}
					if d == nil {
						d = newLocalDeriver(fi)
					}
					n++
					tainted := d.Derives(c.Args[i], isSource(info))
					r.Check(!tainted, rule, fi.Name()+"/schema-lookup-by-schema-name:"+fn.Name()+"#"+itoa(ordinalOf(fi, c)), p.Pos(c.Pos()), "the field name handed to "+fn.Name()+" in "+fi.Name()+" does not derive from an alias accessor",
						"a response name (alias or name) reaches the schema-side lookup "+fn.Name()+": with an alias on that field the lookup fails or finds a different field")
				}
				return true
			})
		}
	}
	return n
}

func isNameType(t types.Type) bool {
	if b, ok := t.Underlying().(*types.Basic); ok && b.Kind() == types.String {
		return true
	}
	if s, ok := t.Underlying().(*types.Slice); ok {
		if b, ok := s.Elem().Underlying().(*types.Basic); ok && b.Kind() == types.Byte {
			return true
		}
	}
	return false
}

// ordinalOf numbers the calls of one callee inside fi in source order (keys stay stable when lines move).
func ordinalOf(fi *fw.FuncInfo, call *ast.CallExpr) int {
	info := fi.Info()
	target := fw.Callee(info, call)
	k, ord := 0, 0
	fw.WalkAll(fi.Decl.Body, func(nd ast.Node) bool {
		if c, ok := nd.(*ast.CallExpr); ok && fw.Callee(info, c) == target {
			k++
			if c == call {
				ord = k
			}
		}
		return true
	})
	return ord
}

// localDeriver: "may be computed from" over plain local variables only (x := e, x = e, var x = e, for _, x := range e).
// Assignments to fields are ignored on purpose: following v.f = alias would taint every expression that mentions v.
type localDeriver struct {
	info *types.Info
	defs map[types.Object][]ast.Expr
}

func newLocalDeriver(fi *fw.FuncInfo) *localDeriver {
	d := &localDeriver{info: fi.Info(), defs: map[types.Object][]ast.Expr{}}
	bind := func(l ast.Expr, r ast.Expr) {
		if id, ok := l.(*ast.Ident); ok {
			if o := d.info.ObjectOf(id); o != nil {
				d.defs[o] = append(d.defs[o], r)
			}
		}
	}
	ast.Inspect(fi.Decl.Body, func(n ast.Node) bool {
		switch x := n.(type) {
		case *ast.AssignStmt:
			if len(x.Lhs) == len(x.Rhs) {
				for i := range x.Lhs {
					bind(x.Lhs[i], x.Rhs[i])
				}
			} else if len(x.Rhs) == 1 {
				for _, l := range x.Lhs {
					bind(l, x.Rhs[0])
				}
			}
		case *ast.ValueSpec:
			for i, id := range x.Names {
				if len(x.Values) == len(x.Names) {
					bind(id, x.Values[i])
				} else if len(x.Values) == 1 {
					bind(id, x.Values[0])
				}
			}
		case *ast.RangeStmt:
			if x.Value != nil {
				bind(x.Value, x.X)
			}
		}
		return true
	})
	return d
}

func (d *localDeriver) Derives(e ast.Expr, src func(ast.Expr) bool) bool {
	return d.derives(e, src, map[types.Object]bool{})
}

func (d *localDeriver) derives(e ast.Expr, src func(ast.Expr) bool, seen map[types.Object]bool) bool {
	found := false
	ast.Inspect(e, func(n ast.Node) bool {
		if found || n == nil {
			return false
		}
		x, ok := n.(ast.Expr)
		if !ok {
			return true
		}
		if src(x) {
			found = true
			return false
		}
		if sel, isSel := x.(*ast.SelectorExpr); isSel {
			// a field or method of something: only the selected thing counts, not everything the root variable was built from
			if _, isCallFun := d.info.Selections[sel]; isCallFun {
				return false
			}
		}
		if id, isID := x.(*ast.Ident); isID {
			if o := d.info.ObjectOf(id); o != nil && !seen[o] {
				seen[o] = true
				for _, rhs := range d.defs[o] {
					if d.derives(rhs, src, seen) {
						found = true
						return false
					}
				}
			}
		}
		return true
	})
	return found
}
