package rules

import (
	"go/ast"
	"sort"
	"strings"

	"verif/checker/fw"
)

// visitorContextComplete is the generic form of C17-R19 (see c17GeneratorContextComplete): the parent relation is read
// from the walker (walk<P> calls walk<K>); for every member kind K whose callbacks in visitorType use inherited state —
// a visitor field that the Enter callback of another kind re-binds and K's own Enter does not — the visitor implements
// Enter<P> for every parent kind P of K, and that callback re-binds at least one of the inherited fields K uses. It
// returns the number of (K, P) pairs examined.
func visitorContextComplete(r *fw.Run, rule, pkgAlias, visitorType string) int {
	p := r.Prog
	// 1. parent relation from the walker
	parents := map[string][]string{}
	kinds := map[string]bool{}
	for _, fi := range p.Funcs("astvisitor") {
		if fi.Decl.Recv == nil || !strings.HasPrefix(fi.Name(), "Walker.walk") {
			continue
		}
		parent := strings.TrimPrefix(fi.Name(), "Walker.walk")
		kinds[parent] = true
		info := fi.Info()
		seen := map[string]bool{}
		fw.WalkAll(fi.Decl.Body, func(nd ast.Node) bool {
			if c, ok := nd.(*ast.CallExpr); ok {
				if callee := p.FuncOf(fw.Callee(info, c)); callee != nil && strings.HasPrefix(callee.Name(), "Walker.walk") {
					child := strings.TrimPrefix(callee.Name(), "Walker.walk")
					if child != parent && !seen[child] {
						seen[child] = true
						parents[child] = append(parents[child], parent)
					}
				}
			}
			return true
		})
	}
	// 2. the visitor's methods
	methods := map[string]*fw.FuncInfo{}
	for _, fi := range p.Funcs(pkgAlias) {
		if strings.HasPrefix(fi.Name(), visitorType+".") {
			methods[strings.TrimPrefix(fi.Name(), visitorType+".")] = fi
		}
	}
	rebindsMemo := map[*fw.FuncInfo]map[string]bool{}
	var rebinds func(fi *fw.FuncInfo, depth int) map[string]bool
	rebinds = func(fi *fw.FuncInfo, depth int) map[string]bool {
		if m, ok := rebindsMemo[fi]; ok {
			return m
		}
		out := map[string]bool{}
		rebindsMemo[fi] = out
		recv := receiverObj(fi)
		info := fi.Info()
		fw.WalkAll(fi.Decl.Body, func(nd ast.Node) bool {
			switch x := nd.(type) {
			case *ast.AssignStmt:
				for _, l := range x.Lhs {
					if sel, ok := ast.Unparen(l).(*ast.SelectorExpr); ok {
						if id, isID := ast.Unparen(sel.X).(*ast.Ident); isID && recv != nil && info.ObjectOf(id) == recv {
							if fv, _ := fw.Field(info, sel); fv != nil {
								out[fv.Name()] = true
							}
						}
					}
				}
			case *ast.CallExpr:
				if depth < 2 {
					if callee := p.FuncOf(fw.Callee(info, x)); callee != nil && strings.HasPrefix(callee.Name(), visitorType+".") && callee != fi {
						for f := range rebinds(callee, depth+1) {
							out[f] = true
						}
					}
				}
			}
			return true
		})
		return out
	}
	uses := func(fi *fw.FuncInfo) map[string]bool {
		out := map[string]bool{}
		recv := receiverObj(fi)
		info := fi.Info()
		fw.WalkAll(fi.Decl.Body, func(nd ast.Node) bool {
			if sel, ok := nd.(*ast.SelectorExpr); ok {
				if id, isID := ast.Unparen(sel.X).(*ast.Ident); isID && recv != nil && info.ObjectOf(id) == recv {
					if fv, _ := fw.Field(info, sel); fv != nil {
						out[fv.Name()] = true
					}
				}
			}
			return true
		})
		return out
	}
	// state fields: re-bound by the Enter callback of some kind
	reboundBy := map[string]map[string]bool{} // field → kinds whose Enter re-binds it
	for k := range kinds {
		if m := methods["Enter"+k]; m != nil {
			for f := range rebinds(m, 0) {
				if reboundBy[f] == nil {
					reboundBy[f] = map[string]bool{}
				}
				reboundBy[f][k] = true
			}
		}
	}
	n := 0
	var ks []string
	for k := range kinds {
		ks = append(ks, k)
	}
	sort.Strings(ks)
	for _, k := range ks {
		inherited := map[string]bool{}
		for _, cb := range []string{"Enter" + k, "Leave" + k} {
			m := methods[cb]
			if m == nil {
				continue
			}
			for f := range uses(m) {
				if len(reboundBy[f]) > 0 && !reboundBy[f][k] {
					// only fields whose type can hold "the node being described" (pointers, structs), not scalars
					inherited[f] = true
				}
			}
		}
		if len(inherited) == 0 {
			continue
		}
		var fs []string
		for f := range inherited {
			fs = append(fs, f)
		}
		sort.Strings(fs)
		ps := append([]string(nil), parents[k]...)
		sort.Strings(ps)
		for _, par := range ps {
			n++
			m := methods["Enter"+par]
			ok := false
			if m != nil {
				rb := rebinds(m, 0)
				for _, f := range fs {
					if rb[f] {
						ok = true
					}
				}
			}
			pos := ""
			if mk := methods["Enter"+k]; mk != nil {
				pos = p.Pos(mk.Decl.Pos())
			} else if mk := methods["Leave"+k]; mk != nil {
				pos = p.Pos(mk.Decl.Pos())
			}
			r.Check(ok, rule, visitorType+"/"+k+"-under-"+par, pos, "the visitor enters "+par+" and re-binds the state ("+strings.Join(fs, "/")+") its "+k+" callbacks use",
				"the walker visits "+k+" nodes below "+par+", the visitor's "+k+" callbacks use "+strings.Join(fs, "/")+", but no Enter"+par+" of the visitor re-binds it: the members of such a node are attributed to the node described before (an invented member there, a missing one here), or the state is nil and the visitor dereferences nil")
		}
	}
	return n
}
