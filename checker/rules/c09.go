package rules

import (
	"fmt"
	"go/ast"
	"go/types"
	"os"
	"sort"
	"strings"

	"verif/checker/fw"
)

func init() {
	Registry["C09"] = Spec{
		Pkgs: map[string][]string{"v2": {"plan", "postprocess", "gqlds", "astnorm", "astminify", "resolve"}, "execution": {"engine"}},
		Run:  runC09,
		Explanation: "Decides the structural half of 'planning is deterministic and caching is transparent': in the planning packages no range over a map feeds range-derived data into an ordered sink (append to an outer slice that is not sorted afterwards, write to a writer/builder/hash) except at sites frozen with a reason; " +
			"at run time (packages resolve and execution/engine) no field of a cached plan node is assigned outside constructors (frozen: the tracing field); the plan cache stores a plan only after planning reported no error and after post-processing, under a key that is the hash of the printed operation; a planner is created per cache miss and pooled planning kits are reset before they return to the pool; " +
			"per-request outputs of normalization (the variables remap) are never backed by pooled, reused storage. It does not decide option transparency (value level).",
		Mutants: []Mutant{
			{Name: "collected authorization coordinates no longer sorted after the map range", File: "v2/pkg/engine/postprocess/collect_authorization_coordinates.go", Rule: "C09-R1", Key: "collectAuthorizationCoordinates.Process",
				Old: "\tsort.Slice(response.Info.AuthorizationCoordinates, func(i, j int) bool {", New: "\tsort.Slice(response.Info.AuthorizationCoordinates[:0], func(i, j int) bool {"},
			{Name: "loader clears a field of the shared fetch at run time", File: loaderGo, Rule: "C09-R2", Key: "prepareSingleFetch/writes:SingleFetch.DataSourceIdentifier",
				Old: "\tres.init(fetch.PostProcessing, fetch.Info)\n\tbuf := bytes.NewBuffer(nil)\n", New: "\tres.init(fetch.PostProcessing, fetch.Info)\n\tfetch.DataSourceIdentifier = nil\n\tbuf := bytes.NewBuffer(nil)\n"},
			{Name: "plan published in the cache before post-processing", File: execEngineGo, Rule: "C09-R3", Key: "add-after-postprocessing",
				Old: "\tctx.postProcessor.Process(planResult)\n\te.executionPlanCache.Add(cacheKey, planResult)\n", New: "\te.executionPlanCache.Add(cacheKey, planResult)\n\tctx.postProcessor.Process(planResult)\n"},
			{Name: "failed plans are cached", File: execEngineGo, Rule: "C09-R3", Key: "add-requires-no-errors",
				Old: "\tplanResult := planner.Plan(operation, definition, operationName, report)\n\tif report.HasErrors() {\n\t\treturn nil, nil\n\t}\n", New: "\tplanResult := planner.Plan(operation, definition, operationName, report)\n"},
			{Name: "print kit pooled with its report not reset", File: "v2/pkg/engine/datasource/graphql_datasource/graphql_datasource.go", Rule: "C09-R4", Key: "reset-before-put:report",
				Old: "\tkit.buf.Reset()\n\tkit.report.Reset()\n", New: "\tkit.buf.Reset()\n"},
			{Name: "remap table reused across documents", File: "v2/pkg/astnormalization/variables_mapping.go", Rule: "C09-R5", Key: "remap-table",
				Old: "\tv.mapping = make(map[string]string, len(operation.VariableDefinitions))\n", New: "\tif v.mapping == nil {\n\t\tv.mapping = make(map[string]string)\n\t}\n\tclear(v.mapping)\n"},
		},
	}
}

// mapRangeSite describes one `range` over a map in the planning packages.
type mapRangeSite struct {
	fi      *fw.FuncInfo
	rs      *ast.RangeStmt
	ord     int
	ordered []string // definite order-sensitive sinks found in the body
}

func runC09(r *fw.Run) {
	p := r.Prog
	r.Rule("C09-R1", "no range over a map in the planning packages appends range-derived data to an outer slice that is not sorted afterwards, nor writes it to a writer/builder/hash (frozen exceptions carry a reason)")
	// every entry was read on the pinned tree; the reason says why iteration order cannot reach the plan
	frozen := map[string]string{
		"plan.CostTreeNode.debugPrint/map-range1":                          "debug rendering of the cost tree, not part of any plan",
		"plan.FederationFieldConfigurations.UniqueTypes/map-range1":        "no caller in the module (dead helper); result is a set of type names",
		"plan.PathBuilder.CreatePlanningPaths/map-range1":                  "text of the internal error on the planning-failure path only",
		"plan.nodeSelectionVisitor.updateSkipFieldRefs/map-range1":         "skipFieldsRefs is a set of field refs (only membership is ever queried)",
		"plan.plannerPathsConfiguration.RemoveLeafFragmentPaths/map-range1": "local work list of deletions from maps; deletions commute",
		"postprocess.colorExclusive/map-range1":                            "work list of a confluent fixed-point colouring; the result is a map",
		"postprocess.colorExclusive/map-range2":                            "work list of a confluent fixed-point colouring; the result is a map",
		"postprocess.weaklyConnectedComponents/map-range1":                 "BFS work list; every component is sorted before it is emitted",
		"postprocess.mergeFields.deduplicateOnTypeNames/map-range1":        "OnTypeNames is a set of type names (only membership is ever queried by the renderer)",
	}
	nRanges, nOrdered := 0, 0
	for _, pkg := range []string{"plan", "postprocess", "gqlds", "astnorm", "astminify"} {
		for _, fi := range p.Funcs(pkg) {
			for _, s := range mapRangeSites(fi) {
				nRanges++
				key := filepathBase(pkg) + "." + fi.Name() + "/map-range" + itoa(s.ord)
				if len(s.ordered) == 0 {
					r.Pass("C09-R1", key, p.Pos(s.rs.Pos()), "range over a map in "+fi.Name()+" has no definite order-sensitive sink", false)
					continue
				}
				nOrdered++
				if why, ok := frozen[key]; ok {
					r.Pass("C09-R1", key, p.Pos(s.rs.Pos()), "range over a map in "+fi.Name()+" feeds "+strings.Join(s.ordered, ", ")+" (frozen: "+why+")", true)
					continue
				}
				r.Fail("C09-R1", key, p.Pos(s.rs.Pos()), "range over a map in "+fi.Name()+" feeds an ordered sink",
					"map iteration order reaches "+strings.Join(s.ordered, ", ")+" with no sort afterwards: the plan (fetch order, request text, chosen data source) can differ from run to run for the same operation and configuration")
			}
		}
	}
	r.Expect("C09-R1", "ranges over maps in the planning packages", nRanges, 40)
	_ = nOrdered
	c09Immutability(r)
	c09PlanCache(r)
	c09Pools(r)
	if os.Getenv("VERIF_DEBUG_PLANWRITES") != "" {
		for _, pkg := range []string{"resolve", "engine"} {
			for _, w := range planWrites(p, pkg) {
				fmt.Printf("PLANWRITE %s %s %s.%s\n", p.Pos(w.node.Pos()), w.fi.Name(), w.typ, w.field)
			}
		}
	}
}

func filepathBase(alias string) string { return alias }

// mapRangeSites finds the ranges over maps in fi and their definite order-sensitive sinks.
func mapRangeSites(fi *fw.FuncInfo) []mapRangeSite {
	info := fi.Info()
	var out []mapRangeSite
	ord := 0
	fw.WalkAll(fi.Decl.Body, func(n ast.Node) bool {
		rs, ok := n.(*ast.RangeStmt)
		if !ok {
			return true
		}
		t := info.TypeOf(rs.X)
		if t == nil {
			return true
		}
		if _, isMap := t.Underlying().(*types.Map); !isMap {
			return true
		}
		ord++
		site := mapRangeSite{fi: fi, rs: rs, ord: ord}
		// range variables and everything assigned from them inside the body
		derived := map[types.Object]bool{}
		for _, e := range []ast.Expr{rs.Key, rs.Value} {
			if id, ok := e.(*ast.Ident); ok && id.Name != "_" {
				if o := info.Defs[id]; o != nil {
					derived[o] = true
				} else if o := info.Uses[id]; o != nil {
					derived[o] = true
				}
			}
		}
		mentionsDerived := func(e ast.Node) bool {
			found := false
			fw.WalkAll(e, func(m ast.Node) bool {
				if id, ok := m.(*ast.Ident); ok && derived[info.Uses[id]] {
					found = true
				}
				return !found
			})
			return found
		}
		for changed := true; changed; {
			changed = false
			fw.WalkAll(rs.Body, func(m ast.Node) bool {
				if as, ok := m.(*ast.AssignStmt); ok {
					for i, l := range as.Lhs {
						if id, ok := l.(*ast.Ident); ok {
							o := info.Defs[id]
							if o == nil {
								o = info.Uses[id]
							}
							var rhs ast.Expr
							if i < len(as.Rhs) {
								rhs = as.Rhs[i]
							} else if len(as.Rhs) == 1 {
								rhs = as.Rhs[0]
							}
							if o != nil && rhs != nil && !derived[o] && mentionsDerived(rhs) && declaredInside(o, rs) {
								derived[o] = true
								changed = true
							}
						}
					}
				}
				return true
			})
		}
		seen := map[string]bool{}
		fw.WalkAll(rs.Body, func(m ast.Node) bool {
			switch x := m.(type) {
			case *ast.AssignStmt:
				for i, l := range x.Lhs {
					if i >= len(x.Rhs) {
						break
					}
					c, ok := ast.Unparen(x.Rhs[i]).(*ast.CallExpr)
					if !ok || fw.Builtin(info, c) != "append" || len(c.Args) < 2 {
						continue
					}
					if !mentionsDerived(&ast.CallExpr{Fun: ast.NewIdent("_"), Args: c.Args[1:]}) {
						continue
					}
					root := fw.RootObj(info, l)
					if root == nil || declaredInside(root, rs) {
						continue
					}
					// indexed by the map key itself (m2[k] = append(m2[k], …)) is per-key, not ordered
					if ix, ok := ast.Unparen(l).(*ast.IndexExpr); ok {
						if _, isMap := info.TypeOf(ix.X).Underlying().(*types.Map); isMap {
							continue
						}
					}
					if sortedAfter(fi, rs, l) {
						continue
					}
					k := "append to " + fw.ExprKey(info, l)
					if !seen[k] {
						seen[k] = true
						site.ordered = append(site.ordered, k)
					}
				}
			case *ast.CallExpr:
				fn := fw.Callee(info, x)
				if fn == nil {
					return true
				}
				switch fn.Name() {
				case "Write", "WriteString", "WriteByte", "WriteRune", "Fprintf", "Fprint", "Fprintln":
					if mentionsDerived(x) && writerLike(info, x) {
						k := "write to " + writerName(info, x)
						if !seen[k] {
							seen[k] = true
							site.ordered = append(site.ordered, k)
						}
					}
				}
			}
			return true
		})
		sort.Strings(site.ordered)
		out = append(out, site)
		return true
	})
	return out
}

func declaredInside(o types.Object, n ast.Node) bool {
	return o.Pos() >= n.Pos() && o.Pos() <= n.End()
}

// sortedAfter: after the range statement the function passes the slice to a sort function.
func sortedAfter(fi *fw.FuncInfo, rs *ast.RangeStmt, target ast.Expr) bool {
	info := fi.Info()
	key := fw.ExprKey(info, target)
	found := false
	fw.WalkAll(fi.Decl.Body, func(n ast.Node) bool {
		c, ok := n.(*ast.CallExpr)
		if !ok || c.Pos() < rs.End() {
			return true
		}
		fn := fw.Callee(info, c)
		if fn == nil || fn.Pkg() == nil {
			return true
		}
		p := fn.Pkg().Path()
		if !(p == "sort" || p == "slices") || !(strings.HasPrefix(fn.Name(), "Sort") || fn.Name() == "Slice" || fn.Name() == "SliceStable" || fn.Name() == "Strings" || fn.Name() == "Ints" || fn.Name() == "Stable") {
			return true
		}
		for _, a := range c.Args {
			if fw.ExprKey(info, a) == key {
				found = true
			}
		}
		return true
	})
	return found
}

func writerLike(info *types.Info, c *ast.CallExpr) bool {
	sel, ok := ast.Unparen(c.Fun).(*ast.SelectorExpr)
	if !ok {
		return false
	}
	if s := info.Selections[sel]; s != nil {
		return true // method Write* on some receiver
	}
	return len(c.Args) > 0 // fmt.Fprintf(w, …)
}

func writerName(info *types.Info, c *ast.CallExpr) string {
	if sel, ok := ast.Unparen(c.Fun).(*ast.SelectorExpr); ok {
		if s := info.Selections[sel]; s != nil {
			return fw.ExprKey(info, sel.X)
		}
	}
	if len(c.Args) > 0 {
		return fw.ExprKey(info, c.Args[0])
	}
	return "?"
}

var planTypes = map[string]bool{
	"GraphQLResponse": true, "GraphQLDeferResponse": true, "GraphQLSubscription": true, "GraphQLSubscriptionTrigger": true, "GraphQLResponseInfo": true,
	"Object": true, "Field": true, "FieldInfo": true, "Array": true, "String": true, "StaticString": true, "Boolean": true, "Integer": true, "Float": true, "BigInt": true,
	"Scalar": true, "Enum": true, "Null": true, "EmptyObject": true, "EmptyArray": true, "CustomNode": true,
	"FetchTreeNode": true, "FetchItem": true, "SingleFetch": true, "EntityFetch": true, "BatchEntityFetch": true, "MultiEntityFetch": true, "MultiEntityFetchEntry": true,
	"FetchConfiguration": true, "FetchDependencies": true, "FetchInfo": true, "InputTemplate": true, "TemplateSegment": true, "DeferDescriptor": true, "DeferTreeNode": true,
	"DeferFetchGroup": true, "PostProcessingConfiguration": true, "EntityInput": true, "BatchInput": true, "MultiEntityInput": true,
}

// planWrites lists every store into a field of a plan type in the given package (for triage and for the rule).
func planWrites(p *fw.Prog, pkg string) (out []struct {
	fi    *fw.FuncInfo
	node  ast.Node
	typ   string
	field string
}) {
	for _, fi := range p.Funcs(pkg) {
		info := fi.Info()
		fw.WalkAll(fi.Decl.Body, func(n ast.Node) bool {
			for _, t := range fw.WriteTargets(info, n) {
				v, sel := fw.Field(info, t)
				if v == nil {
					continue
				}
				pp, tn := fw.FieldOwner(info, sel)
				if pp != fw.PkgPath("resolve") || !planTypes[tn] {
					continue
				}
				out = append(out, struct {
					fi    *fw.FuncInfo
					node  ast.Node
					typ   string
					field string
				}{fi, n, tn, v.Name()})
			}
			return true
		})
	}
	return out
}


// c09Immutability (R2): cached plans are shared by all requests; nothing in the run-time packages stores into them.
func c09Immutability(r *fw.Run) {
	p := r.Prog
	r.Rule("C09-R2", "in the run-time packages (resolve, execution/engine) no field of a plan node type is assigned outside plan-time constructors; the tracing field is the one frozen exception")
	allowed := map[string]string{
		"FetchItemWithPath": "constructor: the FetchItem was created in this function",
		"SingleWithPath":    "constructor: the node was created in this function",
		"FieldInfo.Merge":   "plan-time helper used by postprocess.mergeFields only (no caller in package resolve, checked below)",
	}
	n := 0
	for _, pkg := range []string{"resolve", "engine"} {
		for _, w := range planWrites(p, pkg) {
			n++
			key := w.fi.Name() + "/writes:" + w.typ + "." + w.field
			what := "store into " + w.typ + "." + w.field + " in " + w.fi.Name()
			if why, ok := allowed[w.fi.Name()]; ok {
				r.Pass("C09-R2", key, p.Pos(w.node.Pos()), what+" (exempt: "+why+")", false)
				continue
			}
			if w.field == "Trace" && tracingGuarded(w.fi, w.node) {
				r.Pass("C09-R2", key, p.Pos(w.node.Pos()), what+" (frozen: diagnostic field, only under TracingOptions.Enable; a known benign race between concurrently traced requests that affects extensions.trace only)", true)
				continue
			}
			r.Fail("C09-R2", key, p.Pos(w.node.Pos()), what,
				"a request writes into a plan node that the plan cache shares with every other request of the same operation: the next request served from the cache sees this request's state (response shape, inputs or paths change between requests)")
		}
	}
	r.Expect("C09-R2", "stores into plan node fields in resolve/engine", n, 7)
	// FieldInfo.Merge has no caller in package resolve
	callers := 0
	fw.EachCall(p.Funcs("resolve"), func(fi *fw.FuncInfo, c *ast.CallExpr, stack []ast.Node) {
		if fw.CallIs(fi.Info(), c, "resolve", "FieldInfo.Merge") {
			callers++
		}
	})
	r.Check(callers == 0, "C09-R2", "FieldInfo.Merge/no-runtime-caller", "-", "FieldInfo.Merge is not called from package resolve", "a run-time function merges field infos of a shared plan in place")
}

// tracingGuarded: the statement is dominated by the true edge of TracingOptions.Enable.
func tracingGuarded(fi *fw.FuncInfo, site ast.Node) bool {
	info := fi.Info()
	ok := false
	in := fw.NewInterp(fi)
	in.H = fw.Hooks{
		Cond: func(e ast.Expr, branch bool, st *fw.State) {
			if v, _ := fw.Field(info, e); v != nil && v.Name() == "Enable" && branch {
				st.Set("tracing")
			}
		},
		Node: func(n ast.Node, st *fw.State) {
			if n == site && in.Final() {
				ok = st.Must("tracing")
			}
		},
	}
	in.Run(nil)
	return ok
}

// c09PlanCache (R3): only finished, post-processed plans enter the cache, under the hash of the printed operation.
func c09PlanCache(r *fw.Run) {
	p := r.Prog
	r.Rule("C09-R3", "getCachedPlan adds a plan to the cache only on the false edge of report.HasErrors() and after postProcessor.Process(plan); lookup and insertion use the same key, the hash of astprinter.Print(operation); the planner is created per cache miss")
	fi := p.Func("engine", "ExecutionEngine.getCachedPlan")
	if fi == nil {
		r.Error("C09-R3: ExecutionEngine.getCachedPlan not found")
		return
	}
	info := fi.Info()
	d := fw.NewDeriver(fi)
	g := fw.NewGuards(info, fw.GuardSpec{Name: "planned-ok", Match: func(_ *types.Info, a fw.CondAtom) bool {
		c, ok := ast.Unparen(a.X).(*ast.CallExpr)
		return a.Kind == "False" && ok && fw.CallIs(info, c, "opreport", "Report.HasErrors")
	}})
	var getKey, addKey ast.Expr
	nAdd, nNew := 0, 0
	in := fw.NewInterp(fi)
	in.H = fw.Hooks{Cond: func(e ast.Expr, branch bool, st *fw.State) {
		if st.Must("planned") {
			g.Cond(e, branch, st)
		}
	}, Node: func(n ast.Node, st *fw.State) {
		c, ok := n.(*ast.CallExpr)
		if !ok {
			return
		}
		fn := fw.Callee(info, c)
		if fn == nil {
			return
		}
		switch {
		case fw.FuncIs(fn, "plan", "Planner.Plan"):
			st.Set("planned")
			st.Kill("g:planned-ok")
		case fw.FuncIs(fn, "postprocess", "Processor.Process"):
			st.Set("post-processed")
		case fw.FuncIs(fn, "plan", "NewPlanner"):
			if in.Final() {
				nNew++
			}
		case fn.Name() == "Get" && isPlanCacheRecv(info, c):
			getKey = c.Args[0]
		case fn.Name() == "Add" && isPlanCacheRecv(info, c):
			if in.Final() {
				nAdd++
				addKey = c.Args[0]
				r.Check(g.Has(st, "planned-ok"), "C09-R3", "getCachedPlan/add-requires-no-errors", p.Pos(c.Pos()), "executionPlanCache.Add is dominated by the false edge of report.HasErrors() after Plan",
					"a plan is cached although planning reported errors: every later request for the operation is served the broken plan")
				r.Check(st.Must("post-processed"), "C09-R3", "getCachedPlan/add-after-postprocessing", p.Pos(c.Pos()), "the plan is post-processed before it is published in the cache",
					"the plan is visible to other requests before post-processing finished: another request executes it while fetches are still being de-duplicated / ordered (and post-processing then mutates a plan that is being executed)")
			}
		}
	}}
	in.Run(nil)
	r.Expect("C09-R3", "cache insertions", nAdd, 1)
	r.Check(nNew == 1, "C09-R3", "getCachedPlan/planner-per-miss", fi.Pos(), "a planner is created inside getCachedPlan (per cache miss)", "planner instances are shared between requests: planner state of a previous plan leaks into the next")
	if getKey != nil && addKey != nil {
		same := fw.ExprKey(info, getKey) == fw.ExprKey(info, addKey)
		fromPrint := d.Derives(addKey, d.IsCallTo("astprinter", "Print")) || d.Derives(addKey, func(e ast.Expr) bool {
			c, ok := e.(*ast.CallExpr)
			return ok && fw.Callee(info, c) != nil && fw.Callee(info, c).Name() == "Sum64"
		})
		r.Check(same, "C09-R3", "getCachedPlan/same-key", p.Pos(addKey.Pos()), "lookup and insertion use the same cache key", "Get and Add use different keys: plans are stored under a key no lookup uses (or served for another operation)")
		// the hash is fed by printing the operation
		printed := false
		fw.WalkAll(fi.Decl.Body, func(n ast.Node) bool {
			if c, ok := n.(*ast.CallExpr); ok && fw.CallIs(info, c, "astprinter", "Print") && len(c.Args) == 2 {
				if d.ParamAt(1)(ast.Unparen(c.Args[0])) {
					printed = true
				}
			}
			return true
		})
		r.Check(fromPrint && printed, "C09-R3", "getCachedPlan/key<-printed-operation", p.Pos(addKey.Pos()), "the cache key is the digest of astprinter.Print(operation)", "the key no longer covers the whole normalized operation text: different operations share one cached plan")
	} else {
		r.Error("C09-R3: cache Get/Add calls not recognised")
	}
}

func isPlanCacheRecv(info *types.Info, c *ast.CallExpr) bool {
	sel, ok := ast.Unparen(c.Fun).(*ast.SelectorExpr)
	if !ok {
		return false
	}
	v, _ := fw.Field(info, sel.X)
	return v != nil && v.Name() == "executionPlanCache"
}

// c09Pools (R4, R5): pooled planning state is reset before reuse; per-request outputs are freshly allocated.
func c09Pools(r *fw.Run) {
	p := r.Prog
	r.Rule("C09-R4", "a print kit returns to its pool only after its buffer and its report were reset; every getKit() is paired with a deferred releaseKit")
	if fi := p.Func("gqlds", "Planner.releaseKit"); fi == nil {
		r.Error("C09-R4: Planner.releaseKit not found")
	} else {
		info := fi.Info()
		n := 0
		in := fw.NewInterp(fi)
		in.H = fw.Hooks{Node: func(nd ast.Node, st *fw.State) {
			c, ok := nd.(*ast.CallExpr)
			if !ok {
				return
			}
			fn := fw.Callee(info, c)
			if fn == nil {
				return
			}
			if fn.Name() == "Reset" {
				if sel, ok := ast.Unparen(c.Fun).(*ast.SelectorExpr); ok {
					if v, _ := fw.Field(info, sel.X); v != nil {
						st.Set("reset:" + v.Name())
					}
				}
			}
			if fn.Pkg() != nil && fn.Pkg().Path() == "sync" && fw.FuncName(fn) == "Pool.Put" && in.Final() {
				n++
				for _, f := range []string{"buf", "report"} {
					r.Check(st.Must("reset:"+f), "C09-R4", "releaseKit/reset-before-put:"+f, p.Pos(c.Pos()), "kit."+f+" is reset before the kit goes back to the pool",
						"the kit is pooled with "+f+" still holding the previous plan's content: a report that survives makes report.HasErrors() true for an unrelated operation; a buffer that survives prepends the previous upstream query (a 'previous plans' dependence no single-plan test sees)")
				}
			}
		}}
		in.Run(nil)
		r.Expect("C09-R4", "Pool.Put in releaseKit", n, 1)
	}
	nGet := 0
	for _, fi := range p.Funcs("gqlds") {
		info := fi.Info()
		uses := false
		fw.WalkAll(fi.Decl.Body, func(n ast.Node) bool {
			if c, ok := n.(*ast.CallExpr); ok && fw.CallIs(info, c, "gqlds", "Planner.getKit") {
				uses = true
			}
			return true
		})
		if !uses {
			continue
		}
		in := fw.NewInterp(fi)
		in.H = fw.Hooks{Node: func(nd ast.Node, st *fw.State) {
			if c, ok := nd.(*ast.CallExpr); ok && fw.CallIs(info, c, "gqlds", "Planner.getKit") {
				st.Inc("got")
				if in.Final() {
					nGet++
				}
			}
			if c, ok := nd.(*ast.CallExpr); ok && fw.CallIs(info, c, "gqlds", "Planner.releaseKit") {
				st.Inc("released")
			}
		}, Exit: func(ret *ast.ReturnStmt, lit *ast.FuncLit, st *fw.State) {
			if lit != nil || !in.Final() || !st.May("got") {
				return
			}
			pos := fi.Decl.End()
			if ret != nil {
				pos = ret.Pos()
			}
			r.Check(st.Get("got") == st.Get("released"), "C09-R4", fi.Name()+"/kit-released-on-every-exit", p.Pos(pos), "every exit of "+fi.Name()+" after getKit() has released the kit exactly once",
				"a kit is leaked or released twice on some exit (a kit released twice is handed to two concurrent planners)")
		}}
		in.Run(nil)
	}
	r.Expect("C09-R4", "getKit calls", nGet, 1)

	r.Rule("C09-R5", "per-request outputs of the reusable variables mapper are freshly allocated per document: the remap table is assigned from make(...) when a document is entered and never cleared in place")
	nW, fresh := 0, false
	for _, fi := range p.Funcs("astnorm") {
		if !strings.HasPrefix(fi.Name(), "variablesMappingVisitor.") {
			continue
		}
		info := fi.Info()
		fw.WalkAll(fi.Decl.Body, func(n ast.Node) bool {
			switch x := n.(type) {
			case *ast.AssignStmt:
				for i, l := range x.Lhs {
					if !fw.IsFieldSel(info, l, "astnorm", "variablesMappingVisitor", "mapping") || i >= len(x.Rhs) {
						continue
					}
					nW++
					c, isCall := ast.Unparen(x.Rhs[i]).(*ast.CallExpr)
					isMake := isCall && fw.Builtin(info, c) == "make"
					_, isLit := ast.Unparen(x.Rhs[i]).(*ast.CompositeLit)
					if (isMake || isLit) && fi.Name() == "variablesMappingVisitor.EnterDocument" {
						fresh = true
					}
					r.Check(isMake || isLit, "C09-R5", fi.Name()+"/remap-table-fresh", p.Pos(x.Pos()), "the remap table is assigned a freshly allocated map in "+fi.Name(),
						"the table handed to the request (RemapVariables) is re-used storage: the next document normalised by the same mapper rewrites the table of a request that is still executing")
				}
			case *ast.CallExpr:
				if b := fw.Builtin(info, x); (b == "clear") && len(x.Args) == 1 && fw.IsFieldSel(info, x.Args[0], "astnorm", "variablesMappingVisitor", "mapping") {
					nW++
					r.Fail("C09-R5", fi.Name()+"/remap-table-cleared-in-place", p.Pos(x.Pos()), "clear(mapping) in "+fi.Name(),
						"the remap table is emptied in place and reused: an in-flight request that still holds the previous table sees the next request's variable names")
				}
			}
			return true
		})
	}
	r.Expect("C09-R5", "assignments of the remap table", nW, 1)
	r.Check(fresh, "C09-R5", "variablesMappingVisitor.EnterDocument/allocates", "-", "EnterDocument allocates the remap table", "no fresh allocation of the remap table when a document is entered")
}
