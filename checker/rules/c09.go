package rules

import (
	"fmt"
	"go/ast"
	"go/token"
	"go/types"
	"os"
	"sort"
	"strings"

	"verif/checker/fw"
)

func init() {
	Registry["C09"] = Spec{
		Pkgs: map[string][]string{"v2": {"plan", "postprocess", "gqlds", "astnorm", "astminify", "resolve", "ast"}, "execution": {"engine"}},
		Run:  runC09,
		Explanation: "Decides the structural half of 'planning is deterministic and caching is transparent': in the planning packages no range over a map feeds range-derived data into an ordered sink (append to an outer slice that is not sorted afterwards, write to a writer/builder/hash) except at sites frozen with a reason; " +
			"at run time (packages resolve and execution/engine) no field of a cached plan node is assigned outside constructors (frozen: the tracing field); the plan cache stores a plan only after planning reported no error and after post-processing, under a key that is the hash of the printed operation; a planner is created per cache miss and pooled planning kits are reset before they return to the pool; " +
			"per-request outputs of normalization (the variables remap) are never backed by pooled, reused storage. It does not decide option transparency (value level).",
		Mutants: []Mutant{
			{Name: "a skipped fetch keeps the trace an earlier request left on the shared plan (reverts the F87 fix)", File: loaderGo, Rule: "C09-R11", Key: "Loader.preparePhase/trace-settled-at-exit",
				Old: "\tif l.ctx.TracingOptions.Enable {\n\t\t// The plan is shared with the requests before this one", New: "\tif false {\n\t\t// The plan is shared with the requests before this one"},
			{Name: "a request that is executed again runs without its remap table (reverts part of the F80 fix)", File: "execution/engine/execution_engine.go", Rule: "C09-R10", Key: "ExecutionEngine.Execute/remap-table-settled",
				Old: "\t\tremapVariables = operation.VariablesRemap()\n", New: "\t\t_ = operation.VariablesRemap()\n"},
			{Name: "the nested data source transforms the shared upstream schema in place (reverts the F63 fix)", File: "v2/pkg/engine/datasource/graphql_datasource/graphql_datasource.go", Rule: "C09-R9", Key: "Planner.printOperation/shared-upstream-schema-read-only",
				Old: "\townDefinition, err := p.config.upstreamSchemaCopy()\n\tif err != nil {\n\t\treturn nil, err\n\t}\n", New: "\townDefinition := definition\n"},
			{Name: "forwarded extensions printed while ranging over the map (reverts the F46 fix)", File: "v2/pkg/engine/resolve/resolvable.go", Rule: "C09-R8", Key: "Resolvable.printExtensions/map-range-does-not-print",
				Old: "\t\tfor counter, key := range keys {\n\t\t\tvalue := r.allowedExtensions[key]\n", New: "\t\t_ = keys\n\t\tcounter := -1\n\t\tfor key, value := range r.allowedExtensions {\n\t\t\tcounter++\n"},
			{Name: "subscription filter reads the raw variables under the canonical name (reverts the F31 fix)", File: "v2/pkg/engine/resolve/subscription_filter.go", Rule: "C09-R7", Key: "SkipEvent/direct-lookup-in-Context.Variables",
				Old: "value := ctx.VariablesView().Get(f.Values[i].Segments[0].VariableSourcePath...)", New: "value := ctx.Variables.Get(f.Values[i].Segments[0].VariableSourcePath...)"},
			{Name: "variables view tries the canonical name first (seeded change C09-21)", File: "v2/pkg/engine/resolve/variables_view.go", Rule: "C09-R7", Key: "VariablesView.Get/remap-consulted-before-lookup",
				Old: "\thead := path[0]\n\tif orig, ok := v.remap[head]; ok {\n\t\thead = orig\n\t}\n\tval := v.variables.Get(head)\n",
				New: "\tval := v.variables.Get(path[0])\n\tif val == nil {\n\t\tif orig, ok := v.remap[path[0]]; ok {\n\t\t\tval = v.variables.Get(orig)\n\t\t}\n\t}\n"},
			{Name: "first contributing member describes the whole merged group (seeded change C09-11)", File: "v2/pkg/engine/postprocess/create_multi_fetch.go", Rule: "C09-R6", Key: "merged-deps",
				Old: "\t\t\tseen[dep] = struct{}{}\n\t\t\tdeps = append(deps, dep)\n\t\t}\n", New: "\t\t\tseen[dep] = struct{}{}\n\t\t\tdeps = append(deps, dep)\n\t\t}\n\t\tif len(deps) > 0 {\n\t\t\tbreak\n\t\t}\n"},
			{Name: "minifier tie-break removed (the repaired defect F5)", File: "v2/pkg/astminify/minify.go", Rule: "C09-R1", Key: "Minifier.apply/map-range1",
				Old: "\t\treturn a.items[0].selectionSet - b.items[0].selectionSet\n", New: "\t\treturn 0\n"},
			{Name: "authorization coordinates sorted without the field name", File: "v2/pkg/engine/postprocess/collect_authorization_coordinates.go", Rule: "C09-R1", Key: "collectAuthorizationCoordinates.Process/map-range1",
				Old: "\t\treturn left.Coordinate.FieldName < right.Coordinate.FieldName\n", New: "\t\treturn false\n"},
			{Name: "inverse dependency index no longer sorted", File: "v2/pkg/engine/plan/planner.go", Rule: "C09-R1", Key: "inverseMap/map-range1",
				Old: "\t\tsort.Ints(inverse[key])\n", New: "\t\tsort.Ints(inverse[key][:0])\n"},
			{Name: "collected authorization coordinates no longer sorted after the map range", File: "v2/pkg/engine/postprocess/collect_authorization_coordinates.go", Rule: "C09-R1", Key: "collectAuthorizationCoordinates.Process",
				Old: "\tsort.Slice(response.Info.AuthorizationCoordinates, func(i, j int) bool {", New: "\tsort.Slice(response.Info.AuthorizationCoordinates[:0], func(i, j int) bool {"},
			{Name: "loader clears a field of the shared fetch at run time", File: loaderGo, Rule: "C09-R2", Key: "prepareSingleFetch/writes:SingleFetch.DataSourceIdentifier",
				Old: "\tres.init(fetch.PostProcessing, fetch.Info)\n\tbuf := bytes.NewBuffer(nil)\n", New: "\tres.init(fetch.PostProcessing, fetch.Info)\n\tfetch.DataSourceIdentifier = nil\n\tbuf := bytes.NewBuffer(nil)\n"},
			{Name: "plan published in the cache before post-processing", File: execEngineGo, Rule: "C09-R3", Key: "add-after-postprocessing",
				Old: "\tctx.postProcessor.Process(planResult)\n\te.executionPlanCache.Add(cacheKey, planResult)\n", New: "\te.executionPlanCache.Add(cacheKey, planResult)\n\tctx.postProcessor.Process(planResult)\n"},
			{Name: "failed plans are cached", File: execEngineGo, Rule: "C09-R3", Key: "add-requires-no-errors",
				Old: "\tplanResult := planner.Plan(operation, definition, operationName, report)\n\tif report.HasErrors() {\n\t\treturn nil, nil\n\t}\n", New: "\tplanResult := planner.Plan(operation, definition, operationName, report)\n"},
			{Name: "print kit pooled with its report not reset", File: "v2/pkg/engine/datasource/graphql_datasource/graphql_datasource.go", Rule: "C09-R4", Key: "reset-before-put:report",
				Old: "\tkit.buf.Reset()\n\tkit.report.Reset()\n", New: "\tkit.buf.Reset()\n"},
			{Name: "remap table reused across documents", File: "v2/pkg/astnormalization/variables_mapping.go", Rule: "C09-R5", Key: "remap-table",
				Old: "\tv.mapping = make(map[string]string, len(operation.VariableDefinitions))\n", New: "\tif v.mapping == nil {\n\t\tv.mapping = make(map[string]string)\n\t}\n\tclear(v.mapping)\n"},
		},
	}
}

// mapRangeSite describes one `range` over a map in the planning packages.
type mapRangeSite struct {
	fi      *fw.FuncInfo
	rs      *ast.RangeStmt
	ord     int
	ordered []string // definite order-sensitive sinks found in the body
}

func runC09(r *fw.Run) {
	defer c09SharedUpstreamSchemaIsReadOnly(r)
	defer c09RemapTableAccompaniesTheDocument(r)
	defer c09NoTraceOfAnEarlierRequestSurvivesAVisit(r)
	p := r.Prog
	r.Rule("C09-R1", "no range over a map in the planning packages appends range-derived data to an outer slice that is not sorted afterwards, nor writes it to a writer/builder/hash (frozen exceptions carry a reason)")
	// every entry was read on the pinned tree; the reason says why iteration order cannot reach the plan
	frozen := map[string]string{
		"plan.CostTreeNode.debugPrint/map-range1":                            "debug rendering of the cost tree, not part of any plan",
		"plan.FederationFieldConfigurations.UniqueTypes/map-range1":          "no caller in the module (dead helper); result is a set of type names",
		"plan.PathBuilder.CreatePlanningPaths/map-range1":                    "text of the internal error on the planning-failure path only",
		"plan.nodeSelectionVisitor.updateSkipFieldRefs/map-range1":           "skipFieldsRefs is a set of field refs (only membership is ever queried)",
		"plan.plannerPathsConfiguration.RemoveLeafFragmentPaths/map-range1":  "local work list of deletions from maps; deletions commute",
		"postprocess.colorExclusive/map-range1":                              "work list of a confluent fixed-point colouring; the result is a map",
		"postprocess.colorExclusive/map-range2":                              "work list of a confluent fixed-point colouring; the result is a map",
		"postprocess.weaklyConnectedComponents/map-range1":                   "BFS work list; every component is sorted before it is emitted",
		"postprocess.mergeFields.deduplicateOnTypeNames/map-range1":          "OnTypeNames is a set of type names (only membership is ever queried by the renderer)",
		"postprocess.schedule/map-range1":                                    "the per-root member lists are only handed to schedule(), which works on a sorted copy of its input (sortedCopy)",
		"plan.NodeSelectionBuilder.rebuildFieldDependencyIndexes/map-range1": "per-field-ref dependency lists: the concatenation order across the (field, datasource) entries of one field ref reaches only the order of FetchInfo.CoordinateDependencies[].DependsOn (diagnostic listing; the inverse index is sorted, requests and response shape never read it); unverified observation in DESIGN §9",
		"plan.nodeSelectionVisitor.pruneStaleFieldRequirements/map-range2":   "same index as rebuildFieldDependencyIndexes (same reason)",
	}
	nRanges, nOrdered := 0, 0
	for _, pkg := range []string{"plan", "postprocess", "gqlds", "astnorm", "astminify"} {
		for _, fi := range p.Funcs(pkg) {
			for _, s := range mapRangeSites(fi, pkg) {
				nRanges++
				key := filepathBase(pkg) + "." + fi.Name() + "/map-range" + itoa(s.ord)
				if len(s.ordered) == 0 {
					r.Pass("C09-R1", key, p.Pos(s.rs.Pos()), "range over a map in "+fi.Name()+" has no definite order-sensitive sink", false)
					continue
				}
				nOrdered++
				if why, ok := frozen[key]; ok {
					r.Pass("C09-R1", key, p.Pos(s.rs.Pos()), "range over a map in "+fi.Name()+" feeds "+strings.Join(s.ordered, ", ")+" (frozen: "+why+")", true)
					continue
				}
				r.Fail("C09-R1", key, p.Pos(s.rs.Pos()), "range over a map in "+fi.Name()+" feeds an ordered sink",
					"map iteration order reaches "+strings.Join(s.ordered, ", ")+" with no sort afterwards: the plan (fetch order, request text, chosen data source) can differ from run to run for the same operation and configuration")
			}
		}
	}
	r.Expect("C09-R1", "ranges over maps in the planning packages", nRanges, 40)
	_ = nOrdered
	c09Immutability(r)
	c09PlanCache(r)
	c09Pools(r)
	variablesByNameOnlyThroughView(r, "C09-R7")
	c09ResponseBytesIndependentOfMapOrder(r)
	mergedDependencies(r, "C09-R6") // multi-fetch merging is transparent only if the merged fetch waits for every member's prerequisites
	if os.Getenv("VERIF_DEBUG_PLANWRITES") != "" {
		for _, pkg := range []string{"resolve", "engine"} {
			for _, w := range planWrites(p, pkg) {
				fmt.Printf("PLANWRITE %s %s %s.%s\n", p.Pos(w.node.Pos()), w.fi.Name(), w.typ, w.field)
			}
		}
	}
}

func filepathBase(alias string) string { return alias }

// mapRangeSites finds the ranges over maps in fi and their definite order-sensitive sinks.
func mapRangeSites(fi *fw.FuncInfo, pkg string) []mapRangeSite {
	info := fi.Info()
	var out []mapRangeSite
	ord := 0
	fw.WalkAll(fi.Decl.Body, func(n ast.Node) bool {
		rs, ok := n.(*ast.RangeStmt)
		if !ok {
			return true
		}
		t := info.TypeOf(rs.X)
		if t == nil {
			return true
		}
		if _, isMap := t.Underlying().(*types.Map); !isMap {
			return true
		}
		ord++
		site := mapRangeSite{fi: fi, rs: rs, ord: ord}
		// range variables and everything assigned from them inside the body
		derived := map[types.Object]bool{}
		for _, e := range []ast.Expr{rs.Key, rs.Value} {
			if id, ok := e.(*ast.Ident); ok && id.Name != "_" {
				if o := info.Defs[id]; o != nil {
					derived[o] = true
				} else if o := info.Uses[id]; o != nil {
					derived[o] = true
				}
			}
		}
		mentionsDerived := func(e ast.Node) bool {
			found := false
			fw.WalkAll(e, func(m ast.Node) bool {
				if id, ok := m.(*ast.Ident); ok && derived[info.Uses[id]] {
					found = true
				}
				return !found
			})
			return found
		}
		for changed := true; changed; {
			changed = false
			fw.WalkAll(rs.Body, func(m ast.Node) bool {
				if inner, ok := m.(*ast.RangeStmt); ok && mentionsDerived(inner.X) {
					// for _, dep := range deps — the elements of a range-derived collection are range-derived
					for _, e := range []ast.Expr{inner.Key, inner.Value} {
						if id, ok := e.(*ast.Ident); ok && id.Name != "_" {
							if o := info.Defs[id]; o != nil && !derived[o] {
								if _, isMap := info.TypeOf(inner.X).Underlying().(*types.Map); !isMap || e == inner.Value || true {
									derived[o] = true
									changed = true
								}
							}
						}
					}
				}
				if as, ok := m.(*ast.AssignStmt); ok {
					for i, l := range as.Lhs {
						if id, ok := l.(*ast.Ident); ok {
							o := info.Defs[id]
							if o == nil {
								o = info.Uses[id]
							}
							var rhs ast.Expr
							if i < len(as.Rhs) {
								rhs = as.Rhs[i]
							} else if len(as.Rhs) == 1 {
								rhs = as.Rhs[0]
							}
							if o != nil && rhs != nil && !derived[o] && mentionsDerived(rhs) && declaredInside(o, rs) {
								derived[o] = true
								changed = true
							}
						}
					}
				}
				return true
			})
		}
		seen := map[string]bool{}
		fw.WalkAll(rs.Body, func(m ast.Node) bool {
			switch x := m.(type) {
			case *ast.AssignStmt:
				for i, l := range x.Lhs {
					if i >= len(x.Rhs) {
						break
					}
					c, ok := ast.Unparen(x.Rhs[i]).(*ast.CallExpr)
					if !ok || fw.Builtin(info, c) != "append" || len(c.Args) < 2 {
						continue
					}
					if !mentionsDerived(&ast.CallExpr{Fun: ast.NewIdent("_"), Args: c.Args[1:]}) {
						continue
					}
					root := fw.RootObj(info, l)
					if root == nil || declaredInside(root, rs) {
						continue
					}
					// indexed by the range key itself (m2[k] = append(m2[k], …)): one append per key, nothing to order
					sortTarget := l
					if ix, ok := ast.Unparen(l).(*ast.IndexExpr); ok {
						if _, isMap := info.TypeOf(ix.X).Underlying().(*types.Map); isMap {
							if kid, ok := rs.Key.(*ast.Ident); ok {
								if iid, ok := ast.Unparen(ix.Index).(*ast.Ident); ok && info.Uses[iid] != nil && info.Uses[iid] == info.Defs[kid] {
									continue
								}
							}
							sortTarget = ix.X // the per-key lists are sorted through m2[…] afterwards
						}
					}
					k := "append to " + fw.ExprKey(info, l)
					switch verdict, why := sortedAfter(fi, rs, sortTarget, siteKey(pkg, fi, ord)); verdict {
					case sortTotal:
						continue
					case sortPartial:
						k += " (sorted afterwards, but " + why + ")"
					}
					if !seen[k] {
						seen[k] = true
						site.ordered = append(site.ordered, k)
					}
				}
			case *ast.CallExpr:
				fn := fw.Callee(info, x)
				if fn == nil {
					return true
				}
				switch fn.Name() {
				case "Write", "WriteString", "WriteByte", "WriteRune", "Fprintf", "Fprint", "Fprintln":
					if mentionsDerived(x) && writerLike(info, x) {
						k := "write to " + writerName(info, x)
						if !seen[k] {
							seen[k] = true
							site.ordered = append(site.ordered, k)
						}
					}
				}
			}
			return true
		})
		sort.Strings(site.ordered)
		out = append(out, site)
		return true
	})
	return out
}

func declaredInside(o types.Object, n ast.Node) bool {
	return o.Pos() >= n.Pos() && o.Pos() <= n.End()
}

// Verdicts of sortedAfter.
const (
	sortNone    = iota // the slice is not sorted after the range
	sortTotal          // sorted by a total order: the result does not depend on the order of insertion
	sortPartial        // sorted by a comparator whose order is not known to be total: ties keep map order
)

// c09TotalComparators freezes, per site, the projections of the elements a comparator has to compare for its order to be
// total on the entries of the map (confirmed by reading; the verdict holds as long as the comparator still compares
// at least these).
var c09TotalComparators = map[string]struct {
	required []string
	why      string
}{
	"postprocess.collectAuthorizationCoordinates.Process/map-range1": {[]string{"$.DataSourceID", "$.Coordinate.TypeName", "$.Coordinate.FieldName"},
		"exactly the three components of the map key (authorizationCoordinateKey): two distinct entries never tie"},
	"astminify.Minifier.apply/map-range1": {[]string{"$.depth", "$.enclosingTypeName", "$.items[0].selectionSet"},
		"the first selection set of an entry is unique to it (every selection set is counted under exactly one hash) and is numbered in document order"},
}

func siteKey(pkg string, fi *fw.FuncInfo, ord int) string {
	return pkg + "." + fi.Name() + "/map-range" + itoa(ord)
}

// sortedAfter: after the range statement the function passes the slice (or, for per-key lists, an element of the map)
// to a sort function. A natural-order sort (sort.Strings/Ints/Float64s, slices.Sort) is total. A comparator sort is total
// when the elements are of a basic type and the comparator compares them whole, or when it compares at least the
// projections frozen for this site in c09TotalComparators.
func sortedAfter(fi *fw.FuncInfo, rs *ast.RangeStmt, target ast.Expr, site string) (int, string) {
	info := fi.Info()
	key := fw.ExprKey(info, target)
	verdict, why := sortNone, ""
	better := func(v int, w string) {
		if verdict == sortNone || v == sortTotal {
			verdict, why = v, w
		}
	}
	fw.WalkAll(fi.Decl.Body, func(n ast.Node) bool {
		c, ok := n.(*ast.CallExpr)
		if !ok || c.Pos() < rs.End() || len(c.Args) == 0 {
			return true
		}
		fn := fw.Callee(info, c)
		if fn == nil || fn.Pkg() == nil {
			return true
		}
		p := fn.Pkg().Path()
		if p != "sort" && p != "slices" {
			return true
		}
		arg := ast.Unparen(c.Args[0])
		argKey := fw.ExprKey(info, arg)
		if ix, ok := arg.(*ast.IndexExpr); ok && argKey != key {
			argKey = fw.ExprKey(info, ix.X) // sort.Ints(m2[k]) sorts the per-key lists of m2
		}
		if argKey != key {
			return true
		}
		switch fn.Name() {
		case "Strings", "Ints", "Float64s", "Sort":
			if p == "sort" && fn.Name() == "Sort" {
				better(sortPartial, "through a sort.Interface whose Less is not analysed")
				return true
			}
			better(sortTotal, "")
		case "SortFunc", "SortStableFunc", "Slice", "SliceStable":
			if len(c.Args) < 2 {
				return true
			}
			lit, _ := ast.Unparen(c.Args[1]).(*ast.FuncLit)
			if lit == nil {
				better(sortPartial, "the comparator is not a function literal")
				return true
			}
			proj := comparedProjections(info, lit, arg, strings.HasPrefix(fn.Name(), "Slice"))
			if proj["$"] {
				if _, basic := elemType(info.TypeOf(arg)).Underlying().(*types.Basic); basic {
					better(sortTotal, "")
					return true
				}
			}
			if fz, ok := c09TotalComparators[site]; ok {
				var missing []string
				for _, rq := range fz.required {
					if !proj[rq] {
						missing = append(missing, rq)
					}
				}
				if len(missing) == 0 {
					better(sortTotal, "")
					return true
				}
				better(sortPartial, "the comparator does not compare "+strings.Join(missing, ", ")+", which is what makes its order total ("+fz.why+"): entries that tie keep map order")
				return true
			}
			var ps []string
			for k := range proj {
				ps = append(ps, k)
			}
			sort.Strings(ps)
			better(sortPartial, "the comparator (compares "+strings.Join(ps, ", ")+") is not known to be a total order on the entries: entries that tie keep map order")
		case "Stable":
			better(sortPartial, "through a sort.Interface whose Less is not analysed")
		}
		return true
	})
	return verdict, why
}

func elemType(t types.Type) types.Type {
	if t == nil {
		return types.Typ[types.Invalid]
	}
	switch u := t.Underlying().(type) {
	case *types.Slice:
		return u.Elem()
	case *types.Array:
		return u.Elem()
	}
	return types.Typ[types.Invalid]
}

// comparedProjections returns the projections of the two elements that the comparator literal compares with each other:
// "$" for the whole element, "$.f.g" for a field path, "$.items[0].x" for paths with constant indexes. byIndex: the
// literal has index parameters (sort.Slice) and the elements are slice[i] / slice[j], possibly through local aliases.
func comparedProjections(info *types.Info, lit *ast.FuncLit, slice ast.Expr, byIndex bool) map[string]bool {
	out := map[string]bool{}
	var params []types.Object
	for _, f := range lit.Type.Params.List {
		for _, n := range f.Names {
			params = append(params, info.Defs[n])
		}
	}
	if len(params) != 2 {
		return out
	}
	side := map[types.Object]int{} // object → 1 | 2 (element side)
	if !byIndex {
		side[params[0]], side[params[1]] = 1, 2
	}
	sliceKey := fw.ExprKey(info, slice)
	// base resolves the root of a selector chain to an element side
	var base func(e ast.Expr) int
	base = func(e ast.Expr) int {
		switch x := ast.Unparen(e).(type) {
		case *ast.Ident:
			return side[info.Uses[x]]
		case *ast.IndexExpr:
			if byIndex && fw.ExprKey(info, x.X) == sliceKey {
				if id, ok := ast.Unparen(x.Index).(*ast.Ident); ok {
					if info.Uses[id] == params[0] {
						return 1
					}
					if info.Uses[id] == params[1] {
						return 2
					}
				}
			}
		case *ast.StarExpr:
			return base(x.X)
		case *ast.UnaryExpr:
			return base(x.X)
		}
		return 0
	}
	// local aliases: left := s[i] / l := a
	ast.Inspect(lit.Body, func(n ast.Node) bool {
		if as, ok := n.(*ast.AssignStmt); ok && len(as.Lhs) == len(as.Rhs) {
			for i, l := range as.Lhs {
				if id, ok := l.(*ast.Ident); ok {
					if o := info.Defs[id]; o != nil {
						if sd := base(as.Rhs[i]); sd != 0 {
							side[o] = sd
						}
					}
				}
			}
		}
		return true
	})
	var chain func(e ast.Expr) (int, string)
	chain = func(e ast.Expr) (int, string) {
		e = ast.Unparen(e)
		if sd := base(e); sd != 0 {
			return sd, "$"
		}
		switch x := e.(type) {
		case *ast.SelectorExpr:
			if sd, c := chain(x.X); sd != 0 {
				return sd, c + "." + x.Sel.Name
			}
		case *ast.IndexExpr:
			if sd, c := chain(x.X); sd != 0 {
				if cv, ok := fw.ConstVal(info, x.Index); ok {
					return sd, c + "[" + cv + "]"
				}
			}
		case *ast.CallExpr:
			// len(a.x), strings.ToLower(a.x), a.Method(): a unary function of a projection
			if len(x.Args) == 1 {
				if sd, c := chain(x.Args[0]); sd != 0 {
					return sd, types.ExprString(x.Fun) + "(" + c + ")"
				}
			}
			if sel, ok := ast.Unparen(x.Fun).(*ast.SelectorExpr); ok && len(x.Args) == 0 {
				if sd, c := chain(sel.X); sd != 0 {
					return sd, c + "." + sel.Sel.Name + "()"
				}
			}
		}
		return 0, ""
	}
	pair := func(x, y ast.Expr) {
		sx, cx := chain(x)
		sy, cy := chain(y)
		if sx != 0 && sy != 0 && sx != sy && cx == cy {
			out[cx] = true
		}
	}
	ast.Inspect(lit.Body, func(n ast.Node) bool {
		switch x := n.(type) {
		case *ast.BinaryExpr:
			switch x.Op.String() {
			case "==", "!=", "<", ">", "<=", ">=", "-":
				pair(x.X, x.Y)
			}
		case *ast.CallExpr:
			if len(x.Args) == 2 {
				if fn := fw.Callee(info, x); fn != nil && (fn.Name() == "Compare" || fn.Name() == "Less" || fn.Name() == "Equal" || fn.Name() == "EqualFold") {
					pair(x.Args[0], x.Args[1])
				}
			}
		}
		return true
	})
	return out
}

func writerLike(info *types.Info, c *ast.CallExpr) bool {
	sel, ok := ast.Unparen(c.Fun).(*ast.SelectorExpr)
	if !ok {
		return false
	}
	if s := info.Selections[sel]; s != nil {
		return true // method Write* on some receiver
	}
	return len(c.Args) > 0 // fmt.Fprintf(w, …)
}

func writerName(info *types.Info, c *ast.CallExpr) string {
	if sel, ok := ast.Unparen(c.Fun).(*ast.SelectorExpr); ok {
		if s := info.Selections[sel]; s != nil {
			return fw.ExprKey(info, sel.X)
		}
	}
	if len(c.Args) > 0 {
		return fw.ExprKey(info, c.Args[0])
	}
	return "?"
}

var planTypes = map[string]bool{
	"GraphQLResponse": true, "GraphQLDeferResponse": true, "GraphQLSubscription": true, "GraphQLSubscriptionTrigger": true, "GraphQLResponseInfo": true,
	"Object": true, "Field": true, "FieldInfo": true, "Array": true, "String": true, "StaticString": true, "Boolean": true, "Integer": true, "Float": true, "BigInt": true,
	"Scalar": true, "Enum": true, "Null": true, "EmptyObject": true, "EmptyArray": true, "CustomNode": true,
	"FetchTreeNode": true, "FetchItem": true, "SingleFetch": true, "EntityFetch": true, "BatchEntityFetch": true, "MultiEntityFetch": true, "MultiEntityFetchEntry": true,
	"FetchConfiguration": true, "FetchDependencies": true, "FetchInfo": true, "InputTemplate": true, "TemplateSegment": true, "DeferDescriptor": true, "DeferTreeNode": true,
	"DeferFetchGroup": true, "PostProcessingConfiguration": true, "EntityInput": true, "BatchInput": true, "MultiEntityInput": true,
}

// planWrites lists every store into a field of a plan type in the given package (for triage and for the rule).
func planWrites(p *fw.Prog, pkg string) (out []struct {
	fi    *fw.FuncInfo
	node  ast.Node
	typ   string
	field string
}) {
	for _, fi := range p.Funcs(pkg) {
		info := fi.Info()
		fw.WalkAll(fi.Decl.Body, func(n ast.Node) bool {
			for _, t := range fw.WriteTargets(info, n) {
				v, sel := fw.Field(info, t)
				if v == nil {
					continue
				}
				pp, tn := fw.FieldOwner(info, sel)
				if pp != fw.PkgPath("resolve") || !planTypes[tn] {
					continue
				}
				out = append(out, struct {
					fi    *fw.FuncInfo
					node  ast.Node
					typ   string
					field string
				}{fi, n, tn, v.Name()})
			}
			return true
		})
	}
	return out
}

// c09Immutability (R2): cached plans are shared by all requests; nothing in the run-time packages stores into them.
func c09Immutability(r *fw.Run) {
	p := r.Prog
	r.Rule("C09-R2", "in the run-time packages (resolve, execution/engine) no field of a plan node type is assigned outside plan-time constructors; the tracing field is the one frozen exception")
	allowed := map[string]string{
		"FetchItemWithPath": "constructor: the FetchItem was created in this function",
		"SingleWithPath":    "constructor: the node was created in this function",
		"FieldInfo.Merge":   "plan-time helper used by postprocess.mergeFields only (no caller in package resolve, checked below)",
	}
	n := 0
	for _, pkg := range []string{"resolve", "engine"} {
		for _, w := range planWrites(p, pkg) {
			n++
			key := w.fi.Name() + "/writes:" + w.typ + "." + w.field
			what := "store into " + w.typ + "." + w.field + " in " + w.fi.Name()
			if why, ok := allowed[w.fi.Name()]; ok {
				r.Pass("C09-R2", key, p.Pos(w.node.Pos()), what+" (exempt: "+why+")", false)
				continue
			}
			if w.field == "Trace" && (tracingGuarded(w.fi, w.node) || allCallSitesTracingGuarded(p, w.fi)) {
				r.Pass("C09-R2", key, p.Pos(w.node.Pos()), what+" (frozen: diagnostic field, only under TracingOptions.Enable, reset at the start of every visit (C09-R11); concurrently traced requests on one cached plan still race on it — extensions.trace only)", true)
				continue
			}
			r.Fail("C09-R2", key, p.Pos(w.node.Pos()), what,
				"a request writes into a plan node that the plan cache shares with every other request of the same operation: the next request served from the cache sees this request's state (response shape, inputs or paths change between requests)")
		}
	}
	r.Expect("C09-R2", "stores into plan node fields in resolve/engine", n, 7)
	// FieldInfo.Merge has no caller in package resolve
	callers := 0
	fw.EachCall(p.Funcs("resolve"), func(fi *fw.FuncInfo, c *ast.CallExpr, stack []ast.Node) {
		if fw.CallIs(fi.Info(), c, "resolve", "FieldInfo.Merge") {
			callers++
		}
	})
	r.Check(callers == 0, "C09-R2", "FieldInfo.Merge/no-runtime-caller", "-", "FieldInfo.Merge is not called from package resolve", "a run-time function merges field infos of a shared plan in place")
}

// allCallSitesTracingGuarded: fi is called (from package resolve, at least once) only under the true edge of TracingOptions.Enable.
func allCallSitesTracingGuarded(p *fw.Prog, fi *fw.FuncInfo) bool {
	n, ok := 0, true
	fw.EachCall(p.Funcs("resolve"), func(caller *fw.FuncInfo, c *ast.CallExpr, stack []ast.Node) {
		if fn := fw.Callee(caller.Info(), c); fn != nil && fn == fi.Obj {
			n++
			if !tracingGuarded(caller, c) {
				ok = false
			}
		}
	})
	return n > 0 && ok
}

// tracingGuarded: the statement is dominated by the true edge of TracingOptions.Enable.
func tracingGuarded(fi *fw.FuncInfo, site ast.Node) bool {
	info := fi.Info()
	ok := false
	in := fw.NewInterp(fi)
	in.H = fw.Hooks{
		Cond: func(e ast.Expr, branch bool, st *fw.State) {
			if v, _ := fw.Field(info, e); v != nil && v.Name() == "Enable" && branch {
				st.Set("tracing")
			}
		},
		Node: func(n ast.Node, st *fw.State) {
			if n == site && in.Final() {
				ok = st.Must("tracing")
			}
		},
	}
	in.Run(nil)
	return ok
}

// c09PlanCache (R3): only finished, post-processed plans enter the cache, under the hash of the printed operation.
func c09PlanCache(r *fw.Run) {
	p := r.Prog
	r.Rule("C09-R3", "getCachedPlan adds a plan to the cache only on the false edge of report.HasErrors() and after postProcessor.Process(plan); lookup and insertion use the same key, the hash of astprinter.Print(operation); the planner is created per cache miss")
	fi := p.Func("engine", "ExecutionEngine.getCachedPlan")
	if fi == nil {
		r.Error("C09-R3: ExecutionEngine.getCachedPlan not found")
		return
	}
	info := fi.Info()
	d := fw.NewDeriver(fi)
	g := fw.NewGuards(info, fw.GuardSpec{Name: "planned-ok", Match: func(_ *types.Info, a fw.CondAtom) bool {
		c, ok := ast.Unparen(a.X).(*ast.CallExpr)
		return a.Kind == "False" && ok && fw.CallIs(info, c, "opreport", "Report.HasErrors")
	}})
	var getKey, addKey ast.Expr
	nAdd, nNew := 0, 0
	in := fw.NewInterp(fi)
	in.H = fw.Hooks{Cond: func(e ast.Expr, branch bool, st *fw.State) {
		if st.Must("planned") {
			g.Cond(e, branch, st)
		}
	}, Node: func(n ast.Node, st *fw.State) {
		c, ok := n.(*ast.CallExpr)
		if !ok {
			return
		}
		fn := fw.Callee(info, c)
		if fn == nil {
			return
		}
		switch {
		case fw.FuncIs(fn, "plan", "Planner.Plan"):
			st.Set("planned")
			st.Kill("g:planned-ok")
		case fw.FuncIs(fn, "postprocess", "Processor.Process"):
			st.Set("post-processed")
		case fw.FuncIs(fn, "plan", "NewPlanner"):
			if in.Final() {
				nNew++
			}
		case fn.Name() == "Get" && isPlanCacheRecv(info, c):
			getKey = c.Args[0]
		case fn.Name() == "Add" && isPlanCacheRecv(info, c):
			if in.Final() {
				nAdd++
				addKey = c.Args[0]
				r.Check(g.Has(st, "planned-ok"), "C09-R3", "getCachedPlan/add-requires-no-errors", p.Pos(c.Pos()), "executionPlanCache.Add is dominated by the false edge of report.HasErrors() after Plan",
					"a plan is cached although planning reported errors: every later request for the operation is served the broken plan")
				r.Check(st.Must("post-processed"), "C09-R3", "getCachedPlan/add-after-postprocessing", p.Pos(c.Pos()), "the plan is post-processed before it is published in the cache",
					"the plan is visible to other requests before post-processing finished: another request executes it while fetches are still being de-duplicated / ordered (and post-processing then mutates a plan that is being executed)")
			}
		}
	}}
	in.Run(nil)
	r.Expect("C09-R3", "cache insertions", nAdd, 1)
	r.Check(nNew == 1, "C09-R3", "getCachedPlan/planner-per-miss", fi.Pos(), "a planner is created inside getCachedPlan (per cache miss)", "planner instances are shared between requests: planner state of a previous plan leaks into the next")
	if getKey != nil && addKey != nil {
		same := fw.ExprKey(info, getKey) == fw.ExprKey(info, addKey)
		fromPrint := d.Derives(addKey, d.IsCallTo("astprinter", "Print")) || d.Derives(addKey, func(e ast.Expr) bool {
			c, ok := e.(*ast.CallExpr)
			return ok && fw.Callee(info, c) != nil && fw.Callee(info, c).Name() == "Sum64"
		})
		r.Check(same, "C09-R3", "getCachedPlan/same-key", p.Pos(addKey.Pos()), "lookup and insertion use the same cache key", "Get and Add use different keys: plans are stored under a key no lookup uses (or served for another operation)")
		// the hash is fed by printing the operation
		printed := false
		fw.WalkAll(fi.Decl.Body, func(n ast.Node) bool {
			if c, ok := n.(*ast.CallExpr); ok && fw.CallIs(info, c, "astprinter", "Print") && len(c.Args) == 2 {
				if d.ParamAt(1)(ast.Unparen(c.Args[0])) {
					printed = true
				}
			}
			return true
		})
		r.Check(fromPrint && printed, "C09-R3", "getCachedPlan/key<-printed-operation", p.Pos(addKey.Pos()), "the cache key is the digest of astprinter.Print(operation)", "the key no longer covers the whole normalized operation text: different operations share one cached plan")
	} else {
		r.Error("C09-R3: cache Get/Add calls not recognised")
	}
}

func isPlanCacheRecv(info *types.Info, c *ast.CallExpr) bool {
	sel, ok := ast.Unparen(c.Fun).(*ast.SelectorExpr)
	if !ok {
		return false
	}
	v, _ := fw.Field(info, sel.X)
	return v != nil && v.Name() == "executionPlanCache"
}

// c09Pools (R4, R5): pooled planning state is reset before reuse; per-request outputs are freshly allocated.
func c09Pools(r *fw.Run) {
	p := r.Prog
	r.Rule("C09-R4", "a print kit returns to its pool only after its buffer and its report were reset; every getKit() is paired with a deferred releaseKit")
	if fi := p.Func("gqlds", "Planner.releaseKit"); fi == nil {
		r.Error("C09-R4: Planner.releaseKit not found")
	} else {
		info := fi.Info()
		n := 0
		in := fw.NewInterp(fi)
		in.H = fw.Hooks{Node: func(nd ast.Node, st *fw.State) {
			c, ok := nd.(*ast.CallExpr)
			if !ok {
				return
			}
			fn := fw.Callee(info, c)
			if fn == nil {
				return
			}
			if fn.Name() == "Reset" {
				if sel, ok := ast.Unparen(c.Fun).(*ast.SelectorExpr); ok {
					if v, _ := fw.Field(info, sel.X); v != nil {
						st.Set("reset:" + v.Name())
					}
				}
			}
			if fn.Pkg() != nil && fn.Pkg().Path() == "sync" && fw.FuncName(fn) == "Pool.Put" && in.Final() {
				n++
				for _, f := range []string{"buf", "report"} {
					r.Check(st.Must("reset:"+f), "C09-R4", "releaseKit/reset-before-put:"+f, p.Pos(c.Pos()), "kit."+f+" is reset before the kit goes back to the pool",
						"the kit is pooled with "+f+" still holding the previous plan's content: a report that survives makes report.HasErrors() true for an unrelated operation; a buffer that survives prepends the previous upstream query (a 'previous plans' dependence no single-plan test sees)")
				}
			}
		}}
		in.Run(nil)
		r.Expect("C09-R4", "Pool.Put in releaseKit", n, 1)
	}
	nGet := 0
	for _, fi := range p.Funcs("gqlds") {
		info := fi.Info()
		uses := false
		fw.WalkAll(fi.Decl.Body, func(n ast.Node) bool {
			if c, ok := n.(*ast.CallExpr); ok && fw.CallIs(info, c, "gqlds", "Planner.getKit") {
				uses = true
			}
			return true
		})
		if !uses {
			continue
		}
		in := fw.NewInterp(fi)
		in.H = fw.Hooks{Node: func(nd ast.Node, st *fw.State) {
			if c, ok := nd.(*ast.CallExpr); ok && fw.CallIs(info, c, "gqlds", "Planner.getKit") {
				st.Inc("got")
				if in.Final() {
					nGet++
				}
			}
			if c, ok := nd.(*ast.CallExpr); ok && fw.CallIs(info, c, "gqlds", "Planner.releaseKit") {
				st.Inc("released")
			}
		}, Exit: func(ret *ast.ReturnStmt, lit *ast.FuncLit, st *fw.State) {
			if lit != nil || !in.Final() || !st.May("got") {
				return
			}
			pos := fi.Decl.End()
			if ret != nil {
				pos = ret.Pos()
			}
			r.Check(st.Get("got") == st.Get("released"), "C09-R4", fi.Name()+"/kit-released-on-every-exit", p.Pos(pos), "every exit of "+fi.Name()+" after getKit() has released the kit exactly once",
				"a kit is leaked or released twice on some exit (a kit released twice is handed to two concurrent planners)")
		}}
		in.Run(nil)
	}
	r.Expect("C09-R4", "getKit calls", nGet, 1)

	r.Rule("C09-R5", "per-request outputs of the reusable variables mapper are freshly allocated per document: the remap table is assigned from make(...) when a document is entered and never cleared in place")
	nW, fresh := 0, false
	for _, fi := range p.Funcs("astnorm") {
		if !strings.HasPrefix(fi.Name(), "variablesMappingVisitor.") {
			continue
		}
		info := fi.Info()
		fw.WalkAll(fi.Decl.Body, func(n ast.Node) bool {
			switch x := n.(type) {
			case *ast.AssignStmt:
				for i, l := range x.Lhs {
					if !fw.IsFieldSel(info, l, "astnorm", "variablesMappingVisitor", "mapping") || i >= len(x.Rhs) {
						continue
					}
					nW++
					c, isCall := ast.Unparen(x.Rhs[i]).(*ast.CallExpr)
					isMake := isCall && fw.Builtin(info, c) == "make"
					_, isLit := ast.Unparen(x.Rhs[i]).(*ast.CompositeLit)
					if (isMake || isLit) && fi.Name() == "variablesMappingVisitor.EnterDocument" {
						fresh = true
					}
					r.Check(isMake || isLit, "C09-R5", fi.Name()+"/remap-table-fresh", p.Pos(x.Pos()), "the remap table is assigned a freshly allocated map in "+fi.Name(),
						"the table handed to the request (RemapVariables) is re-used storage: the next document normalised by the same mapper rewrites the table of a request that is still executing")
				}
			case *ast.CallExpr:
				if b := fw.Builtin(info, x); (b == "clear") && len(x.Args) == 1 && fw.IsFieldSel(info, x.Args[0], "astnorm", "variablesMappingVisitor", "mapping") {
					nW++
					r.Fail("C09-R5", fi.Name()+"/remap-table-cleared-in-place", p.Pos(x.Pos()), "clear(mapping) in "+fi.Name(),
						"the remap table is emptied in place and reused: an in-flight request that still holds the previous table sees the next request's variable names")
				}
			}
			return true
		})
	}
	r.Expect("C09-R5", "assignments of the remap table", nW, 1)
	r.Check(fresh, "C09-R5", "variablesMappingVisitor.EnterDocument/allocates", "-", "EnterDocument allocates the remap table", "no fresh allocation of the remap table when a document is entered")
}

// c09VariablesByNameOnlyThroughView (R7): renaming a request's variables is transparent only if every run-time lookup of a
// variable by name translates the canonical (plan) name back to the client's name. The library has one place that does
// that — VariablesView.Get, built by Context.VariablesView() from Context.Variables and Context.RemapVariables. The rule
// is a who-may-read rule: no function looks a key up directly in Context.Variables (a Get*/Exists call on that field);
// inside VariablesView every keyed lookup in the raw variables is made on the failure edge of the remap lookup or with the
// name the remap returned.
func variablesByNameOnlyThroughView(r *fw.Run, rule string) {
	p := r.Prog
	r.Rule(rule, "request variables are looked up by name only through VariablesView (which translates renamed variables): no Get*/Exists call on Context.Variables anywhere in the loaded packages; VariablesView.Get consults the remap table before it touches the raw variables")
	nDirect, nView := 0, 0
	for _, pkgAlias := range []string{"resolve", "plan", "postprocess", "gqlds", "engine"} {
		for _, fi := range p.Funcs(pkgAlias) {
			info := fi.Info()
			fw.WalkAll(fi.Decl.Body, func(nd ast.Node) bool {
				c, ok := nd.(*ast.CallExpr)
				if !ok {
					return true
				}
				sel, isSel := ast.Unparen(c.Fun).(*ast.SelectorExpr)
				if !isSel || !(strings.HasPrefix(sel.Sel.Name, "Get") || sel.Sel.Name == "Exists") {
					return true
				}
				if fw.IsFieldSel(info, sel.X, "resolve", "Context", "Variables") {
					nDirect++
					r.Fail(rule, fi.Name()+"/direct-lookup-in-Context.Variables#"+itoa(nDirect), p.Pos(c.Pos()), "no keyed lookup in Context.Variables outside VariablesView",
						"the variable is looked up under its canonical (plan) name in the raw request variables, which are keyed by the client's names: after variable renaming the lookup misses (or hits a different client variable that happens to be spelled like a canonical name) — the same request behaves differently depending on how its variables are spelled")
				}
				return true
			})
		}
	}
	r.Check(nDirect == 0, rule, "no-direct-lookup-in-Context.Variables", "-", "no Get*/Exists call on the field Context.Variables in resolve, plan, postprocess, graphql_datasource, execution/engine", "see the individual sites")
	// inside the view: remap consulted first
	if fi := p.Func("resolve", "VariablesView.Get"); fi == nil {
		r.Error("%s: VariablesView.Get not found", rule)
	} else {
		info := fi.Info()
		in := fw.NewInterp(fi)
		fromRemap := map[types.Object]bool{} // value variables of `orig, ok := v.remap[k]`
		okVars := map[types.Object]bool{}
		fw.WalkAll(fi.Decl.Body, func(nd ast.Node) bool {
			as, ok := nd.(*ast.AssignStmt)
			if !ok || len(as.Lhs) != 2 || len(as.Rhs) != 1 {
				return true
			}
			ix, isIx := ast.Unparen(as.Rhs[0]).(*ast.IndexExpr)
			if !isIx || !fw.IsFieldSel(info, ix.X, "resolve", "VariablesView", "remap") {
				return true
			}
			for i, l := range as.Lhs {
				if id, isID := l.(*ast.Ident); isID {
					o := info.Defs[id]
					if o == nil {
						o = info.Uses[id]
					}
					if i == 0 {
						fromRemap[o] = true
					} else {
						okVars[o] = true
					}
				}
			}
			return true
		})
		// "resolved": on this path the name variable holds what the remap table says — either the table has no entry (the
		// name stays) or the entry was assigned to it. The fact survives the join of the two edges.
		assigned := map[types.Object]bool{}
		in.H = fw.Hooks{
			Cond: func(e ast.Expr, branch bool, st *fw.State) {
				if id, ok := ast.Unparen(e).(*ast.Ident); ok && okVars[info.Uses[id]] {
					if branch {
						st.Set("entry")
						st.Kill("no-entry")
					} else {
						st.Set("no-entry")
						st.Kill("entry")
						st.Set("resolved")
					}
				}
			},
			Node: func(nd ast.Node, st *fw.State) {
				if as, ok := nd.(*ast.AssignStmt); ok && len(as.Lhs) == len(as.Rhs) {
					for i, l := range as.Lhs {
						id, isID := l.(*ast.Ident)
						if !isID {
							continue
						}
						o := info.Defs[id]
						if o == nil {
							o = info.Uses[id]
						}
						if o == nil {
							continue
						}
						if rid, isR := ast.Unparen(as.Rhs[i]).(*ast.Ident); isR && fromRemap[info.Uses[rid]] && st.Must("entry") {
							assigned[o] = true
							st.Set("resolved")
						} else if assigned[o] {
							st.Kill("resolved")
						}
					}
				}
				c, ok := nd.(*ast.CallExpr)
				if !ok || !in.Final() {
					return
				}
				sel, isSel := ast.Unparen(c.Fun).(*ast.SelectorExpr)
				if !isSel || !fw.IsFieldSel(info, sel.X, "resolve", "VariablesView", "variables") || !(strings.HasPrefix(sel.Sel.Name, "Get") || sel.Sel.Name == "Exists") || len(c.Args) == 0 {
					return
				}
				nView++
				okArg := st.Must("no-entry")
				if id, isID := ast.Unparen(c.Args[0]).(*ast.Ident); isID {
					if o := info.Uses[id]; o != nil && ((assigned[o] && st.Must("resolved")) || (fromRemap[o] && st.Must("entry"))) {
						okArg = true
					}
				}
				r.Check(okArg, rule, "VariablesView.Get/remap-consulted-before-lookup#"+itoa(nView), p.Pos(c.Pos()), "the lookup in the raw variables uses the name the remap table returned, or is made on the edge where the table has no entry",
					"the raw variables are consulted under the canonical name although the remap table may hold an entry for it: a client variable that happens to be spelled like a canonical name (a, b, …) is read instead of the renamed one — `transfer(from:$b,to:$a)` sends the two values swapped")
			},
		}
		in.Run(nil)
	}
	r.Expect(rule, "keyed lookups in the raw variables inside VariablesView.Get", nView, 1)
}

// c09ResponseBytesIndependentOfMapOrder (R8): "the same … always yields the same …" ends at the bytes the client
// receives. The renderer (methods of resolve.Resolvable) writes the response through printBytes / printNode; a range over a
// Go map whose body prints makes the order of the printed members differ from run to run for identical subgraph answers
// (different bytes for caches, ETags, snapshot comparisons and the single-flight followers that share them). No range over
// a map in a Resolvable method calls a print primitive in its body; collecting the keys, sorting them and ranging over
// the sorted slice is the accepted idiom.
func c09ResponseBytesIndependentOfMapOrder(r *fw.Run) {
	p := r.Prog
	r.Rule("C09-R8", "no range over a map in a method of resolve.Resolvable prints in its body (printBytes / printNode / a print* method): the response bytes never depend on map iteration order")
	nRanges, ord := 0, 0
	for _, fi := range p.Funcs("resolve") {
		if fw.RecvName(recvTypeOrNil(fi.Obj)) != "Resolvable" {
			continue
		}
		info := fi.Info()
		inFunc := 0
		fw.WalkAll(fi.Decl.Body, func(nd ast.Node) bool {
			rs, ok := nd.(*ast.RangeStmt)
			if !ok {
				return true
			}
			tv, okT := info.Types[rs.X]
			if !okT {
				return true
			}
			if _, isMap := tv.Type.Underlying().(*types.Map); !isMap {
				return true
			}
			nRanges++
			inFunc++
			var prints ast.Node
			fw.WalkAll(rs.Body, func(m ast.Node) bool {
				if c, isCall := m.(*ast.CallExpr); isCall && prints == nil {
					if fn := fw.Callee(info, c); fn != nil && fw.RecvName(recvTypeOrNil(fn)) == "Resolvable" && strings.HasPrefix(fn.Name(), "print") {
						prints = c
					}
				}
				return true
			})
			if prints != nil {
				ord++
			}
			pos := rs.Pos()
			if prints != nil {
				pos = prints.Pos()
			}
			r.Check(prints == nil, "C09-R8", fi.Name()+"/map-range-does-not-print#"+itoa(inFunc), p.Pos(pos), "the range over a map in "+fi.Name()+" does not print",
				"response members are written in map iteration order: identical subgraph answers render to different bytes from run to run (e.g. the forwarded subgraph extensions)")
			return true
		})
	}
	r.Pass("C09-R8", "map-ranges-of-the-renderer-scanned", "-", itoa(nRanges)+" ranges over maps in Resolvable methods examined", nRanges > 0)
}

// c09SharedUpstreamSchemaIsReadOnly (R9): Configuration.UpstreamSchema() hands out the one parsed schema document of a data
// source; every planner the engine creates for that data source — for this operation, for later ones, on other
// goroutines — gets the same pointer. A planner that transforms it plans the next operation against a different schema
// ("plans depend on earlier plans"), and two planners doing so race. The rule: a value that derives from
// UpstreamSchema() is never the receiver of a mutating method of ast.Document and never handed to a parameter that is
// mutated. "Mutating method" is computed, not listed: a method of *ast.Document whose body writes through its receiver
// (assignment, append, delete, ++ rooted at it) or calls such a method on it (fixed point over package ast); "mutated
// parameter" likewise over the functions of the data source package.
func c09SharedUpstreamSchemaIsReadOnly(r *fw.Run) {
	p := r.Prog
	r.Rule("C09-R9", "in the GraphQL data source a document obtained from Configuration.UpstreamSchema() (shared by every planner of the data source) is never mutated: not the receiver of a mutating ast.Document method, not passed to a parameter that is mutated")
	isDocPtr := func(t types.Type) bool {
		pt, ok := t.(*types.Pointer)
		return ok && fw.TypeIs(pt.Elem(), "ast", "Document")
	}
	// 1. mutating methods of *ast.Document
	mutRecv := map[*types.Func]bool{}
	var docMethods []*fw.FuncInfo
	for _, fi := range p.Funcs("ast") {
		if recv := receiverObj(fi); recv != nil && isDocPtr(recv.Type()) {
			docMethods = append(docMethods, fi)
		}
	}
	writesThrough := func(fi *fw.FuncInfo, o0 types.Object, mutCallee func(*types.Func, int) bool) bool {
		info := fi.Info()
		found := false
		// o0 and the locals that are plain copies of it (x := o0): the same document
		alias := map[types.Object]bool{o0: true}
		for grew := true; grew; {
			grew = false
			fw.WalkAll(fi.Decl.Body, func(nd ast.Node) bool {
				as, ok := nd.(*ast.AssignStmt)
				if !ok || len(as.Lhs) != len(as.Rhs) {
					return true
				}
				for i, l := range as.Lhs {
					lid, isL := l.(*ast.Ident)
					rid, isR := ast.Unparen(as.Rhs[i]).(*ast.Ident)
					if isL && isR && alias[info.ObjectOf(rid)] && info.ObjectOf(lid) != nil && !alias[info.ObjectOf(lid)] {
						alias[info.ObjectOf(lid)] = true
						grew = true
					}
				}
				return true
			})
		}
		fw.WalkAll(fi.Decl.Body, func(nd ast.Node) bool {
			if found {
				return false
			}
			for _, t := range fw.WriteTargets(info, nd) {
				if t == nil {
					continue
				}
				if _, plain := ast.Unparen(t).(*ast.Ident); plain {
					continue // re-binding the variable itself is not a write through it
				}
				if alias[fw.RootObj(info, t)] {
					found = true
				}
			}
			if c, ok := nd.(*ast.CallExpr); ok {
				fn := fw.Callee(info, c)
				if fn == nil {
					return true
				}
				if sel, isSel := ast.Unparen(c.Fun).(*ast.SelectorExpr); isSel {
					if id, isID := ast.Unparen(sel.X).(*ast.Ident); isID && alias[info.ObjectOf(id)] && mutCallee(fn, -1) {
						found = true
					}
				}
				for i, a := range c.Args {
					if id, isID := ast.Unparen(a).(*ast.Ident); isID && alias[info.ObjectOf(id)] && mutCallee(fn, i) {
						found = true
					}
				}
			}
			return true
		})
		return found
	}
	for changed := true; changed; {
		changed = false
		for _, fi := range docMethods {
			if mutRecv[fi.Obj] {
				continue
			}
			if writesThrough(fi, receiverObj(fi), func(fn *types.Func, i int) bool { return i == -1 && mutRecv[fn] }) {
				mutRecv[fi.Obj] = true
				changed = true
			}
		}
	}
	nMut := 0
	for range mutRecv {
		nMut++
	}
	// 2. mutated *ast.Document parameters of the data source package
	type pk struct {
		fn  *types.Func
		idx int
	}
	mutParam := map[pk]bool{}
	mutCallee := func(fn *types.Func, i int) bool {
		if i == -1 {
			return mutRecv[fn]
		}
		return mutParam[pk{fn, i}]
	}
	for changed := true; changed; {
		changed = false
		for _, fi := range p.Funcs("gqlds") {
			sig := fi.Obj.Type().(*types.Signature)
			for i := 0; i < sig.Params().Len(); i++ {
				if !isDocPtr(sig.Params().At(i).Type()) || mutParam[pk{fi.Obj, i}] {
					continue
				}
				if writesThrough(fi, sig.Params().At(i), mutCallee) {
					mutParam[pk{fi.Obj, i}] = true
					changed = true
				}
			}
		}
	}
	// 3. uses of the shared document
	n := 0
	for _, fi := range p.Funcs("gqlds") {
		info := fi.Info()
		isShared := func(e ast.Expr) bool {
			c, ok := e.(*ast.CallExpr)
			if !ok {
				return false
			}
			fn := fw.Callee(info, c)
			return fn != nil && fn.Name() == "UpstreamSchema" && fn.Pkg() != nil && fn.Pkg().Path() == fw.PkgPath("gqlds")
		}
		uses := false
		fw.WalkAll(fi.Decl.Body, func(nd ast.Node) bool {
			if e, ok := nd.(ast.Expr); ok && isShared(e) {
				uses = true
			}
			return true
		})
		if !uses {
			continue
		}
		n++
		d := newLocalDeriver(fi)
		bad := ""
		fw.WalkAll(fi.Decl.Body, func(nd ast.Node) bool {
			c, ok := nd.(*ast.CallExpr)
			if !ok {
				return true
			}
			fn := fw.Callee(info, c)
			if fn == nil {
				return true
			}
			if sel, isSel := ast.Unparen(c.Fun).(*ast.SelectorExpr); isSel && mutRecv[fn] {
				if _, isID := ast.Unparen(sel.X).(*ast.Ident); isID && d.Derives(sel.X, isShared) {
					bad = fn.Name() + " at " + p.Pos(c.Pos())
				}
			}
			for i, a := range c.Args {
				if _, isID := ast.Unparen(a).(*ast.Ident); isID && mutParam[pk{fn, i}] && d.Derives(a, isShared) {
					bad = "handed to " + fn.Name() + ", which mutates it, at " + p.Pos(c.Pos())
				}
			}
			return true
		})
		r.Check(bad == "", "C09-R9", fi.Name()+"/shared-upstream-schema-read-only", p.Pos(fi.Decl.Pos()), "the upstream schema document "+fi.Name()+" obtains from the configuration is only read",
			"the document returned by Configuration.UpstreamSchema() is mutated ("+bad+"): it is the one schema document shared by every planner of the data source, so the next operation is planned against a transformed schema (plans depend on earlier plans) and concurrent planners race on it")
	}
	r.Expect("C09-R9", "functions of graphql_datasource that obtain the shared upstream schema", n, 2)
	r.Note("C09-R9: %d mutating methods of *ast.Document computed", nMut)
}

// c09RemapTableAccompaniesTheDocument (R10): the engine renames the variables of a request's document to canonical names
// and writes the renaming into the document, which the request object keeps. The table that maps the canonical names
// back to the client's is needed by everything that reads variables afterwards (variable validation, the resolve
// context). A request that is executed again (a retry, a stored request, a benchmark loop) arrives normalized: the
// mapper does not run, and a table held only in a local variable of the first execution is gone — the second execution
// validates and resolves a renamed document without a table. At every use of the remap table in ExecutionEngine.Execute
// (argument of ValidateWithRemap, assignment of Context.RemapVariables) the variable has been assigned on every path:
// from the variables mapper, or from the table stored with the request.
func c09RemapTableAccompaniesTheDocument(r *fw.Run) {
	p := r.Prog
	r.Rule("C09-R10", "in ExecutionEngine.Execute the remap table handed to variable validation and to the resolve context has been assigned on every path — by the variables mapper, or from the table kept with the (already normalized) request")
	fi := p.Func("engine", "ExecutionEngine.Execute")
	if fi == nil {
		r.Error("C09-R10: ExecutionEngine.Execute not found")
		return
	}
	info := fi.Info()
	// the remap variable: the local passed to ValidateWithRemap as its last argument
	var remap types.Object
	fw.WalkAll(fi.Decl.Body, func(nd ast.Node) bool {
		if c, ok := nd.(*ast.CallExpr); ok {
			if fn := fw.Callee(info, c); fn != nil && fn.Name() == "ValidateWithRemap" && len(c.Args) > 0 {
				if id, isID := ast.Unparen(c.Args[len(c.Args)-1]).(*ast.Ident); isID {
					remap = info.ObjectOf(id)
				}
			}
		}
		return true
	})
	if remap == nil {
		r.Error("C09-R10: no call of ValidateWithRemap with a local remap table found in Execute")
		return
	}
	n := 0
	in := fw.NewInterp(fi)
	use := func(pos token.Pos, what string, st *fw.State) {
		if !in.Final() {
			return
		}
		n++
		r.Check(st.Must("remap-settled"), "C09-R10", "ExecutionEngine.Execute/remap-table-settled#"+itoa(n), p.Pos(pos), "the remap table "+what+" in Execute has been assigned on every path",
			"the remap table "+what+" is still the zero value on a path (the request arrived normalized, the mapper did not run): a request executed for the second time validates and resolves its renamed document without the table — `query($userID: String){ user(id: $userID) }` sends `\"variables\":{}` the second time, a required variable is reported as `$a … was not provided`")
	}
	in.H = fw.Hooks{
		Lit: func(l *ast.FuncLit, ctx fw.LitCtx, st *fw.State) fw.LitMode { return fw.LitSkip },
		Node: func(nd ast.Node, st *fw.State) {
			switch x := nd.(type) {
			case *ast.AssignStmt:
				for i, l := range x.Lhs {
					if id, isID := l.(*ast.Ident); isID && info.ObjectOf(id) == remap && x.Tok == token.ASSIGN {
						if len(x.Rhs) == len(x.Lhs) {
							if _, isCall := ast.Unparen(x.Rhs[i]).(*ast.CallExpr); isCall {
								st.Set("remap-settled")
							}
						} else if len(x.Rhs) == 1 {
							st.Set("remap-settled")
						}
					}
					if fw.IsFieldSel(info, l, "resolve", "Context", "RemapVariables") && i < len(x.Rhs) {
						if id, isID := ast.Unparen(x.Rhs[i]).(*ast.Ident); isID && info.ObjectOf(id) == remap {
							use(x.Pos(), "assigned to Context.RemapVariables", st)
						}
					}
				}
			case *ast.CallExpr:
				if fn := fw.Callee(info, x); fn != nil && fn.Name() == "ValidateWithRemap" {
					use(x.Pos(), "handed to ValidateWithRemap", st)
				}
			}
		},
	}
	in.Run(nil)
	r.Expect("C09-R10", "uses of the remap table in Execute", n, 2)
}

// c09NoTraceOfAnEarlierRequestSurvivesAVisit (R11): with tracing enabled the loader stores the trace of a fetch — the
// subgraph's input and output — on the fetch node of the plan, which the plan cache shares with every request of the
// operation (the frozen exception of R2), and the response renders whatever the node carries. A visit of a fetch node that
// returns without (re)assigning the field leaves the trace of an earlier request in place, and this request's response
// carries another request's upstream input and output. Rule: the functions that visit a fetch item (a *FetchItem
// parameter) and write the Trace field of a plan node, directly or through a callee, are collected; for the outermost of
// them (not called by another one) every exit is reached, on every path, after "tracing is off" (the false edge of
// TracingOptions.Enable) or after the field was assigned: directly, by a resetter (a type switch with an assigning clause
// for every Trace-bearing fetch type), or by a visiting callee for which the same holds on all of its paths.
func c09NoTraceOfAnEarlierRequestSurvivesAVisit(r *fw.Run) {
	p := r.Prog
	r.Rule("C09-R11", "a visit of a fetch node with tracing enabled never leaves the trace of an earlier request on the shared plan: every exit of the outermost visiting function is reached after the Trace field was assigned (directly, by a resetter over all Trace-bearing fetch types, or by a callee that assigns it on all paths) or on the tracing-off edge")
	// Trace-bearing plan types
	bearers := map[string]bool{}
	if pkg := p.Pkg("resolve"); pkg != nil {
		sc := pkg.Types.Scope()
		for _, nm := range sc.Names() {
			tn, ok := sc.Lookup(nm).(*types.TypeName)
			if !ok || !planTypes[nm] {
				continue
			}
			if st, isSt := tn.Type().Underlying().(*types.Struct); isSt {
				for i := 0; i < st.NumFields(); i++ {
					if st.Field(i).Name() == "Trace" {
						bearers[nm] = true
					}
				}
			}
		}
	}
	r.Expect("C09-R11", "plan node types with a Trace field", len(bearers), 4)
	isTraceWrite := func(info *types.Info, nd ast.Node) (string, bool) {
		for _, t := range fw.WriteTargets(info, nd) {
			if v, sel := fw.Field(info, t); v != nil && v.Name() == "Trace" {
				if pp, tn := fw.FieldOwner(info, sel); pp == fw.PkgPath("resolve") && bearers[tn] {
					return tn, true
				}
			}
		}
		return "", false
	}
	// resetters: a type switch whose clauses assign Trace for every bearer
	resetter := map[*types.Func]bool{}
	writes := map[*types.Func]bool{}
	for _, fi := range p.Funcs("resolve") {
		info := fi.Info()
		fw.WalkAll(fi.Decl.Body, func(nd ast.Node) bool {
			if _, ok := isTraceWrite(info, nd); ok {
				writes[fi.Obj] = true
			}
			ts, ok := nd.(*ast.TypeSwitchStmt)
			if !ok {
				return true
			}
			covered := map[string]bool{}
			for _, st := range ts.Body.List {
				cc := st.(*ast.CaseClause)
				assigned := ""
				for _, b := range cc.Body {
					fw.WalkAll(b, func(x ast.Node) bool {
						if tn, w := isTraceWrite(info, x); w {
							assigned = tn
						}
						return true
					})
				}
				if assigned != "" {
					covered[assigned] = true
				}
			}
			all := len(covered) > 0
			for b := range bearers {
				if !covered[b] {
					all = false
				}
			}
			if all {
				resetter[fi.Obj] = true
			}
			return true
		})
	}
	// visiting functions: a *FetchItem parameter, and a Trace write directly or through a direct callee
	takesItem := func(fn *types.Func) bool {
		sig := fn.Type().(*types.Signature)
		for i := 0; i < sig.Params().Len(); i++ {
			if pt, ok := sig.Params().At(i).Type().(*types.Pointer); ok {
				if nt, isN := pt.Elem().(*types.Named); isN && nt.Obj().Name() == "FetchItem" {
					return true
				}
			}
		}
		return false
	}
	visiting := map[*types.Func]*fw.FuncInfo{}
	for _, fi := range p.Funcs("resolve") {
		if !takesItem(fi.Obj) || resetter[fi.Obj] {
			continue
		}
		if writes[fi.Obj] {
			visiting[fi.Obj] = fi
			continue
		}
		info := fi.Info()
		fw.WalkAll(fi.Decl.Body, func(nd ast.Node) bool {
			if c, ok := nd.(*ast.CallExpr); ok {
				if fn := fw.Callee(info, c); fn != nil && (writes[fn] || resetter[fn]) {
					visiting[fi.Obj] = fi
				}
			}
			return true
		})
	}
	// summaries: settled on all paths (iterated: callees first by fixed point from "false")
	settled := map[*types.Func]bool{}
	analyse := func(fi *fw.FuncInfo) (bad []token.Pos) {
		info := fi.Info()
		in := fw.NewInterp(fi)
		in.H = fw.Hooks{
			Lit: func(l *ast.FuncLit, ctx fw.LitCtx, st *fw.State) fw.LitMode { return fw.LitSkip },
			Cond: func(e ast.Expr, branch bool, st *fw.State) {
				if v, _ := fw.Field(info, e); v != nil && v.Name() == "Enable" && !branch {
					st.Set("trace-settled")
				}
			},
			Node: func(nd ast.Node, st *fw.State) {
				if _, w := isTraceWrite(info, nd); w {
					st.Set("trace-settled")
				}
				if c, ok := nd.(*ast.CallExpr); ok {
					if fn := fw.Callee(info, c); fn != nil && (resetter[fn] || settled[fn]) {
						st.Set("trace-settled")
					}
				}
			},
			Exit: func(ret *ast.ReturnStmt, lit *ast.FuncLit, st *fw.State) {
				if lit != nil || !in.Final() {
					return
				}
				if !st.Must("trace-settled") {
					pos := fi.Decl.End()
					if ret != nil {
						pos = ret.Pos()
					}
					bad = append(bad, pos)
				}
			},
		}
		in.Run(nil)
		return bad
	}
	for changed := true; changed; {
		changed = false
		for fn, fi := range visiting {
			if !settled[fn] && len(analyse(fi)) == 0 {
				settled[fn] = true
				changed = true
			}
		}
	}
	// outermost visiting functions
	called := map[*types.Func]bool{}
	for _, fi := range visiting {
		info := fi.Info()
		fw.WalkAll(fi.Decl.Body, func(nd ast.Node) bool {
			if c, ok := nd.(*ast.CallExpr); ok {
				if fn := fw.Callee(info, c); fn != nil && visiting[fn] != nil && fn != fi.Obj {
					called[fn] = true
				}
			}
			return true
		})
	}
	n := 0
	var roots []*fw.FuncInfo
	for fn, fi := range visiting {
		if !called[fn] {
			roots = append(roots, fi)
		}
	}
	sort.Slice(roots, func(i, j int) bool { return roots[i].Name() < roots[j].Name() })
	for _, fi := range roots {
		n++
		bad := analyse(fi)
		at := p.Pos(fi.Decl.Pos())
		if len(bad) > 0 {
			sort.Slice(bad, func(i, j int) bool { return bad[i] < bad[j] })
			at = p.Pos(bad[0])
		}
		r.Check(len(bad) == 0, "C09-R11", fi.Name()+"/trace-settled-at-exit", at, "every exit of "+fi.Name()+" is reached with the Trace field of the visited fetch assigned, or with tracing off",
			fi.Name()+" returns on a path on which tracing is on and the Trace field of the visited fetch node was not assigned ("+itoa(len(bad))+" exit(s), the first one is reported): the node belongs to the cached plan and still carries the trace an earlier request stored — `{ me { secret } }` twice, the accounts subgraph down the second time: the skipped entity fetch is rendered with request 1's `\"trace\":{\"raw_input_data\":{…\"id\":\"user-of-request-1\"},…\"output\":{…\"SECRET-OF-REQUEST-1\"…` in request 2's extensions.trace")
	}
	r.Expect("C09-R11", "outermost functions that visit a fetch item and (transitively) write its Trace", n, 1)
	r.Note("C09-R11: %d visiting functions, %d resetter(s), %d settle on all paths", len(visiting), len(resetter), len(settled))
}
