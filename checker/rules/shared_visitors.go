package rules

import (
	"go/ast"
	"go/types"
	"sort"
	"strings"

	"verif/checker/fw"
)

// wiringObligations emits one obligation per implemented astvisitor callback of every visitor type
// registered with a walker in the package: the callback must be registered (E12b). Callbacks with
// an empty body are exempt; exceptions maps "Type.Method" to a reason.
func wiringObligations(r *fw.Run, rule, pkg string, exceptions map[string]string) {
	p := r.Prog
	issues := fw.VisitorWiring(p, pkg)
	types_ := map[string]bool{}
	for _, wi := range issues {
		types_[wi.Type] = true
		key := "wiring/" + wi.Type + "." + wi.Method
		what := "callback " + wi.Type + "." + wi.Method + " is registered with the walker"
		if why, ok := exceptions[wi.Type+"."+wi.Method]; ok {
			r.Pass(rule, key, p.Pos(wi.Pos), what+" (exempt: "+why+")", false)
			continue
		}
		r.Check(wi.Registered, rule, key, p.Pos(wi.Pos), what,
			"the visitor implements this astvisitor callback but no Register*Visitor call in the package registers it for that type: the code in it never runs (the walker only calls registered callbacks), while everything type-checks and tests that do not need the callback keep passing")
	}
	r.Expect(rule, "visitor types registered in "+pkg, len(types_), 1)
}

// visitorStateReset: a visitor that lives as long as its (reusable, pooled) walker must not carry
// state from one walk into the next. For every registered visitor type, every slice/map field
// that a callback other than EnterDocument grows (append / index store / map store) has to be
// reset by the EnterDocument callback (directly or through a helper method of the visitor).
func visitorStateReset(r *fw.Run, rule, pkg string, exceptions map[string]string) {
	p := r.Prog
	pk := p.Pkg(pkg)
	if pk == nil {
		return
	}
	info := pk.TypesInfo
	visitorTypes := map[string]bool{}
	for _, wi := range fw.VisitorWiring(p, pkg) {
		visitorTypes[wi.Type] = true
	}
	type fieldUse struct {
		grown, reset bool
		grownIn      string
	}
	n := 0
	var names []string
	for t := range visitorTypes {
		names = append(names, t)
	}
	sort.Strings(names)
	// keyed by OwnerType.field: a visitor may keep its state in a sibling visitor of the same package (v.other.list = append(…)),
	// and a sibling's scope-opening callback may be the one that resets it
	uses := map[string]*fieldUse{}
	for _, tname := range names {
		var methods []*fw.FuncInfo
		for _, fi := range p.Funcs(pkg) {
			if fi.Decl.Recv != nil && strings.HasPrefix(fi.Name(), tname+".") {
				methods = append(methods, fi)
			}
		}
		// which methods are (transitively, within the type) called from EnterDocument?
		// scope-opening callbacks: state that is re-initialised whenever a document, an operation or a
		// fragment definition is entered cannot leak from one walk into the next
		inReset := map[string]bool{tname + ".EnterDocument": true, tname + ".EnterOperationDefinition": true, tname + ".EnterFragmentDefinition": true}
		// A reset in a Leave callback is NOT accepted: a walk that is stopped inside the scope (any rule sharing the
		// walker may stop it) skips the Leave callbacks, so the state would survive into the next walk (finding F10).
		for changed := true; changed; {
			changed = false
			for _, fi := range methods {
				if !inReset[fi.Name()] {
					continue
				}
				fw.WalkAll(fi.Decl.Body, func(nd ast.Node) bool {
					if c, ok := nd.(*ast.CallExpr); ok {
						if fn := fw.Callee(info, c); fn != nil && fw.RecvName(recvTypeOrNil(fn)) == tname && !inReset[tname+"."+fn.Name()] {
							inReset[tname+"."+fn.Name()] = true
							changed = true
						}
					}
					return true
				})
			}
		}
		for _, fi := range methods {
			resetCtx := inReset[fi.Name()]
			localReset := map[string]bool{} // fields re-initialised earlier in this same method (scratch buffers)
			fw.WalkAll(fi.Decl.Body, func(nd ast.Node) bool {
				note := func(target ast.Expr, grow bool) {
					v, sel := fw.Field(info, target)
					if v == nil {
						return
					}
					_, tn := fw.FieldOwner(info, sel)
					if !visitorTypes[tn] {
						return
					}
					switch v.Type().Underlying().(type) {
					case *types.Slice, *types.Map:
					default:
						return
					}
					fkey := tn + "." + v.Name()
					u := uses[fkey]
					if u == nil {
						u = &fieldUse{}
						uses[fkey] = u
					}
					if !grow {
						localReset[fkey] = true
					}
					if grow && !localReset[fkey] {
						u.grown, u.grownIn = true, fi.Name()
					}
					if !grow && resetCtx {
						u.reset = true
					}
				}
				switch x := nd.(type) {
				case *ast.AssignStmt:
					for i, l := range x.Lhs {
						lt := ast.Unparen(l)
						if ix, ok := lt.(*ast.IndexExpr); ok {
							note(ix.X, true) // m[k] = v / s[i] = v
							continue
						}
						if i < len(x.Rhs) {
							if c, ok := ast.Unparen(x.Rhs[i]).(*ast.CallExpr); ok && fw.Builtin(info, c) == "append" && len(c.Args) > 0 && fw.ExprKey(info, c.Args[0]) == fw.ExprKey(info, lt) {
								note(lt, true)
								continue
							}
						}
						note(lt, false) // plain (re)assignment: f = f[:0] / nil / make(...)
					}
				case *ast.CallExpr:
					if b := fw.Builtin(info, x); (b == "clear" || b == "delete") && len(x.Args) > 0 {
						note(x.Args[0], b == "delete" && !resetCtx && false)
						if b == "clear" {
							note(x.Args[0], false)
						}
					}
				}
				return true
			})
		}
	}
	{
		var fields []string
		for f := range uses {
			fields = append(fields, f)
		}
		sort.Strings(fields)
		for _, f := range fields {
			u := uses[f]
			if !u.grown {
				continue
			}
			n++
			key := "state-reset/" + f
			if why, ok := exceptions[f]; ok {
				r.Pass(rule, key, "-", "visitor state "+f+" (exempt: "+why+")", false)
				continue
			}
			r.Check(u.reset, rule, key, "-", "visitor state "+f+" (grown in "+u.grownIn+") is reset when a document / operation / fragment definition is entered",
				"the field accumulates entries during a walk and no scope-opening callback (EnterDocument, EnterOperationDefinition, EnterFragmentDefinition, or a helper they call) re-initialises it: a validator/normalizer that is reused (they are pooled) carries entries of the previous document into the next one — a valid operation is rejected, or an index into the new document is out of range")
		}
	}
	r.Expect(rule, "accumulating visitor fields in "+pkg, n, 1)
}

func recvTypeOrNil(fn *types.Func) types.Type {
	sig, _ := fn.Type().(*types.Signature)
	if sig == nil || sig.Recv() == nil {
		return types.Typ[types.Invalid]
	}
	return sig.Recv().Type()
}

// walkerSiblings: the two tree walkers of package astvisitor — Walker (drives normalization, validation and planning) and
// SimpleWalker (drives the printer) — descend into the same children of every node kind: for every walk<Kind> method that
// both have, the fields of AST nodes they read and the walk methods they call are the same. A child list that one of
// them forgets is never validated / normalized, resp. never printed.
func walkerSiblings(r *fw.Run, rule string) {
	p := r.Prog
	pk := p.Pkg("astvisitor")
	if pk == nil {
		r.Error("%s: package astvisitor not loaded", rule)
		return
	}
	info := pk.TypesInfo
	type sets struct{ reads, calls map[string]bool }
	collect := func(recv string) map[string]*sets {
		out := map[string]*sets{}
		for _, fi := range p.Funcs("astvisitor") {
			if fi.Decl.Recv == nil || !strings.HasPrefix(fi.Name(), recv+".walk") {
				continue
			}
			s := &sets{reads: map[string]bool{}, calls: map[string]bool{}}
			out[fi.Obj.Name()] = s
			fw.WalkAll(fi.Decl.Body, func(nd ast.Node) bool {
				sel, ok := nd.(*ast.SelectorExpr)
				if !ok {
					return true
				}
				if v, s2 := fw.Field(info, sel); v != nil {
					if pkgPath, tn := fw.FieldOwner(info, s2); strings.HasSuffix(pkgPath, "/pkg/ast") && tn != "Document" {
						s.reads[tn+"."+v.Name()] = true
					}
				}
				if sl := info.Selections[sel]; sl != nil && sl.Kind() == types.MethodVal && strings.HasPrefix(sel.Sel.Name, "walk") {
					s.calls[sel.Sel.Name] = true
				}
				return true
			})
		}
		return out
	}
	a, b := collect("Walker"), collect("SimpleWalker")
	var names []string
	for n := range a {
		if b[n] != nil {
			names = append(names, n)
		}
	}
	sort.Strings(names)
	for _, n := range names {
		var diff []string
		for k := range a[n].reads {
			if !b[n].reads[k] {
				diff = append(diff, k+" (read only by Walker)")
			}
		}
		for k := range b[n].reads {
			if !a[n].reads[k] {
				diff = append(diff, k+" (read only by SimpleWalker)")
			}
		}
		for k := range a[n].calls {
			if !b[n].calls[k] {
				diff = append(diff, k+"() (called only by Walker)")
			}
		}
		for k := range b[n].calls {
			if !a[n].calls[k] {
				diff = append(diff, k+"() (called only by SimpleWalker)")
			}
		}
		sort.Strings(diff)
		pos := "-"
		if fi := p.Func("astvisitor", "Walker."+n); fi != nil {
			pos = fi.Pos()
		}
		r.Check(len(diff) == 0, rule, "walker-siblings/"+n, pos, "Walker."+n+" and SimpleWalker."+n+" descend into the same children",
			"the two walkers disagree on: "+strings.Join(diff, ", ")+" — what only the SimpleWalker visits is printed but never validated or normalized; what only the Walker visits is validated but dropped by print")
	}
	r.Expect(rule, "walk methods that both walkers have", len(names), 31)
}

// walkerRereadsShrinkableLists: visitors are allowed to remove the directive they are called for from its node
// (ast.Document.RemoveDirectiveFromNode — that is how @skip / @include are evaluated). The removal shifts the remaining
// refs up *in place*. A walker loop written as `for _, i := range node.Directives.Refs` captured the slice header once:
// after the removal the directive that moved up is never visited (with three directives the second @skip/@include is not
// evaluated: the field stays in the operation although it is skipped — and nothing after normalization evaluates
// @skip/@include). For every node kind that RemoveDirectiveFromNode can shrink, the Walker's loop over that kind's
// Directives.Refs must re-read the list: it is not a range statement over the list.
func walkerRereadsShrinkableLists(r *fw.Run, rule string) {
	p := r.Prog
	rm := p.Func("ast", "Document.RemoveDirectiveFromNode")
	if rm == nil {
		r.Error("%s: ast.Document.RemoveDirectiveFromNode not found", rule)
		return
	}
	// the Document slices the removal shrinks: d.<Slice>[…].Directives.Refs passed to a delete helper / re-assigned
	shrinkable := map[string]bool{}
	rinfo := rm.Info()
	fw.WalkAll(rm.Decl.Body, func(nd ast.Node) bool {
		c, ok := nd.(*ast.CallExpr)
		if !ok {
			return true
		}
		for _, a := range c.Args {
			u, isAddr := ast.Unparen(a).(*ast.UnaryExpr)
			if !isAddr || u.Op.String() != "&" {
				continue
			}
			if name := docSliceOfDirectiveRefs(rinfo, u.X); name != "" {
				shrinkable[name] = true
			}
		}
		return true
	})
	if len(shrinkable) < 3 {
		r.Error("%s: the node kinds RemoveDirectiveFromNode shrinks were not recognised (%d)", rule, len(shrinkable))
		return
	}
	n := 0
	seen := map[string]bool{}
	for _, fi := range p.Funcs("astvisitor") {
		if fw.RecvName(recvTypeOrNil(fi.Obj)) != "Walker" {
			continue
		}
		info := fi.Info()
		fw.WalkAll(fi.Decl.Body, func(nd ast.Node) bool {
			// every statement whose loop bound / range expression is a shrinkable list
			var over ast.Expr
			isRange := false
			switch x := nd.(type) {
			case *ast.RangeStmt:
				over, isRange = x.X, true
			case *ast.ForStmt:
				if x.Cond != nil {
					fw.WalkAll(x.Cond, func(m ast.Node) bool {
						if c, ok := m.(*ast.CallExpr); ok && fw.Builtin(info, c) == "len" && len(c.Args) == 1 {
							over = c.Args[0]
						}
						return true
					})
				}
			}
			if over == nil {
				return true
			}
			name := docSliceOfDirectiveRefs(info, over)
			if name == "" || !shrinkable[name] {
				return true
			}
			n++
			seen[name] = true
			r.Check(!isRange, rule, "Walker/"+fi.Obj.Name()+"/re-reads:"+name+".Directives.Refs", p.Pos(nd.Pos()), "the Walker's loop over "+name+"[ref].Directives.Refs re-reads the list on every step (visitors may remove the directive they are called for)",
				"the loop ranges over a slice header captured once while RemoveDirectiveFromNode shifts the remaining refs up in place: the directive that moves into the place of a removed one is never visited — `a @include(if: true) @skip(if: true) @audit` keeps the field although it is skipped, and normalization is not idempotent")
			return true
		})
	}
	for name := range shrinkable {
		if !seen[name] {
			r.Error("%s: no Walker loop over %s[ref].Directives.Refs found", rule, name)
		}
	}
	r.Expect(rule, "Walker loops over directive lists that visitors may shrink", n, 3)
}

// docSliceOfDirectiveRefs: e is <doc>.<Slice>[…].Directives.Refs → Slice.
func docSliceOfDirectiveRefs(info *types.Info, e ast.Expr) string {
	s1, ok := ast.Unparen(e).(*ast.SelectorExpr)
	if !ok || s1.Sel.Name != "Refs" {
		return ""
	}
	s2, ok := ast.Unparen(s1.X).(*ast.SelectorExpr)
	if !ok || s2.Sel.Name != "Directives" {
		return ""
	}
	ix, ok := ast.Unparen(s2.X).(*ast.IndexExpr)
	if !ok {
		return ""
	}
	fv, sel := fw.Field(info, ix.X)
	if fv == nil {
		return ""
	}
	if tv, okT := info.Types[sel.X]; !okT || !fw.TypeIs(tv.Type, "ast", "Document") {
		return ""
	}
	return fv.Name()
}
