package rules

import (
	"go/ast"
	"go/token"
	"go/types"
	"sort"
	"strconv"
	"strings"

	"verif/checker/fw"
)

const (
	c19TwGo      = "execution/subscription/websocket/protocol_graphql_transport_ws.go"
	c19WsGo      = "execution/subscription/websocket/protocol_graphql_ws.go"
	c19EngineGo  = "execution/subscription/engine.go"
	c19ContextGo = "execution/subscription/context.go"
	c19HandlerGo = "execution/subscription/handler.go"

	c19TwHandler = "ProtocolGraphQLTransportWSHandler"
	c19TwEvents  = "GraphQLTransportWSEventHandler"
	c19TwEnum    = "GraphQLTransportWSMessageType"
	c19LkCancel  = "subscription.subscriptionCancellations.mu"
)

// c19Proto is the frozen description of one sub-protocol: which constants of the message-type
// enum travel client→server and which server→client (from the two protocol documents).
type c19Proto struct {
	name, enum, handler, events, writer, msg string
	c2s, s2c                                 []string
	data, complete                           string
}

var c19Protos = []c19Proto{
	{name: "graphql-transport-ws", enum: c19TwEnum, handler: c19TwHandler, events: c19TwEvents,
		writer: "GraphQLTransportWSMessageWriter", msg: "GraphQLTransportWSMessage",
		c2s:  []string{"GraphQLTransportWSMessageTypeConnectionInit", "GraphQLTransportWSMessageTypePing", "GraphQLTransportWSMessageTypePong", "GraphQLTransportWSMessageTypeSubscribe", "GraphQLTransportWSMessageTypeComplete"},
		s2c:  []string{"GraphQLTransportWSMessageTypeConnectionAck", "GraphQLTransportWSMessageTypePing", "GraphQLTransportWSMessageTypePong", "GraphQLTransportWSMessageTypeNext", "GraphQLTransportWSMessageTypeError", "GraphQLTransportWSMessageTypeComplete"},
		data: "GraphQLTransportWSMessageTypeNext", complete: "GraphQLTransportWSMessageTypeComplete"},
	{name: "graphql-ws", enum: "GraphQLWSMessageType", handler: "ProtocolGraphQLWSHandler", events: "GraphQLWSWriteEventHandler",
		writer: "GraphQLWSMessageWriter", msg: "GraphQLWSMessage",
		c2s:  []string{"GraphQLWSMessageTypeConnectionInit", "GraphQLWSMessageTypeStart", "GraphQLWSMessageTypeStop", "GraphQLWSMessageTypeConnectionTerminate"},
		s2c:  []string{"GraphQLWSMessageTypeConnectionAck", "GraphQLWSMessageTypeConnectionError", "GraphQLWSMessageTypeConnectionKeepAlive", "GraphQLWSMessageTypeData", "GraphQLWSMessageTypeError", "GraphQLWSMessageTypeComplete"},
		data: "GraphQLWSMessageTypeData", complete: "GraphQLWSMessageTypeComplete"},
}

func init() {
	Registry["C19"] = Spec{
		Pkgs: map[string][]string{"execution": {"subscription", "websocket"}, "v2": {"graphqlerrors"}},
		Run:  runC19,
		Explanation: "Decides the structural half of 'the WebSocket server obeys graphql-ws / graphql-transport-ws on any message sequence': " +
			"(R1) under graphql-transport-ws Engine.StartOperation is dominated by connectionInitialized, the not-initialised edge closes with 4401, a second init closes with 4429 and is neither acknowledged nor re-run, the flag/ack are reached only after the init callback's error was seen nil, an init error closes with a 44xx code and never starts the heartbeat, unknown type and JSON syntax errors close with 4400, the init timer is wired to connection-open and its action closes with 4408, a duplicate id is detected before the table is overwritten, stops StartOperation before the goroutine starts and closes with 4409; " +
			"(R2) both Handle switches cover every client→server constant, both HandleWriteEvent switches every server→client constant and each arm calls the writer method that serialises exactly that type, every written type is a server→client type, both Emit switches cover every id-carrying event the engine emits; " +
			"(R3) every WriteBytesToClient holds the writer mutex; (R4) every access of subscriptionCancellations.cancellations holds its mutex (exclusively for writes); " +
			"(R5) every exit of UniversalProtocolHandler.Handle after a message may have been handled has passed TerminateAllSubscriptions and the cancel of the context handed to the protocol, and no exit of the read loop is control-dependent on a protocol error; " +
			"(R6) a non-subscription operation emits exactly one terminal event on every exit and releases its id, the protocols turn it into one data message followed by one complete, StopSubscription cancels before/with its Complete; " +
			"(R7) close frames are written under the same mutex as data frames. " +
			"It does not decide acceptance of whole output traces by the protocol automata (interleavings of engine events with client messages).",
		Mutants: []Mutant{
			{Name: "a connection whose init was refused stays open (reverts part of the F85 fix)", File: "execution/subscription/websocket/protocol_graphql_ws.go", Rule: "C19-R17", Key: "ProtocolGraphQLWSHandler.Handle/closed-after:refused-init",
				Old: "\t\t\t// The connection was refused: it must not stay usable for a client that ignores the\n\t\t\t// connection_error (subscriptions-transport-ws closes the socket after it).\n\t\t\tp.disconnect()\n", New: ""},
			{Name: "a report with internal errors only is converted by the HTTP helper, which answers nil (seeded change C19-13)", File: "v2/pkg/graphqlerrors/errors.go", Rule: "C19-R15", Key: "RequestErrorsFromError/error-payload-never-empty",
				Old: "\tif errors.As(err, &report) {\n\t\tif len(report.ExternalErrors) == 0 {\n", New: "\tif errors.As(err, &report) {\n\t\tif len(report.ExternalErrors) >= 0 {\n\t\t\treturn RequestErrorsFromOperationReport(report)\n\t\t}\n\t\tif len(report.ExternalErrors) == 0 {\n"},
			{Name: "the finished query releases its id a second time on its way out (reverts the F60 fix)", File: "execution/subscription/engine.go", Rule: "C19-R14", Key: "ExecutorEngine.handleNonSubscriptionOperation/id-released-only-while-owned",
				Old: "\t\t// the id is not released here: that has happened before the terminal message was written,\n\t\t// and by now the client may have started another operation under the same id\n", New: "\t\te.subCancellations.Cancel(id)\n"},
			{Name: "the subscription goroutine releases its id when it ends (seeded change C19-1)", File: "execution/subscription/engine.go", Rule: "C19-R14", Key: "ExecutorEngine.startSubscription/id-released-only-while-owned",
				Old: "func (e *ExecutorEngine) startSubscription(ctx context.Context, id string, executor Executor, eventHandler EventHandler) {\n\tdefer func() {\n", New: "func (e *ExecutorEngine) startSubscription(ctx context.Context, id string, executor Executor, eventHandler EventHandler) {\n\tdefer func() {\n\t\te.subCancellations.Cancel(id)\n"},
			{Name: "wrongly typed messages are only logged (reverts part of the F56 fix)", File: c19TwGo, Rule: "C19-R13", Key: "ProtocolGraphQLTransportWSHandler.Handle/undecodable-message-closes-the-connection",
				Old: "\t\tp.closeConnectionWithReason(NewCloseReason(4400, \"Invalid message\"))\n", New: ""},
			{Name: "subscribe without id is executed (reverts part of the F56 fix)", File: c19TwGo, Rule: "C19-R13", Key: "ProtocolGraphQLTransportWSHandler.handleSubscribe/start-operation-needs-an-id",
				Old: "\tif message.Id == \"\" {\n\t\tp.closeConnectionWithReason(NewCloseReason(4400, \"Invalid message: missing id\"))\n\t\treturn nil\n\t}\n\n", New: ""},
			{Name: "InitFunc skipped for a connection_init without payload (reverts the F42 fix)", File: "execution/subscription/websocket/protocol_graphql_transport_ws.go", Rule: "C19-R12", Key: "ProtocolGraphQLTransportWSHandler.handleInit/ack-only-after-the-init-func",
				Old: "\tif p.initFunc != nil {\n", New: "\tif p.initFunc != nil && len(payload) > 0 {\n"},
			{Name: "connected test made before the write lock is taken (reverts part of the F39 fix)", File: "execution/subscription/websocket/client.go", Rule: "C19-R9", Key: "Client.WriteBytesToClient/connected-test-in-the-critical-section-of-the-write",
				Old: "\tc.writeMu.Lock()\n\tif !c.IsConnected() {\n\t\tc.writeMu.Unlock()\n\t\treturn subscription.ErrTransportClientClosedConnection\n\t}\n", New: "\tif !c.IsConnected() {\n\t\treturn subscription.ErrTransportClientClosedConnection\n\t}\n\tc.writeMu.Lock()\n"},
			{Name: "close frame written without marking the client closed under the lock (reverts part of the F39 fix)", File: "execution/subscription/websocket/client.go", Rule: "C19-R9", Key: "Client.writeFrame/close-frame-writer-marks-closed-under-the-lock",
				Old: "\tdefer c.changeConnectionStateToClosed()\n\treturn ws.WriteFrame(c.clientConn, frame)\n", New: "\treturn ws.WriteFrame(c.clientConn, frame)\n"},
			{Name: "every client complete is echoed (reverts the F40 fix)", File: "execution/subscription/engine.go", Rule: "C19-R10", Key: "ExecutorEngine.StopSubscription/complete-only-for-an-active-id",
				Old: "\tif e.subCancellations.Cancel(id) {\n\t\teventHandler.Emit(EventTypeOnSubscriptionCompleted, id, nil, nil)\n\t}\n", New: "\te.subCancellations.Cancel(id)\n\teventHandler.Emit(EventTypeOnSubscriptionCompleted, id, nil, nil)\n"},
			{Name: "id of a query released only by the deferred function (reverts the F41 fix)", File: "execution/subscription/engine.go", Rule: "C19-R11", Key: "ExecutorEngine.handleNonSubscriptionOperation/id-released-before-terminal-event",
				Old: "\terr := executor.Execute(buf)\n\t// The operation is over: release its id before the terminal message is written,\n\t// a client that has received it may re-use the id at once.\n\te.subCancellations.Cancel(id)\n", New: "\terr := executor.Execute(buf)\n"},
			{Name: "graphql-transport-ws frames decoded with the streaming decoder (control for seeded change C19-23; the reader argument is irrelevant to the rule)", File: "execution/subscription/websocket/protocol_graphql_transport_ws.go", Rule: "C19-R8", Key: "GraphQLTransportWSMessageReader.Read/streaming-decode",
				Old: "\tvar message GraphQLTransportWSMessage\n\terr := json.Unmarshal(data, &message)\n", New: "\tvar message GraphQLTransportWSMessage\n\t_ = data\n\terr := json.NewDecoder(nil).Decode(&message)\n"},
			{Name: "read time-out flag not reset when the timer is stopped (seeded change C19-12)", File: "execution/subscription/handler.go", Rule: "C19-R5", Key: "timeout-state-pair:readTimeOutCancel",
				Old: "\t\t\t\tu.readTimeOutCancel()\n\t\t\t\tu.isReadTimeOutTimerRunning = false\n", New: "\t\t\t\tu.readTimeOutCancel()\n"},
			{Name: "subscribe no longer requires connection_init", File: c19TwGo, Rule: "C19-R1", Key: "start-requires-init",
				Old: "\tif !p.connectionInitialized {\n\t\tp.closeConnectionWithReason(\n\t\t\tNewCloseReason(4401, \"Unauthorized\"),\n\t\t)\n\t\treturn nil\n\t}\n\n\tif message.Id == \"\" {", New: "\tif message.Id == \"\" {"},
			{Name: "subscribe before init closes with 4400 instead of 4401", File: c19TwGo, Rule: "C19-R1", Key: "subscribe-before-init-closes-4401",
				Old: "\t\t\tNewCloseReason(4401, \"Unauthorized\"),\n", New: "\t\t\tNewCloseReason(4400, \"Unauthorized\"),\n"},
			{Name: "second init closes but is then processed and acknowledged again", File: c19TwGo, Rule: "C19-R1", Key: "ack-only-on-first-successful-init",
				Old: "\t\t\tNewCloseReason(4429, \"Too many initialisation requests\"),\n\t\t)\n\t\treturn ctx, nil\n\t}", New: "\t\t\tNewCloseReason(4429, \"Too many initialisation requests\"),\n\t\t)\n\t}"},
			{Name: "connection marked initialised before the init callback decided", File: c19TwGo, Rule: "C19-R1", Key: "init-error-leaves-uninitialized",
				Old: "\tinitCtx := ctx\n\tif p.initFunc != nil {", New: "\tinitCtx := ctx\n\tp.connectionInitialized = true\n\tif p.initFunc != nil {"},
			{Name: "failed init falls through to the heartbeat", File: c19TwGo, Rule: "C19-R1", Key: "heartbeat-requires-init-ok",
				Old: "\t\t\t// would otherwise crash the heartbeat goroutine on <-ctx.Done().\n\t\t\treturn err\n", New: "\t\t\t// would otherwise crash the heartbeat goroutine on <-ctx.Done().\n"},
			{Name: "unknown message type only logged", File: c19TwGo, Rule: "C19-R1", Key: "unknown-type-closes-4400",
				Old: "\t\tp.closeConnectionWithReason(\n\t\t\tNewCloseReason(4400, fmt.Sprintf(\"Invalid type '%s'\", string(message.Type))),\n\t\t)\n", New: "\t\tp.logger.Error(fmt.Sprintf(\"Invalid type '%s'\", string(message.Type)))\n"},
			{Name: "init timer no longer wired to connection-open", File: c19TwGo, Rule: "C19-R1", Key: "init-timer-wired",
				Old: "\tprotocolHandler.eventHandler.OnConnectionOpened = protocolHandler.startConnectionInitTimer\n", New: ""},
			{Name: "duplicate id only refused for a nil parent (table overwritten)", File: c19ContextGo, Rule: "C19-R1", Key: "store-requires-absent",
				Old: "\tif _, ok := sc.cancellations[id]; ok {", New: "\tif _, ok := sc.cancellations[id]; ok && parent == nil {"},
			{Name: "operation started although the id is a duplicate", File: c19EngineGo, Rule: "C19-R1", Key: "go-requires-registration",
				Old: "\tif ctx, err = e.checkForDuplicateSubscriberID(ctx, id, eventHandler); err != nil {\n\t\treturn err\n\t}\n", New: "\tctx, _ = e.checkForDuplicateSubscriberID(ctx, id, eventHandler)\n"},
			{Name: "ping arm dropped from the transport-ws dispatch", File: c19TwGo, Rule: "C19-R2", Key: "ProtocolGraphQLTransportWSHandler.Handle/covers-client-messages",
				Old: "\tcase GraphQLTransportWSMessageTypePing:\n\t\tp.handlePing(message.Payload)\n", New: ""},
			{Name: "next arm writes a complete message", File: c19TwGo, Rule: "C19-R2", Key: "arm-writes-its-type:GraphQLTransportWSMessageTypeNext",
				Old: "\t\terr = g.Writer.WriteNext(id, data)\n", New: "\t\terr = g.Writer.WriteComplete(id)\n"},
			{Name: "graphql-ws Emit drops the error event", File: c19WsGo, Rule: "C19-R2", Key: "GraphQLWSWriteEventHandler.Emit/covers-engine-events",
				Old: "\tcase subscription.EventTypeOnError:\n\t\tmessageType = GraphQLWSMessageTypeError\n", New: ""},
			// (with the client-level write mutex of fix 965cf30 a writer that drops its own mutex is no longer a
			// violation: frames stay serialised; the R3/R7 mutants therefore remove the client's mutex)
			{Name: "client writes text frames without its write mutex", File: "execution/subscription/websocket/client.go", Rule: "C19-R7", Key: "close-frame-holds-writer-mutex",
				Old: "\tc.writeMu.Lock()\n\tif !c.IsConnected() {\n\t\tc.writeMu.Unlock()\n\t\treturn subscription.ErrTransportClientClosedConnection\n\t}\n\terr := wsutil.WriteServerMessage(c.clientConn, ws.OpText, message)\n\tc.writeMu.Unlock()\n", New: "\tif !c.IsConnected() {\n\t\treturn subscription.ErrTransportClientClosedConnection\n\t}\n\terr := wsutil.WriteServerMessage(c.clientConn, ws.OpText, message)\n"},
			{Name: "Cancel touches the id table without the lock", File: c19ContextGo, Rule: "C19-R4", Key: "subscriptionCancellations.Cancel/write",
				Old: "func (sc *subscriptionCancellations) Cancel(id string) (ok bool) {\n\tsc.mu.Lock()\n\tdefer sc.mu.Unlock()\n", New: "func (sc *subscriptionCancellations) Cancel(id string) (ok bool) {\n"},
			{Name: "AddWithParent stores under the read lock", File: c19ContextGo, Rule: "C19-R4", Key: "subscriptionCancellations.AddWithParent/write",
				Old: "(context.Context, error) {\n\tsc.mu.Lock()\n\tdefer sc.mu.Unlock()\n", New: "(context.Context, error) {\n\tsc.mu.RLock()\n\tdefer sc.mu.RUnlock()\n"},
			{Name: "TerminateAllSubscriptions ranges over the id table without the lock (F7 shape)", File: c19EngineGo, Rule: "C19-R4", Key: "ExecutorEngine.TerminateAllSubscriptions/read",
				Old: "\tfor _, id := range e.subCancellations.IDs() {", New: "\tfor id := range e.subCancellations.cancellations {"},
			{Name: "TerminateAllSubscriptions skips ids", File: c19EngineGo, Rule: "C19-R5", Key: "terminate-cancels-every-id",
				Old: "\tfor _, id := range e.subCancellations.IDs() {\n\t\te.subCancellations.Cancel(id)\n", New: "\tfor _, id := range e.subCancellations.IDs() {\n\t\tif id == \"\" {\n\t\t\tcontinue\n\t\t}\n\t\te.subCancellations.Cancel(id)\n"},
			{Name: "handler exit no longer cancels its context", File: c19HandlerGo, Rule: "C19-R5", Key: "exit-cancels",
				Old: "\t\t}\n\t\tcancel()\n\t}()\n", New: "\t\t}\n\t}()\n"},
			{Name: "a protocol error ends the read loop", File: c19HandlerGo, Rule: "C19-R5", Key: "protocol-error-stays-in-loop",
				Old: "\t\t\t\t\t\tu.logger.Error(\"subscription.UniversalProtocolHandler.Handle: on protocol handling message\",\n\t\t\t\t\t\t\tabstractlogger.Error(err),\n\t\t\t\t\t\t)\n\t\t\t\t\t}\n",
				New: "\t\t\t\t\t\tu.logger.Error(\"subscription.UniversalProtocolHandler.Handle: on protocol handling message\",\n\t\t\t\t\t\t\tabstractlogger.Error(err),\n\t\t\t\t\t\t)\n\t\t\t\t\t}\n\t\t\t\t\treturn\n"},
			{Name: "protocol handler gets the uncancellable parent context", File: c19HandlerGo, Rule: "C19-R5", Key: "handle-ctx-is-cancelled-at-exit",
				Old: "u.protocol.Handle(ctxWithCancel, u.engine, message)", New: "u.protocol.Handle(ctx, u.engine, message)"},
			{Name: "failed query emits error and then a result", File: c19EngineGo, Rule: "C19-R6", Key: "exactly-one-terminal-emit",
				Old: "\t\teventHandler.Emit(EventTypeOnError, id, nil, err)\n\t\treturn\n\t}\n\n\te.logger.Debug(\"subscription.Handle.handleNonSubscriptionOperation()\"", New: "\t\teventHandler.Emit(EventTypeOnError, id, nil, err)\n\t}\n\n\te.logger.Debug(\"subscription.Handle.handleNonSubscriptionOperation()\""},
			{Name: "graphql-ws sends complete before the data of a query", File: c19WsGo, Rule: "C19-R6", Key: "GraphQLWSWriteEventHandler.Emit/data-then-complete",
				Old: "\t\tg.HandleWriteEvent(GraphQLWSMessageTypeData, id, data, err)\n\t\tg.HandleWriteEvent(GraphQLWSMessageTypeComplete, id, data, err)\n", New: "\t\tg.HandleWriteEvent(GraphQLWSMessageTypeComplete, id, data, err)\n\t\tg.HandleWriteEvent(GraphQLWSMessageTypeData, id, data, err)\n"},
			{Name: "a failing query keeps its id registered (seeded change C19-21, ported)", File: c19EngineGo, Rule: "C19-R6", Key: "releases-id",
				Old: "\terr := executor.Execute(buf)\n\t// The operation is over: release its id before the terminal message is written,\n\t// a client that has received it may re-use the id at once.\n\te.subCancellations.Cancel(id)\n\tif err != nil {\n",
				New: "\terr := executor.Execute(buf)\n\tif err == nil {\n\t\te.subCancellations.Cancel(id)\n\t}\n\tif err != nil {\n"},
			{Name: "close frame written without the client's write mutex", File: "execution/subscription/websocket/client.go", Rule: "C19-R7", Key: "close-frame-holds-writer-mutex",
				Old: "func (c *Client) writeFrame(frame ws.Frame) error {\n\tc.writeMu.Lock()\n\tdefer c.writeMu.Unlock()\n", New: "func (c *Client) writeFrame(frame ws.Frame) error {\n"},
		},
	}
}

// ---- helpers ------------------------------------------------------------------------------------

// c19Trig describes where an obligation starts inside one function.
type c19Trig struct {
	Entry  bool
	Cond   func(e ast.Expr, branch bool) bool
	Case   func(tag ast.Expr, vals []ast.Expr) bool // vals == nil: the default clause
	Node   func(n ast.Node) bool
	Excuse func(e ast.Expr, branch bool) bool // an edge on which the obligation no longer applies
}

// c19Follows: on every path of fi (or of lit, analysed as a function of its own) from a trigger to
// the exit of that frame a node accepted by rel occurs (deferred calls included). It returns the
// number of distinct triggers and the first exit that is reachable with the obligation open.
func c19Follows(fi *fw.FuncInfo, lit *ast.FuncLit, t c19Trig, rel func(n ast.Node) bool) (triggers int, bad token.Pos) {
	const pend = "c19:pending"
	in := fw.NewInterp(fi)
	seen := map[token.Pos]bool{}
	fire := func(pos token.Pos, st *fw.State) {
		st.Set(pend)
		if in.Final() && !seen[pos] {
			seen[pos] = true
			triggers++
		}
	}
	in.H = fw.Hooks{
		Cond: func(e ast.Expr, branch bool, st *fw.State) {
			if t.Excuse != nil && t.Excuse(e, branch) {
				st.Kill(pend)
			}
			if t.Cond != nil && t.Cond(e, branch) {
				fire(e.Pos(), st)
			}
		},
		Case: func(tag ast.Expr, vals []ast.Expr, match bool, st *fw.State) {
			if !match || t.Case == nil || !t.Case(tag, vals) {
				return
			}
			pos := tag.End()
			if len(vals) > 0 {
				pos = vals[0].Pos()
			}
			fire(pos, st)
		},
		Node: func(n ast.Node, st *fw.State) {
			if rel(n) {
				st.Kill(pend)
			}
			if t.Node != nil && t.Node(n) {
				fire(n.Pos(), st)
			}
		},
		Exit: func(ret *ast.ReturnStmt, l *ast.FuncLit, st *fw.State) {
			if l != lit || !in.Final() || !st.May(pend) || bad != token.NoPos {
				return
			}
			switch {
			case ret != nil:
				bad = ret.Pos()
			case lit != nil:
				bad = lit.End()
			default:
				bad = fi.Decl.End()
			}
		},
	}
	entry := fw.NewState()
	if t.Entry {
		entry.Set(pend)
		triggers++
	}
	if lit != nil {
		in.RunLit(lit, entry)
	} else {
		in.Run(entry)
	}
	return
}

func c19IsDisconnect(info *types.Info, call *ast.CallExpr) bool {
	return fw.CallIs(info, call, "subscription", "TransportClient.DisconnectWithReason") || fw.CallIs(info, call, "websocket", "Client.DisconnectWithReason")
}

// c19Closer recognises calls that close the client connection with a reason: DisconnectWithReason
// itself or an in-package wrapper that forwards one of its parameters to it on every path.
type c19Closer struct {
	p   *fw.Prog
	fwd map[*types.Func]int
}

func (c *c19Closer) forwardIndex(fn *types.Func) int {
	if v, ok := c.fwd[fn]; ok {
		return v
	}
	c.fwd[fn] = -1
	fi := c.p.FuncOf(fn)
	if fi == nil {
		return -1
	}
	info := fi.Info()
	sig := fn.Type().(*types.Signature)
	in := fw.NewInterp(fi)
	in.H = fw.Hooks{Node: func(n ast.Node, st *fw.State) {
		call, ok := n.(*ast.CallExpr)
		if !ok || !c19IsDisconnect(info, call) || len(call.Args) != 1 {
			return
		}
		if id, ok := ast.Unparen(call.Args[0]).(*ast.Ident); ok {
			for i := 0; i < sig.Params().Len(); i++ {
				if info.Uses[id] == sig.Params().At(i) {
					st.Set("fwd:" + strconv.Itoa(i))
				}
			}
		}
	}}
	exit := in.Run(nil)
	for i := 0; i < sig.Params().Len(); i++ {
		if exit.Must("fwd:" + strconv.Itoa(i)) {
			c.fwd[fn] = i
		}
	}
	return c.fwd[fn]
}

// code returns the constant close code of a closing call ("" when the reason is not a
// NewCloseReason(<const>, …) call); ok is false when n does not close the connection.
func (c *c19Closer) code(info *types.Info, n ast.Node) (code string, ok bool) {
	call, isCall := n.(*ast.CallExpr)
	if !isCall {
		return "", false
	}
	var reason ast.Expr
	if c19IsDisconnect(info, call) && len(call.Args) == 1 {
		reason = call.Args[0]
	} else if fn := fw.Callee(info, call); fn != nil && fn.Pkg() != nil && fn.Pkg().Path() == fw.PkgPath("websocket") {
		if i := c.forwardIndex(fn); i >= 0 && i < len(call.Args) {
			reason = call.Args[i]
		}
	}
	if reason == nil {
		return "", false
	}
	if rc, isC := ast.Unparen(reason).(*ast.CallExpr); isC && fw.CallIs(info, rc, "websocket", "NewCloseReason") && len(rc.Args) == 2 {
		if v, isConst := fw.ConstVal(info, rc.Args[0]); isConst {
			return v, true
		}
	}
	return "", true
}

func (c *c19Closer) closesWith(info *types.Info, codes ...string) func(ast.Node) bool {
	return func(n ast.Node) bool {
		code, ok := c.code(info, n)
		return ok && contains(codes, code)
	}
}

func c19RecvIs(fi *fw.FuncInfo, typ string) bool {
	sig := fi.Obj.Type().(*types.Signature)
	return sig.Recv() != nil && fw.RecvName(sig.Recv().Type()) == typ
}

func c19ConstName(info *types.Info, e ast.Expr) string {
	if c := fw.ConstObj(info, e); c != nil {
		return c.Name()
	}
	return ""
}

func c19ValsContain(info *types.Info, vals []ast.Expr, name string) bool {
	for _, v := range vals {
		if c19ConstName(info, v) == name {
			return true
		}
	}
	return false
}

// c19EmitEvent: call of subscription.EventHandler.Emit (or of a concrete Emit implementing it);
// returns the name of the constant event type.
func c19EmitEvent(info *types.Info, n ast.Node) (string, *ast.CallExpr) {
	call, ok := n.(*ast.CallExpr)
	if !ok || len(call.Args) != 4 || !fw.CallIs(info, call, "subscription", "EventHandler.Emit") {
		return "", nil
	}
	return c19ConstName(info, call.Args[0]), call
}

// c19FieldCall: call of a function-typed struct field pkg.typ.field.
func c19FieldCall(info *types.Info, n ast.Node, pkg, typ, field string) bool {
	call, ok := n.(*ast.CallExpr)
	return ok && fw.IsFieldSel(info, call.Fun, pkg, typ, field)
}

func c19Pos(p *fw.Prog, bad token.Pos, fi *fw.FuncInfo) string {
	if bad != token.NoPos {
		return p.Pos(bad)
	}
	return fi.Pos()
}

func c19Sorted(m map[string]bool) []string {
	var out []string
	for k := range m {
		out = append(out, k)
	}
	sort.Strings(out)
	return out
}

// c19LockAnalysis: lock sets over both packages plus what is known about connectionInitialized.
func c19LockAnalysis(p *fw.Prog) *fw.LockAnalysis {
	// methods that (transitively) assign the flag invalidate what a caller knows about it
	writes := map[*types.Func]bool{}
	for _, fi := range p.Funcs("websocket") {
		fw.WalkAll(fi.Decl.Body, func(n ast.Node) bool {
			if as, ok := n.(*ast.AssignStmt); ok {
				for _, l := range as.Lhs {
					if fw.IsFieldSel(fi.Info(), l, "websocket", c19TwHandler, "connectionInitialized") {
						writes[fi.Obj] = true
					}
				}
			}
			return true
		})
	}
	for changed := true; changed; {
		changed = false
		fw.EachCall(p.Funcs("websocket"), func(fi *fw.FuncInfo, c *ast.CallExpr, _ []ast.Node) {
			if fn := fw.Callee(fi.Info(), c); fn != nil && writes[fn] && !writes[fi.Obj] {
				writes[fi.Obj] = true
				changed = true
			}
		})
	}
	la := fw.NewLockAnalysis(p, "subscription", "websocket")
	la.KeepFacts = []string{"g:"}
	la.ExtraCond = func(in *fw.Interp, e ast.Expr, branch bool, st *fw.State) {
		if fw.IsFieldSel(in.Info, e, "websocket", c19TwHandler, "connectionInitialized") {
			st.Kill("g:init")
			st.Kill("g:notinit")
			if branch {
				st.Set("g:init")
			} else {
				st.Set("g:notinit")
			}
		}
	}
	la.ExtraNode = func(in *fw.Interp, n ast.Node, st *fw.State) {
		switch x := n.(type) {
		case *ast.AssignStmt:
			for i, l := range x.Lhs {
				if !fw.IsFieldSel(in.Info, l, "websocket", c19TwHandler, "connectionInitialized") {
					continue
				}
				st.Kill("g:init")
				st.Kill("g:notinit")
				if i < len(x.Rhs) && len(x.Lhs) == len(x.Rhs) {
					if v, ok := fw.ConstVal(in.Info, x.Rhs[i]); ok && v == "true" {
						st.Set("g:init")
					}
				}
			}
		case *ast.CallExpr:
			if fn := fw.Callee(in.Info, x); fn != nil && writes[fn] {
				st.Kill("g:init")
				st.Kill("g:notinit")
			}
		}
	}
	la.Solve()
	return la
}

func runC19(r *fw.Run) {
	defer c19ReadTimeoutStatePair(r)
	defer c19FramesDecodedWhole(r)
	defer c19UndecodableMessagesClose4400(r)
	defer c19InitFuncAlwaysConsulted(r)
	defer c19NoDataFrameAfterCloseFrame(r)
	defer c19CompleteOnlyForActiveIds(r)
	defer c19IdReleasedBeforeTerminalMessage(r)
	defer c19IdReleasedOnlyWhileOwned(r)
	defer c19ErrorPayloadNeverEmpty(r)
	defer c19TerminalEventEndsTheGoroutine(r)
	defer c19RefusedOrTerminatedConnectionsAreClosed(r)
	p := r.Prog
	ws, sub := p.Pkg("websocket"), p.Pkg("subscription")
	if ws == nil || sub == nil {
		r.Error("packages execution/subscription and execution/subscription/websocket not loaded")
		return
	}
	if p.Named("websocket", c19TwHandler) == nil || p.Named("subscription", "subscriptionCancellations") == nil {
		r.Error("anchor types %s / subscriptionCancellations not found", c19TwHandler)
		return
	}
	la := c19LockAnalysis(p)
	cl := &c19Closer{p: p, fwd: map[*types.Func]int{}}
	c19R1(r, la, cl)
	c19R2(r)
	c19R3R7(r, la)
	c19R4(r, la)
	c19R5(r)
	c19R6(r)
}

// ---- R1: state guards and close codes of graphql-transport-ws ------------------------------------

func c19R1(r *fw.Run, la *fw.LockAnalysis, cl *c19Closer) {
	p := r.Prog
	const R = "C19-R1"
	winfo := p.Pkg("websocket").TypesInfo
	sinfo := p.Pkg("subscription").TypesInfo
	r.Rule(R, "graphql-transport-ws: StartOperation only after connectionInitialized (else 4401); second init → 4429, never re-acknowledged; flag/ack only after the init callback succeeded; init error → 44xx close, no heartbeat; unknown type / JSON syntax → 4400; init timer wired to connection-open, action → 4408; duplicate id detected before the table is overwritten, stops the start, → 4409")
	isFlag := func(e ast.Expr) bool {
		return fw.IsFieldSel(winfo, e, "websocket", c19TwHandler, "connectionInitialized")
	}
	var twFuncs []*fw.FuncInfo
	for _, fi := range p.Funcs("websocket") {
		if c19RecvIs(fi, c19TwHandler) {
			twFuncs = append(twFuncs, fi)
		}
	}

	// (a) StartOperation requires the flag — inter-procedural (entry facts = ∩ over call sites)
	nStart := 0
	startFns := map[*fw.FuncInfo]bool{}
	la.Visit(func(in *fw.Interp, n ast.Node, st *fw.State) {
		c, ok := n.(*ast.CallExpr)
		if !ok || !c19RecvIs(in.FI, c19TwHandler) || !fw.CallIs(in.Info, c, "subscription", "Engine.StartOperation") {
			return
		}
		nStart++
		startFns[in.FI] = true
		r.Check(st.Must("g:init"), R, fw.SiteLabel(in)+"/start-requires-init", p.Pos(c.Pos()), "Engine.StartOperation in "+fw.SiteLabel(in)+" is dominated by connectionInitialized == true",
			"an operation can be started on a path that did not see connectionInitialized true: a subscribe sent before (or without) a successful connection_init is executed")
	})
	r.Expect(R, "StartOperation sites of the transport-ws handler", nStart, 1)

	// (b) the not-initialised edge closes with 4401
	nEdge := 0
	notInit := c19Trig{Cond: func(e ast.Expr, branch bool) bool { return isFlag(e) && !branch }}
	check4401 := func(fi *fw.FuncInfo) {
		n, bad := c19Follows(fi, nil, notInit, cl.closesWith(winfo, "4401"))
		if n == 0 {
			return
		}
		nEdge += n
		r.Check(bad == token.NoPos, R, fi.Name()+"/subscribe-before-init-closes-4401", c19Pos(p, bad, fi), "the connectionInitialized == false edge in "+fi.Name()+" reaches DisconnectWithReason(NewCloseReason(4401, …)) before leaving",
			"a subscribe before connection_init leaves the handler without the 4401 close frame the protocol prescribes")
	}
	for fi := range startFns {
		check4401(fi)
	}
	if nEdge == 0 { // guard extracted into the callers
		fw.EachCall(twFuncs, func(fi *fw.FuncInfo, c *ast.CallExpr, _ []ast.Node) {
			if callee := p.FuncOf(fw.Callee(winfo, c)); callee != nil && startFns[callee] && !startFns[fi] {
				check4401(fi)
			}
		})
	}
	r.Expect(R, "not-initialised edges guarding StartOperation", nEdge, 1)

	// (c) the init function: second init, ack, flag, init callback error
	var initFns []*fw.FuncInfo
	for _, fi := range twFuncs {
		found := false
		fw.WalkAll(fi.Decl.Body, func(n ast.Node) bool {
			if as, ok := n.(*ast.AssignStmt); ok {
				for _, l := range as.Lhs {
					if isFlag(l) {
						found = true
					}
				}
			}
			return true
		})
		if found {
			initFns = append(initFns, fi)
		}
	}
	r.Expect(R, "functions that set connectionInitialized", len(initFns), 1)
	isAck := func(n ast.Node) bool {
		c, ok := n.(*ast.CallExpr)
		if !ok {
			return false
		}
		if fw.CallIs(winfo, c, "websocket", "GraphQLTransportWSMessageWriter.WriteConnectionAck") {
			return true
		}
		return fw.CallIs(winfo, c, "websocket", c19TwEvents+".HandleWriteEvent") && len(c.Args) > 0 && c19ConstName(winfo, c.Args[0]) == "GraphQLTransportWSMessageTypeConnectionAck"
	}
	for _, fi := range initFns {
		n, bad := c19Follows(fi, nil, c19Trig{Cond: func(e ast.Expr, branch bool) bool { return isFlag(e) && branch }}, cl.closesWith(winfo, "4429"))
		r.Expect(R, "already-initialised edge in "+fi.Name(), n, 1)
		if n > 0 {
			r.Check(bad == token.NoPos, R, fi.Name()+"/second-init-closes-4429", c19Pos(p, bad, fi), "the connectionInitialized == true edge in "+fi.Name()+" reaches DisconnectWithReason(NewCloseReason(4429, …))",
				"a second connection_init is not answered with the 4429 close the protocol prescribes")
		}
		var errObj types.Object
		nAck, nSet, nCb := 0, 0, 0
		ackOK, setOK, exitOK, ackSetOK := true, true, true, true
		var ackPos, setPos, exitPos, ackSetPos token.Pos
		in := fw.NewInterp(fi)
		in.H = fw.Hooks{
			Cond: func(e ast.Expr, branch bool, st *fw.State) {
				if isFlag(e) {
					st.Kill("notinit")
					if !branch {
						st.Set("notinit")
					}
				}
				if x, eq, ok := fw.NilCheck(winfo, e); ok && errObj != nil {
					if id, isID := ast.Unparen(x).(*ast.Ident); isID && winfo.Uses[id] == errObj {
						st.Kill("ie:unchecked")
						if eq != branch {
							st.Set("ie:failed")
						}
					}
				}
			},
			Node: func(n ast.Node, st *fw.State) {
				if as, ok := n.(*ast.AssignStmt); ok {
					if len(as.Rhs) == 1 {
						if c, isC := ast.Unparen(as.Rhs[0]).(*ast.CallExpr); isC && fw.IsFieldSel(winfo, c.Fun, "websocket", c19TwHandler, "initFunc") {
							if id, isID := as.Lhs[len(as.Lhs)-1].(*ast.Ident); isID && id.Name != "_" {
								if errObj = winfo.Defs[id]; errObj == nil {
									errObj = winfo.Uses[id]
								}
							}
							st.Set("ie:unchecked")
							st.Kill("ie:failed")
							if in.Final() {
								nCb++
							}
						}
					}
					for i, l := range as.Lhs {
						if !isFlag(l) {
							continue
						}
						st.Kill("notinit")
						st.Kill("flag")
						if v, isConst := fw.ConstVal(winfo, as.Rhs[min(i, len(as.Rhs)-1)]); isConst && v == "true" {
							st.Set("flag")
							if in.Final() {
								nSet++
								if st.May("ie:unchecked") || st.May("ie:failed") {
									setOK, setPos = false, as.Pos()
								}
							}
						}
					}
				}
				if isAck(n) {
					if in.Final() {
						nAck++
						if !st.Must("notinit") || st.May("ie:unchecked") || st.May("ie:failed") {
							ackOK, ackPos = false, n.Pos()
						}
					}
					st.Set("acked")
				}
			},
			Exit: func(ret *ast.ReturnStmt, lit *ast.FuncLit, st *fw.State) {
				if lit != nil || !in.Final() {
					return
				}
				pos := fi.Decl.End()
				if ret != nil {
					pos = ret.Pos()
				}
				if st.May("ie:failed") && (st.May("flag") || st.May("acked")) {
					exitOK, exitPos = false, pos
				}
				if st.May("acked") && !st.Must("flag") {
					ackSetOK, ackSetPos = false, pos
				}
			},
		}
		in.Run(nil)
		r.Expect(R, "init callback calls in "+fi.Name(), nCb, 1)
		r.Expect(R, "connection_ack writes in "+fi.Name(), nAck, 1)
		r.Expect(R, "connectionInitialized = true in "+fi.Name(), nSet, 1)
		r.Check(ackOK, R, fi.Name()+"/ack-only-on-first-successful-init", c19Pos(p, ackPos, fi), "connection_ack is written only on the connectionInitialized == false edge and after the init callback's error was seen nil",
			"connection_ack can be sent for a second connection_init or although the init callback rejected the connection")
		r.Check(setOK, R, fi.Name()+"/flag-set-only-after-callback-succeeded", c19Pos(p, setPos, fi), "connectionInitialized = true is reached only after the init callback's error was seen nil",
			"the connection is marked initialised although the init callback failed or its error was not tested: later subscribes are executed on an unauthorised connection")
		r.Check(exitOK, R, fi.Name()+"/init-error-leaves-uninitialized", c19Pos(p, exitPos, fi), "no exit on the init-callback-error edge has set connectionInitialized or written connection_ack",
			"an exit on the error edge of the init callback leaves connectionInitialized set (or an ack written): operations start without a successful connection_init")
		r.Check(ackSetOK, R, fi.Name()+"/ack-implies-initialized", c19Pos(p, ackSetPos, fi), "every exit after connection_ack has set connectionInitialized",
			"the client was acknowledged but the connection is not marked initialised: its subscribes are closed with 4401, and a second init is acknowledged again")
	}

	// (d) callers of the init function: error → 44xx close, heartbeat only after success
	isHeartbeatStart := func(c *ast.CallExpr) bool {
		callee := p.FuncOf(fw.Callee(winfo, c))
		if callee == nil || !c19RecvIs(callee, c19TwHandler) {
			return false
		}
		found := false
		fw.WalkAll(callee.Decl.Body, func(n ast.Node) bool {
			if as, ok := n.(*ast.AssignStmt); ok {
				for _, l := range as.Lhs {
					if fw.IsFieldSel(winfo, l, "websocket", c19TwHandler, "heartbeatStarted") {
						found = true
					}
				}
			}
			return true
		})
		return found
	}
	nInitErr, nHb := 0, 0
	for _, initFn := range initFns {
		errIdx := initFn.Obj.Type().(*types.Signature).Results().Len() - 1
		callers := map[*fw.FuncInfo]bool{}
		fw.EachCall(twFuncs, func(fi *fw.FuncInfo, c *ast.CallExpr, _ []ast.Node) {
			if fw.Callee(winfo, c) == initFn.Obj {
				callers[fi] = true
			}
		})
		for _, fi := range twFuncs {
			if !callers[fi] {
				continue
			}
			failed := fw.AtomVarFromCall(fi, "NonNil", "websocket", initFn.Name(), errIdx)
			n, bad := c19Follows(fi, nil, c19Trig{Cond: func(e ast.Expr, branch bool) bool { return failed(winfo, fw.Atom(winfo, e, branch)) }}, cl.closesWith(winfo, "4401", "4403"))
			nInitErr += n
			if n > 0 {
				r.Check(bad == token.NoPos, R, fi.Name()+"/init-error-closes-44xx", c19Pos(p, bad, fi), "the error edge of "+initFn.Name()+" in "+fi.Name()+" closes the connection with 4401/4403",
					"a rejected connection_init leaves the socket open without the terminal close frame: the client neither gets an ack nor a close and waits or reconnects in a loop")
			}
			g := fw.NewGuards(winfo, fw.GuardSpec{Name: "init-ok", Match: fw.AtomVarFromCall(fi, "Nil", "websocket", initFn.Name(), errIdx)})
			in := fw.NewInterp(fi)
			in.H = fw.Hooks{Cond: g.Cond, Node: func(n ast.Node, st *fw.State) {
				g.Node(n, st)
				if c, ok := n.(*ast.CallExpr); ok && in.Final() && isHeartbeatStart(c) {
					nHb++
					r.Check(g.Has(st, "init-ok"), R, fi.Name()+"/heartbeat-requires-init-ok", p.Pos(c.Pos()), "the heartbeat is started only after "+initFn.Name()+" returned a nil error",
						"the heartbeat goroutine is started with the context of a failed init (nil when the init callback returned none): it panics on ctx.Done() and takes the process down, or keeps writing pongs to a rejected connection")
				}
			}}
			in.Run(nil)
		}
	}
	r.Expect(R, "init error edges", nInitErr, 1)
	r.Expect(R, "heartbeat starts", nHb, 1)

	// (e) unknown message type and JSON syntax error → 4400
	twEnum := p.Named("websocket", c19TwEnum)
	if fi := p.Func("websocket", c19TwHandler+".Handle"); fi == nil || twEnum == nil {
		r.Error("%s: %s.Handle / %s not found", R, c19TwHandler, c19TwEnum)
	} else {
		n, bad := c19Follows(fi, nil, c19Trig{Case: func(tag ast.Expr, vals []ast.Expr) bool {
			return vals == nil && types.Identical(winfo.TypeOf(tag), twEnum)
		}}, cl.closesWith(winfo, "4400"))
		r.Expect(R, "default arm of the message-type switch in Handle", n, 1)
		if n > 0 {
			r.Check(bad == token.NoPos, R, fi.Name()+"/unknown-type-closes-4400", c19Pos(p, bad, fi), "the default arm of the message-type switch closes with 4400",
				"a message of an unknown type is not answered with the 4400 close the protocol prescribes")
		}
		isSyntaxErr := func(e ast.Expr, branch bool) bool {
			c, ok := ast.Unparen(e).(*ast.CallExpr)
			if !ok || !branch || len(c.Args) != 2 {
				return false
			}
			fn := fw.Callee(winfo, c)
			if fn == nil || fn.Pkg() == nil || fn.Pkg().Path() != "errors" || fn.Name() != "As" {
				return false
			}
			t := winfo.TypeOf(c.Args[1])
			return t != nil && strings.HasSuffix(t.String(), "encoding/json.SyntaxError")
		}
		n, bad = c19Follows(fi, nil, c19Trig{Cond: isSyntaxErr}, cl.closesWith(winfo, "4400"))
		r.Expect(R, "JSON syntax error edge in Handle", n, 1)
		if n > 0 {
			r.Check(bad == token.NoPos, R, fi.Name()+"/json-syntax-error-closes-4400", c19Pos(p, bad, fi), "the errors.As(err, *json.SyntaxError) edge closes with 4400",
				"a frame that is not JSON is not answered with the 4400 close the protocol prescribes")
		}
	}

	// (f) connection-init timeout
	type timerSite struct {
		fi     *fw.FuncInfo
		lit    *ast.CompositeLit
		action *ast.FuncLit
	}
	var timers []timerSite
	for _, fi := range twFuncs {
		fw.WalkAll(fi.Decl.Body, func(n ast.Node) bool {
			c, ok := n.(*ast.CompositeLit)
			if !ok || !fw.TypeIs(winfo.TypeOf(c), "subscription", "TimeOutParams") {
				return true
			}
			ts := timerSite{fi: fi, lit: c}
			for _, el := range c.Elts {
				if kv, ok := el.(*ast.KeyValueExpr); ok {
					if k, ok := kv.Key.(*ast.Ident); ok && k.Name == "TimeOutAction" {
						ts.action, _ = ast.Unparen(kv.Value).(*ast.FuncLit)
					}
				}
			}
			timers = append(timers, ts)
			return true
		})
	}
	r.Expect(R, "TimeOutParams literals in the transport-ws handler", len(timers), 1)
	for _, ts := range timers {
		fi := ts.fi
		if ts.action == nil {
			r.Fail(R, fi.Name()+"/timeout-action-closes-4408", p.Pos(ts.lit.Pos()), "TimeOutAction of the init timer is a function literal", "the time-out action is not a literal in this function: its close code cannot be decided")
		} else {
			_, bad := c19Follows(fi, ts.action, c19Trig{Entry: true}, cl.closesWith(winfo, "4408"))
			r.Check(bad == token.NoPos, R, fi.Name()+"/timeout-action-closes-4408", c19Pos(p, bad, fi), "every path through the init timer's TimeOutAction closes with 4408",
				"a connection that never sends connection_init is not closed with 4408 when the timer fires")
		}
		d := fw.NewPureDeriver(fi)
		started := func(n ast.Node) bool {
			g, ok := n.(*ast.GoStmt)
			if !ok || !fw.CallIs(winfo, g.Call, "subscription", "TimeOutChecker") || len(g.Call.Args) != 1 {
				return false
			}
			return d.Derives(g.Call.Args[0], func(e ast.Expr) bool { return e == ast.Expr(ts.lit) })
		}
		_, bad := c19Follows(fi, nil, c19Trig{Entry: true, Excuse: func(e ast.Expr, branch bool) bool {
			return branch && fw.IsFieldSel(winfo, e, "websocket", c19TwHandler, "connectionInitTimerStarted")
		}}, started)
		r.Check(bad == token.NoPos, R, fi.Name()+"/starts-timeout-checker", c19Pos(p, bad, fi), "every path through "+fi.Name()+" that is not the already-started edge starts `go TimeOutChecker(params)` with these parameters",
			"the init timer is armed on some path without its goroutine being started: the 4408 close never happens")
		// wiring: connection-open → this function
		wired := 0
		fw.EachNode(p.Funcs("websocket"), func(f2 *fw.FuncInfo, n ast.Node, _ []ast.Node) {
			var val ast.Expr
			switch x := n.(type) {
			case *ast.AssignStmt:
				for i, l := range x.Lhs {
					if fw.IsFieldSel(winfo, l, "websocket", c19TwEvents, "OnConnectionOpened") && i < len(x.Rhs) {
						val = x.Rhs[i]
					}
				}
			case *ast.KeyValueExpr:
				if k, ok := x.Key.(*ast.Ident); ok && k.Name == "OnConnectionOpened" {
					if v, ok := winfo.Uses[k].(*types.Var); ok && v.IsField() {
						val = x.Value
					}
				}
			}
			if val == nil {
				return
			}
			fw.WalkAll(val, func(m ast.Node) bool {
				if id, ok := m.(*ast.Ident); ok {
					if fn, ok := winfo.Uses[id].(*types.Func); ok && fn.Origin() == fi.Obj {
						wired++
					}
				}
				return true
			})
		})
		r.Check(wired > 0, R, fi.Name()+"/init-timer-wired-to-connection-open", fi.Pos(), c19TwEvents+".OnConnectionOpened is set to "+fi.Name(),
			"the init timer only starts with the first client message: a client that connects and stays silent is never closed with 4408")
	}
	if fi := p.Func("websocket", c19TwEvents+".Emit"); fi == nil {
		r.Error("%s: %s.Emit not found", R, c19TwEvents)
	} else {
		n, bad := c19Follows(fi, nil, c19Trig{
			Case: func(tag ast.Expr, vals []ast.Expr) bool {
				return c19ValsContain(winfo, vals, "EventTypeOnConnectionOpened")
			},
			Excuse: func(e ast.Expr, branch bool) bool {
				x, eq, ok := fw.NilCheck(winfo, e)
				return ok && eq == branch && fw.IsFieldSel(winfo, x, "websocket", c19TwEvents, "OnConnectionOpened")
			}}, func(n ast.Node) bool { return c19FieldCall(winfo, n, "websocket", c19TwEvents, "OnConnectionOpened") })
		r.Expect(R, "connection-opened arm of Emit", n, 1)
		if n > 0 {
			r.Check(bad == token.NoPos, R, fi.Name()+"/connection-opened-calls-hook", c19Pos(p, bad, fi), "the EventTypeOnConnectionOpened arm calls the OnConnectionOpened hook whenever it is set",
				"the connection-open event does not reach the init timer: silent clients are never closed with 4408")
		}
		n, bad = c19Follows(fi, nil, c19Trig{Case: func(tag ast.Expr, vals []ast.Expr) bool {
			return c19ValsContain(winfo, vals, "EventTypeOnDuplicatedSubscriberID")
		}}, cl.closesWith(winfo, "4409"))
		r.Expect(R, "duplicate-id arm of Emit", n, 1)
		if n > 0 {
			r.Check(bad == token.NoPos, R, fi.Name()+"/duplicate-id-closes-4409", c19Pos(p, bad, fi), "the EventTypeOnDuplicatedSubscriberID arm closes with 4409",
				"a subscribe with an id that is still active is not answered with the 4409 close the protocol prescribes")
		}
	}
	if fi := p.Func("subscription", "UniversalProtocolHandler.Handle"); fi == nil {
		r.Error("%s: UniversalProtocolHandler.Handle not found", R)
	} else {
		nRead := 0
		in := fw.NewInterp(fi)
		in.H = fw.Hooks{Node: func(n ast.Node, st *fw.State) {
			if ev, _ := c19EmitEvent(sinfo, n); ev == "EventTypeOnConnectionOpened" {
				st.Set("opened")
			}
			if c, ok := n.(*ast.CallExpr); ok && in.Final() && fw.CallIs(sinfo, c, "subscription", "TransportClient.ReadBytesFromClient") {
				nRead++
				r.Check(st.Must("opened"), R, fi.Name()+"/emits-connection-opened-before-reading", p.Pos(c.Pos()), "EventTypeOnConnectionOpened is emitted before the first read from the client",
					"the protocol handler never learns that the connection was opened: the connection-init timer starts late or never")
			}
		}}
		in.Run(nil)
		r.Expect(R, "reads from the client in UniversalProtocolHandler.Handle", nRead, 1)
	}
	if fi := p.Func("subscription", "TimeOutChecker"); fi == nil {
		r.Error("%s: subscription.TimeOutChecker not found", R)
	} else {
		nTimer, nDone := 0, 0
		okTimer, okDone := true, true
		var badPos token.Pos
		in := fw.NewInterp(fi)
		in.H = fw.Hooks{
			Comm: func(cc *ast.CommClause, st *fw.State) {
				if cc.Comm == nil {
					return
				}
				fw.WalkAll(cc.Comm, func(n ast.Node) bool {
					if u, ok := n.(*ast.UnaryExpr); ok && u.Op == token.ARROW {
						if fw.IsFieldSel(sinfo, u.X, "time", "Timer", "C") {
							st.Set("arm:timer")
						}
						if c, ok := ast.Unparen(u.X).(*ast.CallExpr); ok {
							if fn := fw.Callee(sinfo, c); fn != nil && fn.Pkg() != nil && fn.Pkg().Path() == "context" && fn.Name() == "Done" {
								st.Set("arm:done")
							}
						}
					}
					return true
				})
			},
			Node: func(n ast.Node, st *fw.State) {
				if c19FieldCall(sinfo, n, "subscription", "TimeOutParams", "TimeOutAction") {
					st.Set("action")
				}
			},
			Exit: func(ret *ast.ReturnStmt, lit *ast.FuncLit, st *fw.State) {
				if lit != nil || !in.Final() {
					return
				}
				pos := fi.Decl.End()
				if ret != nil {
					pos = ret.Pos()
				}
				if st.Must("arm:timer") {
					nTimer++
					if !st.Must("action") {
						okTimer, badPos = false, pos
					}
				}
				if st.Must("arm:done") && !st.May("arm:timer") {
					nDone++
					if st.May("action") {
						okDone, badPos = false, pos
					}
				}
			},
		}
		in.Run(nil)
		r.Expect(R, "timer-fired exits of TimeOutChecker", nTimer, 1)
		r.Expect(R, "cancelled exits of TimeOutChecker", nDone, 1)
		r.Check(okTimer, R, "TimeOutChecker/fired-timer-runs-action", c19Pos(p, badPos, fi), "the exit after the timer fired has called TimeOutAction", "the time-out elapses without its action: no 4408 close, no handler stop")
		r.Check(okDone, R, "TimeOutChecker/cancelled-timer-skips-action", c19Pos(p, badPos, fi), "the exit after the time-out context was cancelled has not called TimeOutAction", "a connection that initialised in time is closed with 4408 anyway")
	}

	// (g) duplicate id detection in the engine
	errDup := p.Pkg("subscription").Types.Scope().Lookup("ErrSubscriberIDAlreadyExists")
	mentionsDup := func(e ast.Expr) bool {
		found := false
		fw.WalkAll(e, func(n ast.Node) bool {
			if id, ok := n.(*ast.Ident); ok && errDup != nil && sinfo.Uses[id] == errDup {
				found = true
			}
			return !found
		})
		return found
	}
	isTable := func(e ast.Expr) bool {
		return fw.IsFieldSel(sinfo, e, "subscription", "subscriptionCancellations", "cancellations")
	}
	nStore, nExists := 0, 0
	for _, fi := range p.Funcs("subscription") {
		if !c19RecvIs(fi, "subscriptionCancellations") {
			continue
		}
		okVars := map[types.Object]string{}
		in := fw.NewInterp(fi)
		in.H = fw.Hooks{
			Cond: func(e ast.Expr, branch bool, st *fw.State) {
				if id, ok := ast.Unparen(e).(*ast.Ident); ok {
					if key, ok := okVars[sinfo.Uses[id]]; ok && !branch {
						st.Set("absent:" + key)
					}
				}
			},
			Node: func(n ast.Node, st *fw.State) {
				as, ok := n.(*ast.AssignStmt)
				if !ok {
					return
				}
				if len(as.Lhs) == 2 && len(as.Rhs) == 1 {
					if ix, ok := ast.Unparen(as.Rhs[0]).(*ast.IndexExpr); ok && isTable(ix.X) {
						if id, ok := as.Lhs[1].(*ast.Ident); ok && id.Name != "_" {
							o := sinfo.Defs[id]
							if o == nil {
								o = sinfo.Uses[id]
							}
							okVars[o] = fw.ExprKey(sinfo, ix.Index)
						}
					}
				}
				for _, l := range as.Lhs {
					if ix, ok := ast.Unparen(l).(*ast.IndexExpr); ok && isTable(ix.X) && in.Final() {
						nStore++
						r.Check(st.Must("absent:"+fw.ExprKey(sinfo, ix.Index)), R, fi.Name()+"/store-requires-absent", p.Pos(as.Pos()), "a cancel function is stored under an id only on the not-found edge of a lookup of that id",
							"an id that is still active is overwritten: the running operation can no longer be cancelled (it keeps sending for that id) and no duplicate-id close is produced")
					}
				}
			},
		}
		in.Run(nil)
		for o := range okVars {
			obj := o
			n, bad := c19Follows(fi, nil, c19Trig{Cond: func(e ast.Expr, branch bool) bool {
				id, ok := ast.Unparen(e).(*ast.Ident)
				return ok && branch && sinfo.Uses[id] == obj
			}}, func(n ast.Node) bool {
				ret, ok := n.(*ast.ReturnStmt)
				return ok && len(ret.Results) > 0 && mentionsDup(ret.Results[len(ret.Results)-1])
			})
			if n > 0 && c19HasStore(fi, isTable) {
				nExists++
				r.Check(bad == token.NoPos, R, fi.Name()+"/existing-id-returns-duplicate-error", c19Pos(p, bad, fi), "the found edge of the lookup returns an error wrapping ErrSubscriberIDAlreadyExists",
					"a duplicate id is not reported as such: the engine cannot tell the protocol handler to close with 4409")
			}
		}
	}
	r.Expect(R, "stores into the id table", nStore, 1)
	r.Expect(R, "found edges of the registering lookup", nExists, 1)

	var regFns []*fw.FuncInfo
	for _, fi := range p.Funcs("subscription") {
		if !c19RecvIs(fi, "ExecutorEngine") {
			continue
		}
		calls := false
		fw.WalkAll(fi.Decl.Body, func(n ast.Node) bool {
			if c, ok := n.(*ast.CallExpr); ok && fw.CallIs(sinfo, c, "subscription", "subscriptionCancellations.AddWithParent") {
				calls = true
			}
			return true
		})
		if calls {
			regFns = append(regFns, fi)
		}
	}
	r.Expect(R, "engine functions that register an id", len(regFns), 1)
	for _, fi := range regFns {
		isDupEdge := func(e ast.Expr, branch bool) bool {
			c, ok := ast.Unparen(e).(*ast.CallExpr)
			if !ok || !branch || len(c.Args) != 2 {
				return false
			}
			fn := fw.Callee(sinfo, c)
			return fn != nil && fn.Pkg() != nil && fn.Pkg().Path() == "errors" && fn.Name() == "Is" && mentionsDup(c.Args[1])
		}
		n, bad := c19Follows(fi, nil, c19Trig{Cond: isDupEdge}, func(n ast.Node) bool {
			ev, _ := c19EmitEvent(sinfo, n)
			return ev == "EventTypeOnDuplicatedSubscriberID"
		})
		r.Expect(R, "duplicate-id edge in "+fi.Name(), n, 1)
		if n > 0 {
			r.Check(bad == token.NoPos, R, fi.Name()+"/duplicate-emits-event", c19Pos(p, bad, fi), "the errors.Is(err, ErrSubscriberIDAlreadyExists) edge emits EventTypeOnDuplicatedSubscriberID",
				"the duplicate id is detected but the protocol handler is not told: no 4409 close")
			_, bad = c19Follows(fi, nil, c19Trig{Cond: isDupEdge}, func(n ast.Node) bool {
				ret, ok := n.(*ast.ReturnStmt)
				if !ok || len(ret.Results) == 0 {
					return false
				}
				tv := sinfo.Types[ret.Results[len(ret.Results)-1]]
				return !tv.IsNil()
			})
			r.Check(bad == token.NoPos, R, fi.Name()+"/duplicate-returns-error", c19Pos(p, bad, fi), "the duplicate-id edge returns a non-nil error", "the caller starts the operation although its id is a duplicate")
		}
	}
	// the goroutines of an operation start only after the registration succeeded
	nGo := 0
	for _, fi := range p.Funcs("subscription") {
		if !c19RecvIs(fi, "ExecutorEngine") {
			continue
		}
		var specs []fw.GuardSpec
		for _, reg := range regFns {
			specs = append(specs, fw.GuardSpec{Name: "registered", Match: fw.AtomVarFromCall(fi, "Nil", "subscription", reg.Name(), reg.Obj.Type().(*types.Signature).Results().Len()-1)})
		}
		specs = append(specs, fw.GuardSpec{Name: "registered", Match: fw.AtomVarFromCall(fi, "Nil", "subscription", "subscriptionCancellations.AddWithParent", 1)})
		g := fw.NewGuards(sinfo, specs...)
		in := fw.NewInterp(fi)
		in.H = fw.Hooks{Cond: g.Cond, Node: func(n ast.Node, st *fw.State) {
			g.Node(n, st)
			gs, ok := n.(*ast.GoStmt)
			if !ok || !in.Final() {
				return
			}
			callee := p.FuncOf(fw.Callee(sinfo, gs.Call))
			if callee == nil || !c19RecvIs(callee, "ExecutorEngine") {
				return
			}
			nGo++
			r.Check(g.Has(st, "registered"), R, fi.Name()+"/go-requires-registration:"+callee.Obj.Name(), p.Pos(gs.Pos()), "go "+callee.Obj.Name()+" is dominated by the nil-error edge of the id registration",
				"an operation is executed although its id could not be registered (duplicate id): two operations send under one id and the second can never be stopped")
		}}
		in.Run(nil)
	}
	r.Expect(R, "operation goroutines started by the engine", nGo, 2)
}

func c19HasStore(fi *fw.FuncInfo, isTable func(ast.Expr) bool) bool {
	found := false
	fw.WalkAll(fi.Decl.Body, func(n ast.Node) bool {
		if as, ok := n.(*ast.AssignStmt); ok {
			for _, l := range as.Lhs {
				if ix, ok := ast.Unparen(l).(*ast.IndexExpr); ok && isTable(ix.X) {
					found = true
				}
			}
		}
		return true
	})
	return found
}

// ---- R2: dispatch totality and writer agreement ---------------------------------------------------

func c19R2(r *fw.Run) {
	p := r.Prog
	const R = "C19-R2"
	ws := p.Pkg("websocket")
	winfo := ws.TypesInfo
	sinfo := p.Pkg("subscription").TypesInfo
	r.Rule(R, "both protocols: Handle covers every client→server message type (transport-ws with a default), HandleWriteEvent covers every server→client type and each arm calls the writer method that serialises that type, only server→client types are ever written, Emit covers every id-carrying event the engine emits")

	// events the engine emits for an operation id
	engineEvents := map[string]bool{}
	fw.EachCall(p.Funcs("subscription"), func(fi *fw.FuncInfo, c *ast.CallExpr, _ []ast.Node) {
		if !c19RecvIs(fi, "ExecutorEngine") {
			return
		}
		if ev, call := c19EmitEvent(sinfo, c); ev != "" {
			if v, isConst := fw.ConstVal(sinfo, call.Args[1]); !isConst || v != `""` {
				engineEvents[ev] = true
			}
		}
	})
	r.Expect(R, "id-carrying event types emitted by ExecutorEngine", len(engineEvents), 5)
	evType := p.Named("subscription", "EventType")

	for _, pr := range c19Protos {
		enum := p.Named("websocket", pr.enum)
		handle := p.Func("websocket", pr.handler+".Handle")
		hwe := p.Func("websocket", pr.events+".HandleWriteEvent")
		emit := p.Func("websocket", pr.events+".Emit")
		if enum == nil || handle == nil || hwe == nil || emit == nil || evType == nil {
			r.Error("%s: anchors of %s not found (%s, %s.Handle, %s.HandleWriteEvent/Emit)", R, pr.name, pr.enum, pr.handler, pr.events)
			continue
		}
		covered := map[string]bool{}
		hsw := fw.ConstSwitches(handle, enum)
		r.Expect(R, "message-type switch in "+handle.Name(), len(hsw), 1)
		for _, sw := range hsw {
			for k := range sw.Covered {
				covered[k] = true
			}
			miss := fw.MissingFrom(sw.Covered, pr.c2s)
			r.Check(len(miss) == 0, R, handle.Name()+"/covers-client-messages", p.Pos(sw.Stmt.Pos()), "the dispatch of "+pr.name+" has an arm for every client→server message type",
				"client→server message types without an arm: "+strings.Join(miss, ", ")+" — a legal client message is treated as unknown (closed with 4400 / answered with connection_error)")
			if pr.handler == c19TwHandler {
				r.Check(sw.HasDefault, R, handle.Name()+"/has-default", p.Pos(sw.Stmt.Pos()), "the dispatch of "+pr.name+" has a default arm",
					"unknown message types are silently ignored instead of being closed with 4400")
			}
		}
		wsw := fw.ConstSwitches(hwe, enum)
		r.Expect(R, "message-type switch in "+hwe.Name(), len(wsw), 1)
		for _, sw := range wsw {
			for k := range sw.Covered {
				covered[k] = true
			}
			miss := fw.MissingFrom(sw.Covered, pr.s2c)
			r.Check(len(miss) == 0, R, hwe.Name()+"/covers-server-messages", p.Pos(sw.Stmt.Pos()), "HandleWriteEvent of "+pr.name+" has an arm for every server→client message type",
				"server→client message types without an arm: "+strings.Join(miss, ", ")+" — the message is dropped (or the connection closed) when the server tries to send it")
			// each arm calls the writer method that serialises exactly that type
			nArms := 0
			for _, cs := range sw.Stmt.(*ast.SwitchStmt).Body.List {
				cc := cs.(*ast.CaseClause)
				for _, v := range cc.List {
					want := c19ConstName(winfo, v)
					if want == "" {
						continue
					}
					nArms++
					written := map[string]bool{}
					for _, s := range cc.Body {
						fw.WalkAll(s, func(n ast.Node) bool {
							c, ok := n.(*ast.CallExpr)
							if !ok {
								return true
							}
							if m := p.FuncOf(fw.Callee(winfo, c)); m != nil && c19RecvIs(m, pr.writer) {
								for _, t := range c19WrittenTypes(m, pr.msg) {
									written[t] = true
								}
							}
							return true
						})
					}
					got := c19Sorted(written)
					r.Check(len(got) == 1 && got[0] == want, R, hwe.Name()+"/arm-writes-its-type:"+want, p.Pos(cc.Pos()), "the "+want+" arm calls a writer method whose message literal has Type "+want,
						"the arm writes "+strings.Join(got, ",")+" (nothing if empty): the client receives a message of another type than the event stands for")
				}
			}
			r.Expect(R, "arms of "+hwe.Name(), nArms, len(pr.s2c))
		}
		// constants the frozen direction table does not know must be handled somewhere
		var unknown []string
		for _, k := range fw.ConstNames(ws.Types, enum) {
			if !contains(pr.c2s, k) && !contains(pr.s2c, k) && !covered[k] {
				unknown = append(unknown, k)
			}
		}
		r.Check(len(unknown) == 0, R, pr.enum+"/every-constant-dispatched", p.Pos(enum.Obj().Pos()), "every constant of "+pr.enum+" is handled by Handle or HandleWriteEvent",
			"message types that are neither dispatched when received nor writable: "+strings.Join(unknown, ", "))
		// only server→client types are written
		nWrites := 0
		fw.EachCall(p.Funcs("websocket"), func(fi *fw.FuncInfo, c *ast.CallExpr, stack []ast.Node) {
			if fw.Callee(winfo, c) != hwe.Obj || len(c.Args) == 0 {
				return
			}
			nWrites++
			bad := c19NonMembers(fi, c.Args[0], pr.s2c)
			r.Check(len(bad) == 0, R, fw.StackLabel(fi, stack)+"/writes-server-message-type", p.Pos(c.Pos()), "the message type handed to HandleWriteEvent in "+fi.Name()+" is a server→client type of "+pr.name,
				"the server can write "+strings.Join(bad, ", ")+", which "+pr.name+" does not allow in the server→client direction")
		})
		r.Expect(R, "HandleWriteEvent call sites of "+pr.name, nWrites, map[string]int{"graphql-transport-ws": 6, "graphql-ws": 8}[pr.name])
		// Emit covers the engine's events
		esw := fw.ConstSwitches(emit, evType)
		r.Expect(R, "event-type switch in "+emit.Name(), len(esw), 1)
		for _, sw := range esw {
			miss := fw.MissingFrom(sw.Covered, c19Sorted(engineEvents))
			r.Check(len(miss) == 0, R, emit.Name()+"/covers-engine-events", p.Pos(sw.Stmt.Pos()), "Emit of "+pr.name+" has an arm for every id-carrying event ExecutorEngine emits",
				"events dropped by the default arm: "+strings.Join(miss, ", ")+" — an operation's data, error or completion never reaches the client")
		}
	}
}

// c19WrittenTypes lists the constant Type values of the message literals built in a writer method.
func c19WrittenTypes(m *fw.FuncInfo, msgType string) []string {
	info := m.Info()
	var out []string
	fw.WalkAll(m.Decl.Body, func(n ast.Node) bool {
		cl, ok := n.(*ast.CompositeLit)
		if !ok || !fw.TypeIs(info.TypeOf(cl), "websocket", msgType) {
			return true
		}
		for _, el := range cl.Elts {
			if kv, ok := el.(*ast.KeyValueExpr); ok {
				if k, ok := kv.Key.(*ast.Ident); ok && k.Name == "Type" {
					if name := c19ConstName(info, kv.Value); name != "" {
						out = append(out, name)
					} else {
						out = append(out, "<non-constant>")
					}
				}
			}
		}
		return true
	})
	return out
}

// c19NonMembers: the constants e can evaluate to (a constant, or a local variable with constant
// assignments) that are not in allowed; the zero value "" of a local is ignored.
func c19NonMembers(fi *fw.FuncInfo, e ast.Expr, allowed []string) []string {
	info := fi.Info()
	classify := func(x ast.Expr) string {
		if name := c19ConstName(info, x); name != "" {
			if contains(allowed, name) {
				return ""
			}
			return name
		}
		if v, ok := fw.ConstVal(info, x); ok && v == `""` {
			return ""
		}
		return "<non-constant " + types.ExprString(x) + ">"
	}
	id, ok := ast.Unparen(e).(*ast.Ident)
	if !ok || c19ConstName(info, e) != "" {
		if b := classify(e); b != "" {
			return []string{b}
		}
		return nil
	}
	obj := info.Uses[id]
	if v, ok := obj.(*types.Var); ok {
		sig := fi.Obj.Type().(*types.Signature)
		for i := 0; i < sig.Params().Len(); i++ {
			if sig.Params().At(i) == v {
				return nil // forwarded parameter: checked at the callers
			}
		}
	}
	bad := map[string]bool{}
	fw.WalkAll(fi.Decl.Body, func(n ast.Node) bool {
		switch x := n.(type) {
		case *ast.AssignStmt:
			for i, l := range x.Lhs {
				lid, ok := l.(*ast.Ident)
				if !ok || i >= len(x.Rhs) || len(x.Lhs) != len(x.Rhs) {
					continue
				}
				o := info.Defs[lid]
				if o == nil {
					o = info.Uses[lid]
				}
				if o == obj {
					if b := classify(x.Rhs[i]); b != "" {
						bad[b] = true
					}
				}
			}
		case *ast.ValueSpec:
			for i, nm := range x.Names {
				if info.Defs[nm] == obj && i < len(x.Values) {
					if b := classify(x.Values[i]); b != "" {
						bad[b] = true
					}
				}
			}
		}
		return true
	})
	return c19Sorted(bad)
}

// ---- R3 / R7: frames written to one socket are serialised -----------------------------------------

// c19WriterLock: for a call X.Client.M(...) where Client is a field of a struct that also has a
// mutex field, the lock id of that mutex and the owning type.
func c19WriterLock(info *types.Info, call *ast.CallExpr) (lock, owner string) {
	sel, ok := ast.Unparen(call.Fun).(*ast.SelectorExpr)
	if !ok {
		return "", ""
	}
	v, fsel := fw.Field(info, sel.X)
	if v == nil {
		return "", ""
	}
	s := info.Selections[fsel]
	if s == nil {
		return "", ""
	}
	t := s.Recv()
	if pt, ok := t.Underlying().(*types.Pointer); ok {
		t = pt.Elem()
	}
	named, _ := types.Unalias(t).(*types.Named)
	st, _ := t.Underlying().(*types.Struct)
	if named == nil || st == nil || named.Obj().Pkg() == nil {
		return "", ""
	}
	for i := 0; i < st.NumFields(); i++ {
		f := st.Field(i)
		ft := f.Type()
		if pt, ok := ft.Underlying().(*types.Pointer); ok {
			ft = pt.Elem()
		}
		if n, ok := types.Unalias(ft).(*types.Named); ok && n.Obj().Pkg() != nil && n.Obj().Pkg().Path() == "sync" && (n.Obj().Name() == "Mutex" || n.Obj().Name() == "RWMutex") {
			p := named.Obj().Pkg().Path()
			return p[strings.LastIndexByte(p, '/')+1:] + "." + named.Obj().Name() + "." + f.Name(), named.Obj().Name()
		}
	}
	return "", named.Obj().Name()
}

func c19R3R7(r *fw.Run, la *fw.LockAnalysis) {
	p := r.Prog
	winfo := p.Pkg("websocket").TypesInfo
	r.Rule("C19-R3", "every TransportClient.WriteBytesToClient call in package websocket holds the mutex of the message writer that owns the client (or the Client serialises its frame writes itself)")
	r.Rule("C19-R7", "every TransportClient.DisconnectWithReason call in package websocket (it writes the close frame) holds the same writer mutex as the data frames (or the Client serialises its frame writes itself)")

	// alternative discharge: every write to Client.clientConn happens under one exclusive Client lock
	var common map[string]bool
	nConn := 0
	la.Visit(func(in *fw.Interp, n ast.Node, st *fw.State) {
		c, ok := n.(*ast.CallExpr)
		if !ok || in.Info != winfo || !c19RecvIs(in.FI, "Client") {
			return
		}
		fn := fw.Callee(in.Info, c)
		if fn == nil || !strings.HasPrefix(fn.Name(), "Write") {
			return
		}
		uses := false
		ops := append([]ast.Expr{}, c.Args...)
		if sel, ok := ast.Unparen(c.Fun).(*ast.SelectorExpr); ok {
			ops = append(ops, sel.X)
		}
		for _, a := range ops {
			if fw.IsFieldSel(in.Info, a, "websocket", "Client", "clientConn") {
				uses = true
			}
		}
		if !uses {
			return
		}
		nConn++
		held := map[string]bool{}
		for _, l := range st.Facts("L:websocket.Client.") {
			held[l] = true
		}
		if common == nil {
			common = held
		} else {
			for l := range common {
				if !held[l] {
					delete(common, l)
				}
			}
		}
	})
	r.Expect("C19-R7", "writes to Client.clientConn", nConn, 3)
	clientSerialises := nConn > 0 && len(common) > 0
	via := ""
	if clientSerialises {
		via = " (discharged: Client writes every frame under " + strings.Join(c19Sorted(common), ",") + ")"
	}

	nWrite, nClose := 0, 0
	la.Visit(func(in *fw.Interp, n ast.Node, st *fw.State) {
		c, ok := n.(*ast.CallExpr)
		if !ok || in.Info != winfo {
			return
		}
		isWrite := fw.CallIs(in.Info, c, "subscription", "TransportClient.WriteBytesToClient")
		isClose := fw.CallIs(in.Info, c, "subscription", "TransportClient.DisconnectWithReason")
		if !isWrite && !isClose {
			return
		}
		lock, owner := c19WriterLock(in.Info, c)
		held := lock != "" && fw.Held(st, lock, false)
		why := "held: " + strings.Join(fw.HeldLocks(st), ",")
		if lock == "" {
			why = "the client is not reached through a message writer with a mutex (owner " + owner + ")"
		}
		if isWrite {
			nWrite++
			r.Check(held || clientSerialises, "C19-R3", fw.SiteLabel(in)+"/write-holds-writer-mutex", p.Pos(c.Pos()), "WriteBytesToClient in "+fw.SiteLabel(in)+" holds "+lock+via,
				"two goroutines (operation results, heartbeat, replies of the read loop) write frames to the socket concurrently; a WebSocket frame is written as header + payload, so their bytes interleave and the client sees a corrupt stream ("+why+")")
		} else {
			nClose++
			r.Check(held || clientSerialises, "C19-R7", fw.SiteLabel(in)+"/close-frame-holds-writer-mutex", p.Pos(c.Pos()), "DisconnectWithReason in "+fw.SiteLabel(in)+" holds "+lock+via,
				"the close frame (ws.WriteFrame: header write, then payload write) is written while an operation goroutine or the heartbeat may be inside WriteBytesToClient under the writer mutex: the frames interleave on the socket and the prescribed 44xx code does not reach the client ("+why+")")
		}
	})
	r.Expect("C19-R3", "WriteBytesToClient sites", nWrite, 2)
	r.Expect("C19-R7", "DisconnectWithReason sites", nClose, 3)
}

// ---- R4: the table of active ids is only touched under its lock -----------------------------------

func c19R4(r *fw.Run, la *fw.LockAnalysis) {
	p := r.Prog
	const R = "C19-R4"
	r.Rule(R, "every access of subscriptionCancellations.cancellations holds subscriptionCancellations.mu (writes exclusively, reads at least shared)")
	n := 0
	la.Visit(func(in *fw.Interp, nd ast.Node, st *fw.State) {
		check := func(e ast.Expr, write bool) {
			if !fw.IsFieldSel(in.Info, e, "subscription", "subscriptionCancellations", "cancellations") {
				return
			}
			n++
			kind := "read"
			if write {
				kind = "write"
			}
			r.Check(fw.Held(st, c19LkCancel, !write), R, fw.SiteLabel(in)+"/"+kind+":subscriptionCancellations.cancellations", p.Pos(e.Pos()), kind+" of the id table in "+fw.SiteLabel(in)+" holds subscriptionCancellations.mu",
				"the map of active operation ids is "+map[bool]string{true: "written", false: "read or iterated"}[write]+" without "+map[bool]string{true: "the exclusive lock", false: "the lock"}[write]+" while other goroutines (Cancel from a finishing query's defer, AddWithParent from the read loop) write it under the lock: a Go map race, i.e. a possible `fatal error: concurrent map iteration and map write` that kills the whole process when a connection terminates while an operation finishes (held: "+strings.Join(fw.HeldLocks(st), ",")+")")
		}
		if sel, ok := nd.(*ast.SelectorExpr); ok {
			check(sel, false)
		}
		for _, t := range fw.WriteTargets(in.Info, nd) {
			check(t, true)
		}
	})
	r.Expect(R, "accesses of subscriptionCancellations.cancellations", n, 12)
}

// ---- R5: a closing connection cancels everything it started ---------------------------------------

func c19R5(r *fw.Run) {
	p := r.Prog
	const R = "C19-R5"
	info := p.Pkg("subscription").TypesInfo
	r.Rule(R, "every exit of UniversalProtocolHandler.Handle after a message may have been handled has passed Engine.TerminateAllSubscriptions and the cancel of the context that was handed to Protocol.Handle; no exit of the read loop is control-dependent on the error of Protocol.Handle")
	fi := p.Func("subscription", "UniversalProtocolHandler.Handle")
	if fi == nil {
		r.Error("%s: UniversalProtocolHandler.Handle not found", R)
		return
	}
	// context.WithCancel pairs of the function
	type pair struct {
		call   *ast.CallExpr
		cancel types.Object
	}
	var pairs []pair
	fw.WalkAll(fi.Decl.Body, func(n ast.Node) bool {
		as, ok := n.(*ast.AssignStmt)
		if !ok || len(as.Lhs) != 2 || len(as.Rhs) != 1 {
			return true
		}
		c, ok := ast.Unparen(as.Rhs[0]).(*ast.CallExpr)
		if !ok {
			return true
		}
		if fn := fw.Callee(info, c); fn == nil || fn.Pkg() == nil || fn.Pkg().Path() != "context" || !strings.HasPrefix(fn.Name(), "With") {
			return true
		}
		o := fw.RootObj(info, as.Lhs[1])
		if o != nil {
			pairs = append(pairs, pair{c, o})
		}
		return true
	})
	d := fw.NewPureDeriver(fi)
	var handleCalls []*ast.CallExpr
	var errObjs []types.Object
	fw.WalkAll(fi.Decl.Body, func(n ast.Node) bool {
		switch x := n.(type) {
		case *ast.CallExpr:
			if fw.CallIs(info, x, "subscription", "Protocol.Handle") {
				handleCalls = append(handleCalls, x)
			}
		case *ast.AssignStmt:
			if len(x.Rhs) == 1 {
				if c, ok := ast.Unparen(x.Rhs[0]).(*ast.CallExpr); ok && fw.CallIs(info, c, "subscription", "Protocol.Handle") {
					if id, ok := x.Lhs[len(x.Lhs)-1].(*ast.Ident); ok && id.Name != "_" {
						o := info.Defs[id]
						if o == nil {
							o = info.Uses[id]
						}
						errObjs = append(errObjs, o)
					}
				}
			}
		}
		return true
	})
	r.Expect(R, "Protocol.Handle calls in the read loop", len(handleCalls), 1)
	cancelOf := map[types.Object]bool{}
	for _, hc := range handleCalls {
		var src *pair
		for i := range pairs {
			pr := &pairs[i]
			if len(hc.Args) > 0 && d.Derives(hc.Args[0], func(e ast.Expr) bool { return e == ast.Expr(pr.call) }) {
				src = pr
			}
		}
		r.Check(src != nil, R, fi.Name()+"/handle-ctx-is-cancelled-at-exit", p.Pos(hc.Pos()), "the context handed to Protocol.Handle derives from a context.WithCancel/WithTimeout of this function",
			"the protocol handler (heartbeat / keep-alive goroutine, operation contexts) runs on a context this function cannot cancel: it keeps running and writing after the connection is gone")
		if src != nil {
			cancelOf[src.cancel] = true
		}
	}
	nExit := 0
	okTerm, okCancel := true, true
	var badTerm, badCancel token.Pos
	in := fw.NewInterp(fi)
	in.H = fw.Hooks{
		Node: func(n ast.Node, st *fw.State) {
			c, ok := n.(*ast.CallExpr)
			if !ok {
				return
			}
			switch {
			case fw.CallIs(info, c, "subscription", "Protocol.Handle"):
				st.Set("handled")
			case fw.CallIs(info, c, "subscription", "Engine.TerminateAllSubscriptions"):
				st.Set("terminated")
			default:
				if id, ok := ast.Unparen(c.Fun).(*ast.Ident); ok && cancelOf[info.Uses[id]] {
					st.Set("cancelled")
				}
			}
		},
		Exit: func(ret *ast.ReturnStmt, lit *ast.FuncLit, st *fw.State) {
			if lit != nil || !in.Final() || !st.May("handled") {
				return
			}
			nExit++
			pos := fi.Decl.End()
			if ret != nil {
				pos = ret.Pos()
			}
			if !st.Must("terminated") {
				okTerm, badTerm = false, pos
			}
			if !st.Must("cancelled") {
				okCancel, badCancel = false, pos
			}
		},
	}
	in.Run(nil)
	r.Expect(R, "exits of the read loop", nExit, 3)
	r.Check(okTerm, R, fi.Name()+"/exit-terminates-operations", c19Pos(p, badTerm, fi), "every exit has passed Engine.TerminateAllSubscriptions",
		"the handler returns (client gone, read time-out) while operations it started keep running and emitting for a closed connection; their ids and goroutines leak")
	r.Check(okCancel, R, fi.Name()+"/exit-cancels-context", c19Pos(p, badCancel, fi), "every exit has called the cancel function of the context handed to Protocol.Handle",
		"the heartbeat / keep-alive goroutine of the protocol handler is never stopped after the connection closed")

	// no exit of the loop is control-dependent on the protocol error
	nErrIf := 0
	fw.WalkAll(fi.Decl.Body, func(n ast.Node) bool {
		ifs, ok := n.(*ast.IfStmt)
		if !ok {
			return true
		}
		x, eq, isNil := fw.NilCheck(info, ifs.Cond)
		if !isNil {
			return true
		}
		id, isID := ast.Unparen(x).(*ast.Ident)
		if !isID {
			return true
		}
		match := false
		for _, o := range errObjs {
			if info.Uses[id] == o {
				match = true
			}
		}
		if !match {
			return true
		}
		nErrIf++
		var failing ast.Node = ifs.Body
		if eq {
			failing = ifs.Else
		}
		var leave token.Pos
		what := ""
		if failing != nil {
			c19Leaves(info, failing, cancelOf, 0, func(pos token.Pos, w string) {
				if leave == token.NoPos {
					leave, what = pos, w
				}
			})
		}
		r.Check(leave == token.NoPos, R, fi.Name()+"/protocol-error-stays-in-loop", c19Pos(p, leave, fi), "the branch taken when Protocol.Handle returned an error contains no return / break / cancel / disconnect",
			"a message the protocol handler rejects ("+what+" on the error branch) ends the read loop: one malformed or refused message drops the whole connection and all its operations without a protocol-level close")
		return true
	})
	r.Expect(R, "tests of the Protocol.Handle error", nErrIf, 1)

	// the engine's terminate really cancels every registered id
	if tf := p.Func("subscription", "ExecutorEngine.TerminateAllSubscriptions"); tf == nil {
		r.Error("%s: ExecutorEngine.TerminateAllSubscriptions not found", R)
	} else {
		nLoop, all := 0, false
		var at token.Pos
		fw.WalkAll(tf.Decl.Body, func(n ast.Node) bool {
			switch x := n.(type) {
			case *ast.CallExpr:
				if fw.CallIs(info, x, "subscription", "subscriptionCancellations.CancelAll") {
					nLoop++
					all = true
				}
			case *ast.RangeStmt:
				src, isCall := ast.Unparen(x.X).(*ast.CallExpr)
				overTable := fw.IsFieldSel(info, x.X, "subscription", "subscriptionCancellations", "cancellations") ||
					(isCall && fw.TypeIs(recvType(fw.Callee(info, src)), "subscription", "subscriptionCancellations"))
				if !overTable {
					return true
				}
				nLoop++
				at = x.Pos()
				vars := map[types.Object]bool{}
				for _, e := range []ast.Expr{x.Key, x.Value} {
					if id, ok := e.(*ast.Ident); ok && id.Name != "_" {
						vars[info.Defs[id]] = true
					}
				}
				in := fw.NewInterp(tf)
				in.H = fw.Hooks{Node: func(nd ast.Node, st *fw.State) {
					if c, ok := nd.(*ast.CallExpr); ok && len(c.Args) == 1 && fw.CallIs(info, c, "subscription", "subscriptionCancellations.Cancel") {
						if id, ok := ast.Unparen(c.Args[0]).(*ast.Ident); ok && vars[info.Uses[id]] {
							st.Set("cancelled")
						}
					}
				}}
				end := in.RunStmts(x.Body.List, nil)
				all = end != nil && end.Must("cancelled")
			}
			return true
		})
		r.Expect(R, "loops over the active ids in TerminateAllSubscriptions", nLoop, 1)
		r.Check(all, R, tf.Name()+"/terminate-cancels-every-id", c19Pos(p, at, tf), "TerminateAllSubscriptions cancels the operation of every active id (Cancel(id) on every path of the loop body, or CancelAll)",
			"some operations survive the end of their connection: they keep executing and emitting for a socket that is gone")
	}
}

// c19Leaves reports statements below n that leave the enclosing loop or tear the connection down.
func c19Leaves(info *types.Info, n ast.Node, cancels map[types.Object]bool, depth int, report func(token.Pos, string)) {
	ast.Inspect(n, func(m ast.Node) bool {
		switch x := m.(type) {
		case *ast.FuncLit:
			return false
		case *ast.ReturnStmt:
			report(x.Pos(), "return")
		case *ast.BranchStmt:
			if x.Tok == token.GOTO || (x.Tok == token.BREAK && (x.Label != nil || depth == 0)) {
				report(x.Pos(), x.Tok.String())
			}
		case *ast.ForStmt:
			c19Leaves(info, x.Body, cancels, depth+1, report)
			return false
		case *ast.RangeStmt:
			c19Leaves(info, x.Body, cancels, depth+1, report)
			return false
		case *ast.SwitchStmt:
			c19Leaves(info, x.Body, cancels, depth+1, report)
			return false
		case *ast.TypeSwitchStmt:
			c19Leaves(info, x.Body, cancels, depth+1, report)
			return false
		case *ast.SelectStmt:
			c19Leaves(info, x.Body, cancels, depth+1, report)
			return false
		case *ast.CallExpr:
			if id, ok := ast.Unparen(x.Fun).(*ast.Ident); ok && cancels[info.Uses[id]] {
				report(x.Pos(), "cancel()")
			}
			if fw.Builtin(info, x) == "panic" {
				report(x.Pos(), "panic")
			}
			if fw.CallIs(info, x, "subscription", "TransportClient.Disconnect") || fw.CallIs(info, x, "subscription", "TransportClient.DisconnectWithReason") {
				report(x.Pos(), "disconnect")
			}
		}
		return true
	})
}

// ---- R6: one terminal message per non-subscription operation ---------------------------------------

func c19R6(r *fw.Run) {
	p := r.Prog
	const R = "C19-R6"
	sinfo := p.Pkg("subscription").TypesInfo
	winfo := p.Pkg("websocket").TypesInfo
	r.Rule(R, "a query/mutation sent over the socket emits exactly one terminal event on every exit of its goroutine and releases its id; both protocols turn the result event into exactly one data message followed by exactly one complete; StopSubscription cancels the operation on every path that emits its Complete")
	terminal := map[string]bool{"EventTypeOnError": true, "EventTypeOnNonSubscriptionExecutionResult": true, "EventTypeOnSubscriptionCompleted": true}
	isCancelOfParam := func(fi *fw.FuncInfo, n ast.Node) bool {
		c, ok := n.(*ast.CallExpr)
		if !ok || len(c.Args) != 1 || !fw.CallIs(sinfo, c, "subscription", "subscriptionCancellations.Cancel") {
			return false
		}
		id, ok := ast.Unparen(c.Args[0]).(*ast.Ident)
		if !ok {
			return false
		}
		sig := fi.Obj.Type().(*types.Signature)
		for i := 0; i < sig.Params().Len(); i++ {
			if sinfo.Uses[id] == sig.Params().At(i) {
				return true
			}
		}
		return false
	}
	nFns := 0
	for _, fi := range p.Funcs("subscription") {
		if !c19RecvIs(fi, "ExecutorEngine") {
			continue
		}
		emitsResult := false
		fw.WalkAll(fi.Decl.Body, func(n ast.Node) bool {
			if ev, _ := c19EmitEvent(sinfo, n); ev == "EventTypeOnNonSubscriptionExecutionResult" {
				emitsResult = true
			}
			return true
		})
		if !emitsResult {
			continue
		}
		nFns++
		okOnce, okRel := true, true
		var badOnce, badRel token.Pos
		got := ""
		in := fw.NewInterp(fi)
		in.H = fw.Hooks{
			Node: func(n ast.Node, st *fw.State) {
				if ev, _ := c19EmitEvent(sinfo, n); terminal[ev] {
					st.Inc("term")
				}
				if isCancelOfParam(fi, n) {
					st.Set("released")
				}
			},
			Exit: func(ret *ast.ReturnStmt, lit *ast.FuncLit, st *fw.State) {
				if lit != nil || !in.Final() {
					return
				}
				pos := fi.Decl.End()
				if ret != nil {
					pos = ret.Pos()
				}
				if c := st.Get("term"); c != (fw.Cnt{Min: 1, Max: 1}) && okOnce {
					okOnce, badOnce, got = false, pos, cntStr(c)
				}
				if !st.Must("released") && okRel {
					okRel, badRel = false, pos
				}
			},
		}
		in.Run(nil)
		r.Check(okOnce, R, fi.Name()+"/exactly-one-terminal-emit", c19Pos(p, badOnce, fi), "every exit of "+fi.Name()+" has emitted exactly one of OnError / OnNonSubscriptionExecutionResult",
			"an exit is reachable with "+got+" terminal events: the client gets no terminal message for the operation (it waits forever) or an error followed by a result for the same id")
		r.Check(okRel, R, fi.Name()+"/releases-id", c19Pos(p, badRel, fi), "every exit of "+fi.Name()+" has removed the operation id from the table (Cancel(id), deferred)",
			"the id of a finished query stays registered: re-using it — which the protocol allows after the terminal message — is closed with 4409 / answered with an error")
	}
	r.Expect(R, "goroutine functions of non-subscription operations", nFns, 1)

	if fi := p.Func("subscription", "ExecutorEngine.StopSubscription"); fi == nil {
		r.Error("%s: ExecutorEngine.StopSubscription not found", R)
	} else {
		n, bad := c19Follows(fi, nil, c19Trig{Node: func(n ast.Node) bool {
			ev, _ := c19EmitEvent(sinfo, n)
			return ev == "EventTypeOnSubscriptionCompleted"
		}}, func(n ast.Node) bool { return false })
		// the cancel must already have happened when Complete is emitted, or follow before the exit
		nPre := 0
		preOK := true
		in := fw.NewInterp(fi)
		in.H = fw.Hooks{Node: func(nd ast.Node, st *fw.State) {
			if isCancelOfParam(fi, nd) {
				st.Set("cancelled")
			}
			if ev, _ := c19EmitEvent(sinfo, nd); ev == "EventTypeOnSubscriptionCompleted" && in.Final() {
				nPre++
				if !st.Must("cancelled") {
					preOK = false
				}
			}
		}}
		in.Run(nil)
		if !preOK {
			_, bad = c19Follows(fi, nil, c19Trig{Node: func(n ast.Node) bool {
				ev, _ := c19EmitEvent(sinfo, n)
				return ev == "EventTypeOnSubscriptionCompleted"
			}}, func(n ast.Node) bool { return isCancelOfParam(fi, n) })
			preOK = bad == token.NoPos
		}
		r.Expect(R, "Complete emits in StopSubscription", n, 1)
		r.Check(preOK, R, fi.Name()+"/complete-implies-cancel", c19Pos(p, bad, fi), "every path of StopSubscription that emits OnSubscriptionCompleted cancels the operation (Cancel(id))",
			"the client is told the operation completed while its goroutine keeps running: data messages for the id follow the server's complete, and the id stays registered")
	}

	for _, pr := range c19Protos {
		fi := p.Func("websocket", pr.events+".Emit")
		hwe := p.Func("websocket", pr.events+".HandleWriteEvent")
		if fi == nil || hwe == nil {
			r.Error("%s: %s.Emit / HandleWriteEvent not found", R, pr.events)
			continue
		}
		nArm := 0
		ok := true
		var bad token.Pos
		why := ""
		in := fw.NewInterp(fi)
		in.H = fw.Hooks{
			Case: func(tag ast.Expr, vals []ast.Expr, match bool, st *fw.State) {
				if match && c19ValsContain(winfo, vals, "EventTypeOnNonSubscriptionExecutionResult") {
					st.Set("arm")
					if in.Final() {
						nArm++
					}
				}
			},
			Node: func(n ast.Node, st *fw.State) {
				c, isCall := n.(*ast.CallExpr)
				if !isCall || !st.Must("arm") || fw.Callee(winfo, c) != hwe.Obj || len(c.Args) == 0 {
					return
				}
				switch c19ConstName(winfo, c.Args[0]) {
				case pr.data:
					if st.May("complete") && in.Final() {
						ok, bad, why = false, c.Pos(), "a data message can follow the complete"
					}
					st.Inc("data")
				case pr.complete:
					if st.Get("data") != (fw.Cnt{Min: 1, Max: 1}) && in.Final() {
						ok, bad, why = false, c.Pos(), "complete is written after "+cntStr(st.Get("data"))+" data messages"
					}
					st.Inc("complete")
				default:
					if in.Final() {
						ok, bad, why = false, c.Pos(), "another message type is written for the result"
					}
				}
			},
			Exit: func(ret *ast.ReturnStmt, lit *ast.FuncLit, st *fw.State) {
				if lit != nil || !in.Final() || !st.May("arm") {
					return
				}
				if st.Get("data") != (fw.Cnt{Min: 1, Max: 1}) || st.Get("complete") != (fw.Cnt{Min: 1, Max: 1}) {
					ok, why = false, "the arm ends with "+cntStr(st.Get("data"))+" data and "+cntStr(st.Get("complete"))+" complete messages"
					if ret != nil {
						bad = ret.Pos()
					}
				}
			},
		}
		in.Run(nil)
		r.Expect(R, "result arm of "+fi.Name(), nArm, 1)
		r.Check(ok, R, fi.Name()+"/data-then-complete", c19Pos(p, bad, fi), "the OnNonSubscriptionExecutionResult arm of "+pr.name+" writes exactly one "+pr.data+" and then exactly one "+pr.complete,
			why+": the result of a query over the socket is not 'data followed by exactly one terminal message'")
	}
}

// c19ReadTimeoutStatePair (part of R5, added after a seeded change dropped one half of the pair): the read-error time-out
// of a connection is one piece of state kept in two fields — isReadTimeOutTimerRunning and readTimeOutCancel. Every block
// that assigns one of them assigns the other (started: true + cancel function; stopped: false + nil). A flag that stays
// true after the timer was stopped means the time-out can never start again: a connection whose reads keep failing is
// polled for ever and its subscriptions are never terminated.
func c19ReadTimeoutStatePair(r *fw.Run) {
	p := r.Prog
	pk := p.Pkg("subscription")
	if pk == nil {
		r.Error("C19-R5: package subscription not loaded")
		return
	}
	info := pk.TypesInfo
	pair := [2]string{"isReadTimeOutTimerRunning", "readTimeOutCancel"}
	n := 0
	for _, fi := range p.Funcs("subscription") {
		if fi.Decl.Recv == nil || !strings.HasPrefix(fi.Name(), "UniversalProtocolHandler.") {
			continue
		}
		assigns := func(nd ast.Node, field string, deep bool) bool {
			found := false
			visit := func(m ast.Node) bool {
				for _, t := range fw.WriteTargets(info, m) {
					if fw.IsFieldSel(info, t, "subscription", "UniversalProtocolHandler", field) {
						found = true
					}
				}
				return true
			}
			if deep {
				fw.WalkAll(nd, visit)
			} else {
				visit(nd)
			}
			return found
		}
		fw.WalkAll(fi.Decl.Body, func(nd ast.Node) bool {
			blk, ok := nd.(*ast.BlockStmt)
			if !ok {
				return true
			}
			for i, f := range pair {
				direct := false
				for _, st := range blk.List {
					if assigns(st, f, false) {
						direct = true
					}
				}
				if !direct {
					continue
				}
				n++
				other := pair[1-i]
				r.Check(assigns(blk, other, true), "C19-R5", fi.Name()+"/timeout-state-pair:"+f+"#"+itoa(n), p.Pos(blk.Pos()), "the block that assigns "+f+" also assigns "+other,
					"one half of the read time-out state is updated without the other: after the timer is stopped the running flag stays set (or the cancel function stays behind), so the time-out never starts again — a connection whose reads keep failing is polled for ever, its subscriptions are never terminated and the socket is never closed")
			}
			return true
		})
	}
	r.Expect("C19-R5", "assignments of the read time-out state", n, 4)
}

// c19FramesDecodedWhole (R8): a frame that is not one complete JSON message must close the connection with 4400 (bad
// request). encoding/json offers two decoders: Unmarshal validates the whole buffer, Decoder.Decode reads one value from a
// stream and stops — a valid message followed by garbage is accepted and executed, a truncated frame surfaces as
// io.ErrUnexpectedEOF, which callers treat like "nothing to read". The message readers of the websocket package decode a
// frame they hold as []byte; the rule forbids the streaming decoder in that package (who-may-call, expected count zero;
// the positive control is the seeded mutant of the thorough tier) and counts the whole-buffer decodes it relies on.
func c19FramesDecodedWhole(r *fw.Run) {
	p := r.Prog
	r.Rule("C19-R8", "client frames are decoded with the whole-buffer decoder (json.Unmarshal): no call of json.Decoder.Decode in the websocket and subscription packages (a streaming decode accepts a valid prefix followed by trailing bytes)")
	nWhole, nStream := 0, 0
	for _, pkgAlias := range []string{"websocket", "subscription"} {
		for _, fi := range p.Funcs(pkgAlias) {
			info := fi.Info()
			fw.WalkAll(fi.Decl.Body, func(nd ast.Node) bool {
				c, ok := nd.(*ast.CallExpr)
				if !ok {
					return true
				}
				switch {
				case fw.CallIs(info, c, "encoding/json", "Unmarshal"):
					nWhole++
				case fw.CallIs(info, c, "encoding/json", "Decoder.Decode"):
					nStream++
					r.Fail("C19-R8", fi.Name()+"/streaming-decode#"+itoa(nStream), p.Pos(c.Pos()), "no streaming JSON decode of a client frame",
						"json.Decoder.Decode reads one value and stops: `{\"type\":\"ping\"}garbage` is accepted and executed instead of closing the connection with 4400, and a truncated frame is only logged")
				}
				return true
			})
		}
	}
	r.Check(nStream == 0, "C19-R8", "no-streaming-decode", "-", "no json.Decoder.Decode call in execution/subscription and execution/subscription/websocket", "see the individual sites")
	r.Expect("C19-R8", "whole-buffer decodes (json.Unmarshal) of client data", nWhole, 4)
}

// c19NoDataFrameAfterCloseFrame (R9): the 44xx close frame is the server's last output. The client serialises frames with
// writeMu (C19-R3/R7); that alone does not order a data frame *before* the close frame: a writer that tested IsConnected()
// before taking the lock writes behind a close frame whose author has not yet marked the client closed. Two halves make
// it atomic: (a) in WriteBytesToClient the connected test is made while writeMu is held, in the critical section of the
// write; (b) every function that writes a close frame (a ws.WriteFrame / raw Write on the client connection outside
// WriteBytesToClient) marks the client closed (changeConnectionStateToClosed) before it releases writeMu.
func c19NoDataFrameAfterCloseFrame(r *fw.Run) {
	p := r.Prog
	r.Rule("C19-R9", "no data frame can follow a close frame: WriteBytesToClient tests IsConnected() inside the writeMu critical section of its write, and every close-frame writer marks the client closed before it releases writeMu")
	const lk = "websocket.Client.writeMu"
	n := 0
	for _, fi := range p.Funcs("websocket") {
		if fw.RecvName(recvTypeOrNil(fi.Obj)) != "Client" {
			continue
		}
		info := fi.Info()
		isData := fi.Obj.Name() == "WriteBytesToClient"
		writesFrame := false
		fw.WalkAll(fi.Decl.Body, func(nd ast.Node) bool {
			if c, ok := nd.(*ast.CallExpr); ok {
				if fn := fw.Callee(info, c); fn != nil {
					if (fn.Name() == "WriteFrame" || fn.Name() == "WriteServerMessage") && fn.Pkg() != nil && strings.Contains(fn.Pkg().Path(), "gobwas/ws") {
						writesFrame = true
					}
					if fn.Name() == "Write" {
						if sel, isSel := ast.Unparen(c.Fun).(*ast.SelectorExpr); isSel && fw.IsFieldSel(info, sel.X, "websocket", "Client", "clientConn") {
							writesFrame = true
						}
					}
				}
			}
			return true
		})
		if !writesFrame {
			continue
		}
		in := fw.NewInterp(fi)
		closedMarkedDeferred := false
		in.H = fw.Hooks{
			Node: func(nd ast.Node, st *fw.State) {
				c, ok := nd.(*ast.CallExpr)
				if !ok {
					return
				}
				if op, isOp := fw.LockOpOf(info, c); isOp {
					fw.ApplyLockOp(op, st)
					return
				}
				if fw.CallIs(info, c, "websocket", "Client.IsConnected") && fw.Held(st, lk, true) {
					st.Set("under:" + lk + ":state-tested")
				}
				if fw.CallIs(info, c, "websocket", "Client.changeConnectionStateToClosed") && fw.Held(st, lk, true) {
					st.Set("closed-marked-under-lock")
					closedMarkedDeferred = true
				}
				fn := fw.Callee(info, c)
				if fn == nil || !in.Final() {
					return
				}
				isWrite := (fn.Name() == "WriteFrame" || fn.Name() == "WriteServerMessage") && fn.Pkg() != nil && strings.Contains(fn.Pkg().Path(), "gobwas/ws")
				if fn.Name() == "Write" {
					if sel, isSel := ast.Unparen(c.Fun).(*ast.SelectorExpr); isSel && fw.IsFieldSel(info, sel.X, "websocket", "Client", "clientConn") {
						isWrite = true
					}
				}
				if !isWrite {
					return
				}
				if isData {
					n++
					r.Check(st.Must("under:"+lk+":state-tested"), "C19-R9", fi.Name()+"/connected-test-in-the-critical-section-of-the-write", p.Pos(c.Pos()), "the data frame is written in the writeMu critical section that tested IsConnected()",
						"the connected test is made before writeMu is taken: a writer that passed it waits for the lock behind a close frame and writes a text frame after the close frame — the peer receives `CLOSE 4429 …, TEXT {\"id\":\"1\",\"type\":\"next\",…}` and the writer is told the message was delivered")
				}
			},
			Exit: func(ret *ast.ReturnStmt, lit *ast.FuncLit, st *fw.State) {
				if lit != nil || !in.Final() || isData {
					return
				}
				n++
				r.Check(st.Must("closed-marked-under-lock"), "C19-R9", fi.Name()+"/close-frame-writer-marks-closed-under-the-lock", fi.Pos(), fi.Name()+" marks the client closed before it releases writeMu",
					"the close frame is written and writeMu released while the client still counts as connected: until the caller gets around to Disconnect() every concurrent WriteBytesToClient passes its connected test and writes a data frame behind the close frame")
			},
		}
		in.Run(nil)
		_ = closedMarkedDeferred
	}
	r.Expect("C19-R9", "frame writes of websocket.Client", n, 3)
}

// c19CompleteOnlyForActiveIds (R10): a client's complete/stop can cross the server's terminal message on the wire, or name
// an id that was never started; the protocols say it is ignored. StopSubscription may therefore emit the completed event
// only on the true edge of subscriptionCancellations.Cancel(id) — the call that says whether the id was still active.
func c19CompleteOnlyForActiveIds(r *fw.Run) {
	p := r.Prog
	r.Rule("C19-R10", "ExecutorEngine.StopSubscription emits the completed event only on the true edge of subscriptionCancellations.Cancel(id): no terminal message for an id that is not active")
	fi := p.Func("subscription", "ExecutorEngine.StopSubscription")
	if fi == nil {
		r.Error("C19-R10: ExecutorEngine.StopSubscription not found")
		return
	}
	info := fi.Info()
	n := 0
	in := fw.NewInterp(fi)
	in.H = fw.Hooks{
		Cond: func(e ast.Expr, branch bool, st *fw.State) {
			a := fw.Atom(info, e, branch)
			if a.Kind != "True" {
				return
			}
			if c, ok := ast.Unparen(a.X).(*ast.CallExpr); ok && fw.CallIs(info, c, "subscription", "subscriptionCancellations.Cancel") {
				st.Set("was-active")
			}
			if id, ok := ast.Unparen(a.X).(*ast.Ident); ok && fw.VarFromCall(fi, info.Uses[id], id.Pos(), "subscription", "subscriptionCancellations.Cancel", 0) {
				st.Set("was-active")
			}
		},
		Node: func(nd ast.Node, st *fw.State) {
			c, ok := nd.(*ast.CallExpr)
			if !ok || !in.Final() || !fw.CallIs(info, c, "subscription", "EventHandler.Emit") {
				return
			}
			n++
			r.Check(st.Must("was-active"), "C19-R10", "ExecutorEngine.StopSubscription/complete-only-for-an-active-id", p.Pos(c.Pos()), "the completed event is emitted only when Cancel(id) found the id active",
				"every client complete/stop is answered with a server complete: a second terminal message for an operation the server already completed (the two completes crossed on the wire), and a terminal message for an id that never existed")
		},
	}
	in.Run(nil)
	r.Expect("C19-R10", "events emitted by StopSubscription", n, 1)
}

// c19IdReleasedBeforeTerminalMessage (R11): after the terminal message of a query/mutation the client may re-use the id at
// once. The id must have left the table (subscriptionCancellations.Cancel) before that message is emitted — a release in a
// deferred function runs after the write, and a prompt re-use meets "subscriber already exists" (4409).
func c19IdReleasedBeforeTerminalMessage(r *fw.Run) {
	p := r.Prog
	r.Rule("C19-R11", "in ExecutorEngine.handleNonSubscriptionOperation every terminal event (result or error) is emitted after the operation id was released (a non-deferred subscriptionCancellations.Cancel(id) dominates the Emit)")
	fi := p.Func("subscription", "ExecutorEngine.handleNonSubscriptionOperation")
	if fi == nil {
		r.Error("C19-R11: ExecutorEngine.handleNonSubscriptionOperation not found")
		return
	}
	info := fi.Info()
	n := 0
	in := fw.NewInterp(fi)
	in.H = fw.Hooks{
		Lit: func(l *ast.FuncLit, ctx fw.LitCtx, st *fw.State) fw.LitMode { return fw.LitSkip },
		Node: func(nd ast.Node, st *fw.State) {
			c, ok := nd.(*ast.CallExpr)
			if !ok {
				return
			}
			if fw.CallIs(info, c, "subscription", "subscriptionCancellations.Cancel") {
				st.Set("released")
			}
			if in.Final() && fw.CallIs(info, c, "subscription", "EventHandler.Emit") {
				n++
				r.Check(st.Must("released"), "C19-R11", "ExecutorEngine.handleNonSubscriptionOperation/id-released-before-terminal-event#"+itoa(n), p.Pos(c.Pos()), "the id is released before this terminal event is emitted",
					"the terminal message is written while the id is still registered (it is released by a deferred function afterwards): a client that re-uses the id as soon as it has the message is disconnected with 4409 'Subscriber for <id> already exists'")
			}
		},
	}
	in.Run(nil)
	r.Expect("C19-R11", "terminal events emitted by handleNonSubscriptionOperation", n, 2)
}

// c19InitFuncAlwaysConsulted (R12): the InitFunc decides whether a connection is accepted (it is where authentication is
// checked). Both protocol handlers acknowledge connection_init in handleInit; the acknowledgement must be reached only after
// the InitFunc was called without error, or on the edge where no InitFunc is configured (initFunc == nil). A guard that
// also looks at the payload (initFunc != nil && len(payload) > 0) acknowledges a connection_init *without payload* without
// asking the InitFunc: a client that omits the payload bypasses the check.
func c19InitFuncAlwaysConsulted(r *fw.Run) {
	p := r.Prog
	r.Rule("C19-R12", "in both protocol handlers the connection_ack of handleInit is reached only after the InitFunc was called, or on the edge where no InitFunc is configured — never because the init payload is empty")
	n := 0
	for _, fi := range p.Funcs("websocket") {
		if fi.Obj.Name() != "handleInit" {
			continue
		}
		info := fi.Info()
		isInitFunc := func(e ast.Expr) bool {
			fv, _ := fw.Field(info, e)
			return fv != nil && fv.Name() == "initFunc"
		}
		ord := 0
		in := fw.NewInterp(fi)
		in.H = fw.Hooks{
			Cond: func(e ast.Expr, branch bool, st *fw.State) {
				op, leaves := fw.NNF(info, e, branch)
				if op == "mixed" {
					return
				}
				nilLeaf, other := false, false
				for _, a := range leaves {
					if a.Kind == "Nil" && isInitFunc(a.X) {
						nilLeaf = true
					} else {
						other = true
					}
				}
				// "no InitFunc" is established by the atom itself, by a conjunction containing it, or by a disjunction of nothing else
				if nilLeaf && (op != "or" || !other) {
					st.Set("settled") // one correlated fact "consulted ∨ none configured": it survives the join of the two edges
				}
			},
			Node: func(nd ast.Node, st *fw.State) {
				c, ok := nd.(*ast.CallExpr)
				if !ok {
					return
				}
				if isInitFunc(c.Fun) {
					st.Set("settled")
				}
				if !in.Final() {
					return
				}
				// the acknowledgement: HandleWriteEvent with a …ConnectionAck message type
				if fn := fw.Callee(info, c); fn != nil && fn.Name() == "HandleWriteEvent" && len(c.Args) > 0 {
					if co := fw.ConstObj(info, c.Args[0]); co != nil && strings.HasSuffix(co.Name(), "ConnectionAck") {
						n++
						ord++
						r.Check(st.Must("settled"), "C19-R12", fi.Name()+"/ack-only-after-the-init-func#"+itoa(ord), p.Pos(c.Pos()), "connection_ack in "+fi.Name()+" is written only after the InitFunc was consulted (or none is configured)",
							"the acknowledgement is reachable with an InitFunc configured but not called: a connection_init without payload is acknowledged without the check the InitFunc performs (authentication) — the client simply omits the payload")
					}
				}
			},
		}
		in.Run(nil)
	}
	r.Expect("C19-R12", "connection_ack writes in handleInit", n, 2)
}

// c19UndecodableMessagesClose4400 (R13): graphql-transport-ws — "receiving a message of a type or format which is not
// specified in this document will result in an immediate socket closure with the event 4400". Decoding fails in more
// ways than a JSON syntax error (valid JSON of the wrong shape: `{"type":1}`, `[]`, a subscribe payload that is not an
// object). In the transport-ws handler every exit of Handle and handleSubscribe that lies on the failure edge of a
// decoding call (reader.Read, reader.DeserializeSubscribePayload) has closed the connection
// (closeConnectionWithReason); and the operation is started (Engine.StartOperation) only where the message id is known to
// be non-empty — an id-less subscribe would be executed and answered with id-less next/complete messages.
func c19UndecodableMessagesClose4400(r *fw.Run) {
	p := r.Prog
	r.Rule("C19-R13", "in the graphql-transport-ws handler every exit on the failure edge of a message-decoding call has closed the connection with a close reason, and StartOperation is reached only with a non-empty message id")
	nExits, nStarts := 0, 0
	for _, name := range []string{c19TwHandler + ".Handle", c19TwHandler + ".handleSubscribe"} {
		fi := p.Func("websocket", name)
		if fi == nil {
			r.Error("C19-R13: %s not found", name)
			continue
		}
		info := fi.Info()
		isDecodeErr := func(o types.Object, pos token.Pos) bool {
			return fw.VarFromCall(fi, o, pos, "websocket", "GraphQLTransportWSMessageReader.Read", 1) || fw.VarFromCall(fi, o, pos, "websocket", "GraphQLTransportWSMessageReader.DeserializeSubscribePayload", 1)
		}
		ord := 0
		in := fw.NewInterp(fi)
		in.H = fw.Hooks{
			Cond: func(e ast.Expr, branch bool, st *fw.State) {
				a := fw.Atom(info, e, branch)
				if a.Kind == "NonNil" {
					if id, ok := ast.Unparen(a.X).(*ast.Ident); ok && isDecodeErr(info.Uses[id], id.Pos()) {
						st.Set("decode-failed")
					}
				}
				if a.Kind == "Nil" {
					if id, ok := ast.Unparen(a.X).(*ast.Ident); ok && isDecodeErr(info.Uses[id], id.Pos()) {
						st.Kill("decode-failed")
					}
				}
				// message.Id != "" / len(message.Id) > 0
				if (a.Kind == "Ne" || a.Kind == "NonEmpty") && fw.IsFieldSel(info, a.X, "websocket", "GraphQLTransportWSMessage", "Id") {
					if a.Kind == "NonEmpty" {
						st.Set("has-id")
					} else if v, isC := fw.ConstVal(info, a.Y); isC && v == `""` {
						st.Set("has-id")
					}
				}
			},
			Node: func(nd ast.Node, st *fw.State) {
				c, ok := nd.(*ast.CallExpr)
				if !ok {
					return
				}
				if fw.CallIs(info, c, "websocket", c19TwHandler+".closeConnectionWithReason") {
					st.Set("closed")
				}
				if in.Final() && fw.CallIs(info, c, "subscription", "Engine.StartOperation") {
					nStarts++
					r.Check(st.Must("has-id"), "C19-R13", fi.Name()+"/start-operation-needs-an-id", p.Pos(c.Pos()), "StartOperation in "+fi.Name()+" is reached only where the message id is known to be non-empty",
						"a subscribe message without id is executed: the server answers with `next` and `complete` messages that carry no id — not messages of the protocol — instead of closing with 4400")
				}
			},
			Exit: func(ret *ast.ReturnStmt, lit *ast.FuncLit, st *fw.State) {
				if lit != nil || !in.Final() || !st.Must("decode-failed") {
					return
				}
				nExits++
				ord++
				pos := fi.Decl.End()
				if ret != nil {
					pos = ret.Pos()
				}
				r.Check(st.Must("closed"), "C19-R13", fi.Name()+"/undecodable-message-closes-the-connection#"+itoa(ord), p.Pos(pos), "this exit of "+fi.Name()+" on the failure edge of message decoding has closed the connection",
					"a message that cannot be decoded (valid JSON of the wrong shape: `{\"type\":1}`, `[]`, `\"ping\"`, a numeric id, a subscribe payload that is not an object) is only logged: the connection stays open instead of being closed with 4400")
			},
		}
		in.Run(nil)
	}
	r.Expect("C19-R13", "exits on the failure edge of message decoding", nExits, 2)
	r.Expect("C19-R13", "StartOperation calls of the transport-ws handler", nStarts, 1)
}

// c19IdReleasedOnlyWhileOwned (R14): ids are re-usable. The table of active operations (subscriptionCancellations) is keyed
// by the client's id only, so Cancel(id) cancels whoever holds the id *now*. The goroutine of an operation may therefore
// release "its" id only while it still owns it; it stops owning it (a) once it has released it, (b) once it has emitted a
// terminal event — the client may start a new operation under the id as soon as it has that message —, and (c) once its
// context is done (StopSubscription released the id and the client may have re-used it). In the functions ExecutorEngine
// runs as the goroutine of an operation (the targets of its `go` statements and what they call in the engine), no
// Cancel(id) is reachable after one of these events — deferred functions included, which run last.
func c19IdReleasedOnlyWhileOwned(r *fw.Run) {
	p := r.Prog
	r.Rule("C19-R14", "the goroutine of an operation releases its id (subscriptionCancellations.Cancel) only while it still owns it: never after an earlier release, after a terminal event, or after its context was done — deferred functions included")
	// goroutine entry points: go e.<method>(…) inside ExecutorEngine
	entries := map[*fw.FuncInfo]bool{}
	for _, fi := range p.Funcs("subscription") {
		info := fi.Info()
		fw.WalkAll(fi.Decl.Body, func(nd ast.Node) bool {
			if g, ok := nd.(*ast.GoStmt); ok {
				if callee := p.FuncOf(fw.Callee(info, g.Call)); callee != nil && strings.HasPrefix(callee.Name(), "ExecutorEngine.") {
					entries[callee] = true
				}
			}
			return true
		})
	}
	n := 0
	for _, fi := range p.Funcs("subscription") {
		if !entries[fi] {
			continue
		}
		n++
		info := fi.Info()
		bad := ""
		in := fw.NewInterp(fi)
		in.H = fw.Hooks{
			Comm: func(cc *ast.CommClause, st *fw.State) {
				if cc.Comm == nil {
					return
				}
				fw.WalkAll(cc.Comm, func(m ast.Node) bool {
					if u, ok := m.(*ast.UnaryExpr); ok && u.Op == token.ARROW {
						if c, isCall := ast.Unparen(u.X).(*ast.CallExpr); isCall {
							if fn := fw.Callee(info, c); fn != nil && fn.Pkg() != nil && fn.Pkg().Path() == "context" && fn.Name() == "Done" {
								st.Set("not-owner")
							}
						}
					}
					return true
				})
			},
			Node: func(nd ast.Node, st *fw.State) {
				c, ok := nd.(*ast.CallExpr)
				if !ok {
					return
				}
				switch {
				case fw.CallIs(info, c, "subscription", "subscriptionCancellations.Cancel"):
					if in.Final() && st.May("not-owner") {
						bad = p.Pos(c.Pos())
					}
					st.Set("not-owner")
				case fw.CallIs(info, c, "subscription", "EventHandler.Emit") && len(c.Args) > 0:
					if k := fw.ConstObj(info, c.Args[0]); k != nil && (k.Name() == "EventTypeOnNonSubscriptionExecutionResult" || k.Name() == "EventTypeOnSubscriptionCompleted" || (k.Name() == "EventTypeOnError" && fi.Name() == "ExecutorEngine.handleNonSubscriptionOperation")) {
						st.Set("not-owner")
					}
				}
			},
		}
		in.Run(nil)
		r.Check(bad == "", "C19-R14", fi.Name()+"/id-released-only-while-owned", p.Pos(fi.Decl.Pos()), "the operation goroutine "+fi.Name()+" releases its id only while it still owns it",
			"subscriptionCancellations.Cancel(id) at "+bad+" is reachable after the goroutine stopped owning the id (it was released before, a terminal event was emitted, or the context was done): the client may have started a new operation under the same id by then, and this release cancels that operation")
	}
	r.Expect("C19-R14", "operation goroutines of ExecutorEngine", n, 2)
}

// c19ErrorPayloadNeverEmpty (R15): both protocols prescribe the payload of a terminal `error` message as a non-empty list
// of GraphQL errors (graphql-transport-ws clients close with 4400 on anything else). Both write handlers build that
// payload with graphqlerrors.RequestErrorsFromError(err); a nil or empty result is marshalled as "payload":null. Every
// return of that function (and of the helpers it returns the result of) therefore yields a list that is non-empty by
// construction: a literal with at least one element, the value errors.As extracted from the error itself, a list that a
// loop appends to where the ranged collection is known to be non-empty, or the result of a function with the same property.
func c19ErrorPayloadNeverEmpty(r *fw.Run) {
	p := r.Prog
	r.Rule("C19-R15", "graphqlerrors.RequestErrorsFromError — the payload of every `error` message of both protocols — returns a list that is non-empty by construction on every path")
	// the function is found by its role: the argument of Writer.WriteError in the write event handlers
	var targets []*fw.FuncInfo
	seenT := map[*fw.FuncInfo]bool{}
	for _, fi := range p.Funcs("websocket") {
		info := fi.Info()
		fw.WalkAll(fi.Decl.Body, func(nd ast.Node) bool {
			c, ok := nd.(*ast.CallExpr)
			if !ok {
				return true
			}
			if fn := fw.Callee(info, c); fn == nil || fn.Name() != "WriteError" || len(c.Args) != 2 {
				return true
			}
			if inner, isCall := ast.Unparen(c.Args[1]).(*ast.CallExpr); isCall {
				// the callee lives in the other module of the workspace: resolve it by path and name
				if fn := fw.Callee(info, inner); fn != nil && fn.Pkg() != nil && fn.Pkg().Path() == fw.PkgPath("graphqlerrors") {
					if callee := p.Func("graphqlerrors", fw.FuncName(fn)); callee != nil && !seenT[callee] {
						seenT[callee] = true
						targets = append(targets, callee)
					}
				}
			}
			return true
		})
	}
	memo := map[*fw.FuncInfo]string{}
	var whyEmpty func(fi *fw.FuncInfo, depth int) string // "" = never empty
	whyEmpty = func(fi *fw.FuncInfo, depth int) string {
		if w, ok := memo[fi]; ok {
			return w
		}
		if depth > 3 {
			return "helper chain too deep at " + fi.Name()
		}
		memo[fi] = "" // recursion guard
		info := fi.Info()
		// v appended to directly in the body of a range loop over C  →  appendedIn[v] = keys of C
		appendedIn := map[types.Object][]string{}
		fw.WalkAll(fi.Decl.Body, func(nd ast.Node) bool {
			rs, ok := nd.(*ast.RangeStmt)
			if !ok {
				return true
			}
			for _, st := range rs.Body.List {
				as, isAs := st.(*ast.AssignStmt)
				if !isAs || len(as.Lhs) != 1 || len(as.Rhs) != 1 {
					continue
				}
				id, isID := as.Lhs[0].(*ast.Ident)
				c, isCall := ast.Unparen(as.Rhs[0]).(*ast.CallExpr)
				if isID && isCall && fw.Builtin(info, c) == "append" && len(c.Args) >= 2 {
					appendedIn[info.ObjectOf(id)] = append(appendedIn[info.ObjectOf(id)], fw.ExprKey(info, rs.X))
				}
			}
			return true
		})
		asTargets := map[types.Object]bool{} // errors.As(err, &v)
		why := ""
		in := fw.NewInterp(fi)
		in.H = fw.Hooks{
			Cond: func(e ast.Expr, branch bool, st *fw.State) {
				op, leaves := fw.NNF(info, e, branch)
				if op != "atom" && op != "and" {
					return
				}
				for _, a := range leaves {
					if a.Kind == "NonEmpty" {
						st.Set("nonempty:" + fw.ExprKey(info, a.X))
					}
					if a.Kind == "True" {
						if c, isCall := ast.Unparen(a.X).(*ast.CallExpr); isCall && len(c.Args) == 2 {
							if fn := fw.Callee(info, c); fn != nil && fn.Name() == "As" {
								if u, isAddr := ast.Unparen(c.Args[1]).(*ast.UnaryExpr); isAddr && u.Op == token.AND {
									if id, isID := ast.Unparen(u.X).(*ast.Ident); isID {
										asTargets[info.ObjectOf(id)] = true
										st.Set("extracted:" + id.Name)
									}
								}
							}
						}
					}
				}
			},
			Exit: func(ret *ast.ReturnStmt, lit *ast.FuncLit, st *fw.State) {
				if lit != nil || !in.Final() || why != "" {
					return
				}
				if ret == nil || len(ret.Results) == 0 {
					why = fi.Name() + " has a bare return"
					return
				}
				e := ast.Unparen(ret.Results[len(ret.Results)-1])
				switch x := e.(type) {
				case *ast.CompositeLit:
					if len(x.Elts) == 0 {
						why = "empty literal at " + p.Pos(ret.Pos())
					}
				case *ast.CallExpr:
					callee := p.FuncOf(fw.Callee(info, x))
					if callee == nil {
						why = "result of an unresolved call at " + p.Pos(ret.Pos())
					} else if w := whyEmpty(callee, depth+1); w != "" {
						why = "returns the result of " + callee.Name() + " (" + w + ")"
					}
				case *ast.Ident:
					o := info.ObjectOf(x)
					if asTargets[o] && st.Must("extracted:"+x.Name) {
						return
					}
					for _, c := range appendedIn[o] {
						if st.Must("nonempty:" + c) {
							return
						}
					}
					why = x.Name + " may be nil or empty at " + p.Pos(ret.Pos())
				default:
					why = "unrecognised result at " + p.Pos(ret.Pos())
				}
			},
		}
		in.Run(nil)
		memo[fi] = why
		return why
	}
	for _, fi := range targets {
		w := whyEmpty(fi, 0)
		r.Check(w == "", "C19-R15", fi.Name()+"/error-payload-never-empty", p.Pos(fi.Decl.Pos()), fi.Name()+" returns a non-empty error list on every path",
			fi.Name()+" can return a nil or empty list ("+w+"): the terminal message is written as {\"type\":\"error\",\"payload\":null}, which graphql-transport-ws clients answer by closing with 4400 and which tells no client why its operation died")
	}
	r.Expect("C19-R15", "functions that build the payload of an error message", len(targets), 1)
}

// c19TerminalEventEndsTheGoroutine (R16): `error` is the terminal message of an operation in both protocols: after it
// nothing may be sent for the id, and the id is free again. In the goroutine of a subscription the engine polls the
// executor in a loop; a poll that fails emits the error event. The loop therefore has to end with that poll. Structurally:
// inside a loop of a function ExecutorEngine runs as an operation goroutine, a call of an engine method that may emit
// EventTypeOnError (summary: an Emit of that event type occurs in it) is not a bare statement — its result is tested, and
// the failing edge leaves the loop —, and a direct Emit of the event is followed by return / break on its path.
func c19TerminalEventEndsTheGoroutine(r *fw.Run) {
	p := r.Prog
	r.Rule("C19-R16", "in the goroutine of a subscription the poll that emits the terminal error event ends the polling loop: a call of an engine method that may emit EventTypeOnError inside a loop has its result tested (the failing edge leaves the loop), it is never a bare statement")
	mayEmit := map[*fw.FuncInfo]bool{}
	for _, fi := range p.Funcs("subscription") {
		if !strings.HasPrefix(fi.Name(), "ExecutorEngine.") {
			continue
		}
		info := fi.Info()
		fw.WalkAll(fi.Decl.Body, func(nd ast.Node) bool {
			if c, ok := nd.(*ast.CallExpr); ok && fw.CallIs(info, c, "subscription", "EventHandler.Emit") && len(c.Args) > 0 {
				if k := fw.ConstObj(info, c.Args[0]); k != nil && k.Name() == "EventTypeOnError" {
					mayEmit[fi] = true
				}
			}
			return true
		})
	}
	entries := map[*fw.FuncInfo]bool{}
	for _, fi := range p.Funcs("subscription") {
		info := fi.Info()
		fw.WalkAll(fi.Decl.Body, func(nd ast.Node) bool {
			if g, ok := nd.(*ast.GoStmt); ok {
				if callee := p.FuncOf(fw.Callee(info, g.Call)); callee != nil && strings.HasPrefix(callee.Name(), "ExecutorEngine.") {
					entries[callee] = true
				}
			}
			return true
		})
	}
	n := 0
	for _, fi := range p.Funcs("subscription") {
		if !entries[fi] {
			continue
		}
		info := fi.Info()
		var loops []ast.Node
		var visit func(nd ast.Node) bool
		visit = func(nd ast.Node) bool {
			switch x := nd.(type) {
			case *ast.ForStmt:
				loops = append(loops, x)
				ast.Inspect(x.Body, visit)
				loops = loops[:len(loops)-1]
				return false
			case *ast.RangeStmt:
				loops = append(loops, x)
				ast.Inspect(x.Body, visit)
				loops = loops[:len(loops)-1]
				return false
			case *ast.FuncLit:
				return false
			case *ast.ExprStmt:
				c, ok := x.X.(*ast.CallExpr)
				if !ok || len(loops) == 0 {
					return true
				}
				callee := p.FuncOf(fw.Callee(info, c))
				if callee == nil || !mayEmit[callee] {
					return true
				}
				n++
				r.Fail("C19-R16", fi.Name()+"/terminal-event-ends-the-goroutine", p.Pos(c.Pos()), "the poll "+callee.Name()+" in the loop of "+fi.Name()+" tells its caller that it emitted the terminal error event",
					callee.Name()+" may emit EventTypeOnError — the terminal message of the operation — and is called as a bare statement inside the polling loop of "+fi.Name()+": the loop goes on, the operation is executed again after the update interval and the client receives `error` for the same id again and again; the id is never released")
			case *ast.IfStmt, *ast.AssignStmt:
				// a call whose result is tested or kept: counted as an accepted poll
				fw.WalkAll(x, func(m ast.Node) bool {
					if c, ok := m.(*ast.CallExpr); ok && len(loops) > 0 {
						if callee := p.FuncOf(fw.Callee(info, c)); callee != nil && mayEmit[callee] {
							n++
							r.Pass("C19-R16", fi.Name()+"/terminal-event-ends-the-goroutine", p.Pos(c.Pos()), "the result of the poll "+callee.Name()+" in the loop of "+fi.Name()+" is used", true)
						}
					}
					return true
				})
				if _, isIf := x.(*ast.IfStmt); isIf {
					return true
				}
				return false
			}
			return true
		}
		ast.Inspect(fi.Decl.Body, visit)
	}
	r.Expect("C19-R16", "polls that may emit the terminal error event inside a loop of an operation goroutine", n, 1)
}

// c19RefusedOrTerminatedConnectionsAreClosed (R17): in the legacy graphql-ws protocol the server answers a connection_init
// it does not accept with connection_error — and then has to close the socket: the handler keeps no "refused" state, so a
// client that ignores the error could go on and start operations on a connection whose (authentication) check failed.
// connection_terminate likewise asks for the connection to be closed. In ProtocolGraphQLWSHandler.Handle every exit on
// the edge where the init was refused (the error of handleInit is non-nil) and every exit of the connection_terminate
// arm has passed a call that reaches TransportClient.Disconnect / DisconnectWithReason.
func c19RefusedOrTerminatedConnectionsAreClosed(r *fw.Run) {
	p := r.Prog
	r.Rule("C19-R17", "in the graphql-ws handler every exit after a refused connection_init and every exit of the connection_terminate arm has disconnected the client")
	fi := p.Func("websocket", "ProtocolGraphQLWSHandler.Handle")
	if fi == nil {
		r.Error("C19-R17: ProtocolGraphQLWSHandler.Handle not found")
		return
	}
	info := fi.Info()
	// functions of the package that reach a Disconnect of the transport client
	disconnects := map[*types.Func]bool{}
	for changed := true; changed; {
		changed = false
		for _, cand := range p.Funcs("websocket") {
			if disconnects[cand.Obj] {
				continue
			}
			cinfo := cand.Info()
			fw.WalkAll(cand.Decl.Body, func(nd ast.Node) bool {
				if c, ok := nd.(*ast.CallExpr); ok {
					if fn := fw.Callee(cinfo, c); fn != nil && (disconnects[fn] || (strings.HasPrefix(fn.Name(), "Disconnect") && fw.RecvNameOfFunc(fn) == "TransportClient")) {
						disconnects[cand.Obj] = true
					}
				}
				return true
			})
			if disconnects[cand.Obj] {
				changed = true
			}
		}
	}
	var initErr types.Object
	fw.WalkAll(fi.Decl.Body, func(nd ast.Node) bool {
		if as, ok := nd.(*ast.AssignStmt); ok && len(as.Rhs) == 1 && len(as.Lhs) == 2 {
			if c, isCall := ast.Unparen(as.Rhs[0]).(*ast.CallExpr); isCall {
				if fn := fw.Callee(info, c); fn != nil && fn.Name() == "handleInit" {
					if id, isID := as.Lhs[1].(*ast.Ident); isID {
						initErr = info.ObjectOf(id)
					}
				}
			}
		}
		return true
	})
	n := map[string]int{}
	in := fw.NewInterp(fi)
	in.H = fw.Hooks{
		Lit: func(l *ast.FuncLit, ctx fw.LitCtx, st *fw.State) fw.LitMode { return fw.LitSkip },
		Case: func(tag ast.Expr, vals []ast.Expr, match bool, st *fw.State) {
			if !match {
				return
			}
			for _, v := range vals {
				if c := fw.ConstObj(info, v); c != nil {
					switch c.Name() {
					case "GraphQLWSMessageTypeConnectionTerminate":
						st.Set("arm:terminate")
					case "GraphQLWSMessageTypeConnectionInit":
						st.Set("arm:init")
					}
				}
			}
		},
		Cond: func(e ast.Expr, branch bool, st *fw.State) {
			a := fw.Atom(info, e, branch)
			if id, isID := ast.Unparen(a.X).(*ast.Ident); isID && a.Kind == "NonNil" && initErr != nil && info.ObjectOf(id) == initErr && st.Must("arm:init") {
				st.Set("refused-init")
			}
		},
		Node: func(nd ast.Node, st *fw.State) {
			if c, ok := nd.(*ast.CallExpr); ok {
				if fn := fw.Callee(info, c); fn != nil && (disconnects[fn] || (strings.HasPrefix(fn.Name(), "Disconnect") && fw.RecvNameOfFunc(fn) == "TransportClient")) {
					st.Set("disconnected")
				}
			}
		},
		Exit: func(ret *ast.ReturnStmt, lit *ast.FuncLit, st *fw.State) {
			if lit != nil || !in.Final() {
				return
			}
			pos := fi.Decl.End()
			if ret != nil {
				pos = ret.Pos()
			}
			for fact, label := range map[string]string{"refused-init": "refused-init", "arm:terminate": "connection-terminate"} {
				if !st.Must(fact) {
					continue
				}
				n[label]++
				r.Check(st.Must("disconnected"), "C19-R17", "ProtocolGraphQLWSHandler.Handle/closed-after:"+label, p.Pos(pos), "the exit of Handle after "+label+" has disconnected the client",
					"Handle returns after "+label+" without disconnecting the client: the handler keeps no state about it, so the connection stays fully usable — `start` after a connection_init the InitFunc refused (an authentication failure) is executed and answered with data")
			}
		},
	}
	in.Run(nil)
	r.Expect("C19-R17", "exits after a refused init", n["refused-init"], 1)
	r.Expect("C19-R17", "exits of the connection_terminate arm", n["connection-terminate"], 1)
}
