package rules

import (
	"fmt"
	"os"
	"path/filepath"
	"runtime"
	"runtime/debug"
	"strings"

	"verif/checker/fw"
)

// SelfTest applies every mutant of the property through an in-memory overlay, re-runs the
// property's rules on the mutated program and records whether the expected rule fired.
// The result is part of the thorough-tier evidence ("selftest"). A mutant whose anchor text
// is not present exactly once is skipped (the tree changed); a mutant that does not type-check
// is reported as invalid. A surviving mutant is a defect of the checker, reported as NOTE
// (and as CHECK-ERROR when VERIF_SELFTEST_STRICT is set, which is how the tables are developed).
func SelfTest(r *fw.Run, spec Spec) {
	type res struct {
		Mutant  string `json:"mutant"`
		Rule    string `json:"expected_rule"`
		Outcome string `json:"outcome"` // killed | survived | skipped | invalid
		By      string `json:"reported,omitempty"`
	}
	var out []res
	killed, total := 0, 0
	for _, m := range spec.Mutants {
		path := filepath.Join(fw.RepoRoot(), m.File)
		src, err := os.ReadFile(path)
		if err != nil || strings.Count(string(src), m.Old) != 1 {
			out = append(out, res{m.Name, m.Rule, "skipped", "anchor text not found exactly once"})
			continue
		}
		total++
		mut := strings.Replace(string(src), m.Old, m.New, 1)
		alsoOK := true
		for _, a := range m.Also {
			if strings.Count(mut, a[0]) != 1 {
				alsoOK = false
			}
			mut = strings.Replace(mut, a[0], a[1], 1)
		}
		if !alsoOK {
			total--
			out = append(out, res{m.Name, m.Rule, "skipped", "anchor text not found exactly once"})
			continue
		}
		outcome, by := runMutant(r.Prop, spec, path, mut, m)
		if outcome == "killed" {
			killed++
		}
		out = append(out, res{m.Name, m.Rule, outcome, by})
		if outcome != "killed" {
			msg := fmt.Sprintf("selftest: mutant %q expected %s to fire: %s %s", m.Name, m.Rule, outcome, by)
			if os.Getenv("VERIF_SELFTEST_STRICT") != "" {
				r.Error("%s", msg)
			} else {
				r.Note("%s", msg)
			}
		}
		runtime.GC()
		debug.FreeOSMemory()
	}
	r.Extra["selftest"] = out
	r.Extra["selftest_killed"] = killed
	r.Extra["selftest_total"] = total
	skipped := 0
	for _, o := range out {
		if o.Outcome == "skipped" {
			skipped++
			r.Note("selftest: control %q skipped: %s (the source moved; the rule itself still ran)", o.Mutant, o.By)
		}
	}
	r.Extra["selftest_skipped"] = skipped
	fmt.Printf("   selftest: %d/%d seeded mutants detected by their rule (%d skipped: anchor text gone)\n", killed, total, skipped)
}

func runMutant(prop string, spec Spec, path, content string, m Mutant) (outcome, by string) {
	defer func() {
		if rec := recover(); rec != nil {
			outcome, by = "invalid", fmt.Sprintf("engine panic: %v", rec)
		}
	}()
	prog, err := fw.Load(fw.LoadOpts{Patterns: spec.Patterns("quick"), Overlay: map[string][]byte{path: []byte(content)}}, false)
	if err != nil {
		return "invalid", "mutant does not load/type-check: " + err.Error()
	}
	sub := fw.NewRun(prop, "selftest")
	sub.Prog = prog
	spec.Run(sub)
	var other []string
	for _, o := range sub.Obls {
		if o.OK {
			continue
		}
		if o.Rule == m.Rule && strings.Contains(o.Key, m.Key) {
			return "killed", o.Rule + " [" + o.Key + "] " + o.Pos
		}
		other = append(other, o.Rule+"["+o.Key+"]")
	}
	if len(other) > 0 {
		return "survived", "expected rule silent; others fired: " + strings.Join(other, ", ")
	}
	if len(sub.Errors) > 0 {
		return "survived", "no violation, check errors: " + strings.Join(sub.Errors, "; ")
	}
	return "survived", ""
}
