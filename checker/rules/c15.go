package rules

import (
	"go/ast"
	"go/token"
	"go/types"
	"strings"

	"verif/checker/fw"
)

func init() {
	Registry["C15"] = Spec{
		Pkgs: map[string][]string{"v2": {"resolve", "ast", "gqlds", "httpclient", "astnorm"}},
		Run:  runC15,
		Explanation: "Decides the structural half of 'an omitted variable stays omitted and every literal kind is converted': every function that renders request input with InputTemplate.RenderAndCollectUndefinedVariables passes one and the same collector at all its render sites and applies exactly that collector to the same buffer (SetInputUndefinedVariables) on every path before the buffer becomes the request input — or consumes the collector itself (the per-variable omission of multi-entity entries); " +
			"the template renderer reports a context variable as undefined exactly on its missing-value edge and records it in the collector; the literal→JSON writer, the value copier and the printer cover all nine value kinds or fail loudly. " +
			"It does not decide character-level equality of literals and JSON nor validity of the variables object for all spellings (value level).",
		Mutants: []Mutant{
			{Name: "the content of a string literal is copied between JSON quotes as it is written (reverts the F100 fix)", File: "v2/pkg/ast/ast_value.go", Rule: "C15-R7", Key: "Document.writeJSONValue/string-content-converted:StringValueContentBytes",
				Old: "\t\t\tbuf.WriteByte('\"')\n\t\t\twriteStringContentAsJSON(buf, d.StringValueContentBytes(value.Ref))\n\t\t\tbuf.WriteByte('\"')\n", New: "\t\t\tbuf.Write(quotes.WrapBytes(d.StringValueContentBytes(value.Ref)))\n"},
			{Name: "a null default of a list variable is wrapped into a list (reverts the F83 fix)", File: "v2/pkg/astnormalization/variables_default_value_extraction.go", Rule: "C15-R6", Key: "variablesDefaultValueExtractionVisitor.EnterVariableDefinition/null-never-wrapped",
				Old: " && valueBytes[0] != '[' && !bytes.Equal(valueBytes, literal.NULL) {", New: " && valueBytes[0] != '[' && !bytes.Equal(valueBytes, literal.TRUE) {"},
			{Name: "variables view falls back to the canonical name after a remap miss (seeded change C15-21)", File: "v2/pkg/engine/resolve/variables_view.go", Rule: "C15-R5", Key: "VariablesView.Get/remap-consulted-before-lookup",
				Old: "\tval := v.variables.Get(head)\n", New: "\tval := v.variables.Get(head)\n\tif val == nil && head != path[0] {\n\t\tval = v.variables.Get(path[0])\n\t}\n"},
			{Name: "subscription start forwards the variables as rendered (the repaired defect F16)", File: gqldsGo, Rule: "C15-R4", Key: "SubscriptionSource.Start/removes-undefined-variables",
				Old: "\tinput = (&Source{}).compactAndUnNullVariables(input)\n\tvar options GraphQLSubscriptionOptions", New: "\tvar options GraphQLSubscriptionOptions"},
			{Name: "file uploads skip the un-nulling of variables", File: gqldsGo, Rule: "C15-R4", Key: "Source.LoadWithFiles/removes-undefined-variables",
				Old: "\tinput = s.compactAndUnNullVariables(input)\n\treturn httpclient.DoMultipartForm(", New: "\treturn httpclient.DoMultipartForm("},
			{Name: "footer rendered through a closure that takes the collector by value (seeded change C15-13)", File: loaderGo, Rule: "C15-R1", Key: "prepareEntityFetch/one-collector",
				Old: "\tresponseCacheFooterStart := preparedInput.Len()\n\n\terr = fetch.Input.Footer.RenderAndCollectUndefinedVariables(l.ctx, nil, preparedInput, &undefinedVariables)\n\tif err != nil {\n\t\treturn errors.WithStack(err)\n\t}\n\n\t// Built before SetInputUndefinedVariables",
				New: "\tresponseCacheFooterStart := preparedInput.Len()\n\n\trenderFooter := func(uv []string) error {\n\t\treturn fetch.Input.Footer.RenderAndCollectUndefinedVariables(l.ctx, nil, preparedInput, &uv)\n\t}\n\terr = renderFooter(undefinedVariables)\n\tif err != nil {\n\t\treturn errors.WithStack(err)\n\t}\n\n\t// Built before SetInputUndefinedVariables"},
			{Name: "footer's undefined variables collected into a throw-away slice", File: loaderGo, Rule: "C15-R1", Key: "prepareBatchEntityFetch",
				Old: "\tresponseCacheFooterStart := preparedInput.Len()\n\n\terr = fetch.Input.Footer.RenderAndCollectUndefinedVariables(l.ctx, nil, preparedInput, &undefinedVariables)\n\tif err != nil {\n\t\treturn errors.WithStack(err)\n\t}\n\n\tif l.responseCacheEnabled() && len(responseCacheItemHashes) > 0 {",
				New: "\tresponseCacheFooterStart := preparedInput.Len()\n\n\terr = fetch.Input.Footer.RenderAndCollectUndefinedVariables(l.ctx, nil, preparedInput, new([]string))\n\tif err != nil {\n\t\treturn errors.WithStack(err)\n\t}\n\n\tif l.responseCacheEnabled() && len(responseCacheItemHashes) > 0 {"},
			{Name: "entity fetch input used without applying the collected undefined variables", File: loaderGo, Rule: "C15-R1", Key: "prepareEntityFetch",
				Old: "\terr = SetInputUndefinedVariables(preparedInput, undefinedVariables)\n\tif err != nil {\n\t\treturn errors.WithStack(err)\n\t}\n\tfetchInput := preparedInput.Bytes()\n\n\tif l.ctx.TracingOptions.Enable && res.fetchSkipped {",
				New: "\tif len(undefinedVariables) > 1 {\n\t\terr = SetInputUndefinedVariables(preparedInput, undefinedVariables)\n\t\tif err != nil {\n\t\t\treturn errors.WithStack(err)\n\t\t}\n\t}\n\tfetchInput := preparedInput.Bytes()\n\n\tif l.ctx.TracingOptions.Enable && res.fetchSkipped {"},
			{Name: "undefined context variable no longer recorded", File: "v2/pkg/engine/resolve/inputtemplate.go", Rule: "C15-R2", Key: "renderSegments",
				Old: "\t\t\t\tif undefined {\n\t\t\t\t\t*undefinedVariables = append(*undefinedVariables, segment.VariableSourcePath[0])\n\t\t\t\t}\n", New: "\t\t\t\t_ = undefined\n"},
			{Name: "object literals no longer printed", File: astValueGo, Rule: "C15-R3", Key: "PrintValue",
				Old: "\tcase ValueKindObject:\n\t\t_, err = w.Write(literal.LBRACE)", New: "\tcase ValueKindObject - 100:\n\t\t_, err = w.Write(literal.LBRACE)"},
		},
	}
}

func runC15(r *fw.Run) {
	defer c15EveryEntryPointUnNulls(r)
	defer c15NullIsNeverWrappedIntoAList(r)
	defer c15StringContentReachesJSONThroughAConverter(r)
	// a variable's value reaches the subgraph through VariablesView: a lookup that can fall back to a different client
	// variable (an omitted $foo renamed to $a picking up the client's own "a") changes the value that is sent
	defer variablesByNameOnlyThroughView(r, "C15-R5")
	p := r.Prog
	pk := p.Pkg("resolve")
	if pk == nil {
		r.Error("package resolve not loaded")
		return
	}
	info := pk.TypesInfo

	// ---- R1 collect ⇒ apply -----------------------------------------------------------------------
	r.Rule("C15-R1", "every function that calls InputTemplate.RenderAndCollectUndefinedVariables uses one collector at all render sites and applies that collector to the same buffer on every path before the rendered bytes are used as request input (or consumes the collector itself)")
	frozen := map[string]string{
		"Loader.assembleMultiEntityInput":                  "Header/Footer of a merged multi fetch are built from the HTTP envelope and the query text only (create_multi_fetch splits the variables object out before header/footer are resolved), so their collector is always empty; per-entry variables are handled in renderEntryVariables",
		"InputTemplate.RenderAndCollectUndefinedVariables": "the collecting primitive itself",
	}
	nFns := 0
	for _, fi := range p.Funcs("resolve") {
		var renders []*ast.CallExpr
		fw.WalkAll(fi.Decl.Body, func(n ast.Node) bool {
			if c, ok := n.(*ast.CallExpr); ok && fw.CallIs(info, c, "resolve", "InputTemplate.RenderAndCollectUndefinedVariables") && len(c.Args) == 4 {
				renders = append(renders, c)
			}
			return true
		})
		if len(renders) == 0 {
			continue
		}
		if why, ok := frozen[fi.Name()]; ok {
			r.Pass("C15-R1", fi.Name()+"/collect-apply", fi.Pos(), "undefined-variable handling in "+fi.Name()+" (frozen: "+why+")", true)
			continue
		}
		nFns++
		// one collector, one buffer
		var collector, buffer types.Object
		same := true
		for _, c := range renders {
			co := collectorObj(info, c.Args[3])
			bo := fw.RootObj(info, c.Args[2])
			if co == nil {
				same = false
				continue
			}
			if collector == nil {
				collector, buffer = co, bo
			} else if collector != co || buffer != bo {
				same = false
			}
		}
		r.Check(same && collector != nil, "C15-R1", fi.Name()+"/one-collector", fi.Pos(), "all "+itoa(len(renders))+" render sites of "+fi.Name()+" collect into the same variable and write the same buffer",
			"a render site collects into another (or a throw-away) slice: the undefined variables of that template part are never removed from the request, so an omitted client variable reaches the subgraph as null")
		if collector == nil {
			continue
		}
		// path rule: applied (or consumed inline) before use
		in := fw.NewInterp(fi)
		nUse := 0
		in.H = fw.Hooks{Node: func(nd ast.Node, st *fw.State) {
			c, isCall := nd.(*ast.CallExpr)
			if isCall && fw.CallIs(info, c, "resolve", "InputTemplate.RenderAndCollectUndefinedVariables") {
				st.Set("collected")
				st.Kill("applied")
			}
			if isCall && fw.CallIs(info, c, "resolve", "SetInputUndefinedVariables") && len(c.Args) == 2 {
				if fw.RootObj(info, c.Args[1]) == collector && fw.RootObj(info, c.Args[0]) == buffer {
					st.Set("applied")
				}
			}
			// inline consumption: the collector's length is tested (per-variable omission)
			if !in.Final() {
				return
			}
			// uses of the rendered bytes as request input: assignment to preparedFetch.input, or buffer bytes written to another buffer
			for _, t := range fw.WriteTargets(info, nd) {
				if fw.IsFieldSel(info, t, "resolve", "preparedFetch", "input") && st.May("collected") {
					nUse++
					r.Check(st.Must("applied"), "C15-R1", fi.Name()+"/applied-before-use", p.Pos(nd.Pos()), "the collector is applied to the buffer before it becomes prepared.input in "+fi.Name(),
						"the request input is taken from the buffer on a path where SetInputUndefinedVariables(buffer, collector) did not run: variables the client omitted are sent as explicit nulls")
				}
			}
		}, Cond: func(e ast.Expr, branch bool, st *fw.State) {
			// `len(collector) > 0 && …` consumed inline
			a := fw.Atom(info, e, branch)
			if (a.Kind == "NonEmpty" || a.Kind == "Empty") && fw.RootObj(info, a.X) == collector {
				st.Set("applied")
			}
		}}
		in.Run(nil)
		if nUse == 0 {
			// the function does not assign prepared.input itself: it must consume the collector inline on every path after collecting
			ok := true
			in2 := fw.NewInterp(fi)
			in2.H = fw.Hooks{Node: func(nd ast.Node, st *fw.State) {
				if c, isCall := nd.(*ast.CallExpr); isCall && fw.CallIs(info, c, "resolve", "InputTemplate.RenderAndCollectUndefinedVariables") {
					st.Set("pending")
				}
				if c, isCall := nd.(*ast.CallExpr); isCall && fw.CallIs(info, c, "resolve", "SetInputUndefinedVariables") && fw.RootObj(info, c.Args[1]) == collector {
					st.Kill("pending")
				}
				// any write of the scratch buffer's bytes to another buffer while pending
				if c, isCall := nd.(*ast.CallExpr); isCall && in2.Final() {
					if fn := fw.Callee(info, c); fn != nil && fn.Name() == "Write" && len(c.Args) == 1 && fw.RootObj(info, c.Args[0]) == buffer && st.May("pending") {
						ok = false
					}
				}
			}, Cond: func(e ast.Expr, branch bool, st *fw.State) {
				a := fw.Atom(info, e, branch)
				if (a.Kind == "NonEmpty" || a.Kind == "Empty") && fw.RootObj(info, a.X) == collector {
					st.Kill("pending")
				}
			}}
			pendingAtExit := false
			in2.H.Exit = func(ret *ast.ReturnStmt, lit *ast.FuncLit, st *fw.State) {
				if lit == nil && st.May("pending") {
					// an error return does not hand anything on
					if ret != nil && len(ret.Results) > 0 {
						last := ret.Results[len(ret.Results)-1]
						if t := info.TypeOf(last); t != nil && t.String() == "error" {
							if id, isID := ast.Unparen(last).(*ast.Ident); !isID || id.Name != "nil" {
								if _, isCall := ast.Unparen(last).(*ast.CallExpr); isCall || isID {
									// returning a non-nil error expression (err / errors.WithStack(err)): exempt only when it is not the nil literal
									if isID && id.Name == "err" || isCall {
										return
									}
								}
							}
						}
					}
					pendingAtExit = true
				}
			}
			in2.Run(nil)
			r.Check(ok, "C15-R1", fi.Name()+"/consumed-inline", fi.Pos(), fi.Name()+" inspects the collector before it forwards the rendered bytes",
				"the rendered value is forwarded without looking at the collector: a null that only stands for an omitted variable is sent")
			if pendingAtExit {
				// a helper that renders for its caller: what it collected must reach the caller — the collector is the caller's
				// (a *[]string parameter passed through) or is returned
				escapes := false
				if v, isVar := collector.(*types.Var); isVar {
					if _, isPtr := v.Type().Underlying().(*types.Pointer); isPtr {
						sig := fi.Obj.Type().(*types.Signature)
						for i := 0; i < sig.Params().Len(); i++ {
							if sig.Params().At(i) == v {
								escapes = true
							}
						}
					}
				}
				fw.WalkAll(fi.Decl.Body, func(nd ast.Node) bool {
					if ret, isRet := nd.(*ast.ReturnStmt); isRet {
						for _, res := range ret.Results {
							if fw.RootObj(info, res) == collector {
								escapes = true
							}
						}
					}
					return true
				})
				r.Check(escapes, "C15-R1", fi.Name()+"/collector-reaches-the-caller", fi.Pos(), "what "+fi.Name()+" collects reaches its caller (pointer parameter passed through, or returned)",
					"the helper collects the undefined variables into its own copy (a by-value slice parameter or a local that is not returned): the caller's collector never sees them, SetInputUndefinedVariables has nothing to remove, and a variable the client omitted reaches the subgraph as an explicit null")
			}
		}
	}
	r.Expect("C15-R1", "functions collecting undefined variables", nFns, 3)
	// InputTemplate.Render applies its own collector
	if fi := p.Func("resolve", "InputTemplate.Render"); fi != nil {
		applies := false
		fw.WalkAll(fi.Decl.Body, func(n ast.Node) bool {
			if c, ok := n.(*ast.CallExpr); ok && fw.CallIs(info, c, "resolve", "SetInputUndefinedVariables") {
				applies = true
			}
			return true
		})
		r.Check(applies, "C15-R1", "InputTemplate.Render/applies", fi.Pos(), "InputTemplate.Render applies the undefined variables it collected", "Render no longer removes undefined variables from its output")
	} else {
		r.Error("C15-R1: InputTemplate.Render not found")
	}

	// ---- R2 undefined reported on the missing edge -------------------------------------------------
	r.Rule("C15-R2", "renderSegments appends the variable name to the collector whenever renderContextVariable reported it undefined; renderContextVariable reports undefined only together with writing null for a missing value")
	if fi := p.Func("resolve", "InputTemplate.renderSegments"); fi == nil {
		r.Error("C15-R2: renderSegments not found")
	} else {
		g := fw.NewGuards(info, fw.GuardSpec{Name: "undefined", Match: fw.AtomVarFromCall(fi, "True", "resolve", "InputTemplate.renderContextVariable", 0)})
		recorded := false
		in := fw.NewInterp(fi)
		in.H = fw.Hooks{Cond: g.Cond, Node: func(nd ast.Node, st *fw.State) {
			as, ok := nd.(*ast.AssignStmt)
			if !ok {
				return
			}
			for i, l := range as.Lhs {
				if i >= len(as.Rhs) {
					break
				}
				if st2, ok := ast.Unparen(l).(*ast.StarExpr); ok {
					if c, ok := ast.Unparen(as.Rhs[i]).(*ast.CallExpr); ok && fw.Builtin(info, c) == "append" {
						if fw.RootObj(info, st2.X) == fi.Obj.Type().(*types.Signature).Params().At(4) && g.Has(st, "undefined") {
							recorded = true
						}
					}
				}
			}
		}}
		in.Run(nil)
		r.Check(recorded, "C15-R2", "InputTemplate.renderSegments/records-undefined", fi.Pos(), "an undefined context variable is appended to the collector", "renderSegments no longer records undefined context variables: they are rendered as null and stay in the request")
	}

	// ---- R3 literal kinds -----------------------------------------------------------------------------
	r.Rule("C15-R3", "the literal→JSON writer, the value copier and the printer cover all value kinds or fail loudly")
	valueKindCoverage(r, "C15-R3", []string{"Document.writeJSONValue", "Document.copyValueRef", "Document.PrintValue"})
	_ = strings.Join
}

// collectorObj: &x → x; anything else (new(...), a call) → nil.
func collectorObj(info *types.Info, e ast.Expr) types.Object {
	u, ok := ast.Unparen(e).(*ast.UnaryExpr)
	if !ok || u.Op.String() != "&" {
		if id, ok := ast.Unparen(e).(*ast.Ident); ok {
			return info.Uses[id] // a *[]string parameter passed through
		}
		return nil
	}
	return fw.RootObj(info, u.X)
}

// c15EveryEntryPointUnNulls (R4): the resolver renders a variable the client omitted as null and lists its name under the
// "undefined" marker of the fetch input; the GraphQL data source removes such variables again before the request leaves.
// Every entry point of package graphql_datasource through which a resolver-rendered input leaves for a subgraph — Load,
// LoadWithFiles of the query/mutation source and Start of the subscription source — reads that marker (directly or through
// a function of the package).
func c15EveryEntryPointUnNulls(r *fw.Run) {
	p := r.Prog
	r.Rule("C15-R4", "every entry point of the GraphQL data source that sends a resolver-rendered input to a subgraph (Load, LoadWithFiles, subscription Start) reads the undefined-variables marker of the input, so that an omitted variable is removed again instead of being sent as null")
	pk := p.Pkg("gqlds")
	if pk == nil {
		r.Error("C15-R4: package graphql_datasource not loaded")
		return
	}
	info := pk.TypesInfo
	readsMarker := map[*types.Func]bool{}
	for changed := true; changed; {
		changed = false
		for _, fi := range p.Funcs("gqlds") {
			if readsMarker[fi.Obj] {
				continue
			}
			fw.WalkAll(fi.Decl.Body, func(nd ast.Node) bool {
				if c, ok := nd.(*ast.CallExpr); ok {
					fn := fw.Callee(info, c)
					if fn != nil && (fw.FuncIs(fn, "httpclient", "UndefinedVariables") || readsMarker[fn]) && !readsMarker[fi.Obj] {
						readsMarker[fi.Obj] = true
						changed = true
					}
				}
				return true
			})
		}
	}
	n := 0
	for _, name := range []string{"Source.Load", "Source.LoadWithFiles", "SubscriptionSource.Start"} {
		fi := p.Func("gqlds", name)
		if fi == nil {
			r.Error("C15-R4: %s not found", name)
			continue
		}
		n++
		r.Check(readsMarker[fi.Obj], "C15-R4", name+"/removes-undefined-variables", fi.Pos(), name+" reads the undefined-variables marker of its input",
			"this entry point forwards the variables object as rendered: a variable the client omitted — rendered as null and listed under \"undefined\" by the resolver — reaches the subgraph as an explicit null (its sibling entry points remove it)")
	}
	r.Expect("C15-R4", "entry points of the GraphQL data source", n, 3)
}

// c15NullIsNeverWrappedIntoAList (R6): list input coercion turns a single value into a list of one; null stays null
// (spec table "List Input Coercion"). Where the normalizer renders a literal to JSON and wraps the result into brackets
// because the position is a list (the wrap is a []byte literal holding '[' in an append), the wrap is reached only
// where the rendered bytes are known not to be null — compared, unequal, with the null literal.
func c15NullIsNeverWrappedIntoAList(r *fw.Run) {
	p := r.Prog
	r.Rule("C15-R6", "where the normalizer wraps JSON rendered from a literal into list brackets, the bytes are known not to be the null literal (list input coercion maps null to null)")
	n := 0
	for _, fi := range p.Funcs("astnorm") {
		info := fi.Info()
		// rendered := doc.ValueToJSON(…)
		rendered := map[types.Object]bool{}
		fw.WalkAll(fi.Decl.Body, func(nd ast.Node) bool {
			as, ok := nd.(*ast.AssignStmt)
			if !ok || len(as.Rhs) != 1 {
				return true
			}
			if c, isCall := ast.Unparen(as.Rhs[0]).(*ast.CallExpr); isCall && fw.CallIs(info, c, "ast", "Document.ValueToJSON") {
				if id, isID := as.Lhs[0].(*ast.Ident); isID && info.ObjectOf(id) != nil {
					rendered[info.ObjectOf(id)] = true
				}
			}
			return true
		})
		if len(rendered) == 0 {
			continue
		}
		isNullLit := func(e ast.Expr) bool {
			if fw.ConstObjOrVar(info, e) == "NULL" {
				return true
			}
			arg := ast.Unparen(e)
			if conv, isConv := arg.(*ast.CallExpr); isConv && len(conv.Args) == 1 {
				arg = conv.Args[0]
			}
			v, isConst := fw.ConstVal(info, arg)
			return isConst && strings.Trim(v, "\"") == "null"
		}
		ord := 0
		in := fw.NewInterp(fi)
		in.H = fw.Hooks{
			Lit: func(l *ast.FuncLit, ctx fw.LitCtx, st *fw.State) fw.LitMode { return fw.LitSkip },
			Cond: func(e ast.Expr, branch bool, st *fw.State) {
				a := fw.Atom(info, e, branch)
				// !bytes.Equal(rendered, NULL)  /  string(rendered) != "null"
				if c, isCall := ast.Unparen(a.X).(*ast.CallExpr); isCall && a.Kind == "False" && len(c.Args) == 2 {
					if fn := fw.Callee(info, c); fn != nil && fn.Name() == "Equal" {
						for i, arg := range c.Args {
							if id, isID := ast.Unparen(arg).(*ast.Ident); isID && rendered[info.ObjectOf(id)] && isNullLit(c.Args[1-i]) {
								st.Set("not-null:" + id.Name)
							}
						}
					}
				}
				if a.Kind == "Ne" && isNullLit(a.Y) {
					fw.WalkAll(a.X, func(m ast.Node) bool {
						if id, isID := m.(*ast.Ident); isID && rendered[info.ObjectOf(id)] {
							st.Set("not-null:" + id.Name)
						}
						return true
					})
				}
			},
			Node: func(nd ast.Node, st *fw.State) {
				as, ok := nd.(*ast.AssignStmt)
				if !ok || len(as.Lhs) != 1 || len(as.Rhs) != 1 || !in.Final() {
					return
				}
				id, isID := as.Lhs[0].(*ast.Ident)
				if !isID || !rendered[info.ObjectOf(id)] {
					return
				}
				// the wrap: an append whose first argument is a []byte literal holding '['
				wraps := false
				fw.WalkAll(as.Rhs[0], func(m ast.Node) bool {
					if cl, isCL := m.(*ast.CompositeLit); isCL && len(cl.Elts) == 1 {
						if v, isConst := fw.ConstVal(info, cl.Elts[0]); isConst && (v == "91" || v == "'['") {
							wraps = true
						}
					}
					return true
				})
				if !wraps {
					return
				}
				n++
				ord++
				r.Check(st.Must("not-null:"+id.Name), "C15-R6", fi.Name()+"/null-never-wrapped#"+itoa(ord), p.Pos(as.Pos()), "the list wrap of "+id.Name+" in "+fi.Name()+" is reached only where the rendered value is not null",
					"the JSON rendered from a literal is wrapped into list brackets without excluding null: `query($l: [Int] = null) { list(l: $l) }` sends {\"l\":[null]} instead of {\"l\":null} — a list with one null element is not what the client wrote")
			},
		}
		in.Run(nil)
	}
	r.Expect("C15-R6", "list wraps of rendered literals in the normalizer", n, 1)
}

// c15StringContentReachesJSONThroughAConverter (R7): the content of a GraphQL string literal is not the content of a JSON
// string: a raw horizontal tab is legal in the one and not in the other, `\u{1F600}` exists only in GraphQL, a block
// string has no escapes at all. Where the literal→JSON writer handles a string value, what a content accessor
// (…StringValueContent…) returns is consumed by a converter — encoding/json, or a function that inspects the bytes it is
// given (a loop that indexes its []byte / string parameter and compares an element with a constant) — never written as it
// is or merely wrapped in quotes. Sibling agreement inside one switch arm: the block-string side went through
// json.Encoder, the other side through quotes.WrapBytes.
func c15StringContentReachesJSONThroughAConverter(r *fw.Run) {
	p := r.Prog
	r.Rule("C15-R7", "in the literal→JSON writer whatever a string content accessor returns is consumed by a converter (encoding/json, or a function that inspects the bytes of its parameter), directly or through a local — never written or wrapped as it is")
	fi := p.Func("ast", "Document.writeJSONValue")
	if fi == nil {
		r.Error("C15-R7: ast.Document.writeJSONValue not found")
		return
	}
	info := fi.Info()
	// converters among the loaded functions: a []byte / string parameter indexed in a loop and compared with a constant
	inspects := func(g *fw.FuncInfo) bool {
		ginfo := g.Info()
		sig := g.Obj.Type().(*types.Signature)
		params := map[types.Object]bool{}
		for i := 0; i < sig.Params().Len(); i++ {
			t := sig.Params().At(i).Type()
			if sl, ok := t.Underlying().(*types.Slice); ok && types.Identical(sl.Elem(), types.Typ[types.Byte]) {
				params[sig.Params().At(i)] = true
			}
			if b, ok := t.Underlying().(*types.Basic); ok && b.Kind() == types.String {
				params[sig.Params().At(i)] = true
			}
		}
		if len(params) == 0 {
			return false
		}
		found := false
		fw.WalkAll(g.Decl.Body, func(nd ast.Node) bool {
			var body *ast.BlockStmt
			switch x := nd.(type) {
			case *ast.ForStmt:
				body = x.Body
			case *ast.RangeStmt:
				body = x.Body
			}
			if body == nil {
				return true
			}
			// locals of the loop that hold an element of the parameter
			elems := map[types.Object]bool{}
			isElem := func(e ast.Expr) bool {
				e = ast.Unparen(e)
				if ix, ok := e.(*ast.IndexExpr); ok {
					if id, isID := ast.Unparen(ix.X).(*ast.Ident); isID && params[ginfo.Uses[id]] {
						return true
					}
				}
				if id, ok := e.(*ast.Ident); ok && elems[ginfo.Uses[id]] {
					return true
				}
				return false
			}
			fw.WalkAll(body, func(x ast.Node) bool {
				if as, ok := x.(*ast.AssignStmt); ok && len(as.Lhs) == len(as.Rhs) {
					for i, l := range as.Lhs {
						if id, isID := l.(*ast.Ident); isID && isElem(as.Rhs[i]) {
							elems[ginfo.ObjectOf(id)] = true
						}
					}
				}
				return true
			})
			fw.WalkAll(body, func(x ast.Node) bool {
				if b, ok := x.(*ast.BinaryExpr); ok {
					_, cx := fw.ConstVal(ginfo, b.X)
					_, cy := fw.ConstVal(ginfo, b.Y)
					if (isElem(b.X) && cy) || (isElem(b.Y) && cx) {
						found = true
					}
				}
				return true
			})
			return true
		})
		return found
	}
	isConverter := func(fn *types.Func) bool {
		if fn == nil || fn.Pkg() == nil {
			return false
		}
		if fn.Pkg().Path() == "encoding/json" {
			return true
		}
		if g := p.FuncOf(fn); g != nil {
			return inspects(g)
		}
		return false
	}
	isAccessor := func(c *ast.CallExpr) (string, bool) {
		fn := fw.Callee(info, c)
		if fn == nil || fw.RecvNameOfFunc(fn) != "Document" {
			return "", false
		}
		if strings.Contains(fn.Name(), "StringValueContent") {
			return fn.Name(), true
		}
		return "", false
	}
	n := 0
	// the consumer of an expression: the innermost call that has it (or something containing it) as an argument
	var visit func(nd ast.Node, enclosing []*ast.CallExpr)
	locals := map[types.Object]string{}
	check := func(name string, consumer *ast.CallExpr, pos token.Pos) {
		n++
		okc := consumer != nil && isConverter(fw.Callee(info, consumer))
		what := "written as it is"
		if consumer != nil {
			what = "handed to " + types.ExprString(consumer.Fun)
		}
		r.Check(okc, "C15-R7", fi.Name()+"/string-content-converted:"+name, p.Pos(pos), "what "+name+" returns is consumed by a converter in "+fi.Name(),
			"the content of a string literal ("+name+") is "+what+", which does not look at the bytes: GraphQL string syntax and JSON string syntax differ — `{ str(s: \"a<TAB>b\") }` (a raw U+0009, legal in a GraphQL string) yields the variables `{\"a\":\"a<raw TAB>b\"}`, not valid JSON, and `\"smile \\u{1F600}!\"` reaches the subgraph as the ten characters `\\u{1F600}` instead of U+1F600")
	}
	visit = func(nd ast.Node, enclosing []*ast.CallExpr) {
		fw.WalkAll(nd, func(x ast.Node) bool {
			switch y := x.(type) {
			case *ast.AssignStmt:
				if len(y.Lhs) == len(y.Rhs) {
					for i, l := range y.Lhs {
						if id, isID := l.(*ast.Ident); isID {
							if c, isC := ast.Unparen(y.Rhs[i]).(*ast.CallExpr); isC {
								if name, isA := isAccessor(c); isA {
									locals[info.ObjectOf(id)] = name
								}
							}
						}
					}
				}
			}
			return true
		})
		var walk func(e ast.Node, consumer *ast.CallExpr)
		walk = func(e ast.Node, consumer *ast.CallExpr) {
			switch y := e.(type) {
			case *ast.CallExpr:
				if name, isA := isAccessor(y); isA {
					// assigned to a local? then the uses of the local are what counts
					check(name, consumer, y.Pos())
					return
				}
				for _, a := range y.Args {
					walk(a, y)
				}
				walk(y.Fun, consumer)
			case *ast.Ident:
				if name, has := locals[info.Uses[y]]; has {
					check(name, consumer, y.Pos())
				}
			default:
				if e == nil {
					return
				}
				ast.Inspect(e, func(z ast.Node) bool {
					if z == nil || z == e {
						return true
					}
					switch z.(type) {
					case *ast.CallExpr, *ast.Ident:
						walk(z, consumer)
						return false
					}
					return true
				})
			}
		}
		fw.WalkAll(nd, func(x ast.Node) bool {
			switch y := x.(type) {
			case *ast.ExprStmt:
				walk(y.X, nil)
				return false
			case *ast.AssignStmt:
				for i, rhs := range y.Rhs {
					// content := accessor(...) only names the content; its uses are checked
					if c, isC := ast.Unparen(rhs).(*ast.CallExpr); isC && len(y.Lhs) == len(y.Rhs) {
						if _, isA := isAccessor(c); isA {
							if _, isID := y.Lhs[i].(*ast.Ident); isID {
								continue
							}
						}
					}
					walk(rhs, nil)
				}
				return false
			case *ast.IfStmt:
				if y.Init != nil {
					visitStmt := y.Init
					if as, ok := visitStmt.(*ast.AssignStmt); ok {
						for _, rhs := range as.Rhs {
							walk(rhs, nil)
						}
					}
				}
				walk(y.Cond, nil)
				return true
			case *ast.ReturnStmt:
				for _, res := range y.Results {
					walk(res, nil)
				}
				return false
			}
			return true
		})
	}
	kindT := p.Named("ast", "ValueKind")
	for _, sw := range fw.ConstSwitches(fi, kindT) {
		for _, c := range sw.Stmt.(*ast.SwitchStmt).Body.List {
			cc := c.(*ast.CaseClause)
			isString := false
			for _, e := range cc.List {
				if k := fw.ConstObj(info, e); k != nil && k.Name() == "ValueKindString" {
					isString = true
				}
			}
			if !isString {
				continue
			}
			for _, st := range cc.Body {
				visit(st, nil)
			}
		}
	}
	r.Expect("C15-R7", "uses of string literal content in the literal→JSON writer", n, 2)
}
