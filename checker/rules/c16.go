package rules

import (
	"go/ast"
	"go/token"
	"go/types"
	"sort"
	"strings"

	"verif/checker/fw"
)

const (
	respCacheGo = "v2/pkg/engine/resolve/response_cache.go"
	ttlGo       = "v2/pkg/caching/cachecontrol.go"
	cacheCtlGo  = "v2/pkg/engine/cache/cache_control.go"
	keyGo       = "v2/pkg/caching/key.go"
	lkData      = "resolve.DataBuffer.mu"
)

func init() {
	Registry["C16"] = Spec{
		Pkgs: map[string][]string{"v2": {"resolve", "caching", "cachectl", "httpclient"}},
		Run:  runC16,
		Thorough: func(r *fw.Run) {
			workspaceWhoMayCall(r, []wsCallRule{
				{Rule: "C16-T1", What: "the entity cache store (caching.Cache.GetMany / SetMany) is called only from the response cache functions of package resolve", Callees: []string{"caching:Cache.GetMany", "caching:Cache.SetMany"}, Allowed: []string{"resolve:Loader.responseCacheLookup", "resolve:Loader.responseCacheFlush", "resolve:Loader.responseCacheStore"}, Why: "the store is called from outside the functions whose error handling is checked (C16-R4): a cache failure can fail the request, or entries are written that never passed the storability guards", Expected: 2},
			})
		},
		Explanation: "Decides the structural half of 'entities are stored only from clean, explicitly public responses, for no longer than the response allows, and cache failures never fail a request': " +
			"caching.TTL returns ok only on paths where the header parsed, no-store/no-cache/private are absent and public is present, and the duration it returns is s-maxage before max-age before the default, each tested positive; " +
			"cache items are built only on paths dominated by every cleanliness test of responseCacheCollect and carry the TTL returned by caching.TTL; a cache hit is reported only when every key was found non-empty; " +
			"errors of the cache store flow only into the error reporter and the store is never called with the data lock held; both cache keys combine the entity hash with the selection hash taken before the input buffer is rewritten; " +
			"every Cache-Control field the decision reads is filled by the arm of the directive switch for the RFC 9111 directive of that name. It does not decide transparency over request histories nor the Cache-Control lexer over all strings.",
		Mutants: []Mutant{
			{Name: "the request extensions are left out of the cache key again (reverts part of the F78 fix)", File: "v2/pkg/engine/resolve/loader.go", Rule: "C16-R9", Key: "Context.Extensions/fed-to-the-key",
				Old: "\t\t\tundefinedVariables,\n\t\t\tl.ctx.Extensions,\n\t\t)\n\t\tresponseCacheItemHash", New: "\t\t\tundefinedVariables,\n\t\t\tnil,\n\t\t)\n\t\tresponseCacheItemHash"},
			{Name: "entities are stored from 3xx responses again (reverts the F77 fix)", File: "v2/pkg/engine/resolve/response_cache.go", Rule: "C16-R2", Key: "status<300",
				Old: "if res.err != nil || len(res.out) == 0 || res.statusCode >= 300 {", New: "if res.err != nil || len(res.out) == 0 || res.statusCode >= 400 {"},
			{Name: "cache error callback called without a nil test (seeded change C16-22)", File: respCacheGo, Rule: "C16-R7", Key: "reportResponseCacheError/optional-callback-nil-checked:onError",
				Old: "\tif l.responseCacheEnabled() && l.ctx.responseCache.onError != nil {\n\t\tl.ctx.responseCache.onError(err)\n\t}\n", New: "\tif !l.responseCacheEnabled() {\n\t\treturn\n\t}\n\tl.ctx.responseCache.onError(err)\n"},
			{Name: "single-flight follower no longer restores the shared status code (seeded change C16-23)", File: "v2/pkg/engine/resolve/loader.go", Rule: "C16-R8", Key: "follower-mirrors:StatusCode<-item.statusCode",
				Old: "\t\t\trc.StatusCode = item.statusCode\n", New: ""},
			{Name: "undefined variables no longer part of the selection hash (the repaired defect F15)", File: loaderGo, Rule: "C16-R5", Key: "prepareEntityFetch/hash<-undefined-variables",
				Old: "\t\t\trendered[responseCacheFooterStart:],\n\t\t\tundefinedVariables,\n\t\t\tl.ctx.Extensions,\n\t\t)\n\t\tresponseCacheItemHash :=", New: "\t\t\trendered[responseCacheFooterStart:],\n\t\t\tnil,\n\t\t\tl.ctx.Extensions,\n\t\t)\n\t\tresponseCacheItemHash :="},
			{Name: "non-positive default TTL replaced by one minute (seeded change C16-13)", File: "v2/pkg/engine/resolve/context.go", Rule: "C16-R1", Key: "SetResponseCache/default-ttl-is-the-configured-value",
				Old: "\tc.responseCache = &responseCache{store: cache, defaultTTL: defaultTTL, onError: onError}", New: "\tif defaultTTL <= 0 {\n\t\tdefaultTTL = time.Minute\n\t}\n\tc.responseCache = &responseCache{store: cache, defaultTTL: defaultTTL, onError: onError}"},
			{Name: "responses with a Vary header are stored again (reverts the F91 fix)", File: ttlGo, Rule: "C16-R1", Key: "TTL/ok-requires:vary absent",
				Old: "\tif len(headers.Values(\"Vary\")) != 0 {\n", New: "\tif len(headers.Values(\"Vary\")) != 0 && false {\n"},
			{Name: "private no longer refuses storing", File: ttlGo, Rule: "C16-R1", Key: "private",
				Old: "if cc.NoCache != nil || cc.Private != nil {", New: "if cc.NoCache != nil {"},
			{Name: "public no longer required", File: ttlGo, Rule: "C16-R1", Key: "public",
				Old: "\tif !cc.Public {\n\t\treturn 0, false\n\t}\n", New: ""},
			{Name: "max-age preferred over s-maxage", File: ttlGo, Rule: "C16-R1", Key: "maxage",
				Old: "\tcase cc.SMaxAge != nil:\n\t\tif *cc.SMaxAge <= 0 {\n\t\t\treturn 0, false\n\t\t}\n\t\treturn cc.SMaxAge.AsDuration(), true\n\n\tcase cc.MaxAge != nil:\n\t\tif *cc.MaxAge <= 0 {\n\t\t\treturn 0, false\n\t\t}\n\t\treturn cc.MaxAge.AsDuration(), true\n",
				New: "\tcase cc.MaxAge != nil:\n\t\tif *cc.MaxAge <= 0 {\n\t\t\treturn 0, false\n\t\t}\n\t\treturn cc.MaxAge.AsDuration(), true\n\tcase cc.SMaxAge != nil:\n\t\tif *cc.SMaxAge <= 0 {\n\t\t\treturn 0, false\n\t\t}\n\t\treturn cc.SMaxAge.AsDuration(), true\n"},
			{Name: "responses with GraphQL errors are collected", File: respCacheGo, Rule: "C16-R2", Key: "no-graphql-errors",
				Old: "\tif errs := response.Get(errorsPath...); astjson.ValueIsNonNull(errs) && len(errs.GetArray()) > 0 {\n\t\treturn nil\n\t}\n", New: "\t_ = errorsPath\n"},
			{Name: "4xx/5xx responses are collected", File: respCacheGo, Rule: "C16-R2", Key: "status",
				Old: "if res.err != nil || len(res.out) == 0 || res.statusCode >= 300 {", New: "if res.err != nil || len(res.out) == 0 {"},
			{Name: "stored TTL is the configured default, not the response's", File: respCacheGo, Rule: "C16-R2", Key: "ttl-source",
				Old: "\t\t\tTTL:   ttl,\n", New: "\t\t\tTTL:   max(ttl, l.ctx.responseCache.defaultTTL),\n"},
			{Name: "partial cache hit served", File: respCacheGo, Rule: "C16-R3", Key: "all-found",
				Old: "\tif len(found) != len(keys) {\n\t\treturn false\n\t}\n", New: ""},
			{Name: "collect error fails the fetch", File: loaderGo, Rule: "C16-R4", Key: "mergePhase",
				Old: "\t\tl.reportResponseCacheError(fmt.Errorf(\"response cache collect error: %w\", err))\n\t}\n", New: "\t\tl.reportResponseCacheError(fmt.Errorf(\"response cache collect error: %w\", err))\n\t\treturn err\n\t}\n"},
			{Name: "cache written while the data lock is held", File: loaderGo, Rule: "C16-R4", Key: "SetMany",
				Old: "\terr := l.mergeResult(prepared.item, prepared.res, prepared.items)\n\tl.callOnFinished(prepared.res)\n\treturn err\n}", New: "\terr := l.mergeResult(prepared.item, prepared.res, prepared.items)\n\tl.callOnFinished(prepared.res)\n\tl.responseCacheFlush(prepared)\n\treturn err\n}"},
			{Name: "selection hash dropped from the entity cache key", File: loaderGo, Rule: "C16-R5", Key: "prepareEntityFetch",
				Old: "prepared.responseCacheKeys = []string{caching.Key(responseCacheItemHash, selectionHash)}", New: "prepared.responseCacheKeys = []string{caching.Key(responseCacheItemHash, 0)}\n\t\t_ = selectionHash"},
			{Name: "no-store directive sets the wrong field", File: cacheCtlGo, Rule: "C16-R6", Key: "NoStore",
				Old: "\t\tcc.NoStore = true\n", New: "\t\tcc.Public = false\n"},
			{Name: "selection hash no longer part of the key string", File: keyGo, Rule: "C16-R5", Key: "Key",
				Old: "\tbuf = appendHex64(buf, selectionHash)\n", New: "\tbuf = appendHex64(buf, 0)\n"},
		},
	}
}

func runC16(r *fw.Run) {
	defer c16KeyCoversLateInjections(r)
	p := r.Prog
	defer c16DefaultTTLUnchanged(r)
	defer c16OptionalCallbacksNilChecked(r)
	defer c16FollowerMirrorsLeader(r)
	// ---- R1 storability decision --------------------------------------------------------------
	r.Rule("C16-R1", "caching.TTL returns ok only when the header parsed ∧ !no-store ∧ no-cache absent ∧ private absent ∧ public ∧ no Vary header (the key holds no request headers), and the duration is s-maxage, else max-age, else the default, each tested > 0")
	if fi := p.Func("caching", "TTL"); fi == nil {
		r.Error("C16-R1: caching.TTL not found")
	} else {
		info := fi.Info()
		ccField := func(kind, field string) func(*types.Info, fw.CondAtom) bool {
			return fw.AtomField(kind, "cachectl", "CacheControlResponse", field)
		}
		derefField := func(kind, field string) func(*types.Info, fw.CondAtom) bool {
			return func(info *types.Info, a fw.CondAtom) bool {
				if a.Kind != kind {
					return false
				}
				st, ok := ast.Unparen(a.X).(*ast.StarExpr)
				if !ok || !fw.IsFieldSel(info, st.X, "cachectl", "CacheControlResponse", field) {
					return false
				}
				v, ok := fw.ConstVal(info, a.Y)
				return ok && v == "0"
			}
		}
		g := fw.NewGuards(info,
			fw.GuardSpec{Name: "parsed", Match: fw.AtomVarFromCall(fi, "Nil", "cachectl", "ParseCacheControlResponse", 1)},
			fw.GuardSpec{Name: "no-store absent", Match: ccField("False", "NoStore")},
			fw.GuardSpec{Name: "no-cache absent", Match: ccField("Nil", "NoCache")},
			fw.GuardSpec{Name: "private absent", Match: ccField("Nil", "Private")},
			fw.GuardSpec{Name: "public present", Match: ccField("True", "Public")},
			fw.GuardSpec{Name: "vary absent", Match: func(info *types.Info, a fw.CondAtom) bool {
				// len(headers.Values("Vary")) == 0, headers.Get("Vary") == "", len(headers["Vary"]) == 0
				switch a.Kind {
				case "Empty":
				case "Eq":
					if v, ok := fw.ConstVal(info, a.Y); !ok || (v != "0" && v != `""`) {
						return false
					}
				default:
					return false
				}
				found := false
				fw.WalkAll(a.X, func(nd ast.Node) bool {
					var key ast.Expr
					switch x := nd.(type) {
					case *ast.CallExpr:
						if fn := fw.Callee(info, x); fn != nil && fn.Pkg() != nil && fn.Pkg().Path() == "net/http" && (fn.Name() == "Values" || fn.Name() == "Get") && len(x.Args) == 1 {
							key = x.Args[0]
						}
					case *ast.IndexExpr:
						key = x.Index
					}
					if key != nil {
						if v, ok := fw.ConstVal(info, key); ok && strings.EqualFold(strings.Trim(v, `"`), "vary") {
							found = true
						}
					}
					return true
				})
				return found
			}},
			fw.GuardSpec{Name: "s-maxage present", Match: ccField("NonNil", "SMaxAge")},
			fw.GuardSpec{Name: "s-maxage absent", Match: ccField("Nil", "SMaxAge")},
			fw.GuardSpec{Name: "max-age present", Match: ccField("NonNil", "MaxAge")},
			fw.GuardSpec{Name: "max-age absent", Match: ccField("Nil", "MaxAge")},
			fw.GuardSpec{Name: "s-maxage>0", Match: derefField("Gt", "SMaxAge")},
			fw.GuardSpec{Name: "max-age>0", Match: derefField("Gt", "MaxAge")},
			fw.GuardSpec{Name: "default>0", Match: func(info *types.Info, a fw.CondAtom) bool {
				if a.Kind != "Gt" {
					return false
				}
				id, ok := ast.Unparen(a.X).(*ast.Ident)
				v, okc := fw.ConstVal(info, a.Y)
				return ok && okc && v == "0" && info.Uses[id] == fi.Obj.Type().(*types.Signature).Params().At(1)
			}},
		)
		nOK := 0
		in := fw.NewInterp(fi)
		in.H = fw.Hooks{Cond: g.Cond, Node: g.Node,
			Exit: func(ret *ast.ReturnStmt, lit *ast.FuncLit, st *fw.State) {
				if ret == nil || !in.Final() || len(ret.Results) != 2 {
					return
				}
				if v, ok := fw.ConstVal(info, ret.Results[1]); ok && v == "false" {
					return
				}
				nOK++
				base := []string{"parsed", "no-store absent", "no-cache absent", "private absent", "public present", "vary absent"}
				for _, name := range base {
					r.Check(g.Has(st, name), "C16-R1", "TTL/ok-requires:"+name, p.Pos(ret.Pos()), "TTL returns ok only when "+name,
						"a storable verdict is reachable on a path that did not establish '"+name+"': responses the origin did not release for shared caching are stored")
				}
				// which duration?
				d := ret.Results[0]
				var need []string
				src := ""
				switch {
				case mentionsField(info, d, "cachectl", "CacheControlResponse", "SMaxAge"):
					src, need = "smaxage", []string{"s-maxage present", "s-maxage>0"}
				case mentionsField(info, d, "cachectl", "CacheControlResponse", "MaxAge"):
					src, need = "maxage", []string{"s-maxage absent", "max-age present", "max-age>0"}
				default:
					if id, ok := ast.Unparen(d).(*ast.Ident); ok && info.Uses[id] == fi.Obj.Type().(*types.Signature).Params().At(1) {
						src, need = "default", []string{"s-maxage absent", "max-age absent", "default>0"}
					}
				}
				if src == "" {
					r.Fail("C16-R1", "TTL/duration-source", p.Pos(ret.Pos()), "duration returned by TTL", "the returned lifetime is neither s-maxage, max-age nor the configured default")
					return
				}
				miss := g.Missing(st, need...)
				r.Check(len(miss) == 0, "C16-R1", "TTL/duration:"+src, p.Pos(ret.Pos()), "TTL returns the "+src+" lifetime only when "+strings.Join(need, " ∧ "),
					"missing on some path: "+strings.Join(miss, ", ")+" — an entity can be stored longer than the response allows (precedence s-maxage > max-age > default) or with a non-positive lifetime")
			}}
		in.Run(nil)
		r.Expect("C16-R1", "ok-returns of TTL", nOK, 3)
	}

	// ---- R2 collect guards ---------------------------------------------------------------------
	r.Rule("C16-R2", "cache items are built only when: cache enabled, keys present, fetch really loaded, no transport error, body present, status < 300 (a successful response), parsed, no GraphQL errors, TTL ok, one value per key; and they carry the TTL returned by caching.TTL")
	if fi := p.Func("resolve", "Loader.responseCacheCollect"); fi == nil {
		r.Error("C16-R2: Loader.responseCacheCollect not found")
	} else {
		info := fi.Info()
		rf := func(kind, field string) func(*types.Info, fw.CondAtom) bool {
			return fw.AtomField(kind, "resolve", "result", field)
		}
		pf := func(kind, field string) func(*types.Info, fw.CondAtom) bool {
			return fw.AtomField(kind, "resolve", "preparedFetch", field)
		}
		g := fw.NewGuards(info,
			fw.GuardSpec{Name: "cache-enabled", Match: fw.AtomCall("True", "resolve", "Loader.responseCacheEnabled")},
			fw.GuardSpec{Name: "keys-present", Match: pf("NonEmpty", "responseCacheKeys")},
			fw.GuardSpec{Name: "not-skipped", Match: pf("False", "skipLoad")},
			fw.GuardSpec{Name: "not-a-cache-hit", Match: pf("False", "responseCacheHit")},
			fw.GuardSpec{Name: "no-transport-error", Match: rf("Nil", "err")},
			fw.GuardSpec{Name: "body-present", Match: rf("NonEmpty", "out")},
			fw.GuardSpec{Name: "status<300", Match: func(info *types.Info, a fw.CondAtom) bool {
				if a.Kind != "Lt" || !fw.IsFieldSel(info, a.X, "resolve", "result", "statusCode") {
					return false
				}
				v, ok := fw.ConstVal(info, a.Y)
				return ok && v == "300" // "successful" is 2xx: a 3xx the HTTP client does not follow reaches the caller with a body
			}},
			fw.GuardSpec{Name: "parsed", Match: fw.AtomVarFromCall(fi, "Nil", "resolve", "result.parsedResponse", 1)},
			fw.GuardSpec{Name: "no-graphql-errors", Match: func(info *types.Info, a fw.CondAtom) bool {
				// fall-through of `ValueIsNonNull(errs) && len(errs.GetArray()) > 0`, however it is spelled: in negation
				// normal form "errs is null OR the array is empty" — every disjunct says "no errors", and the
				// emptiness disjunct is present
				op, leaves := fw.AtomNNF(info, a)
				if op != "atom" && op != "or" {
					return false
				}
				hasEmpty := false
				for _, l := range leaves {
					switch {
					case l.Kind == "Empty" && mentionsCallNamed(info, l.X, "GetArray"):
						hasEmpty = true
					case l.Kind == "False" && mentionsCallNamed(info, l.X, "ValueIsNonNull"):
					default:
						return false
					}
				}
				return hasEmpty
			}},
			fw.GuardSpec{Name: "ttl-ok", Match: fw.AtomVarFromCall(fi, "True", "caching", "TTL", 1)},
			fw.GuardSpec{Name: "one-value-per-key", Match: func(info *types.Info, a fw.CondAtom) bool {
				if a.Kind != "Eq" {
					return false
				}
				return mentionsField(info, a.Y, "resolve", "preparedFetch", "responseCacheKeys") || mentionsField(info, a.X, "resolve", "preparedFetch", "responseCacheKeys")
			}},
		)
		all := []string{"cache-enabled", "keys-present", "not-skipped", "not-a-cache-hit", "no-transport-error", "body-present", "status<300", "parsed", "no-graphql-errors", "ttl-ok", "one-value-per-key"}
		d := fw.NewDeriver(fi)
		nSites := 0
		in := fw.NewInterp(fi)
		in.H = fw.Hooks{Cond: g.Cond,
			Node: func(n ast.Node, st *fw.State) {
				g.Node(n, st)
				if !in.Final() {
					return
				}
				site, what := ast.Node(nil), ""
				if cl, ok := n.(*ast.CompositeLit); ok && fw.TypeIs(info.TypeOf(cl), "caching", "Item") {
					site, what = cl, "construction of a caching.Item"
					// key/value pairing: Key is responseCacheKeys[k] and Value comes from values[k] of the same loop
					pairOK, pairWhy := itemPairsKeyWithValue(fi, cl)
					r.Check(pairOK, "C16-R2", "responseCacheCollect/key-value-pairing", p.Pos(cl.Pos()), "each caching.Item pairs responseCacheKeys[k] with the k-th entity of the response", pairWhy)
					// TTL provenance
					for _, el := range cl.Elts {
						if kv, ok := el.(*ast.KeyValueExpr); ok {
							if k, ok := kv.Key.(*ast.Ident); ok && k.Name == "TTL" {
								okTTL := d.Derives(kv.Value, d.IsCallTo("caching", "TTL")) && !d.Derives(kv.Value, func(e ast.Expr) bool {
									return fw.IsFieldSel(info, e, "resolve", "responseCache", "defaultTTL") && !insideCallTo(info, fi, e, "caching", "TTL")
								})
								r.Check(okTTL, "C16-R2", "responseCacheCollect/ttl-source", p.Pos(kv.Pos()), "the stored lifetime is the value returned by caching.TTL",
									"caching.Item.TTL is not the duration returned by caching.TTL for this response: entities outlive s-maxage/max-age")
							}
						}
					}
				}
				for _, t := range fw.WriteTargets(info, n) {
					if fw.IsFieldSel(info, t, "resolve", "preparedFetch", "responseCacheItems") {
						site, what = t, "assignment of preparedFetch.responseCacheItems"
					}
				}
				if site == nil {
					return
				}
				nSites++
				for _, name := range all {
					r.Check(g.Has(st, name), "C16-R2", "responseCacheCollect/"+name+"@"+shortWhat(what), p.Pos(site.Pos()), what+" is dominated by "+name,
						"entities are collected for storing on a path that did not pass '"+name+"': data from a failed, partial, non-public or mis-shaped response enters the cache")
				}
			}}
		in.Run(nil)
		r.Expect("C16-R2", "collection sites", nSites, 2)
	}

	// ---- R3 all-or-nothing lookup ---------------------------------------------------------------
	r.Rule("C16-R3", "responseCacheLookup reports a hit only when the store returned no error, as many entries as keys, and the per-key loop rejects a missing or empty entry")
	if fi := p.Func("resolve", "Loader.responseCacheLookup"); fi == nil {
		r.Error("C16-R3: Loader.responseCacheLookup not found")
	} else {
		info := fi.Info()
		g := fw.NewGuards(info,
			fw.GuardSpec{Name: "cache-enabled", Match: fw.AtomCall("True", "resolve", "Loader.responseCacheEnabled")},
			fw.GuardSpec{Name: "keys-present", Match: func(info *types.Info, a fw.CondAtom) bool {
				return a.Kind == "NonEmpty" && (fw.IsFieldSel(info, a.X, "resolve", "preparedFetch", "responseCacheKeys") || identFromField(fi, a.X, "resolve", "preparedFetch", "responseCacheKeys"))
			}},
			fw.GuardSpec{Name: "store-ok", Match: fw.AtomVarFromCall(fi, "Nil", "caching", "Cache.GetMany", 1)},
			fw.GuardSpec{Name: "all-found", Match: func(info *types.Info, a fw.CondAtom) bool {
				if a.Kind != "Eq" {
					return false
				}
				isLenOf := func(e ast.Expr, pred func(ast.Expr) bool) bool {
					c, ok := ast.Unparen(e).(*ast.CallExpr)
					return ok && fw.Builtin(info, c) == "len" && pred(c.Args[0])
				}
				found := func(e ast.Expr) bool {
					id, ok := ast.Unparen(e).(*ast.Ident)
					return ok && fw.VarFromCall(fi, info.Uses[id], id.Pos(), "caching", "Cache.GetMany", 0)
				}
				keys := func(e ast.Expr) bool {
					return fw.IsFieldSel(info, e, "resolve", "preparedFetch", "responseCacheKeys") || identFromField(fi, e, "resolve", "preparedFetch", "responseCacheKeys")
				}
				return (isLenOf(a.X, found) && isLenOf(a.Y, keys)) || (isLenOf(a.Y, found) && isLenOf(a.X, keys))
			}},
			fw.GuardSpec{Name: "entry-missing-or-empty", Match: func(info *types.Info, a fw.CondAtom) bool {
				// `!ok || len(item.Value) == 0` in any spelling: a disjunction of "the comma-ok flag is false" and
				// "the entry's value is empty", and nothing else
				op, leaves := fw.AtomNNF(info, a)
				if op != "or" {
					return false
				}
				hasOK, hasEmpty := false, false
				for _, l := range leaves {
					_, isID := ast.Unparen(l.X).(*ast.Ident)
					switch {
					case l.Kind == "False" && isID:
						hasOK = true
					case l.Kind == "Empty" && fw.IsFieldSel(info, l.X, "caching", "Item", "Value"):
						hasEmpty = true
					default:
						return false
					}
				}
				return hasOK && hasEmpty
			}},
		)
		nHit, nReject := 0, 0
		in := fw.NewInterp(fi)
		in.H = fw.Hooks{Cond: g.Cond, Node: g.Node,
			Exit: func(ret *ast.ReturnStmt, lit *ast.FuncLit, st *fw.State) {
				if ret == nil || !in.Final() || len(ret.Results) != 1 {
					return
				}
				v, isConst := fw.ConstVal(info, ret.Results[0])
				if isConst && v == "false" {
					if g.Has(st, "entry-missing-or-empty") {
						nReject++
					}
					return
				}
				nHit++
				for _, name := range []string{"cache-enabled", "keys-present", "store-ok", "all-found"} {
					r.Check(g.Has(st, name), "C16-R3", "responseCacheLookup/hit-requires:"+name, p.Pos(ret.Pos()), "a cache hit is reported only when "+name,
						"a hit is reachable without '"+name+"': a partially cached batch is served as if complete (entities missing from the response)")
				}
			}}
		in.Run(nil)
		r.Expect("C16-R3", "hit returns", nHit, 1)
		r.Check(nReject >= 1, "C16-R3", "responseCacheLookup/per-key-reject", fi.Pos(), "the per-key loop returns a miss for a missing or empty entry", "no `return false` is guarded by `!ok || len(item.Value)==0`: an absent key is rendered as an empty array slot")
	}

	// ---- R4 failures never fail a request --------------------------------------------------------
	r.Rule("C16-R4", "errors of Cache.GetMany/SetMany and of responseCacheCollect flow only into reportResponseCacheError; the callers of the store have no error result; the store is never called with DataBuffer.mu held")
	nStore := 0
	la := fw.NewLockAnalysis(p, "resolve")
	la.Solve()
	la.Visit(func(in *fw.Interp, n ast.Node, st *fw.State) {
		c, ok := n.(*ast.CallExpr)
		if !ok {
			return
		}
		isGet, isSet := fw.CallIs(in.Info, c, "caching", "Cache.GetMany"), fw.CallIs(in.Info, c, "caching", "Cache.SetMany")
		if !isGet && !isSet {
			return
		}
		nStore++
		name := "GetMany"
		if isSet {
			name = "SetMany"
		}
		sig := in.FI.Obj.Type().(*types.Signature)
		hasErr := false
		for i := 0; i < sig.Results().Len(); i++ {
			if types.Identical(sig.Results().At(i).Type(), types.Universe.Lookup("error").Type()) {
				hasErr = true
			}
		}
		r.Check(!hasErr, "C16-R4", in.FI.Name()+"/no-error-result:"+name, p.Pos(c.Pos()), in.FI.Name()+" (calls Cache."+name+") has no error result",
			"the function that talks to the cache store can return an error to the fetch path: a cache outage fails requests")
		held := st.May("L:"+lkData) || st.May("R:"+lkData)
		r.Check(!held, "C16-R4", in.FI.Name()+"/outside-data-lock:"+name, p.Pos(c.Pos()), "Cache."+name+" is called with the data lock released",
			"the cache round trip runs while DataBuffer.mu is (possibly) held: a slow cache blocks every fetch of the request (entry lock set of "+in.FI.Name()+" = ∩ of its call sites)")
		// error result of the store call flows only to the reporter
		okFlow, why := errOnlyReported(in.FI, c)
		r.Check(okFlow, "C16-R4", in.FI.Name()+"/error-only-reported:"+name, p.Pos(c.Pos()), "error of Cache."+name+" is only reported", why)
	})
	r.Expect("C16-R4", "calls of the cache store", nStore, 2)
	nCollect := 0
	fw.EachCall(p.Funcs("resolve"), func(fi *fw.FuncInfo, c *ast.CallExpr, stack []ast.Node) {
		if !fw.CallIs(fi.Info(), c, "resolve", "Loader.responseCacheCollect") {
			return
		}
		nCollect++
		okFlow, why := errOnlyReported(fi, c)
		r.Check(okFlow, "C16-R4", fi.Name()+"/collect-error-only-reported", p.Pos(c.Pos()), "error of responseCacheCollect is only reported in "+fi.Name(), why)
	})
	r.Expect("C16-R4", "calls of responseCacheCollect", nCollect, 1)

	// ---- R5 key shape ---------------------------------------------------------------------------
	r.Rule("C16-R5", "every caching.Key call combines the entity hash with responseCacheSelectionHash(header, footer, undefined variables) computed before SetInputUndefinedVariables rewrites the buffer; caching.Key writes both components")
	nKey := 0
	for _, fi := range p.Funcs("resolve") {
		info := fi.Info()
		has := false
		fw.WalkAll(fi.Decl.Body, func(n ast.Node) bool {
			if c, ok := n.(*ast.CallExpr); ok && fw.CallIs(info, c, "caching", "Key") {
				has = true
			}
			return true
		})
		if !has {
			continue
		}
		d := fw.NewDeriver(fi)
		in := fw.NewInterp(fi)
		type snap struct{ hdr, ftr, items bool }
		offsets := map[types.Object]snap{}
		isTmpl := func(c *ast.CallExpr, part string) bool {
			if !fw.CallIs(info, c, "resolve", "InputTemplate.RenderAndCollectUndefinedVariables") && !fw.CallIs(info, c, "resolve", "InputTemplate.Render") {
				return false
			}
			sel, ok := ast.Unparen(c.Fun).(*ast.SelectorExpr)
			if !ok {
				return false
			}
			v, _ := fw.Field(info, sel.X)
			return v != nil && v.Name() == part
		}
		in.H = fw.Hooks{Node: func(n ast.Node, st *fw.State) {
			if as, ok := n.(*ast.AssignStmt); ok && len(as.Lhs) == 1 && len(as.Rhs) == 1 {
				if c, ok := ast.Unparen(as.Rhs[0]).(*ast.CallExpr); ok {
					if fn := fw.Callee(info, c); fn != nil && fn.Name() == "Len" && len(c.Args) == 0 {
						if o := fw.RootObj(info, as.Lhs[0]); o != nil {
							offsets[o] = snap{hdr: st.Must("hdr"), ftr: st.May("ftr"), items: st.May("items")}
						}
					}
				}
			}
			c, ok := n.(*ast.CallExpr)
			if !ok {
				return
			}
			if isTmpl(c, "Header") {
				st.Set("hdr")
			}
			if isTmpl(c, "Footer") {
				st.Set("ftr")
			}
			if fn := fw.Callee(info, c); fn != nil && (fn.Name() == "WriteTo" || fn.Name() == "Write" || fn.Name() == "WriteByte" || fn.Name() == "WriteString") && st.Must("hdr") {
				st.Set("items")
			}
			if fw.CallIs(info, c, "resolve", "SetInputUndefinedVariables") {
				st.Set("rewritten")
			}
			if in.Final() && fw.CallIs(info, c, "resolve", "responseCacheSelectionHash") && len(c.Args) >= 2 {
				// the request that is sent also depends on which variables the client left undefined (they are removed from
				// the input afterwards, while an explicit null stays): the collector of the renders is part of the hash
				var collector types.Object
				fw.WalkAll(fi.Decl.Body, func(m ast.Node) bool {
					if rc, ok := m.(*ast.CallExpr); ok && fw.CallIs(info, rc, "resolve", "InputTemplate.RenderAndCollectUndefinedVariables") && len(rc.Args) == 4 {
						collector = fw.RootObj(info, rc.Args[3])
					}
					return true
				})
				uOK := false
				for _, a := range c.Args[2:] {
					if collector != nil && fw.RootObj(info, a) == collector {
						uOK = true
					}
				}
				r.Check(uOK, "C16-R5", fi.Name()+"/hash<-undefined-variables", p.Pos(c.Pos()), "the selection hash in "+fi.Name()+" covers the names of the variables the client left undefined",
					"at the time the key is built an undefined variable and an explicit null both read `null` in the buffer; SetInputUndefinedVariables then removes the undefined ones from the request. Without the collector in the hash the requests {} and {\"n\":null} share cache entries although the subgraph is asked differently (argument default vs. explicit null) and may answer differently")
				hOK, fOK := false, false
				if se, ok := ast.Unparen(c.Args[0]).(*ast.SliceExpr); ok && se.High != nil && se.Low == nil {
					if s, ok := offsets[fw.RootObj(info, se.High)]; ok && s.hdr && !s.ftr && !s.items {
						hOK = true
					}
				}
				if se, ok := ast.Unparen(c.Args[1]).(*ast.SliceExpr); ok && se.Low != nil && se.High == nil {
					if s, ok := offsets[fw.RootObj(info, se.Low)]; ok && s.hdr && !s.ftr {
						fOK = true
					}
				}
				r.Check(hOK, "C16-R5", fi.Name()+"/header-offset", p.Pos(c.Pos()), "the header slice ends at an offset taken after the header was rendered and before any entity / the footer was written",
					"the first argument of responseCacheSelectionHash is not rendered[:H] with H = buffer length right after the header: entity bytes leak into (or header bytes drop out of) the selection hash")
				r.Check(fOK, "C16-R5", fi.Name()+"/footer-offset", p.Pos(c.Pos()), "the footer slice starts at an offset taken before the footer was rendered",
					"the second argument of responseCacheSelectionHash is not rendered[F:] with F = buffer length before the footer is rendered: the footer (selection set and argument values) is not part of the key, so requests that differ only there share cache entries")
			}
			if !in.Final() {
				return
			}
			if fw.CallIs(info, c, "resolve", "responseCacheSelectionHash") {
				r.Check(!st.May("rewritten"), "C16-R5", fi.Name()+"/hash-before-rewrite", p.Pos(c.Pos()), "selection hash is taken before the input buffer is rewritten in "+fi.Name(),
					"responseCacheSelectionHash runs after SetInputUndefinedVariables: the header/footer offsets no longer delimit what they were taken from, so the key mixes entity bytes into the selection hash (or drops selection bytes)")
			}
			if fw.CallIs(info, c, "caching", "Key") && len(c.Args) == 2 {
				nKey++
				selOK := d.Derives(c.Args[1], d.IsCallTo("resolve", "responseCacheSelectionHash"))
				entOK := d.Derives(c.Args[0], func(e ast.Expr) bool {
					cc, ok := e.(*ast.CallExpr)
					if !ok {
						return false
					}
					fn := fw.Callee(info, cc)
					return fn != nil && fn.Pkg() != nil && strings.Contains(fn.Pkg().Path(), "xxhash")
				})
				r.Check(selOK, "C16-R5", fi.Name()+"/key<-selection", p.Pos(c.Pos()), "cache key in "+fi.Name()+" includes the selection hash",
					"the key no longer depends on responseCacheSelectionHash(header, footer): the same entity fetched with a different selection/subgraph/arguments is served from another fetch's entry")
				r.Check(entOK, "C16-R5", fi.Name()+"/key<-entity", p.Pos(c.Pos()), "cache key in "+fi.Name()+" includes the hash of the rendered entity representation",
					"the key no longer depends on the hash of the entity representation: different entities share one entry")
			}
		}}
		in.Run(nil)
	}
	r.Expect("C16-R5", "caching.Key call sites", nKey, 2)
	if fi := p.Func("caching", "Key"); fi == nil {
		r.Error("C16-R5: caching.Key not found")
	} else {
		d := fw.NewDeriver(fi)
		fw.WalkAll(fi.Decl.Body, func(n ast.Node) bool {
			if ret, ok := n.(*ast.ReturnStmt); ok && len(ret.Results) == 1 {
				for i, name := range []string{"entityHash", "selectionHash"} {
					r.Check(d.Derives(ret.Results[0], d.ParamAt(i)), "C16-R5", "Key/uses:"+name, p.Pos(ret.Pos()), "caching.Key's result depends on "+name, "caching.Key ignores its "+name+" parameter")
				}
			}
			return true
		})
	}

	// ---- R6 parser fills what the decision reads --------------------------------------------------
	r.Rule("C16-R6", "every CacheControlResponse field caching.TTL reads is assigned in the arm of parseIdent's directive switch for the RFC 9111 directive of that name, and only there")
	rfc := map[string]string{"NoStore": "no-store", "NoCache": "no-cache", "Private": "private", "Public": "public", "SMaxAge": "s-maxage", "MaxAge": "max-age"}
	ttlFi, parseFi := p.Func("caching", "TTL"), p.Func("cachectl", "parseIdent")
	if ttlFi == nil || parseFi == nil {
		r.Error("C16-R6: caching.TTL / cache.parseIdent not found")
		return
	}
	reads := map[string]bool{}
	fw.WalkAll(ttlFi.Decl.Body, func(n ast.Node) bool {
		if sel, ok := n.(*ast.SelectorExpr); ok {
			if v, s := fw.Field(ttlFi.Info(), sel); v != nil {
				if _, tn := fw.FieldOwner(ttlFi.Info(), s); tn == "CacheControlResponse" {
					reads[v.Name()] = true
				}
			}
		}
		return true
	})
	r.Expect("C16-R6", "fields read by TTL", len(reads), 6)
	pinfo := parseFi.Info()
	written := map[string]map[string]bool{} // field -> set of directive constants in whose arm it is written
	nArms := 0
	fw.WalkAll(parseFi.Decl.Body, func(n ast.Node) bool {
		sw, ok := n.(*ast.SwitchStmt)
		if !ok || sw.Tag == nil {
			return true
		}
		for _, cl := range sw.Body.List {
			cc := cl.(*ast.CaseClause)
			var names []string
			for _, e := range cc.List {
				if v, ok := fw.ConstVal(pinfo, e); ok {
					names = append(names, strings.Trim(v, `"`))
				}
			}
			if len(names) == 0 {
				names = []string{"<default>"}
			}
			nArms++
			for _, st := range cc.Body {
				fw.WalkAll(st, func(m ast.Node) bool {
					for _, t := range fw.WriteTargets(pinfo, m) {
						if v, s := fw.Field(pinfo, t); v != nil {
							if _, tn := fw.FieldOwner(pinfo, s); tn == "CacheControlResponse" {
								if written[v.Name()] == nil {
									written[v.Name()] = map[string]bool{}
								}
								for _, nm := range names {
									written[v.Name()][nm] = true
								}
							}
						}
					}
					return true
				})
			}
		}
		return false
	})
	for f := range reads {
		want, known := rfc[f]
		if !known {
			r.Fail("C16-R6", "TTL-reads:"+f, ttlFi.Pos(), "field "+f+" read by TTL", "TTL reads a CacheControlResponse field that has no RFC 9111 directive bound in the checker's table; extend the table after reading the change")
			continue
		}
		arms := written[f]
		ok := len(arms) == 1 && arms[want]
		var got []string
		for a := range arms {
			got = append(got, a)
		}
		r.Check(ok, "C16-R6", "parseIdent/fills:"+f, parseFi.Pos(), "CacheControlResponse."+f+" is assigned exactly in the \""+want+"\" arm of the directive switch",
			"field "+f+" (read by caching.TTL) is assigned in arms ["+strings.Join(sortStrings(got), ",")+"] instead of only \""+want+"\": the directive is silently ignored (zero value = 'absent') or another directive toggles it, widening what is stored")
	}
	_ = nArms
}

// itemPairsKeyWithValue: the composite literal sits in `for k, v := range X` (or `for k := range X`),
// its Key is preparedFetch.responseCacheKeys[k] and its Value derives from v (or X[k]).
func itemPairsKeyWithValue(fi *fw.FuncInfo, cl *ast.CompositeLit) (bool, string) {
	info := fi.Info()
	var loop *ast.RangeStmt
	ast.Inspect(fi.Decl.Body, func(n ast.Node) bool {
		if rs, ok := n.(*ast.RangeStmt); ok && rs.Body.Pos() <= cl.Pos() && cl.End() <= rs.Body.End() {
			loop = rs // innermost wins (pre-order: later assignments are deeper)
		}
		return true
	})
	if loop == nil || loop.Key == nil {
		return false, "the item is not built inside a loop with an index over the response's entities"
	}
	kid, ok := loop.Key.(*ast.Ident)
	if !ok || kid.Name == "_" {
		return false, "the entity loop has no index variable: keys cannot be paired with entities by position"
	}
	kobj := info.Defs[kid]
	if kobj == nil {
		kobj = info.Uses[kid]
	}
	var keyExpr, valExpr ast.Expr
	for _, el := range cl.Elts {
		if kv, ok := el.(*ast.KeyValueExpr); ok {
			if k, ok := kv.Key.(*ast.Ident); ok {
				switch k.Name {
				case "Key":
					keyExpr = kv.Value
				case "Value":
					valExpr = kv.Value
				}
			}
		}
	}
	ix, ok := ast.Unparen(keyExpr).(*ast.IndexExpr)
	if !ok || !fw.IsFieldSel(info, ix.X, "resolve", "preparedFetch", "responseCacheKeys") {
		return false, "Item.Key is not an element of prepared.responseCacheKeys"
	}
	iid, ok := ast.Unparen(ix.Index).(*ast.Ident)
	if !ok || info.Uses[iid] != kobj {
		return false, "Item.Key is responseCacheKeys[" + types.ExprString(ix.Index) + "], not indexed by the loop index over the entities: after a skipped (null) entity every later entity is stored under another representation's key"
	}
	d := fw.NewDeriver(fi)
	var vobj types.Object
	if vid, ok := loop.Value.(*ast.Ident); ok && vid.Name != "_" {
		vobj = info.Defs[vid]
	}
	fromLoop := d.Derives(valExpr, func(e ast.Expr) bool {
		if id, ok := e.(*ast.Ident); ok && vobj != nil && info.Uses[id] == vobj {
			return true
		}
		if x, ok := e.(*ast.IndexExpr); ok {
			if id, ok := ast.Unparen(x.Index).(*ast.Ident); ok && info.Uses[id] == kobj && fw.ExprKey(info, x.X) == fw.ExprKey(info, loop.X) {
				return true
			}
		}
		return false
	})
	if !fromLoop {
		return false, "Item.Value does not come from the loop's current entity"
	}
	return true, ""
}

func shortWhat(s string) string {
	if strings.HasPrefix(s, "construction") {
		return "item"
	}
	return "assign"
}

func mentionsField(info *types.Info, e ast.Expr, pkg, typ, field string) bool {
	found := false
	if e == nil {
		return false
	}
	fw.WalkAll(e, func(n ast.Node) bool {
		if x, ok := n.(ast.Expr); ok && fw.IsFieldSel(info, x, pkg, typ, field) {
			found = true
		}
		return !found
	})
	return found
}

// identFromField: e is a local identifier whose (single) definition is X.field of pkg.typ.
func identFromField(fi *fw.FuncInfo, e ast.Expr, pkg, typ, field string) bool {
	info := fi.Info()
	id, ok := ast.Unparen(e).(*ast.Ident)
	if !ok {
		return false
	}
	obj := info.Uses[id]
	if obj == nil {
		return false
	}
	n, match := 0, false
	ast.Inspect(fi.Decl.Body, func(nd ast.Node) bool {
		as, ok := nd.(*ast.AssignStmt)
		if !ok || len(as.Lhs) != len(as.Rhs) {
			return true
		}
		for i, l := range as.Lhs {
			lid, ok := l.(*ast.Ident)
			if !ok {
				continue
			}
			o := info.Defs[lid]
			if o == nil {
				o = info.Uses[lid]
			}
			if o == obj {
				n++
				match = fw.IsFieldSel(info, as.Rhs[i], pkg, typ, field)
			}
		}
		return true
	})
	return n == 1 && match
}

// insideCallTo: e occurs inside the argument list of a call to pkg.name within fi.
func insideCallTo(info *types.Info, fi *fw.FuncInfo, e ast.Expr, pkg, name string) bool {
	inside := false
	ast.Inspect(fi.Decl.Body, func(n ast.Node) bool {
		if c, ok := n.(*ast.CallExpr); ok && fw.CallIs(info, c, pkg, name) {
			if c.Pos() <= e.Pos() && e.End() <= c.End() {
				inside = true
			}
		}
		return !inside
	})
	return inside
}

// errOnlyReported: the error produced by call (its last result, assigned to a variable or used in an
// if-init) is only compared with nil and passed — possibly wrapped by fmt.Errorf — to
// Loader.reportResponseCacheError; it never reaches a return statement or another variable.
func errOnlyReported(fi *fw.FuncInfo, call *ast.CallExpr) (bool, string) {
	info := fi.Info()
	var errObj types.Object
	ast.Inspect(fi.Decl.Body, func(n ast.Node) bool {
		as, ok := n.(*ast.AssignStmt)
		if !ok || len(as.Rhs) != 1 || ast.Unparen(as.Rhs[0]) != ast.Expr(call) {
			return true
		}
		last := as.Lhs[len(as.Lhs)-1]
		if id, ok := last.(*ast.Ident); ok && id.Name != "_" {
			errObj = info.Defs[id]
			if errObj == nil {
				errObj = info.Uses[id]
			}
		}
		return true
	})
	if errObj == nil {
		// the call's result is not bound: either dropped entirely (fine) or returned directly
		bad := false
		ast.Inspect(fi.Decl.Body, func(n ast.Node) bool {
			if ret, ok := n.(*ast.ReturnStmt); ok {
				for _, res := range ret.Results {
					if res.Pos() <= call.Pos() && call.End() <= res.End() {
						bad = true
					}
				}
			}
			return true
		})
		if bad {
			return false, "the error of the cache operation is returned to the fetch path: a cache failure fails the request"
		}
		return true, ""
	}
	ok, why := true, ""
	var stack []ast.Node
	ast.Inspect(fi.Decl.Body, func(n ast.Node) bool {
		if n == nil {
			stack = stack[:len(stack)-1]
			return true
		}
		stack = append(stack, n)
		id, isID := n.(*ast.Ident)
		if !isID || info.Uses[id] != errObj {
			return true
		}
		// classify the use by walking up
		for i := len(stack) - 2; i >= 0; i-- {
			switch x := stack[i].(type) {
			case *ast.BinaryExpr:
				if _, _, isNil := fw.NilCheck(info, x); isNil {
					return true
				}
			case *ast.CallExpr:
				if fw.CallIs(info, x, "resolve", "Loader.reportResponseCacheError") {
					return true
				}
				if fn := fw.Callee(info, x); fn != nil && fn.Pkg() != nil && fn.Pkg().Path() == "fmt" && fn.Name() == "Errorf" {
					continue // wrapped: keep climbing, must end in the reporter
				}
				ok, why = false, "the cache error is passed to "+types.ExprString(x.Fun)+" instead of only to reportResponseCacheError"
				return true
			case *ast.ReturnStmt:
				ok, why = false, "the cache error reaches a return statement of "+fi.Name()+": a cache failure fails the fetch (and with it the request)"
				return true
			case *ast.AssignStmt:
				for _, r := range x.Rhs {
					if r.Pos() <= id.Pos() && id.End() <= r.End() {
						ok, why = false, "the cache error is stored into another variable/field in "+fi.Name()
						return true
					}
				}
				return true // it is the LHS (definition)
			case ast.Stmt:
				return true
			}
		}
		return true
	})
	return ok, why
}

// c16DefaultTTLUnchanged (part of R1, added after a seeded change replaced a non-positive default by one minute): the
// default lifetime that caching.TTL tests (> 0, else the response is not stored) is the value the caller configured:
// every store into responseCache.defaultTTL takes a parameter that is never reassigned in that function.
func c16DefaultTTLUnchanged(r *fw.Run) {
	p := r.Prog
	info := p.Pkg("resolve").TypesInfo
	n := 0
	for _, fi := range p.Funcs("resolve") {
		sig := fi.Obj.Type().(*types.Signature)
		params := map[types.Object]bool{}
		for i := 0; i < sig.Params().Len(); i++ {
			params[sig.Params().At(i)] = true
		}
		reassigned := map[types.Object]bool{}
		fw.WalkAll(fi.Decl.Body, func(nd ast.Node) bool {
			for _, t := range fw.WriteTargets(info, nd) {
				if id, ok := ast.Unparen(t).(*ast.Ident); ok && params[info.Uses[id]] {
					reassigned[info.Uses[id]] = true
				}
			}
			return true
		})
		check := func(val ast.Expr, pos token.Pos) {
			n++
			id, isID := ast.Unparen(val).(*ast.Ident)
			ok := isID && params[info.Uses[id]] && !reassigned[info.Uses[id]]
			r.Check(ok, "C16-R1", fi.Name()+"/default-ttl-is-the-configured-value", p.Pos(pos), "responseCache.defaultTTL is the caller's value, unchanged",
				"the default lifetime handed to caching.TTL is not the configured one (replaced or clamped on the way in): a configured default of zero — 'store nothing that carries no lifetime of its own' — no longer makes caching.TTL refuse, and responses without max-age are stored for the substituted time")
		}
		fw.WalkAll(fi.Decl.Body, func(nd ast.Node) bool {
			switch x := nd.(type) {
			case *ast.CompositeLit:
				if fw.TypeIs(info.TypeOf(x), "resolve", "responseCache") {
					for _, el := range x.Elts {
						if kv, ok := el.(*ast.KeyValueExpr); ok {
							if k, ok := kv.Key.(*ast.Ident); ok && k.Name == "defaultTTL" {
								check(kv.Value, kv.Pos())
							}
						}
					}
				}
			case *ast.AssignStmt:
				for i, l := range x.Lhs {
					if fw.IsFieldSel(info, l, "resolve", "responseCache", "defaultTTL") && i < len(x.Rhs) {
						check(x.Rhs[i], x.Pos())
					}
				}
			}
			return true
		})
	}
	r.Expect("C16-R1", "stores into responseCache.defaultTTL", n, 1)
}

// c16OptionalCallbacksNilChecked (R7): "cache failures never fail a request". The error callback of the response cache is
// optional: SetResponseCache stores its parameter as given, nil included. A func-typed field that is filled directly from
// a parameter of an exported function (no nil default on that path) may be nil, so every call of it has to be dominated
// by a non-nil test of the same field. An unguarded call turns the first GetMany/SetMany error of a cache that was
// attached without a callback into a nil-function panic in the middle of a request.
func c16OptionalCallbacksNilChecked(r *fw.Run) {
	p := r.Prog
	r.Rule("C16-R7", "the response cache's optional callbacks (func-typed fields of the cache settings filled directly from a parameter of an exported function) are called only under a non-nil test of that field")
	// fields of the response-cache settings struct that are func-typed and assigned from a parameter
	optional := map[*types.Var]string{}
	for _, fi := range p.Funcs("resolve") {
		if !fi.Obj.Exported() {
			continue
		}
		info := fi.Info()
		sig := fi.Obj.Type().(*types.Signature)
		params := map[types.Object]bool{}
		for i := 0; i < sig.Params().Len(); i++ {
			if _, isFn := sig.Params().At(i).Type().Underlying().(*types.Signature); isFn {
				params[sig.Params().At(i)] = true
			}
		}
		if len(params) == 0 {
			continue
		}
		note := func(field *types.Var, val ast.Expr) {
			if field == nil {
				return
			}
			if _, isFn := field.Type().Underlying().(*types.Signature); !isFn {
				return
			}
			if id, ok := ast.Unparen(val).(*ast.Ident); ok && params[info.Uses[id]] {
				optional[field] = fi.Name()
			}
		}
		fw.WalkAll(fi.Decl.Body, func(nd ast.Node) bool {
			switch x := nd.(type) {
			case *ast.AssignStmt:
				if len(x.Lhs) == len(x.Rhs) {
					for i, l := range x.Lhs {
						fv, _ := fw.Field(info, l)
						note(fv, x.Rhs[i])
					}
				}
			case *ast.CompositeLit:
				for _, el := range x.Elts {
					if kv, ok := el.(*ast.KeyValueExpr); ok {
						if id, isID := kv.Key.(*ast.Ident); isID {
							if fv, isVar := info.Uses[id].(*types.Var); isVar && fv.IsField() {
								note(fv, kv.Value)
							}
						}
					}
				}
			}
			return true
		})
	}
	nFields, nCalls := 0, 0
	for fv := range optional {
		if strings.Contains(strings.ToLower(fv.Name()), "error") || true {
			nFields++
		}
	}
	for _, fi := range p.Funcs("resolve") {
		info := fi.Info()
		ord := 0
		in := fw.NewInterp(fi)
		in.H = fw.Hooks{
			Cond: func(e ast.Expr, branch bool, st *fw.State) {
				a := fw.Atom(info, e, branch)
				if a.Kind == "NonNil" {
					if fv, _ := fw.Field(info, a.X); fv != nil && optional[fv] != "" {
						st.Set("nonnil:" + fw.ExprKey(info, a.X))
					}
				}
			},
			Node: func(nd ast.Node, st *fw.State) {
				c, ok := nd.(*ast.CallExpr)
				if !ok || !in.Final() {
					return
				}
				fv, _ := fw.Field(info, c.Fun)
				if fv == nil || optional[fv] == "" {
					return
				}
				nCalls++
				ord++
				r.Check(st.Must("nonnil:"+fw.ExprKey(info, c.Fun)), "C16-R7", fi.Name()+"/optional-callback-nil-checked:"+fv.Name()+"#"+itoa(ord), p.Pos(c.Pos()), "the call of "+fv.Name()+" (set from a parameter of "+optional[fv]+", may be nil) in "+fi.Name()+" is dominated by a non-nil test",
					"the callback is called without a nil test although "+optional[fv]+" stores whatever it is given: with a nil callback the first error to report panics with a nil function call in the middle of a request — a cache failure fails the request")
			},
		}
		in.Run(nil)
		for _, lit := range in.SkippedLits {
			in2 := fw.NewInterp(fi)
			in2.H = in.H
			in2.RunLit(lit, nil)
		}
	}
	r.Expect("C16-R7", "calls of optional callbacks", nCalls, 1)
}

// c16FollowerMirrorsLeader (R8): "stored only from a successful response" is decided from the status code in the
// ResponseContext of the request at hand. A single-flight follower makes no HTTP call: it must rebuild its ResponseContext
// from what the leader recorded in the shared item. The leader's copy (item.f = … rc.g …) and the follower's copy
// (rc.g = … item.f …) have to mirror each other: for every pair the leader copies directly under its `rc != nil` test, the
// follower assigns rc.g from item.f directly under its own `rc != nil` test. A follower that forgets the status code
// judges a shared 500 response by the zero value and stores its entities, while the leader refuses them.
func c16FollowerMirrorsLeader(r *fw.Run) {
	p := r.Prog
	r.Rule("C16-R8", "in Loader.loadByContext the single-flight follower rebuilds its ResponseContext from the shared item as the mirror image of what the leader recorded: every ResponseContext field the leader copies into the item directly under rc != nil is assigned back from that item field directly under the follower's rc != nil")
	fi := p.Func("resolve", "Loader.loadByContext")
	if fi == nil {
		r.Error("C16-R8: Loader.loadByContext not found")
		return
	}
	info := fi.Info()
	isRC := func(t types.Type) bool { return fw.TypeIs(derefT(t), "httpclient", "ResponseContext") }
	isItem := func(t types.Type) bool { return fw.TypeIs(derefT(t), "resolve", "SingleFlightItem") }
	fieldOf := func(e ast.Expr, owner func(types.Type) bool) string { // first field of owner selected anywhere in e
		out := ""
		fw.WalkAll(e, func(n ast.Node) bool {
			if sel, ok := n.(*ast.SelectorExpr); ok && out == "" {
				if tv, okT := info.Types[sel.X]; okT && owner(tv.Type) {
					out = sel.Sel.Name
				}
			}
			return true
		})
		return out
	}
	// innermost enclosing if of each assignment, and whether its condition is exactly "rc != nil"
	type pair struct{ item, rc string }
	leader, follower := map[pair]ast.Node{}, map[pair]bool{}
	var visit func(n ast.Node, directlyUnderRC bool)
	visit = func(n ast.Node, directlyUnderRC bool) {
		ast.Inspect(n, func(m ast.Node) bool {
			switch x := m.(type) {
			case *ast.IfStmt:
				if x == n {
					return true
				}
				a := fw.Atom(info, x.Cond, true)
				under := false
				if a.Kind == "NonNil" {
					if tv, ok := info.Types[a.X]; ok && isRC(tv.Type) {
						under = true
					}
				}
				if x.Init != nil {
					visit(x.Init, directlyUnderRC)
				}
				visit(x.Body, under)
				if x.Else != nil {
					visit(x.Else, false)
				}
				return false
			case *ast.AssignStmt:
				if !directlyUnderRC || len(x.Lhs) != 1 || len(x.Rhs) != 1 {
					return true
				}
				if tv, ok := info.Types[selX(x.Lhs[0])]; ok && isItem(tv.Type) {
					if g := fieldOf(x.Rhs[0], isRC); g != "" {
						leader[pair{selName(x.Lhs[0]), g}] = x
					}
				}
				if tv, ok := info.Types[selX(x.Lhs[0])]; ok && isRC(tv.Type) {
					if f := fieldOf(x.Rhs[0], isItem); f != "" {
						follower[pair{f, selName(x.Lhs[0])}] = true
					}
				}
			}
			return true
		})
	}
	visit(fi.Decl.Body, false)
	n := 0
	for pr, at := range leader {
		n++
		r.Check(follower[pr], "C16-R8", "Loader.loadByContext/follower-mirrors:"+pr.rc+"<-item."+pr.item, p.Pos(at.Pos()), "the follower assigns ResponseContext."+pr.rc+" from item."+pr.item+" directly under its rc != nil test (the leader records item."+pr.item+" from ResponseContext."+pr.rc+")",
			"the follower's ResponseContext."+pr.rc+" keeps its zero value although the leader recorded it: executeSourceLoad then judges the shared response by status 0 — a follower stores the entities of a shared 500 response in the response cache (and reports the wrong status), while the leader refuses them")
	}
	r.Expect("C16-R8", "ResponseContext fields the leader records directly under rc != nil", n, 1)
}

func selX(e ast.Expr) ast.Expr {
	if s, ok := ast.Unparen(e).(*ast.SelectorExpr); ok {
		return s.X
	}
	return e
}

func selName(e ast.Expr) string {
	if s, ok := ast.Unparen(e).(*ast.SelectorExpr); ok {
		return s.Sel.Name
	}
	return ""
}

// c16KeyCoversLateInjections (R9): the cache key is computed while the fetch input is rendered. What the loader puts into
// the request body afterwards, on the way to the data source, is part of the subgraph request and not of the rendered
// input: if it can differ between two client requests, they are different subgraph requests that would share one entry.
// Every field of resolve.Context that a Loader method injects into the request input (jsonparser.Set(input, ctx.F, …))
// is also handed to the function that computes the key's selection hash, at every site that computes a key.
func c16KeyCoversLateInjections(r *fw.Run) {
	p := r.Prog
	r.Rule("C16-R9", "every resolve.Context field that a Loader method injects into the request input after rendering (jsonparser.Set(input, ctx.F, …)) is an argument of the cache key's selection hash at every site that computes a key")
	injected := map[string]string{} // field → where
	var keySites []*ast.CallExpr
	var keyInfos []*types.Info
	var keyFuncs []string
	hashFn := p.Func("resolve", "responseCacheSelectionHash")
	if hashFn == nil {
		r.Error("C16-R9: responseCacheSelectionHash not found")
		return
	}
	for _, fi := range p.Funcs("resolve") {
		if !strings.HasPrefix(fi.Name(), "Loader.") {
			continue
		}
		info := fi.Info()
		fw.WalkAll(fi.Decl.Body, func(nd ast.Node) bool {
			c, ok := nd.(*ast.CallExpr)
			if !ok {
				return true
			}
			fn := fw.Callee(info, c)
			if fn == nil {
				return true
			}
			if fn == hashFn.Obj {
				keySites = append(keySites, c)
				keyInfos = append(keyInfos, info)
				keyFuncs = append(keyFuncs, fi.Name())
			}
			if fn.Name() == "Set" && fn.Pkg() != nil && strings.HasSuffix(fn.Pkg().Path(), "/jsonparser") && len(c.Args) >= 2 {
				if fv, _ := fw.Field(info, c.Args[1]); fv != nil && fw.IsFieldSel(info, c.Args[1], "resolve", "Context", fv.Name()) {
					injected[fv.Name()] = p.Pos(c.Pos())
				}
			}
			return true
		})
	}
	n := 0
	var fields []string
	for f := range injected {
		fields = append(fields, f)
	}
	sort.Strings(fields)
	for _, f := range fields {
		missing := ""
		for i, site := range keySites {
			fed := false
			for _, a := range site.Args {
				if fw.IsFieldSel(keyInfos[i], a, "resolve", "Context", f) {
					fed = true
				}
			}
			if !fed {
				missing = keyFuncs[i] + " (" + p.Pos(site.Pos()) + ")"
			}
		}
		n++
		r.Check(missing == "" && len(keySites) > 0, "C16-R9", "Context."+f+"/fed-to-the-key", injected[f], "Context."+f+", which the loader injects into the request body at "+injected[f]+", is fed to the selection hash at every key site",
			"Context."+f+" is put into the request body after the cache key was computed and is not an argument of the selection hash in "+missing+": two client requests that differ only in it are different subgraph requests and share one cache entry — the second is answered with what the subgraph said to the first")
	}
	r.Expect("C16-R9", "Context fields injected into the request input by the loader", n, 1)
	r.Note("C16-R9: %d key sites", len(keySites))
}
