package rules

import (
	"go/ast"
	"go/constant"
	"go/token"
	"go/types"
	"sort"
	"strings"

	"verif/checker/fw"
)

const (
	c20Dir          = "v2/pkg/engine/datasource/grpc_datasource/"
	c20JSONGo       = c20Dir + "json_builder.go"
	c20CompilerGo   = c20Dir + "compiler.go"
	c20PlanGo       = c20Dir + "execution_plan.go"
	c20VisitorGo    = c20Dir + "execution_plan_visitor.go"
	c20FedVisitorGo = c20Dir + "execution_plan_visitor_federation.go"
	c20ReqVisitorGo = c20Dir + "required_fields_visitor.go"
	c20DataSourceGo = c20Dir + "grpc_datasource.go"
	c20DataTypeGo   = c20Dir + "datatype.go"

	c20ProtoreflectPath = "google.golang.org/protobuf/reflect/protoreflect"
	c20AstjsonPath      = "github.com/wundergraph/astjson"
)

func init() {
	Registry["C20"] = Spec{
		Pkgs: map[string][]string{"v2": {"grpcds", "gqlds"}},
		Run:  runC20,
		Explanation: "Decides the structural half of 'the gRPC datasource answers with a consistent projection': the object-position and list-position scalar converters of the response builder cover the same protobuf kinds, which are the kinds the compiler supports (dataTypeMap, which is the identity on the numeric kind), and the request-side scalar converter covers the scalar data types and is reached only with kinds it converts (enum/message routed away at every call site — object, repeated and wrapper-list position alike); " +
			"every astvisitor callback implemented by the three planner visitors is registered; every path through one field of marshalResponseJSON and through every arm of the converters writes the field (null / [] / value), so no selected key is silently absent; every site that writes a response key uses RPCField.AliasOrPath of the field being rendered and the helpers pass that key through; " +
			"on the planning side a field's name and alias are taken from the same operation field wherever a response field is built, the duplicate check uses the same (name, alias) identity as the construction, fragment fields are de-duplicated by the response key, and the merge path of resolver / @requires calls ends in the response key; every call kind is compiled, and a call is merged by path exactly when its plan carries a response path; " +
			"the code reachable from DataSource.Load never stores into plan-owned memory (no assignment through plan pointers, no append onto a slice that aliases the plan), so concurrent requests on one cached plan cannot change each other's shape; both consumers of the plan test the list wrapper before the optional-scalar wrapper (a nullable scalar list satisfies both predicates). It does not decide the value-level equality of responses under reformulation.",
		Mutants: []Mutant{
			{Name: "the federation visitor starts without planning messages (reverts the F66 fix)", File: "v2/pkg/engine/datasource/grpc_datasource/execution_plan_visitor_federation.go", Rule: "C20-R18", Key: "rpcPlanVisitorFederation/planning-message-never-nil:currentResponseMessage",
				Old: "\t\t\tcurrentRequestMessage:    &RPCMessage{},\n\t\t\tcurrentResponseMessage:   &RPCMessage{},\n\t\t\tresponseMessageAncestors: []*RPCMessage{},\n\t\t},\n\t}\n\n\twalker.RegisterDocumentVisitor(visitor)", New: "\t\t\tresponseMessageAncestors: []*RPCMessage{},\n\t\t},\n\t}\n\n\twalker.RegisterDocumentVisitor(visitor)"},
			{Name: "an unpopulated scalar field counts as absent (seeded change C20-2)", File: "v2/pkg/engine/datasource/grpc_datasource/compiler.go", Rule: "C20-R17", Key: "RPCCompiler.getMessageField/presence-only-where-tracked",
				Old: "\tfd := message.Descriptor().Fields().ByName(protoref.Name(fieldName))\n\tif fd == nil {\n\t\treturn protoref.Value{}, nil\n", New: "\tfd := message.Descriptor().Fields().ByName(protoref.Name(fieldName))\n\tif fd == nil || !message.Has(fd) {\n\t\treturn protoref.Value{}, nil\n"},
			{Name: "the gRPC exemption from minification is decided when the minifier is enabled, not when it is used (seeded change C20-13)", File: "v2/pkg/engine/datasource/graphql_datasource/graphql_datasource.go", Rule: "C20-R16", Key: "Planner.printOperation/minify-only-when-not-grpc",
				Old: "if p.minifier != nil && !p.config.IsGRPC() && len(rawOperationBytes) > 140 {", New: "if p.minifier != nil && len(rawOperationBytes) > 140 {"},
			{Name: "the dependency graph is keyed by the position of a call, not by its id (seeded changes C20-1, C20-12)", File: "v2/pkg/engine/datasource/grpc_datasource/fetch.go", Rule: "C20-R15", Key: "NewDependencyGraph/keyed-by-call-id",
				Old: "\tfor _, call := range executionPlan.Calls {\n\t\tgraph.nodes[call.ID] = call.DependentCalls\n", New: "\tfor index, call := range executionPlan.Calls {\n\t\tgraph.nodes[index] = call.DependentCalls\n"},
			{Name: "a composite field's definition is looked up by the alias (positive control of the response-name taint rule)", File: "v2/pkg/engine/datasource/grpc_datasource/execution_plan.go", Rule: "C20-R14", Key: "schema-lookup-by-schema-name:fieldDefinitionRefForType",
				Old: "fieldDefRef := r.fieldDefinitionRefForType(r.operation.FieldNameString(fieldRef), fragmentSelection.typeName)", New: "fieldDefRef := r.fieldDefinitionRefForType(r.operation.FieldAliasOrNameString(fieldRef), fragmentSelection.typeName)"},
			{Name: "field resolver context read without a kind test (reverts the F48 fix)", File: "v2/pkg/engine/datasource/grpc_datasource/execution_plan.go", Rule: "C20-R12", Key: "rpcPlanningContext.getFieldsFromFieldResolverDirective/partial-value-accessor-under-kind-test",
				Old: "\tif val.Kind != ast.ValueKindString {\n\t\treturn nil, fmt.Errorf(\"context directive argument must be a string, got %s\", val.Kind)\n\t}\n", New: ""},
			{Name: "root fields leave without popping the field path (seeded change C20-21)", File: "v2/pkg/engine/datasource/grpc_datasource/execution_plan_visitor.go", Rule: "C20-R11", Key: "rpcPlanVisitor.LeaveField/pops-field-path-once",
				Old: "func (r *rpcPlanVisitor) LeaveField(ref int) {\n\tr.fieldPath = r.fieldPath.RemoveLastItem()\n\tinRootField := r.walker.InRootField()\n", New: "func (r *rpcPlanVisitor) LeaveField(ref int) {\n\tinRootField := r.walker.InRootField()\n\tif !inRootField {\n\t\tr.fieldPath = r.fieldPath.RemoveLastItem()\n\t}\n"},
			{Name: "enclosing type resolved in the operation document by the gRPC plan visitor", File: "v2/pkg/engine/datasource/grpc_datasource/execution_plan_visitor.go", Rule: "C20-R10", Key: "rpcPlanVisitor.EnterField/Node.NameString#2",
				Old: "\tfield, err := r.planCtx.buildField(\n\t\tr.walker.EnclosingTypeDefinition.NameString(r.definition),\n\t\tfieldDefRef,", New: "\tfield, err := r.planCtx.buildField(\n\t\tr.walker.EnclosingTypeDefinition.NameString(r.operation),\n\t\tfieldDefRef,"},
			{Name: "list-position converter loses the bytes arm", File: c20JSONGo, Rule: "C20-R1", Key: "object-vs-list",
				Old: "\tcase protoref.BytesKind:\n\t\tarray.SetArrayItem(j.jsonArena, index, astjson.StringValueBytes(j.jsonArena, data.Bytes()))\n", New: ""},
			{Name: "uint64 no longer converted in object position", File: c20JSONGo, Rule: "C20-R1", Key: "setJSONValue/covers",
				Old: "\tcase protoref.Uint32Kind, protoref.Uint64Kind:\n\t\troot.Set(", New: "\tcase protoref.Uint32Kind:\n\t\troot.Set("},
			{Name: "float kind mapped to the double data type", File: c20DataTypeGo, Rule: "C20-R1", Key: "dataTypeMap/FloatKind",
				Old: "\tprotoref.FloatKind:   DataTypeFloat,", New: "\tprotoref.FloatKind:   DataTypeDouble,"},
			{Name: "request converter loses the uint32 arm", File: c20CompilerGo, Rule: "C20-R1", Key: "setValueForKind",
				Old: "\tcase DataTypeUint32:\n\t\treturn protoref.ValueOfUint32(uint32(data.Int()))\n", New: ""},
			{Name: "argument callback of the plan visitor not registered", File: c20VisitorGo, Rule: "C20-R2", Key: "rpcPlanVisitor.EnterArgument",
				Old: "\twalker.RegisterEnterArgumentVisitor(visitor)\n", New: ""},
			{Name: "federation visitor registers only the enter half of the inline-fragment visitor", File: c20FedVisitorGo, Rule: "C20-R2", Key: "rpcPlanVisitorFederation.LeaveInlineFragment",
				Old: "\twalker.RegisterInlineFragmentVisitor(visitor)\n", New: "\twalker.RegisterEnterInlineFragmentVisitor(visitor)\n"},
			{Name: "required-fields visitor registers only the enter half of the selection-set visitor", File: c20ReqVisitorGo, Rule: "C20-R2", Key: "requiredFieldsVisitor.LeaveSelectionSet",
				Old: "\twalker.RegisterSelectionSetVisitor(visitor)\n", New: "\twalker.RegisterEnterSelectionSetVisitor(visitor)\n"},
			{Name: "absent nested message leaves the key out instead of null", File: c20JSONGo, Rule: "C20-R3", Key: "marshalResponseJSON/field",
				Old: "\t\t\t\t// Invalid message - set to null\n\t\t\t\troot.Set(j.jsonArena, field.AliasOrPath(), astjson.NullValue)\n", New: "\t\t\t\t// Invalid message - set to null\n"},
			{Name: "empty repeated field leaves the key out instead of []", File: c20JSONGo, Rule: "C20-R3", Key: "marshalResponseJSON/field",
				Old: "\t\t\troot.Set(j.jsonArena, field.AliasOrPath(), arr)\n\n\t\t\tif !list.IsValid() {\n\t\t\t\t// Invalid list - leave as empty array\n\t\t\t\tcontinue\n\t\t\t}\n", New: "\t\t\tif !list.IsValid() {\n\t\t\t\t// Invalid list - leave as empty array\n\t\t\t\tcontinue\n\t\t\t}\n\t\t\troot.Set(j.jsonArena, field.AliasOrPath(), arr)\n"},
			{Name: "unmapped enum value in a list leaves a hole instead of null", File: c20JSONGo, Rule: "C20-R3", Key: "setArrayItem/arm:EnumKind",
				Old: "\t\t\t// No mapping found - use null\n\t\t\tarray.SetArrayItem(j.jsonArena, index, astjson.NullValue)\n", New: "\t\t\t// No mapping found - use null\n"},
			{Name: "repeated fields keyed by the field name instead of the alias", File: c20JSONGo, Rule: "C20-R4", Key: "marshalResponseJSON/key",
				Old: "\t\t\tarr := astjson.ArrayValue(j.jsonArena)\n\t\t\troot.Set(j.jsonArena, field.AliasOrPath(), arr)\n", New: "\t\t\tarr := astjson.ArrayValue(j.jsonArena)\n\t\t\troot.Set(j.jsonArena, field.JSONPath, arr)\n"},
			{Name: "scalars keyed by the protobuf field name", File: c20JSONGo, Rule: "C20-R4", Key: "marshalResponseJSON/key",
				Old: "\t\tj.setJSONValue(root, field.AliasOrPath(), data, fd)\n", New: "\t\tj.setJSONValue(root, field.Name, data, fd)\n"},
			{Name: "optional scalar wrapper keyed by the wrapper's own field name", File: c20JSONGo, Rule: "C20-R4", Key: "resolveOptionalField",
				Old: "\tj.setJSONValue(root, name, data, fd)\n\treturn nil\n", New: "\tj.setJSONValue(root, string(fd.Name()), data, fd)\n\treturn nil\n"},
			{Name: "fragment fields built without their alias", File: c20PlanGo, Rule: "C20-R5", Key: "buildCompositeFields",
				Old: "\t\t\tinlineFragmentNode.NameString(r.definition),\n\t\t\tfieldDefRef,\n\t\t\tr.operation.FieldNameString(fieldRef),\n\t\t\tr.operation.FieldAliasString(fieldRef),\n", New: "\t\t\tinlineFragmentNode.NameString(r.definition),\n\t\t\tfieldDefRef,\n\t\t\tr.operation.FieldNameString(fieldRef),\n\t\t\t\"\",\n"},
			{Name: "plan visitor de-duplicates by name only", File: c20VisitorGo, Rule: "C20-R5", Key: "rpcPlanVisitor.EnterField/dedupe",
				Old: "\tif r.planInfo.currentResponseMessage.Fields.Exists(fieldName, fieldAlias) {", New: "\tif r.planInfo.currentResponseMessage.Fields.Exists(fieldName, \"\") {"},
			{Name: "resolver merge path ends in the field name instead of the response key", File: c20VisitorGo, Rule: "C20-R5", Key: "rpcPlanVisitor.enterFieldResolver/merge-path",
				Old: "WithFieldNameItem(r.operation.FieldAliasOrNameBytes(ref)),\n\t\tfieldDefinitionTypeRef: r.definition.FieldDefinitionType(fieldDefRef),\n\t}\n\n\tr.callIndex++\n\n\tif err := r.planCtx.setResolvedField(r.walker, fieldDefRef, fieldArgs, fieldPath, &resolvedField); err != nil {\n\t\tr.walker.StopWithInternalErr(err)\n\t\treturn\n\t}\n\n\tbuf := bytes.Buffer{}\n\tbuf.Write(bytes.Repeat([]byte(\"@\"), resolvedField.listNestingLevel))\n\tbuf.WriteString(r.planCtx.findResolverFieldMapping(\n\t\tr.walker.EnclosingTypeDefinition.NameString(r.definition),\n\t\tr.definition.FieldDefinitionNameString(fieldDefRef),\n\t))\n\n\tresolvedField.contextPath = defaultContextPath.WithFieldNameItem(buf.Bytes())\n\n\tr.resolverFields = append(r.resolverFields, resolvedField)\n\tr.fieldResolverAncestors.push(len(r.resolverFields) - 1)\n\n",
				New: "WithFieldNameItem(r.operation.FieldNameBytes(ref)),\n\t\tfieldDefinitionTypeRef: r.definition.FieldDefinitionType(fieldDefRef),\n\t}\n\n\tr.callIndex++\n\n\tif err := r.planCtx.setResolvedField(r.walker, fieldDefRef, fieldArgs, fieldPath, &resolvedField); err != nil {\n\t\tr.walker.StopWithInternalErr(err)\n\t\treturn\n\t}\n\n\tbuf := bytes.Buffer{}\n\tbuf.Write(bytes.Repeat([]byte(\"@\"), resolvedField.listNestingLevel))\n\tbuf.WriteString(r.planCtx.findResolverFieldMapping(\n\t\tr.walker.EnclosingTypeDefinition.NameString(r.definition),\n\t\tr.definition.FieldDefinitionNameString(fieldDefRef),\n\t))\n\n\tresolvedField.contextPath = defaultContextPath.WithFieldNameItem(buf.Bytes())\n\n\tr.resolverFields = append(r.resolverFields, resolvedField)\n\tr.fieldResolverAncestors.push(len(r.resolverFields) - 1)\n\n"},
			{Name: "fragment fields de-duplicated by protobuf name", File: c20PlanGo, Rule: "C20-R5", Key: "SelectFieldsForTypes",
				Old: "\t\t\tif _, found := fieldSet[field.AliasOrPath()]; found {", New: "\t\t\tif _, found := fieldSet[field.Name]; found {"},
			{Name: "@requires results merged like a root response", File: c20DataSourceGo, Rule: "C20-R6", Key: "createRequiredFieldsRPCCall",
				Old: "\t\t\tcase CallKindResolve, CallKindRequired:\n", New: "\t\t\tcase CallKindResolve:\n"},
			{Name: "entity calls no longer compiled", File: c20CompilerGo, Rule: "C20-R6", Key: "CompileNode",
				Old: "\tcase CallKindStandard, CallKindEntity:\n", New: "\tcase CallKindStandard:\n"},
			{Name: "single enum argument converted as a scalar", File: c20CompilerGo, Rule: "C20-R7", Key: "processRPCField",
				Old: "\tif field.Type == DataTypeEnum {\n\t\treturn p.processEnumField(message, fd, rpcField, data)\n\t}\n\n", New: ""},
			{Name: "enum items of a wrapper list converted as scalars", File: c20CompilerGo, Rule: "C20-R7", Key: "traverseList",
				Old: "\t\tcase DataTypeEnum:\n\t\t\tfor _, element := range elements {\n\t\t\t\tval, err := p.getEnumValue(rpcField.EnumName, element)\n\t\t\t\tif err != nil {\n\t\t\t\t\treturn nil, err\n\t\t\t\t}\n\n\t\t\t\titemsField.Append(val)\n\t\t\t}\n", New: ""},
			{Name: "list metadata repaired in place at run time", File: c20JSONGo, Rule: "C20-R8", Key: "flattenListStructure",
				Old: "\tif len(md.LevelInfo) < md.NestingLevel {\n\t\treturn astjson.NullValue, errors.New(\"nesting level data does not match the number of levels in the list metadata\")\n\t}\n", New: "\tif len(md.LevelInfo) < md.NestingLevel {\n\t\tmd.NestingLevel = len(md.LevelInfo)\n\t}\n"},
			{Name: "fields of the concrete type cached on the shared message", File: c20JSONGo, Rule: "C20-R8", Key: "marshalResponseJSON/no-store-into-plan",
				Old: "\t\tvalidFields = append(validFields[:len(validFields):len(validFields)], message.FragmentFields.SelectFieldsForTypes(", New: "\t\tmessage.Fields = append(validFields[:len(validFields):len(validFields)], message.FragmentFields.SelectFieldsForTypes("},
			{Name: "member types sorted in place for a binary search", File: c20CompilerGo, Rule: "C20-R8", Key: "isAllowedForTypename/no-in-place",
				Old: "\treturn slices.Contains(message.MemberTypes, typeName.String())\n", New: "\tslices.Sort(message.MemberTypes)\n\t_, found := slices.BinarySearch(message.MemberTypes, typeName.String())\n\treturn found\n"},
			{Name: "request compiler tests the optional-scalar wrapper before the list wrapper", File: c20CompilerGo, Rule: "C20-R9", Key: "resolveNestedMessage",
				Old: "\tswitch {\n\tcase rpcField.IsListType:\n", New: "\tswitch {\n\tcase rpcField.IsOptionalScalar():\n\t\tif isNullValue(fieldData) {\n\t\t\treturn nil, nil\n\t\t}\n\t\treturn p.buildProtoMessage(p.doc.Messages[field.MessageRef], rpcField.ToOptionalTypeMessage(p.doc.Messages[field.MessageRef].Name), data)\n\tcase rpcField.IsListType:\n"},
			{Name: "response builder handles optional scalars before list wrappers", File: c20JSONGo, Rule: "C20-R9", Key: "marshalResponseJSON",
				Old: "\t\t\t// Handle special list wrapper types for complex nested lists\n\t\t\tif field.IsListType {\n", New: "\t\t\tif field.IsOptionalScalar() {\n\t\t\t\tif err := j.resolveOptionalField(root, field.AliasOrPath(), msg); err != nil {\n\t\t\t\t\treturn nil, err\n\t\t\t\t}\n\t\t\t\tcontinue\n\t\t\t}\n\n\t\t\t// Handle special list wrapper types for complex nested lists\n\t\t\tif field.IsListType {\n"},
		},
	}
}

func runC20(r *fw.Run) {
	pk := r.Prog.Pkg("grpcds")
	if pk == nil {
		r.Error("package grpc_datasource not loaded")
		return
	}
	defer c20LeaveFieldPopsPath(r)
	defer func() {
		r.Rule("C20-R12", "the gRPC planner calls the partial value accessors (ast.Document.ValueContentBytes/String, which panic for five of the nine value kinds) only after a test of the value's kind that admits their domain")
		partialValueAccessorsGuarded(r, "C20-R12", []string{"grpcds"}, 1)
		r.Rule("C20-R13", "in the gRPC planner and compiler the ref of an ast.Value is handed to an accessor of kind K only where the value's kind is known to be K")
		nKR := kindRefAgreement(r, "C20-R13", []string{"grpcds"}, nil)
		r.Note("C20-R13: %d kind-specific uses of a value's ref in grpc_datasource", nKR)
		c20DependencyGraphKeyedByCallID(r)
		c20NoMinifierForGRPC(r)
		c20PresenceOnlyWhereTracked(r)
		c20PlanningMessagesNeverNil(r)
		r.Rule("C20-R14", "in the gRPC planner a response name (alias or name) never reaches a lookup keyed by the schema-side field name")
		nRN := responseNamesNeverReachSchemaLookups(r, "C20-R14", []string{"grpcds"})
		r.Expect("C20-R14", "schema-side field name arguments in grpc_datasource", nRN, 1)
	}()
	r.Rule("C20-R10", "in every gRPC planner visitor a node is looked up only in the document it came from: a definition node (Walker.EnclosingTypeDefinition, TypeDefinitions, a lookup in the definition) is never handed to a method of the operation document, nor the other way round")
	documentProvenance(r, "C20-R10", []string{"grpcds"}, 11)
	r.Assume = append(r.Assume,
		"C20-R8: one DataSource (and so one RPCExecutionPlan) serves concurrent and repeated Load calls; the RPCCall structs themselves are copied per Load by NewDependencyGraph (stores to their own fields are not flagged), everything behind their slices and pointers is shared",
		"C20-R8: a *RPCMessage / *RPCField / *ListMetadata that is not created in the function and is not a parameter fed only with addresses of local copies is assumed to point into the plan",
		"C20-R3: two infeasible-for-a-consistent-mapping paths are frozen (descriptor not found → skip; no member type equals the concrete payload type)",
		"C20-R7: a DataType-typed discriminator on the path is taken to describe the value handed to setValueForKind (tag and argument are different expressions of the same field in traverseList)")
	c20ConverterAgreement(r)
	c20VisitorWiring(r)
	c20NoSilentDrop(r)
	c20ResponseKey(r)
	c20AliasIdentity(r)
	c20CallKinds(r)
	c20ScalarConverterReach(r)
	c20PlanImmutable(r)
	c20WrapperOrder(r)
}

// ---- small local helpers ---------------------------------------------------------------------

// c20Import finds a directly imported package of pkg by path.
func c20Import(pkg *types.Package, path string) *types.Package {
	for _, im := range pkg.Imports() {
		if im.Path() == path {
			return im
		}
	}
	return nil
}

func c20Sorted(m map[string]bool) []string {
	out := make([]string, 0, len(m))
	for k := range m {
		out = append(out, k)
	}
	sort.Strings(out)
	return out
}

// c20IsJSONWrite recognises (*astjson.Value).Set / SetArrayItem; keyIdx is the index of the key / index argument.
func c20IsJSONWrite(info *types.Info, c *ast.CallExpr) (method string, ok bool) {
	fn := fw.Callee(info, c)
	switch {
	case fw.FuncIs(fn, c20AstjsonPath, "Value.Set"):
		return "Set", true
	case fw.FuncIs(fn, c20AstjsonPath, "Value.SetArrayItem"):
		return "SetArrayItem", true
	}
	return "", false
}

// c20Defs lists the right-hand sides assigned to a local object within fi (1:1 assignments and
// value specs only; a multi-value assignment yields a nil entry = unknown).
func c20Defs(fi *fw.FuncInfo, obj types.Object) []ast.Expr {
	info := fi.Info()
	var out []ast.Expr
	fw.WalkAll(fi.Decl.Body, func(n ast.Node) bool {
		switch x := n.(type) {
		case *ast.AssignStmt:
			for i, l := range x.Lhs {
				id, ok := l.(*ast.Ident)
				if !ok {
					continue
				}
				o := info.Defs[id]
				if o == nil {
					o = info.Uses[id]
				}
				if o != obj {
					continue
				}
				if len(x.Lhs) == len(x.Rhs) {
					out = append(out, x.Rhs[i])
				} else {
					out = append(out, nil)
				}
			}
		case *ast.ValueSpec:
			for i, id := range x.Names {
				if info.Defs[id] != obj {
					continue
				}
				if len(x.Values) == len(x.Names) {
					out = append(out, x.Values[i])
				} else if len(x.Values) > 0 {
					out = append(out, nil)
				}
			}
		}
		return true
	})
	return out
}

// c20Resolve follows a local variable that is assigned exactly once to its defining expression.
func c20Resolve(fi *fw.FuncInfo, e ast.Expr) ast.Expr {
	info := fi.Info()
	for i := 0; i < 4; i++ {
		id, ok := ast.Unparen(e).(*ast.Ident)
		if !ok {
			return ast.Unparen(e)
		}
		v, ok := info.Uses[id].(*types.Var)
		if !ok || v.IsField() || v.Parent() == nil || v.Parent() == v.Pkg().Scope() {
			return id
		}
		defs := c20Defs(fi, v)
		if len(defs) != 1 || defs[0] == nil {
			return id
		}
		e = defs[0]
	}
	return ast.Unparen(e)
}

// c20FieldID is how one argument identifies "the operation field it talks about".
type c20FieldID struct {
	Class string // "name" (operation field name), "alias" (operation field alias), "none" (constant ""), "def" (definition name), "?"
	Of    string // canonical key of document receiver + field ref expression
}

func (a c20FieldID) String() string {
	if a.Of == "" {
		return a.Class
	}
	return a.Class + "(" + a.Of + ")"
}

func c20Classify(fi *fw.FuncInfo, e ast.Expr) c20FieldID {
	info := fi.Info()
	e = c20Resolve(fi, e)
	if v, ok := fw.ConstVal(info, e); ok && v == `""` {
		return c20FieldID{Class: "none"}
	}
	c, ok := e.(*ast.CallExpr)
	if !ok || len(c.Args) != 1 {
		return c20FieldID{Class: "?"}
	}
	sel, ok := ast.Unparen(c.Fun).(*ast.SelectorExpr)
	if !ok {
		return c20FieldID{Class: "?"}
	}
	of := fw.ExprKey(info, sel.X) + "#" + fw.ExprKey(info, c20Resolve(fi, c.Args[0]))
	fn := fw.Callee(info, c)
	switch {
	case fw.FuncIs(fn, "ast", "Document.FieldNameString"), fw.FuncIs(fn, "ast", "Document.FieldNameBytes"), fw.FuncIs(fn, "ast", "Document.FieldNameUnsafeString"):
		return c20FieldID{"name", of}
	case fw.FuncIs(fn, "ast", "Document.FieldAliasString"), fw.FuncIs(fn, "ast", "Document.FieldAliasBytes"):
		return c20FieldID{"alias", of}
	case fw.FuncIs(fn, "ast", "Document.FieldAliasOrNameString"), fw.FuncIs(fn, "ast", "Document.FieldAliasOrNameBytes"):
		return c20FieldID{"key", of}
	case fw.FuncIs(fn, "ast", "Document.FieldDefinitionNameString"), fw.FuncIs(fn, "ast", "Document.FieldDefinitionNameBytes"):
		return c20FieldID{"def", of}
	}
	return c20FieldID{Class: "?"}
}

// ---- R1 converter agreement ------------------------------------------------------------------

func c20ConverterAgreement(r *fw.Run) {
	p := r.Prog
	pk := p.Pkg("grpcds")
	info := pk.TypesInfo
	r.Rule("C20-R1", "jsonBuilder.setJSONValue (object position) and setArrayItem (list position) convert the same protobuf kinds, namely every kind of dataTypeMap except MessageKind; dataTypeMap maps each kind to the data type of the same number; RPCCompiler.setValueForKind converts every scalar DataType")

	proto := c20Import(pk.Types, c20ProtoreflectPath)
	if proto == nil || proto.Scope().Lookup("Kind") == nil {
		r.Error("C20-R1: protoreflect.Kind not found among the imports of grpc_datasource")
		return
	}
	kindT := proto.Scope().Lookup("Kind").Type()

	// supported kinds: the keys of dataTypeMap
	supported := map[string]bool{}
	nEntries := 0
	mapObj := pk.Types.Scope().Lookup("dataTypeMap")
	for _, f := range pk.Syntax {
		ast.Inspect(f, func(n ast.Node) bool {
			vs, ok := n.(*ast.ValueSpec)
			if !ok {
				return true
			}
			for i, id := range vs.Names {
				if mapObj == nil || info.Defs[id] != mapObj || i >= len(vs.Values) {
					continue
				}
				cl, ok := ast.Unparen(vs.Values[i]).(*ast.CompositeLit)
				if !ok {
					continue
				}
				for _, el := range cl.Elts {
					kv, ok := el.(*ast.KeyValueExpr)
					if !ok {
						continue
					}
					k, v := fw.ConstObj(info, kv.Key), fw.ConstObj(info, kv.Value)
					if k == nil || v == nil {
						r.Fail("C20-R1", "dataTypeMap/non-constant-entry", p.Pos(kv.Pos()), "dataTypeMap entry is a (kind constant, DataType constant) pair", "the supported-kind table cannot be read statically")
						continue
					}
					nEntries++
					supported[k.Name()] = true
					r.Check(constant.Compare(k.Val(), token.EQL, v.Val()), "C20-R1", "dataTypeMap/"+k.Name()+"-is-identity", p.Pos(kv.Pos()),
						"dataTypeMap maps "+k.Name()+" to the DataType with the same number ("+v.Name()+")",
						"the compiler converts a JSON value with the converter of another type than the protobuf field has ("+k.Name()+" → "+v.Name()+"): dynamicpb rejects the value (panic) or the request carries a truncated number, so the answer is not the projection of the requested data")
				}
			}
			return true
		})
	}
	r.Expect("C20-R1", "entries of dataTypeMap", nEntries, 11)

	want := []string{}
	for _, k := range c20Sorted(supported) {
		if k != "MessageKind" { // messages are rendered recursively by marshalResponseJSON, not by the scalar converters
			want = append(want, k)
		}
	}
	covered := map[string]map[string]bool{}
	var pos = map[string]string{}
	for _, name := range []string{"jsonBuilder.setJSONValue", "jsonBuilder.setArrayItem"} {
		fi := p.Func("grpcds", name)
		if fi == nil {
			r.Error("C20-R1: %s not found", name)
			continue
		}
		sws := fw.ConstSwitches(fi, kindT)
		if len(sws) != 1 {
			r.Error("C20-R1: %s has %d switches over protoreflect.Kind, expected 1", name, len(sws))
			continue
		}
		covered[name] = sws[0].Covered
		pos[name] = p.Pos(sws[0].Stmt.Pos())
		short := strings.TrimPrefix(name, "jsonBuilder.")
		miss := fw.MissingFrom(sws[0].Covered, want)
		r.Check(len(miss) == 0 || sws[0].HasDefault, "C20-R1", short+"/covers-supported-kinds", pos[name], short+" has an arm for every supported scalar kind",
			"supported kinds without an arm: "+strings.Join(miss, ", ")+" — the switch has no default, so a selected field of that kind is silently absent from the JSON (the response no longer has the shape of the selection)")
	}
	r.Expect("C20-R1", "kind switches of the response converters", len(covered), 2)
	if a, b := covered["jsonBuilder.setJSONValue"], covered["jsonBuilder.setArrayItem"]; a != nil && b != nil {
		onlyObj := fw.MissingFrom(b, c20Sorted(a))
		onlyList := fw.MissingFrom(a, c20Sorted(b))
		r.Check(len(onlyObj) == 0 && len(onlyList) == 0, "C20-R1", "object-vs-list/same-kind-set", pos["jsonBuilder.setArrayItem"], "setJSONValue and setArrayItem switch over the same set of kinds",
			"only in object position: ["+strings.Join(onlyObj, ", ")+"], only in list position: ["+strings.Join(onlyList, ", ")+"] — the value of a field depends on whether it is selected inside a list: T renders, [T] yields holes (or vice versa)")
	}

	// request side
	dt := p.Named("grpcds", "DataType")
	if fi := p.Func("grpcds", "RPCCompiler.setValueForKind"); fi == nil || dt == nil {
		r.Error("C20-R1: RPCCompiler.setValueForKind / DataType not found")
	} else {
		sws := fw.ConstSwitches(fi, dt)
		r.Expect("C20-R1", "DataType switch of setValueForKind", len(sws), 1)
		for _, sw := range sws {
			var wantDT []string
			for _, k := range fw.ConstNames(pk.Types, dt) {
				if _, frozen := c20NotScalarConverted[k]; !frozen {
					wantDT = append(wantDT, k)
				}
			}
			miss := fw.MissingFrom(sw.Covered, wantDT)
			r.Check(len(miss) == 0, "C20-R1", "setValueForKind/covers-scalar-datatypes", p.Pos(sw.Stmt.Pos()), "setValueForKind converts every scalar DataType",
				"data types without an arm: "+strings.Join(miss, ", ")+" — the function returns the invalid protoreflect.Value for them and message.Set / list.Append panics in dynamicpb for such an argument")
		}
	}
}

// DataType constants setValueForKind is not expected to convert (frozen, one line of reason each).
var c20NotScalarConverted = map[string]string{
	"DataTypeUnknown": "not a value kind: marks protobuf kinds outside dataTypeMap",
	"DataTypeMessage": "nested messages are built by buildProtoMessage / resolveNestedMessage",
	"DataTypeEnum":    "enum values are resolved by name in getEnumValue (C20-R7 checks that they are routed there)",
	"DataTypeBytes":   "no GraphQL input type is compiled to a bytes field by the supported mapping (gap of today's tree, not claimed)",
}

// ---- R2 visitor wiring -----------------------------------------------------------------------

func c20VisitorWiring(r *fw.Run) {
	p := r.Prog
	pk := p.Pkg("grpcds")
	info := pk.TypesInfo
	r.Rule("C20-R2", "every astvisitor callback (Enter*/Leave*) that a planner visitor type of grpc_datasource implements with a non-empty body is registered on a walker somewhere in the package")
	av := c20Import(pk.Types, fw.PkgPath("astvisitor"))
	if av == nil {
		r.Error("C20-R2: astvisitor is not imported by grpc_datasource")
		return
	}
	// callback universe: methods of the visitor interfaces of astvisitor
	universe := map[string]*types.Signature{}
	for _, name := range av.Scope().Names() {
		tn, ok := av.Scope().Lookup(name).(*types.TypeName)
		if !ok {
			continue
		}
		it, ok := tn.Type().Underlying().(*types.Interface)
		if !ok {
			continue
		}
		for i := 0; i < it.NumMethods(); i++ {
			m := it.Method(i)
			if strings.HasPrefix(m.Name(), "Enter") || strings.HasPrefix(m.Name(), "Leave") {
				universe[m.Name()] = m.Type().(*types.Signature)
			}
		}
	}
	if len(universe) < 20 {
		r.Error("C20-R2: only %d astvisitor callbacks found", len(universe))
		return
	}
	registered := map[*types.Named]map[string]bool{}
	nReg := 0
	fw.EachCall(p.Funcs("grpcds"), func(fi *fw.FuncInfo, c *ast.CallExpr, _ []ast.Node) {
		fn := fw.Callee(info, c)
		if fn == nil || fn.Pkg() != av || !strings.HasPrefix(fn.Name(), "Register") {
			return
		}
		sig := fn.Type().(*types.Signature)
		if sig.Recv() == nil || fw.RecvName(sig.Recv().Type()) != "Walker" {
			return
		}
		for i, a := range c.Args {
			if i >= sig.Params().Len() {
				break
			}
			it, ok := sig.Params().At(i).Type().Underlying().(*types.Interface)
			if !ok {
				continue
			}
			t := info.TypeOf(a)
			if pt, ok := t.(*types.Pointer); ok {
				t = pt.Elem()
			}
			n, ok := types.Unalias(t).(*types.Named)
			if !ok || n.Obj().Pkg() != pk.Types {
				continue
			}
			nReg++
			if registered[n] == nil {
				registered[n] = map[string]bool{}
			}
			for j := 0; j < it.NumMethods(); j++ {
				registered[n][it.Method(j).Name()] = true
			}
		}
	})
	r.Expect("C20-R2", "walker registrations of package visitors", nReg, 13)
	var visitors []*types.Named
	for n := range registered {
		visitors = append(visitors, n)
	}
	sort.Slice(visitors, func(i, j int) bool { return visitors[i].Obj().Name() < visitors[j].Obj().Name() })
	r.Expect("C20-R2", "visitor types", len(visitors), 3)
	nCb := 0
	for _, n := range visitors {
		for i := 0; i < n.NumMethods(); i++ {
			m := n.Method(i)
			want, isCb := universe[m.Name()]
			if !isCb || !types.Identical(m.Type(), want) {
				continue
			}
			nCb++
			key := n.Obj().Name() + "." + m.Name() + "/registered"
			pos := p.Pos(m.Pos())
			if fi := p.FuncOf(m); fi != nil && len(fi.Decl.Body.List) == 0 {
				r.Pass("C20-R2", key, pos, m.Name()+" of "+n.Obj().Name()+" has an empty body (nothing to wire)", false)
				continue
			}
			r.Check(registered[n][m.Name()], "C20-R2", key, pos, "callback "+m.Name()+" of "+n.Obj().Name()+" is registered on a walker",
				"the method exists but the walker never calls it: the part of the plan it builds (request arguments, entity call, message nesting on leave) is silently missing, so the RPC message or the response shape no longer follows the selection")
		}
	}
	r.Expect("C20-R2", "implemented callbacks", nCb, 21)
}

// ---- R3 no silent drop -----------------------------------------------------------------------

// c20KeyHelpers: methods of jsonBuilder that receive the response key as their (only) string parameter and
// write a key of a JSON object, directly or through another such helper: func → index of the key parameter.
// (Whether they write *that* parameter is what C20-R4 checks.)
func c20KeyHelpers(p *fw.Prog) map[*types.Func]int {
	out := map[*types.Func]int{}
	for changed := true; changed; {
		changed = false
		for _, fi := range p.Funcs("grpcds") {
			sig := fi.Obj.Type().(*types.Signature)
			if sig.Recv() == nil || fw.RecvName(sig.Recv().Type()) != "jsonBuilder" {
				continue
			}
			if _, done := out[fi.Obj]; done {
				continue
			}
			idx, n := -1, 0
			for i := 0; i < sig.Params().Len(); i++ {
				if b, ok := sig.Params().At(i).Type().Underlying().(*types.Basic); ok && b.Kind() == types.String {
					idx = i
					n++
				}
			}
			if n != 1 {
				continue
			}
			info := fi.Info()
			writes := false
			fw.WalkAll(fi.Decl.Body, func(nd ast.Node) bool {
				if c, ok := nd.(*ast.CallExpr); ok {
					if m, ok := c20IsJSONWrite(info, c); ok && m == "Set" {
						writes = true
					} else if _, ok := out[fw.Callee(info, c)]; ok {
						writes = true
					}
				}
				return !writes
			})
			if writes {
				out[fi.Obj] = idx
				changed = true
			}
		}
	}
	return out
}

func c20NoSilentDrop(r *fw.Run) {
	p := r.Prog
	pk := p.Pkg("grpcds")
	info := pk.TypesInfo
	r.Rule("C20-R3", "every path through the rendering of one field in marshalResponseJSON writes the field's key (value, null or []), merges the flattened object, or returns an error; every arm of setJSONValue / setArrayItem and every early return of them writes the value")
	helpers := c20KeyHelpers(p)

	// (i) one iteration of the field loop
	fi := p.Func("grpcds", "jsonBuilder.marshalResponseJSON")
	if fi == nil {
		r.Error("C20-R3: jsonBuilder.marshalResponseJSON not found")
		return
	}
	var loop *ast.RangeStmt
	fw.WalkAll(fi.Decl.Body, func(n ast.Node) bool {
		if rs, ok := n.(*ast.RangeStmt); ok && loop == nil && rs.Value != nil && fw.TypeIs(info.TypeOf(rs.Value), "grpcds", "RPCField") {
			loop = rs
		}
		return loop == nil
	})
	if loop == nil {
		r.Error("C20-R3: the loop over the RPCFields of a message was not found in marshalResponseJSON")
		return
	}
	isFieldWrite := func(c *ast.CallExpr) bool {
		if m, ok := c20IsJSONWrite(info, c); ok && m == "Set" {
			return true
		}
		if _, ok := helpers[fw.Callee(info, c)]; ok {
			return true
		}
		return fw.CallIs(info, c, c20AstjsonPath, "MergeValues")
	}
	nWrites, nSkips := 0, 0
	in := fw.NewInterp(fi)
	in.H = fw.Hooks{
		Node: func(n ast.Node, st *fw.State) {
			switch x := n.(type) {
			case *ast.CallExpr:
				if isFieldWrite(x) {
					if in.Final() {
						nWrites++
					}
					st.Kill("pending")
				}
			case *fw.RangeEval:
				// frozen exception (one symbol: RPCMessage.MemberTypes): the __typename of an abstract type is written by the
				// first member type equal to the concrete payload type; payload types and MemberTypes come from the same schema,
				// so "no member matched" is not a feasible path for a consistent mapping.
				if fw.IsFieldSel(info, x.Stmt.X, "grpcds", "RPCMessage", "MemberTypes") {
					writes := false
					fw.WalkCalls(x.Stmt.Body, func(c *ast.CallExpr) {
						if isFieldWrite(c) {
							writes = true
						}
					})
					if writes {
						st.Kill("pending")
					}
				}
			}
		},
		Cond: func(e ast.Expr, branch bool, st *fw.State) {
			// frozen exception (source comment "Field not found in protobuf message - skip it"): a field without a
			// descriptor in the protobuf message is skipped; that is a mapping error, not a path of a valid mapping.
			if x, eq, ok := fw.NilCheck(info, e); ok && eq == branch {
				if id, ok := ast.Unparen(x).(*ast.Ident); ok {
					if named, ok := types.Unalias(info.TypeOf(id)).(*types.Named); ok && named.Obj().Name() == "FieldDescriptor" && named.Obj().Pkg().Path() == c20ProtoreflectPath {
						if in.Final() {
							nSkips++
						}
						st.Kill("pending")
					}
				}
			}
		},
	}
	entry := fw.NewState()
	entry.Set("pending")
	end := in.RunStmts(loop.Body.List, entry)
	r.Check(end != nil && !end.May("pending"), "C20-R3", "marshalResponseJSON/field-written-on-every-path", p.Pos(loop.Pos()),
		"one iteration of the field loop always writes the field's key (or merges / returns an error)",
		"there is a path through the rendering of a selected field that reaches the next field without having written the key: the field is absent from the JSON instead of null / [] — the response does not have the shape (nullability, list-ness) of the selection")
	r.Expect("C20-R3", "key-writing calls in the field loop", nWrites, 9)
	r.Expect("C20-R3", "descriptor-not-found skips (frozen exception)", nSkips, 1)

	// (ii) converters: every arm and every explicit return has written
	proto := c20Import(pk.Types, c20ProtoreflectPath)
	if proto == nil {
		r.Error("C20-R3: protoreflect not imported")
		return
	}
	kindT := proto.Scope().Lookup("Kind").Type()
	nArms, nRets := 0, 0
	for _, name := range []string{"jsonBuilder.setJSONValue", "jsonBuilder.setArrayItem"} {
		cf := p.Func("grpcds", name)
		if cf == nil {
			r.Error("C20-R3: %s not found", name)
			continue
		}
		short := strings.TrimPrefix(name, "jsonBuilder.")
		// the arms of the kind switch, labelled by their kinds
		type arm struct {
			cc    *ast.CaseClause
			label string
		}
		var arms []arm
		for _, sw := range fw.ConstSwitches(cf, kindT) {
			for _, cl := range sw.Stmt.(*ast.SwitchStmt).Body.List {
				cc := cl.(*ast.CaseClause)
				var names []string
				for _, e := range cc.List {
					if k := fw.ConstObj(info, e); k != nil {
						names = append(names, k.Name())
					}
				}
				if cc.List == nil {
					names = []string{"default"}
				}
				arms = append(arms, arm{cc, strings.Join(names, "+")})
			}
		}
		cin := fw.NewInterp(cf)
		cin.H = fw.Hooks{
			Node: func(n ast.Node, st *fw.State) {
				if c, ok := n.(*ast.CallExpr); ok {
					if _, ok := c20IsJSONWrite(info, c); ok {
						st.Set("wrote")
					}
				}
			},
			Exit: func(ret *ast.ReturnStmt, lit *ast.FuncLit, st *fw.State) {
				if ret == nil || lit != nil || !cin.Final() {
					return
				}
				nRets++
				where := "guard"
				for _, a := range arms {
					if a.cc.Pos() <= ret.Pos() && ret.Pos() < a.cc.End() {
						where = "arm:" + a.label
					}
				}
				r.Check(st.Must("wrote"), "C20-R3", short+"/"+where+"/return-after-write", p.Pos(ret.Pos()), "the return in "+where+" of "+short+" happens after a write",
					"the converter returns without having written anything: the key (object position) or the array slot (list position) stays absent — a hole instead of null")
			},
		}
		cin.Run(nil)
		// every arm, taken by itself, writes on every path that leaves it normally (returns were judged above)
		cin.H.Exit = nil
		for _, a := range arms {
			nArms++
			endArm := cin.RunStmts(a.cc.Body, nil)
			r.Check(endArm == nil || endArm.Must("wrote"), "C20-R3", short+"/arm:"+a.label+"/writes", p.Pos(a.cc.Pos()), "arm "+a.label+" of "+short+" writes a value on every path that leaves it normally",
				"a path through the arm ends without a write: a field of kind "+a.label+" is absent (object) or leaves a hole (list) for some value")
		}
	}
	r.Expect("C20-R3", "arms of the response converters", nArms, 16)
	r.Expect("C20-R3", "explicit returns of the response converters", nRets, 6)
}

// ---- R4 response key -------------------------------------------------------------------------

func c20ResponseKey(r *fw.Run) {
	p := r.Prog
	pk := p.Pkg("grpcds")
	info := pk.TypesInfo
	r.Rule("C20-R4", "every site of marshalResponseJSON that writes a key of the response object passes RPCField.AliasOrPath() of the field being rendered; the helpers that receive the key (setJSONValue, resolveOptionalField) write exactly that parameter")
	helpers := c20KeyHelpers(p)
	r.Expect("C20-R4", "key-forwarding helpers of jsonBuilder", len(helpers), 2)

	fi := p.Func("grpcds", "jsonBuilder.marshalResponseJSON")
	if fi == nil {
		r.Error("C20-R4: jsonBuilder.marshalResponseJSON not found")
		return
	}
	var loop *ast.RangeStmt
	fw.WalkAll(fi.Decl.Body, func(n ast.Node) bool {
		if rs, ok := n.(*ast.RangeStmt); ok && loop == nil && rs.Value != nil && fw.TypeIs(info.TypeOf(rs.Value), "grpcds", "RPCField") {
			loop = rs
		}
		return loop == nil
	})
	if loop == nil {
		r.Error("C20-R4: field loop not found")
		return
	}
	fieldObj := info.Defs[loop.Value.(*ast.Ident)]
	d := fw.NewPureDeriver(fi)
	isKeyOfField := func(e ast.Expr) bool {
		c, ok := e.(*ast.CallExpr)
		if !ok || !fw.CallIs(info, c, "grpcds", "RPCField.AliasOrPath") {
			return false
		}
		sel, ok := ast.Unparen(c.Fun).(*ast.SelectorExpr)
		return ok && fw.RootObj(info, sel.X) == fieldObj
	}
	nSites := 0
	fw.WalkAll(loop.Body, func(n ast.Node) bool {
		c, ok := n.(*ast.CallExpr)
		if !ok {
			return true
		}
		var keyArg ast.Expr
		what := ""
		if m, ok := c20IsJSONWrite(info, c); ok && m == "Set" && len(c.Args) == 3 {
			keyArg, what = c.Args[1], "astjson Set"
		} else if idx, ok := helpers[fw.Callee(info, c)]; ok && idx < len(c.Args) {
			keyArg, what = c.Args[idx], "call of "+fw.Callee(info, c).Name()
		}
		if keyArg == nil {
			return true
		}
		nSites++
		r.Check(d.Derives(keyArg, isKeyOfField), "C20-R4", "marshalResponseJSON/key-is-alias-or-path:"+strings.ReplaceAll(what, " ", "-"), p.Pos(c.Pos()),
			what+" in the field loop is keyed by field.AliasOrPath()",
			"this kind of field (scalar / list / object / wrapper / __typename) is written under another key than the alias-or-name of the selection: `a: f` comes back as `f` (or under the protobuf name), and two aliases of one field overwrite each other — adding an alias changes the value of the position")
		return true
	})
	r.Expect("C20-R4", "key-writing sites of the field loop", nSites, 8)

	// helpers pass the key through
	nPass := 0
	var hs []*types.Func
	for h := range helpers {
		hs = append(hs, h)
	}
	sort.Slice(hs, func(i, j int) bool { return hs[i].Name() < hs[j].Name() })
	for _, h := range hs {
		hf := p.FuncOf(h)
		if hf == nil {
			continue
		}
		par := h.Type().(*types.Signature).Params().At(helpers[h])
		hd := fw.NewPureDeriver(hf)
		isPar := func(e ast.Expr) bool {
			id, ok := e.(*ast.Ident)
			return ok && info.Uses[id] == par
		}
		fw.WalkAll(hf.Decl.Body, func(n ast.Node) bool {
			c, ok := n.(*ast.CallExpr)
			if !ok {
				return true
			}
			var keyArg ast.Expr
			if m, ok := c20IsJSONWrite(info, c); ok && m == "Set" && len(c.Args) == 3 {
				keyArg = c.Args[1]
			} else if idx, ok := helpers[fw.Callee(info, c)]; ok && idx < len(c.Args) {
				keyArg = c.Args[idx]
			}
			if keyArg == nil {
				return true
			}
			nPass++
			r.Check(hd.Derives(keyArg, isPar), "C20-R4", hf.Name()+"/writes-the-key-parameter", p.Pos(c.Pos()), hf.Name()+" writes under the key it was given",
				"the helper writes under a key of its own (e.g. the wrapper's field name \"value\") instead of the response key passed by marshalResponseJSON: nullable scalars / scalars lose their alias or collide under one key")
			return true
		})
	}
	r.Expect("C20-R4", "key uses inside the helpers", nPass, 13)
}

// ---- R5 alias identity on the planning side ------------------------------------------------

// frozen: construction sites that build request-side messages, which have no aliases
var c20RequestSideBuilders = map[string]string{
	"requiredFieldsVisitor.EnterField": "walks the synthetic @key / @requires fragment and builds the request-side key/fields message: the fragment has no aliases and the message is never rendered to JSON",
}

type c20Construction struct {
	fi          *fw.FuncInfo
	call        *ast.CallExpr
	name, alias c20FieldID
	via         string
}

func c20AliasIdentity(r *fw.Run) {
	p := r.Prog
	pk := p.Pkg("grpcds")
	info := pk.TypesInfo
	r.Rule("C20-R5", "a response field is built with the name and the alias of the same operation field; the duplicate check (RPCFields.Exists) uses the same (name, alias) identity as the construction that follows it; fragment fields are de-duplicated by AliasOrPath; the merge path of a resolver / @requires call ends in the response key of the field it resolves")

	// (a) construction sites
	var cons []c20Construction
	summaries := map[*types.Func]int{} // helper → index of its field-ref parameter (name and alias both taken from it)
	nBuild := 0
	fw.EachCall(p.Funcs("grpcds"), func(fi *fw.FuncInfo, c *ast.CallExpr, _ []ast.Node) {
		if !fw.CallIs(info, c, "grpcds", "rpcPlanningContext.buildField") || len(c.Args) != 4 {
			return
		}
		nBuild++
		name, alias := c20Classify(fi, c.Args[2]), c20Classify(fi, c.Args[3])
		cons = append(cons, c20Construction{fi, c, name, alias, "buildField"})
		key := fi.Name() + "/name-and-alias-of-one-field"
		pos := p.Pos(c.Pos())
		if why, ok := c20RequestSideBuilders[fi.Name()]; ok {
			r.Pass("C20-R5", key, pos, "buildField in "+fi.Name()+" (exempt: "+why+")", false)
			return
		}
		switch name.Class {
		case "name":
			r.Check(alias.Class == "alias" && alias.Of == name.Of, "C20-R5", key, pos, "buildField in "+fi.Name()+" receives the alias of the field whose name it receives",
				"name is "+name.String()+" but alias is "+alias.String()+": the response field is planned without (or with another field's) alias, so the JSON key is the field name — `a: f` comes back as `f`, and `a: f b: f` collapse into one key")
			// a helper whose name+alias come from one parameter is a construction site at its callers
			sig := fi.Obj.Type().(*types.Signature)
			if alias.Class == "alias" && alias.Of == name.Of {
				for i := 0; i < sig.Params().Len(); i++ {
					if strings.HasSuffix(name.Of, "#"+sig.Params().At(i).Name()) {
						summaries[fi.Obj] = i
					}
				}
			}
		case "def":
			r.Check(alias.Class == "none", "C20-R5", key, pos, "buildField in "+fi.Name()+" builds a request-side field from the definition (no alias)",
				"a context/request field carries an alias ("+alias.String()+") although it is read from the parent message by its protobuf name")
		default:
			r.Error("C20-R5: %s %s: the name argument of buildField is neither an operation field name nor a definition name (%s); the alias identity cannot be decided", pos, fi.Name(), name.String())
		}
	})
	r.Expect("C20-R5", "calls of buildField", nBuild, 8)
	// calls of summarised helpers are construction sites too
	fw.EachCall(p.Funcs("grpcds"), func(fi *fw.FuncInfo, c *ast.CallExpr, _ []ast.Node) {
		fn := fw.Callee(info, c)
		idx, ok := summaries[fn]
		if !ok || idx >= len(c.Args) {
			return
		}
		// the helper reads <doc>.FieldNameString(param): the document receiver is the helper's, which is the caller's
		// planning context as well; compare on the field-ref expression only
		ref := fw.ExprKey(info, c20Resolve(fi, c.Args[idx]))
		cons = append(cons, c20Construction{fi, c, c20FieldID{"name", "#" + ref}, c20FieldID{"alias", "#" + ref}, fn.Name()})
	})

	// (b) duplicate checks
	refOf := func(of string) string {
		if i := strings.LastIndexByte(of, '#'); i >= 0 {
			return of[i+1:]
		}
		return of
	}
	nExists := 0
	fw.EachCall(p.Funcs("grpcds"), func(fi *fw.FuncInfo, c *ast.CallExpr, _ []ast.Node) {
		if !fw.CallIs(info, c, "grpcds", "RPCFields.Exists") || len(c.Args) != 2 {
			return
		}
		nExists++
		name, alias := c20Classify(fi, c.Args[0]), c20Classify(fi, c.Args[1])
		key := fi.Name() + "/dedupe-identity-matches-construction"
		pos := p.Pos(c.Pos())
		var match *c20Construction
		for i := range cons {
			k := &cons[i]
			if k.fi == fi && k.call.Pos() > c.Pos() && k.name.Class == name.Class && refOf(k.name.Of) == refOf(name.Of) {
				match = k
				break
			}
		}
		if match == nil {
			r.Error("C20-R5: %s %s: no construction (buildField or a helper that calls it) of %s follows the duplicate check; the identity used for de-duplication cannot be compared", pos, fi.Name(), name.String())
			return
		}
		same := alias.Class == match.alias.Class && refOf(alias.Of) == refOf(match.alias.Of)
		r.Check(same, "C20-R5", key, pos, "Exists("+name.String()+", "+alias.String()+") in "+fi.Name()+" uses the alias the field is then built with (via "+match.via+")",
			"the duplicate check looks for (name, "+alias.String()+") but the field is built with alias "+match.alias.String()+": `f x: f` drops the aliased selection x (the un-aliased f is found and the construction is skipped) while `x: f f` keeps both — the response depends on the order of the selections and an added alias can disappear")
	})
	r.Expect("C20-R5", "calls of RPCFields.Exists", nExists, 4)

	// (c) fragment-field de-duplication by response key
	if fi := p.Func("grpcds", "RPCFieldSelectionSet.SelectFieldsForTypes"); fi == nil {
		r.Error("C20-R5: RPCFieldSelectionSet.SelectFieldsForTypes not found")
	} else {
		d := fw.NewPureDeriver(fi)
		n := 0
		fw.WalkAll(fi.Decl.Body, func(nd ast.Node) bool {
			ix, ok := nd.(*ast.IndexExpr)
			if !ok {
				return true
			}
			m, ok := info.TypeOf(ix.X).Underlying().(*types.Map)
			if !ok {
				return true
			}
			if st, ok := m.Elem().Underlying().(*types.Struct); !ok || st.NumFields() != 0 {
				return true // not the seen-set
			}
			n++
			r.Check(d.Derives(ix.Index, func(e ast.Expr) bool {
				c, ok := e.(*ast.CallExpr)
				return ok && fw.CallIs(info, c, "grpcds", "RPCField.AliasOrPath")
			}), "C20-R5", fi.Name()+"/seen-set-keyed-by-response-key", p.Pos(ix.Pos()), "the seen-set of SelectFieldsForTypes is indexed by field.AliasOrPath()",
				"fragment fields are de-duplicated by something else than their response key: `... on T { a: f b: f }` loses b (keyed by name), or the same key is rendered twice")
			return true
		})
		r.Expect("C20-R5", "seen-set accesses in SelectFieldsForTypes", n, 2)
	}

	// (d) merge path tail
	nPath := 0
	fw.EachNode(p.Funcs("grpcds"), func(fi *fw.FuncInfo, nd ast.Node, _ []ast.Node) {
		cl, ok := nd.(*ast.CompositeLit)
		if !ok {
			return
		}
		t := info.TypeOf(cl)
		switch {
		case fw.TypeIs(t, "grpcds", "resolverField"):
			var refE, pathE ast.Expr
			for _, el := range cl.Elts {
				if kv, ok := el.(*ast.KeyValueExpr); ok {
					if k, ok := kv.Key.(*ast.Ident); ok {
						switch k.Name {
						case "fieldRef":
							refE = kv.Value
						case "responsePath":
							pathE = kv.Value
						}
					}
				}
			}
			if refE == nil || pathE == nil {
				return
			}
			nPath++
			want := fw.ExprKey(info, c20Resolve(fi, refE))
			ok := false
			got := "no FieldAliasOrName… call"
			fw.WalkAll(pathE, func(m ast.Node) bool {
				if e, isE := m.(ast.Expr); isE {
					if id := c20Classify(fi, e); id.Class == "key" {
						got = id.String()
						if refOf(id.Of) == want {
							ok = true
						}
					}
				}
				return true
			})
			r.Check(ok, "C20-R5", fi.Name()+"/merge-path-ends-in-response-key", p.Pos(cl.Pos()), "responsePath of the resolver field in "+fi.Name()+" ends in FieldAliasOrName(fieldRef)",
				"the path under which the resolver result is merged ("+got+") is not the alias-or-name of the resolved field: mergeWithPath reads and writes element \"name\" while the result object is keyed by the alias, so an aliased resolver field is never filled in (or fills the wrong key)")
		case fw.TypeIs(t, "grpcds", "RPCCall"):
			var pathLit *ast.CompositeLit
			var respE ast.Expr
			for _, el := range cl.Elts {
				if kv, ok := el.(*ast.KeyValueExpr); ok {
					if k, ok := kv.Key.(*ast.Ident); ok {
						switch k.Name {
						case "ResponsePath":
							pathLit, _ = ast.Unparen(kv.Value).(*ast.CompositeLit)
						case "Response":
							respE = kv.Value
						}
					}
				}
			}
			if pathLit == nil || len(pathLit.Elts) == 0 || respE == nil {
				return
			}
			nPath++
			// receiver of AliasOrPath in the last path item …
			recv := ""
			fw.WalkAll(pathLit.Elts[len(pathLit.Elts)-1], func(m ast.Node) bool {
				if c, ok := m.(*ast.CallExpr); ok && fw.CallIs(info, c, "grpcds", "RPCField.AliasOrPath") {
					if sel, ok := ast.Unparen(c.Fun).(*ast.SelectorExpr); ok {
						recv = fw.ExprKey(info, sel.X)
					}
				}
				return true
			})
			// … is the field placed in the result message
			placed := false
			fw.WalkAll(respE, func(m ast.Node) bool {
				if fl, ok := m.(*ast.CompositeLit); ok && fw.TypeIs(info.TypeOf(fl), "grpcds", "RPCFields") {
					for _, el := range fl.Elts {
						if recv != "" && fw.ExprKey(info, el) == recv {
							placed = true
						}
					}
				}
				return true
			})
			r.Check(recv != "" && placed, "C20-R5", fi.Name()+"/merge-path-ends-in-response-key", p.Pos(cl.Pos()), "ResponsePath literal of the call built in "+fi.Name()+" ends in AliasOrPath() of the field placed in the result message",
				"the last path element is not the response key of the result field: the @requires value is merged under another key than the one marshalResponseJSON writes, so the entity keeps no value (or a value under the un-aliased name)")
		}
	})
	r.Expect("C20-R5", "merge paths built from a field", nPath, 3)
}

// ---- R6 call kinds ---------------------------------------------------------------------------

func c20CallKinds(r *fw.Run) {
	p := r.Prog
	pk := p.Pkg("grpcds")
	info := pk.TypesInfo
	r.Rule("C20-R6", "RPCCompiler.CompileNode builds a request for every CallKind; DataSource.Load merges a result by path exactly for the kinds whose plans carry a ResponsePath")
	ck := p.Named("grpcds", "CallKind")
	if ck == nil {
		r.Error("C20-R6: CallKind not found")
		return
	}
	all := fw.ConstNames(pk.Types, ck)
	if fi := p.Func("grpcds", "RPCCompiler.CompileNode"); fi == nil {
		r.Error("C20-R6: RPCCompiler.CompileNode not found")
	} else {
		sws := fw.ConstSwitches(fi, ck)
		r.Expect("C20-R6", "CallKind switch of CompileNode", len(sws), 1)
		for _, sw := range sws {
			miss := fw.MissingFrom(sw.Covered, all)
			r.Check(len(miss) == 0, "C20-R6", "RPCCompiler.CompileNode/compiles-every-call-kind", p.Pos(sw.Stmt.Pos()), "CompileNode has an arm for every CallKind",
				"call kinds without an arm: "+strings.Join(miss, ", ")+" — the switch has no failing default, the request stays nil and the call is invoked with a nil message (panic / empty request), so that part of the selection has no data")
		}
	}
	// reader: the merge dispatch of Load
	load := p.Func("grpcds", "DataSource.Load")
	if load == nil {
		r.Error("C20-R6: DataSource.Load not found")
		return
	}
	byPath := map[string]bool{}
	nSw := 0
	for _, sw := range fw.ConstSwitches(load, ck) {
		usesMerge := false
		for _, cl := range sw.Stmt.(*ast.SwitchStmt).Body.List {
			cc := cl.(*ast.CaseClause)
			path := false
			for _, s := range cc.Body {
				fw.WalkAll(s, func(n ast.Node) bool {
					if c, ok := n.(*ast.CallExpr); ok && fw.CallIs(info, c, "grpcds", "jsonBuilder.mergeWithPath") {
						path = true
					}
					return true
				})
			}
			if path {
				usesMerge = true
				for _, e := range cc.List {
					if k := fw.ConstObj(info, e); k != nil {
						byPath[k.Name()] = true
					}
				}
				if cc.List == nil { // default arm merges by path: every kind not named elsewhere
					for _, k := range all {
						if !sw.Covered[k] {
							byPath[k] = true
						}
					}
				}
			}
		}
		if usesMerge {
			nSw++
		}
	}
	r.Expect("C20-R6", "merge dispatch over CallKind in Load", nSw, 1)
	if nSw == 0 {
		return
	}
	// writers: RPCCall literals
	zero := ""
	for _, c := range fw.ConstsOfType(pk.Types, ck) {
		if v, ok := constant.Int64Val(c.Val()); ok && v == 0 {
			zero = c.Name()
		}
	}
	nLit := 0
	fw.EachNode(p.Funcs("grpcds"), func(fi *fw.FuncInfo, nd ast.Node, _ []ast.Node) {
		cl, ok := nd.(*ast.CompositeLit)
		if !ok || len(cl.Elts) == 0 || !fw.TypeIs(info.TypeOf(cl), "grpcds", "RPCCall") {
			return
		}
		if _, isPtr := info.TypeOf(cl).(*types.Pointer); isPtr {
			return
		}
		kind, hasPath := zero, false
		for _, el := range cl.Elts {
			kv, ok := el.(*ast.KeyValueExpr)
			if !ok {
				return // positional literal: not used in this package
			}
			k, _ := kv.Key.(*ast.Ident)
			if k == nil {
				continue
			}
			switch k.Name {
			case "Kind":
				if c := fw.ConstObj(info, kv.Value); c != nil {
					kind = c.Name()
				} else {
					kind = "?"
				}
			case "ResponsePath":
				hasPath = true
			}
		}
		nLit++
		r.Check(kind != "?" && hasPath == byPath[kind], "C20-R6", fi.Name()+"/merge-mode-matches-plan:"+kind, p.Pos(cl.Pos()),
			"the "+kind+" call built in "+fi.Name()+" (ResponsePath set: "+c20YesNo(hasPath)+") is merged "+map[bool]string{true: "by path", false: "at the root"}[byPath[kind]]+" in Load",
			"plan and merge disagree for "+kind+": a call that carries a response path is merged at the root (its {\"result\":[…]} envelope appears in data and the field it resolves stays empty), or a call without a path goes to mergeWithPath, which fails with \"path is empty\"")
	})
	r.Expect("C20-R6", "RPCCall literals of the planner", nLit, 4)
}

func c20YesNo(b bool) string {
	if b {
		return "yes"
	}
	return "no"
}

// ---- R7 the request-side scalar converter is reached only with scalar kinds -------------

func c20ScalarConverterReach(r *fw.Run) {
	p := r.Prog
	pk := p.Pkg("grpcds")
	info := pk.TypesInfo
	r.Rule("C20-R7", "every call of RPCCompiler.setValueForKind is dominated by a DataType dispatch that routes away the kinds it does not convert (enum → getEnumValue), in object, repeated and wrapper-list position alike")
	dt := p.Named("grpcds", "DataType")
	conv := p.Func("grpcds", "RPCCompiler.setValueForKind")
	if dt == nil || conv == nil {
		r.Error("C20-R7: DataType / setValueForKind not found")
		return
	}
	all := fw.ConstNames(pk.Types, dt)
	covered := map[string]bool{}
	for _, sw := range fw.ConstSwitches(conv, dt) {
		for k := range sw.Covered {
			covered[k] = true
		}
	}
	// kinds that must have been excluded before the call: not converted, and not frozen as "cannot arrive"
	frozen := map[string]string{
		"DataTypeUnknown": "kinds outside dataTypeMap: the schema compiler would have to accept such a field first (not claimed)",
		"DataTypeBytes":   "see C20-R1: no GraphQL input type is compiled to bytes by the supported mapping",
		"DataTypeMessage": "message-typed fields are routed by Field.MessageRef / the MessageKind arms, a discriminator this rule does not read",
	}
	var must []string
	for _, k := range all {
		if !covered[k] && frozen[k] == "" {
			must = append(must, k)
		}
	}
	if len(must) == 0 {
		r.Error("C20-R7: setValueForKind converts every DataType; nothing to route away (rule vacuous)")
		return
	}
	isDT := func(e ast.Expr) bool {
		t := info.TypeOf(e)
		return t != nil && types.Identical(t, dt)
	}
	nSites := 0
	for _, fi := range p.Funcs("grpcds") {
		has := false
		fw.WalkAll(fi.Decl.Body, func(n ast.Node) bool {
			if c, ok := n.(*ast.CallExpr); ok && fw.Callee(info, c) == conv.Obj {
				has = true
			}
			return !has
		})
		if !has {
			continue
		}
		in := fw.NewInterp(fi)
		in.H = fw.Hooks{
			Cond: func(e ast.Expr, branch bool, st *fw.State) {
				a := fw.Atom(info, e, branch)
				if a.Kind != "Ne" {
					return
				}
				for _, pair := range [][2]ast.Expr{{a.X, a.Y}, {a.Y, a.X}} {
					if k := fw.ConstObj(info, pair[1]); k != nil && isDT(pair[0]) && isDT(pair[1]) {
						st.Set("not:" + k.Name())
					}
				}
			},
			Case: func(tag ast.Expr, vals []ast.Expr, match bool, st *fw.State) {
				if !isDT(tag) || vals == nil {
					return
				}
				named := map[string]bool{}
				for _, v := range vals {
					if k := fw.ConstObj(info, v); k != nil {
						named[k.Name()] = true
					}
				}
				for _, k := range all {
					if named[k] != match {
						st.Set("not:" + k)
					}
				}
			},
			Node: func(n ast.Node, st *fw.State) {
				c, ok := n.(*ast.CallExpr)
				if !ok || !in.Final() || fw.Callee(info, c) != conv.Obj {
					return
				}
				nSites++
				for _, k := range must {
					r.Check(st.Must("not:"+k), "C20-R7", fi.Name()+"/setValueForKind-excludes:"+k, p.Pos(c.Pos()), k+" is routed away before setValueForKind in "+fi.Name(),
						"a value of kind "+k+" reaches setValueForKind, which has no arm for it and returns the invalid protoreflect.Value: message.Set / list.Append panics in dynamicpb (\"assigning invalid type\"), i.e. the same argument type works in one position (single value / wrapper list) and crashes the request in another (repeated field)")
				}
			},
		}
		in.Run(nil)
	}
	r.Expect("C20-R7", "calls of setValueForKind", nSites, 3)
}

// ---- R8 plan-owned memory is not written at run time ---------------------------------------

var c20PlanOwners = map[string]bool{"RPCMessage": true, "RPCField": true, "ListMetadata": true, "LevelInfo": true, "RPCExecutionPlan": true}

// every type through which plan memory can be reached
var c20PlanTypes = map[string]bool{"RPCMessage": true, "RPCField": true, "ListMetadata": true, "LevelInfo": true, "RPCExecutionPlan": true, "RPCCall": true, "RPCFields": true, "RPCFieldSelectionSet": true}

type c20Own struct {
	fi       *fw.FuncInfo
	info     *types.Info
	copyOnly map[*types.Var]bool
}

// c20CopyOnlyParams: pointer parameters (to plan structs) that at every call site of the package receive the
// address of a local struct variable (a shallow private copy: `for _, f := range m.Fields { g(&f) }`) or another such
// parameter. A store to a field of the struct itself through such a parameter does not reach the plan; what hangs
// off its pointer / slice fields still does.
func c20CopyOnlyParams(p *fw.Prog) map[*types.Var]bool {
	type site struct {
		fi *fw.FuncInfo
		c  *ast.CallExpr
	}
	sites := map[*types.Func][]site{}
	fw.EachCall(p.Funcs("grpcds"), func(fi *fw.FuncInfo, c *ast.CallExpr, _ []ast.Node) {
		if g := p.FuncOf(fw.Callee(fi.Info(), c)); g != nil {
			sites[g.Obj] = append(sites[g.Obj], site{fi, c})
		}
	})
	type par struct {
		fn  *types.Func
		idx int
	}
	cand := map[*types.Var]bool{}
	where := map[*types.Var]par{}
	for _, fi := range p.Funcs("grpcds") {
		sig := fi.Obj.Type().(*types.Signature)
		if sig.Variadic() {
			continue
		}
		for i := 0; i < sig.Params().Len(); i++ {
			v := sig.Params().At(i)
			if pt, ok := types.Unalias(v.Type()).(*types.Pointer); ok {
				if n, ok := types.Unalias(pt.Elem()).(*types.Named); ok && c20PlanOwners[n.Obj().Name()] && n.Obj().Pkg() == fi.Obj.Pkg() {
					cand[v] = len(sites[fi.Obj]) > 0
					where[v] = par{fi.Obj, i}
				}
			}
		}
	}
	for changed := true; changed; {
		changed = false
		for v, ok := range cand {
			if !ok {
				continue
			}
			w := where[v]
			for _, s := range sites[w.fn] {
				good := false
				if w.idx < len(s.c.Args) {
					info := s.fi.Info()
					switch x := ast.Unparen(s.c.Args[w.idx]).(type) {
					case *ast.UnaryExpr:
						if id, isID := ast.Unparen(x.X).(*ast.Ident); isID && x.Op == token.AND {
							if lv, isVar := info.Uses[id].(*types.Var); isVar && !lv.IsField() && lv.Parent() != lv.Pkg().Scope() {
								if _, isStruct := lv.Type().Underlying().(*types.Struct); isStruct {
									good = true
								}
							}
						}
					case *ast.Ident:
						if pv, isVar := info.Uses[x].(*types.Var); isVar && cand[pv] {
							good = true
						}
					}
				}
				if !good {
					cand[v] = false
					changed = true
					break
				}
			}
		}
	}
	return cand
}

func (o c20Own) planNamed(t types.Type) string {
	if t == nil {
		return ""
	}
	if pt, ok := types.Unalias(t).(*types.Pointer); ok {
		t = pt.Elem()
	}
	n, ok := types.Unalias(t).(*types.Named)
	if !ok || n.Obj().Pkg() == nil || n.Obj().Pkg().Path() != fw.PkgPath("grpcds") {
		return ""
	}
	return n.Obj().Name()
}

// fresh: the variable only ever holds values created in this function (&T{…}, new, make, literals).
func (o c20Own) fresh(e ast.Expr, seen map[types.Object]bool) bool {
	switch x := ast.Unparen(e).(type) {
	case *ast.CompositeLit:
		return true
	case *ast.UnaryExpr:
		if x.Op == token.AND {
			if _, ok := ast.Unparen(x.X).(*ast.CompositeLit); ok {
				return true
			}
		}
	case *ast.CallExpr:
		b := fw.Builtin(o.info, x)
		return b == "new" || b == "make"
	case *ast.Ident:
		v, ok := o.info.Uses[x].(*types.Var)
		if !ok || seen[v] {
			return false
		}
		seen[v] = true
		defs := c20Defs(o.fi, v)
		if len(defs) == 0 {
			return false // parameter, receiver, range variable
		}
		for _, d := range defs {
			if d == nil || !o.fresh(d, seen) {
				return false
			}
		}
		return true
	}
	return false
}

// aliased: the slice/map value may share its backing store with the plan.
func (o c20Own) aliased(e ast.Expr, seen map[types.Object]bool) bool {
	switch x := ast.Unparen(e).(type) {
	case *ast.SelectorExpr:
		if v, sel := fw.Field(o.info, x); v != nil {
			_, owner := fw.FieldOwner(o.info, sel)
			if c20PlanOwners[owner] || owner == "RPCCall" {
				switch v.Type().Underlying().(type) {
				case *types.Slice, *types.Map:
					return !o.fresh(x.X, map[types.Object]bool{})
				}
			}
		}
	case *ast.SliceExpr:
		return o.aliased(x.X, seen)
	case *ast.IndexExpr:
		// element of a plan-owned map of slices (RPCFieldSelectionSet)
		if _, ok := o.info.TypeOf(x.X).Underlying().(*types.Map); ok {
			return o.aliased(x.X, seen) || (o.planNamed(o.info.TypeOf(x.X)) != "" && !o.fresh(x.X, map[types.Object]bool{}))
		}
	case *ast.CallExpr:
		if fw.Builtin(o.info, x) == "append" && len(x.Args) > 0 {
			return o.aliased(x.Args[0], seen)
		}
	case *ast.Ident:
		v, ok := o.info.Uses[x].(*types.Var)
		if !ok || seen[v] {
			return false
		}
		seen[v] = true
		defs := c20Defs(o.fi, v)
		if len(defs) == 0 {
			// parameter / receiver of a plan collection type
			switch o.planNamed(v.Type()) {
			case "RPCFields", "RPCFieldSelectionSet":
				return true
			}
			return false
		}
		for _, d := range defs {
			if d != nil && o.aliased(d, seen) {
				return true
			}
		}
	}
	return false
}

// shared: the storage location denoted by lhs lives in plan-owned memory.
func (o c20Own) shared(lhs ast.Expr) (bool, string) {
	switch x := ast.Unparen(lhs).(type) {
	case *ast.SelectorExpr:
		v, sel := fw.Field(o.info, x)
		if v == nil {
			return false, ""
		}
		_, owner := fw.FieldOwner(o.info, sel)
		xt := o.info.TypeOf(x.X)
		if _, isPtr := types.Unalias(xt).Underlying().(*types.Pointer); isPtr {
			if id, isID := ast.Unparen(x.X).(*ast.Ident); isID {
				if pv, isVar := o.info.Uses[id].(*types.Var); isVar && o.copyOnly[pv] {
					return false, "" // the struct behind this parameter is a private shallow copy at every call site
				}
			}
			if c20PlanOwners[owner] && !o.fresh(x.X, map[types.Object]bool{}) {
				return true, owner + "." + v.Name() + " through a plan pointer"
			}
			return false, ""
		}
		// struct value: the field lives where the struct lives
		return o.shared(x.X)
	case *ast.IndexExpr:
		switch o.info.TypeOf(x.X).Underlying().(type) {
		case *types.Slice, *types.Map:
			if o.aliased(x.X, map[types.Object]bool{}) {
				return true, "element of a plan-owned " + types.TypeString(o.info.TypeOf(x.X), func(*types.Package) string { return "" })
			}
			return false, ""
		}
		return o.shared(x.X)
	case *ast.StarExpr:
		if n := o.planNamed(o.info.TypeOf(x.X)); c20PlanOwners[n] && !o.fresh(x.X, map[types.Object]bool{}) {
			return true, "*" + n
		}
	}
	return false, ""
}

func c20PlanImmutable(r *fw.Run) {
	p := r.Prog
	r.Rule("C20-R8", "the functions reachable from DataSource.Load never store into plan-owned memory: no assignment to RPCMessage / RPCField / ListMetadata / RPCExecutionPlan state through a plan pointer or slice element, and no append onto a slice that aliases a plan slice (the plan of a DataSource is shared by all concurrent and later requests)")
	load := p.Func("grpcds", "DataSource.Load")
	if load == nil {
		r.Error("C20-R8: DataSource.Load not found")
		return
	}
	// run-time closure inside the package
	closure := map[*fw.FuncInfo]bool{load: true}
	work := []*fw.FuncInfo{load}
	for len(work) > 0 {
		fi := work[len(work)-1]
		work = work[:len(work)-1]
		fw.WalkAll(fi.Decl.Body, func(n ast.Node) bool {
			if c, ok := n.(*ast.CallExpr); ok {
				if g := p.FuncOf(fw.Callee(fi.Info(), c)); g != nil && g.Pkg == fi.Pkg && !closure[g] {
					closure[g] = true
					work = append(work, g)
				}
			}
			return true
		})
	}
	var fis []*fw.FuncInfo
	for fi := range closure {
		fis = append(fis, fi)
	}
	sort.Slice(fis, func(i, j int) bool { return fis[i].Name() < fis[j].Name() })
	r.Expect("C20-R8", "functions reachable from DataSource.Load", len(fis), 73)
	for _, must := range []string{"jsonBuilder.marshalResponseJSON", "RPCCompiler.buildProtoMessage", "jsonBuilder.mergeWithPath"} {
		if f := p.Func("grpcds", must); f == nil || !closure[f] {
			r.Error("C20-R8: %s is not in the run-time closure of Load (call graph changed; rule would be vacuous)", must)
		}
	}
	for _, never := range []string{"rpcPlanningContext.buildField", "rpcPlanVisitor.EnterField"} {
		if f := p.Func("grpcds", never); f != nil && closure[f] {
			r.Error("C20-R8: planner function %s is reachable from Load; the run-time/plan-time split this rule relies on is gone", never)
		}
	}
	copyOnly := c20CopyOnlyParams(p)
	nCopy := 0
	for _, ok := range copyOnly {
		if ok {
			nCopy++
		}
	}
	r.Extra["c20_copy_only_pointer_params"] = nCopy
	nStores, nAppends, nFuncs := 0, 0, 0
	for _, fi := range fis {
		o := c20Own{fi, fi.Info(), copyOnly}
		// can the function reach plan memory at all? (a parameter, receiver or expression of a plan type)
		reaches := false
		sig := fi.Obj.Type().(*types.Signature)
		if sig.Recv() != nil && c20PlanTypes[o.planNamed(sig.Recv().Type())] {
			reaches = true
		}
		fw.WalkAll(fi.Decl, func(n ast.Node) bool {
			if e, ok := n.(ast.Expr); ok && !reaches {
				if tv, ok := o.info.Types[e]; ok && tv.IsValue() && c20PlanTypes[o.planNamed(tv.Type)] {
					reaches = true
				}
			}
			return !reaches
		})
		stores, appends, bad := 0, 0, 0
		checkStore := func(lhs ast.Expr, pos token.Pos) {
			stores++
			isBad, what := o.shared(lhs)
			if !isBad {
				return
			}
			bad++
			r.Fail("C20-R8", fi.Name()+"/no-store-into-plan:"+fw.ExprKey(o.info, lhs), p.Pos(pos), "store to "+fw.ExprKey(o.info, lhs)+" in "+fi.Name()+" does not reach plan memory",
				"run-time code writes "+what+": the execution plan is built once per operation and shared by every Load on the DataSource, so one request changes the message shape (fields, nesting level, nullability) that concurrent and later requests render with")
		}
		fw.WalkAll(fi.Decl.Body, func(n ast.Node) bool {
			switch x := n.(type) {
			case *ast.AssignStmt:
				for _, l := range x.Lhs {
					if _, isID := ast.Unparen(l).(*ast.Ident); !isID {
						checkStore(l, l.Pos())
					}
				}
			case *ast.IncDecStmt:
				if _, isID := ast.Unparen(x.X).(*ast.Ident); !isID {
					checkStore(x.X, x.Pos())
				}
			case *ast.CallExpr:
				if mut := c20InPlaceMutator(o.info, x); mut != "" && len(x.Args) > 0 {
					appends++
					if o.aliased(x.Args[0], map[types.Object]bool{}) {
						bad++
						r.Fail("C20-R8", fi.Name()+"/no-in-place-"+mut+"-of-plan-slice:"+fw.ExprKey(o.info, x.Args[0]), p.Pos(x.Pos()), mut+" in "+fi.Name()+" does not rewrite a slice that aliases the plan",
							mut+"("+fw.ExprKey(o.info, x.Args[0])+", …) rewrites the elements of a plan-owned slice in place while other requests iterate over it")
					}
				}
				if fw.Builtin(o.info, x) == "append" && len(x.Args) > 0 {
					appends++
					if se, ok := ast.Unparen(x.Args[0]).(*ast.SliceExpr); ok && se.Slice3 && se.High != nil && se.Max != nil && fw.ExprKey(o.info, se.High) == fw.ExprKey(o.info, se.Max) {
						break // s[:n:n] has no spare capacity: append always copies
					}
					if o.aliased(x.Args[0], map[types.Object]bool{}) {
						bad++
						r.Fail("C20-R8", fi.Name()+"/no-append-onto-plan-slice:"+fw.ExprKey(o.info, x.Args[0]), p.Pos(x.Pos()), "append in "+fi.Name()+" does not extend a slice that aliases the plan",
							"append("+fw.ExprKey(o.info, x.Args[0])+", …) starts from a plan-owned slice: whenever that slice has spare capacity (planner slices are made with the capacity of the selection set, or grown by append) the new elements are written into the plan's backing array — two concurrent Loads on one DataSource overwrite each other's elements and render the fields of the other request's concrete type (fields of the selection go missing); clone the slice first")
					}
				}
			}
			return true
		})
		nStores += stores
		nAppends += appends
		if reaches {
			nFuncs++
			if bad == 0 {
				r.Pass("C20-R8", fi.Name()+"/plan-read-only", fi.Pos(), fi.Name()+" handles plan values and stores nothing into plan memory ("+c20Itoa(stores)+" stores, "+c20Itoa(appends)+" appends examined)", stores+appends > 0)
			}
		}
	}
	r.Expect("C20-R8", "run-time functions that handle plan values", nFuncs, 27)
	r.Expect("C20-R8", "stores examined in the run-time closure", nStores, 13)
	r.Expect("C20-R8", "appends examined in the run-time closure", nAppends, 20)
}

// c20InPlaceMutator names calls that rewrite the elements of their first argument in place.
func c20InPlaceMutator(info *types.Info, c *ast.CallExpr) string {
	switch b := fw.Builtin(info, c); b {
	case "copy", "clear":
		return b
	}
	fn := fw.Callee(info, c)
	if fn == nil || fn.Pkg() == nil {
		return ""
	}
	switch fn.Pkg().Path() + "." + fn.Name() {
	case "slices.Sort", "slices.SortFunc", "slices.SortStableFunc", "slices.Reverse", "sort.Slice", "sort.SliceStable", "sort.Strings", "sort.Ints", "sort.Sort", "sort.Stable":
		return fn.Name()
	}
	return ""
}

func c20Itoa(n int) string {
	if n == 0 {
		return "0"
	}
	s := ""
	for n > 0 {
		s = string(rune('0'+n%10)) + s
		n /= 10
	}
	return s
}

// ---- R9 list wrapper before optional-scalar wrapper -----------------------------------------

// A nullable list of scalars is planned with Optional=true, a scalar ProtoTypeName *and* IsListType=true
// (rpcPlanningContext.buildField / buildInputMessageField), so RPCField.IsOptionalScalar() is true for it as well.
// Both consumers of the plan therefore have to ask "is it a list wrapper?" first.
func c20WrapperOrder(r *fw.Run) {
	p := r.Prog
	pk := p.Pkg("grpcds")
	info := pk.TypesInfo
	r.Rule("C20-R9", "wherever the plan is consumed, RPCField.IsOptionalScalar() is consulted only after IsListType of the same field was found false (response builder and request compiler dispatch the wrapper kinds in the same order)")
	n := 0
	for _, fi := range p.Funcs("grpcds") {
		uses := false
		fw.WalkAll(fi.Decl.Body, func(nd ast.Node) bool {
			if c, ok := nd.(*ast.CallExpr); ok && fw.CallIs(info, c, "grpcds", "RPCField.IsOptionalScalar") {
				uses = true
			}
			return !uses
		})
		if !uses {
			continue
		}
		in := fw.NewInterp(fi)
		in.H = fw.Hooks{Cond: func(e ast.Expr, branch bool, st *fw.State) {
			e = ast.Unparen(e)
			if fw.IsFieldSel(info, e, "grpcds", "RPCField", "IsListType") {
				if !branch {
					st.Set("notlist:" + fw.ExprKey(info, e.(*ast.SelectorExpr).X))
				}
				return
			}
			c, ok := e.(*ast.CallExpr)
			if !ok || !fw.CallIs(info, c, "grpcds", "RPCField.IsOptionalScalar") || !in.Final() || !branch {
				return
			}
			sel, ok := ast.Unparen(c.Fun).(*ast.SelectorExpr)
			if !ok {
				return
			}
			n++
			r.Check(st.Must("notlist:"+fw.ExprKey(info, sel.X)), "C20-R9", fi.Name()+"/list-wrapper-tested-before-optional-scalar", p.Pos(c.Pos()),
				"IsOptionalScalar() in "+fi.Name()+" is reached only when IsListType of the same field is false",
				"a nullable list of scalars ([T], planned with Optional, a scalar type and IsListType) is taken for an optional scalar wrapper: the builder looks for a field \"value\" in the ListOfT wrapper (error for the whole response) / the compiler builds a {value: …} message for a list argument — the field works as T and as [T!]! but not as [T]")
		}}
		in.Run(nil)
	}
	r.Expect("C20-R9", "consumers that test IsOptionalScalar", n, 2)
}

// c20LeaveFieldPopsPath (R11): both gRPC plan visitors keep the path of the field being planned in a stack (fieldPath):
// EnterField / enterFieldResolver push the field, LeaveField pops it. The context paths of field resolvers are computed
// from that stack, so a LeaveField exit that forgets the pop leaves the name of a finished field on it: from the second
// root field on every resolver path starts with the previous root's name, the resolver calls find nothing and are silently
// skipped — `{users categories{productCount}}` loses productCount while the reordered query keeps it. Every exit of every
// LeaveField of a visitor that owns a fieldPath has popped it exactly once (the sibling visitors agree).
func c20LeaveFieldPopsPath(r *fw.Run) {
	p := r.Prog
	r.Rule("C20-R11", "every exit of LeaveField of a gRPC plan visitor that keeps a fieldPath stack has popped the stack exactly once (rpcPlanVisitor and rpcPlanVisitorFederation agree)")
	n := 0
	for _, fi := range p.Funcs("grpcds") {
		if fi.Obj.Name() != "LeaveField" || fi.Decl.Recv == nil {
			continue
		}
		info := fi.Info()
		recvT := fw.RecvName(recvTypeOrNil(fi.Obj))
		// does the receiver type own a fieldPath that some method pushes?
		owns := false
		for _, m := range p.Funcs("grpcds") {
			if fw.RecvName(recvTypeOrNil(m.Obj)) != recvT {
				continue
			}
			mi := m.Info()
			fw.WalkAll(m.Decl.Body, func(nd ast.Node) bool {
				if as, ok := nd.(*ast.AssignStmt); ok && len(as.Lhs) == 1 && len(as.Rhs) == 1 {
					if fv, _ := fw.Field(mi, as.Lhs[0]); fv != nil && fv.Name() == "fieldPath" {
						if c, isCall := ast.Unparen(as.Rhs[0]).(*ast.CallExpr); isCall {
							if fn := fw.Callee(mi, c); fn != nil && strings.HasPrefix(fn.Name(), "With") {
								owns = true
							}
						}
					}
				}
				return true
			})
		}
		if !owns {
			continue
		}
		ord := 0
		in := fw.NewInterp(fi)
		in.H = fw.Hooks{
			Node: func(nd ast.Node, st *fw.State) {
				as, ok := nd.(*ast.AssignStmt)
				if !ok || len(as.Lhs) != 1 || len(as.Rhs) != 1 {
					return
				}
				if fv, _ := fw.Field(info, as.Lhs[0]); fv == nil || fv.Name() != "fieldPath" {
					return
				}
				if c, isCall := ast.Unparen(as.Rhs[0]).(*ast.CallExpr); isCall {
					if fn := fw.Callee(info, c); fn != nil && fn.Name() == "RemoveLastItem" {
						st.Inc("popped")
					}
				}
			},
			Exit: func(ret *ast.ReturnStmt, lit *ast.FuncLit, st *fw.State) {
				if lit != nil || !in.Final() {
					return
				}
				n++
				ord++
				pos := fi.Decl.End()
				if ret != nil {
					pos = ret.Pos()
				}
				r.Check(st.Get("popped") == fw.Cnt{Min: 1, Max: 1}, "C20-R11", recvT+".LeaveField/pops-field-path-once#"+itoa(ord), p.Pos(pos), "this exit of "+recvT+".LeaveField has popped fieldPath exactly once",
					"the field leaves without its name being removed from the path stack (or it is removed twice): the context paths of the field resolvers planned afterwards are computed from a stack that still holds finished fields — their calls find nothing at that path and are silently skipped, so the answer depends on the order of the root fields")
			},
		}
		in.Run(nil)
	}
	r.Expect("C20-R11", "exits of LeaveField in visitors that own a fieldPath", n, 6)
}

// c20DependencyGraphKeyedByCallID (R15): RPCCall.DependentCalls holds the ids of the calls a call waits for, and the
// scheduler follows them as indices into DependencyGraph.nodes / fetches. The planner appends calls in the order it
// meets them, which is not the order of their ids (a nested resolver is planned before the next root field). Writer and
// reader agree only if the graph is filled under the call's ID: every element write of DependencyGraph.nodes / .fetches
// uses a key that derives from RPCCall.ID, and FetchItem.ID is fed from RPCCall.ID — never from the position in Calls.
func c20DependencyGraphKeyedByCallID(r *fw.Run) {
	p := r.Prog
	r.Rule("C20-R15", "the gRPC dependency graph is filled under the id of each call (element writes of DependencyGraph.nodes / fetches and FetchItem.ID derive from RPCCall.ID): its readers follow DependentCalls, which hold ids")
	n := 0
	for _, fi := range p.Funcs("grpcds") {
		info := fi.Info()
		var d *localDeriver
		fromCallID := func(e ast.Expr) bool {
			if d == nil {
				d = newLocalDeriver(fi)
			}
			return d.Derives(e, func(x ast.Expr) bool { return fw.IsFieldSel(info, x, "grpcds", "RPCCall", "ID") })
		}
		fw.WalkAll(fi.Decl.Body, func(nd ast.Node) bool {
			switch x := nd.(type) {
			case *ast.AssignStmt:
				for _, l := range x.Lhs {
					ix, ok := ast.Unparen(l).(*ast.IndexExpr)
					if !ok {
						continue
					}
					which := ""
					for _, f := range []string{"nodes", "fetches"} {
						if fw.IsFieldSel(info, ix.X, "grpcds", "DependencyGraph", f) {
							which = f
						}
					}
					if which == "" {
						continue
					}
					n++
					r.Check(fromCallIDSel(info, ix.Index) || fromCallID(ix.Index), "C20-R15", fi.Name()+"/keyed-by-call-id:"+which, p.Pos(ix.Pos()), "the element of DependencyGraph."+which+" written in "+fi.Name()+" is addressed by the id of the call",
						"DependencyGraph."+which+" is filled under a key that does not derive from RPCCall.ID (the position in Calls?): DependentCalls refer to ids, so with two resolver fields, or a nested resolver before another root field, a call waits for — and takes its context from — the wrong call")
				}
			case *ast.CompositeLit:
				if tv, ok := info.Types[x]; !ok || !fw.TypeIs(tv.Type, "grpcds", "FetchItem") {
					return true
				}
				for _, el := range x.Elts {
					kv, ok := el.(*ast.KeyValueExpr)
					if !ok {
						continue
					}
					if k, isID := kv.Key.(*ast.Ident); isID && k.Name == "ID" {
						n++
						r.Check(fromCallIDSel(info, kv.Value) || fromCallID(kv.Value), "C20-R15", fi.Name()+"/keyed-by-call-id:FetchItem.ID", p.Pos(kv.Pos()), "FetchItem.ID built in "+fi.Name()+" is the id of the call",
							"FetchItem.ID is not fed from RPCCall.ID: results are stored and looked up under a number that DependentCalls do not refer to")
					}
				}
			}
			return true
		})
	}
	r.Expect("C20-R15", "writes that key the dependency graph", n, 3)
}

func fromCallIDSel(info *types.Info, e ast.Expr) bool {
	return fw.IsFieldSel(info, ast.Unparen(e), "grpcds", "RPCCall", "ID")
}

// c20NoMinifierForGRPC (R16): the gRPC data source compiles the upstream operation the GraphQL planner prints; the
// minifier rewrites repeated selection sets into generated fragments, which the gRPC planner does not resolve (fields
// behind a minifier fragment are missing from the compiled call, i.e. from the answer). Whether a planner instance serves
// a gRPC data source is known from its configuration, which is set when the planner is registered — after the factory may
// already have enabled the minifier. The exemption therefore has to be decided where the minifier is used: every call of
// Minifier.Minify in the GraphQL planner is dominated by a false outcome of Configuration.IsGRPC().
func c20NoMinifierForGRPC(r *fw.Run) {
	p := r.Prog
	r.Rule("C20-R16", "every call of astminify.Minifier.Minify in the GraphQL data source planner is dominated by a false outcome of Configuration.IsGRPC() (decided at the point of use, where the configuration is known)")
	n := 0
	for _, fi := range p.Funcs("gqlds") {
		info := fi.Info()
		has := false
		isMinify := func(c *ast.CallExpr) bool {
			fn := fw.Callee(info, c)
			return fn != nil && fn.Name() == "Minify" && fn.Pkg() != nil && strings.HasSuffix(fn.Pkg().Path(), "/astminify")
		}
		fw.WalkAll(fi.Decl.Body, func(nd ast.Node) bool {
			if c, ok := nd.(*ast.CallExpr); ok && isMinify(c) {
				has = true
			}
			return true
		})
		if !has {
			continue
		}
		in := fw.NewInterp(fi)
		in.H = fw.Hooks{
			Cond: func(e ast.Expr, branch bool, st *fw.State) {
				op, leaves := fw.NNF(info, e, branch)
				if op != "atom" && op != "and" {
					return
				}
				for _, a := range leaves {
					if a.Kind != "False" {
						continue
					}
					if c, isCall := ast.Unparen(a.X).(*ast.CallExpr); isCall {
						if fn := fw.Callee(info, c); fn != nil && fn.Name() == "IsGRPC" {
							st.Set("not-grpc")
						}
					}
				}
			},
			Node: func(nd ast.Node, st *fw.State) {
				c, ok := nd.(*ast.CallExpr)
				if !ok || !in.Final() || !isMinify(c) {
					return
				}
				n++
				r.Check(st.Must("not-grpc"), "C20-R16", fi.Name()+"/minify-only-when-not-grpc", p.Pos(c.Pos()), "the upstream operation is minified in "+fi.Name()+" only where the configuration is known not to be a gRPC one",
					"Minify is reachable for a gRPC configuration: the compiled gRPC call is built from an operation whose repeated selection sets were moved into generated fragments, and the fields behind them are missing from the answer")
			},
		}
		in.Run(nil)
	}
	r.Expect("C20-R16", "uses of the subgraph operation minifier in the GraphQL planner", n, 1)
}

// c20PresenceOnlyWhereTracked (R17): protoreflect.Message.Has answers "is populated", which for a proto3 scalar without
// explicit presence means "is not the zero value": "", 0, false and the first enum value are indistinguishable from unset.
// Treating !Has(fd) as "the field is absent" therefore drops legitimate zero values (a context field that is 0 or "" for
// some items of a list shifts or fails the resolver call for them). In the gRPC data source Has may be asked only of a
// field whose descriptor tracks presence: every call of Message.Has is dominated by a true outcome of
// FieldDescriptor.HasPresence(). (No such call exists today; the seeded mutant is the positive control.)
func c20PresenceOnlyWhereTracked(r *fw.Run) {
	p := r.Prog
	r.Rule("C20-R17", "protoreflect.Message.Has is asked only of fields whose descriptor tracks presence (dominated by FieldDescriptor.HasPresence()): for a proto3 scalar 'not populated' is the zero value, not absence")
	isProtoreflect := func(fn *types.Func, name string) bool {
		return fn != nil && fn.Name() == name && fn.Pkg() != nil && strings.HasSuffix(fn.Pkg().Path(), "/protoreflect")
	}
	n := 0
	for _, fi := range p.Funcs("grpcds") {
		info := fi.Info()
		has := false
		fw.WalkAll(fi.Decl.Body, func(nd ast.Node) bool {
			if c, ok := nd.(*ast.CallExpr); ok && isProtoreflect(fw.Callee(info, c), "Has") {
				has = true
			}
			return true
		})
		if !has {
			continue
		}
		in := fw.NewInterp(fi)
		in.H = fw.Hooks{
			Cond: func(e ast.Expr, branch bool, st *fw.State) {
				op, leaves := fw.NNF(info, e, branch)
				if op != "atom" && op != "and" {
					return
				}
				for _, a := range leaves {
					if c, isCall := ast.Unparen(a.X).(*ast.CallExpr); isCall && a.Kind == "True" && isProtoreflect(fw.Callee(info, c), "HasPresence") {
						st.Set("tracks-presence")
					}
				}
			},
			Node: func(nd ast.Node, st *fw.State) {
				c, ok := nd.(*ast.CallExpr)
				if !ok || !in.Final() || !isProtoreflect(fw.Callee(info, c), "Has") {
					return
				}
				n++
				r.Check(st.Must("tracks-presence"), "C20-R17", fi.Name()+"/presence-only-where-tracked", p.Pos(c.Pos()), "Message.Has in "+fi.Name()+" is asked only where the field descriptor tracks presence",
					"Message.Has is asked of a field that may be a proto3 scalar without presence: an unpopulated field is then the zero value, not an absent one — \"\", 0, false and the first enum value are dropped from the data handed to resolvers or rendered to the client")
			},
		}
		in.Run(nil)
	}
	if n == 0 {
		r.Pass("C20-R17", "no-presence-questions", "", "the gRPC data source never asks protoreflect.Message.Has (nothing to decide; the seeded mutant is the positive control)", false)
	}
}

// c20PlanningMessagesNeverNil (R18): the gRPC planner visitors collect the fields they meet in "the current request /
// response message", two pointers in planningInfo that EnterField dereferences for every field it plans. A field can be
// the first thing the walker meets below a root field (`_entities { __typename ... on Product { … } }`), so the pointers
// have to be non-nil before any field is entered: they are set in the literal that constructs the visitor, or in
// EnterDocument / EnterOperationDefinition, or EnterField itself assigns them (directly or through a method of the
// visitor) on every path before its first dereference — the root field, which every other field is below, sets them
// first. Setting them in the callback of some other node kind (the first inline fragment) is not enough.
func c20PlanningMessagesNeverNil(r *fw.Run) {
	p := r.Prog
	r.Rule("C20-R18", "the planning messages the gRPC planner visitors dereference in EnterField (planningInfo.current{Request,Response}Message) are non-nil before any field is entered: set at construction, in EnterDocument / EnterOperationDefinition, or by EnterField itself before its first dereference")
	n := 0
	for _, vt := range []string{"rpcPlanVisitor", "rpcPlanVisitorFederation"} {
		methods := map[string]*fw.FuncInfo{}
		for _, fi := range p.Funcs("grpcds") {
			if strings.HasPrefix(fi.Name(), vt+".") {
				methods[strings.TrimPrefix(fi.Name(), vt+".")] = fi
			}
		}
		enterField := methods["EnterField"]
		if enterField == nil {
			continue
		}
		for _, f := range []string{"currentRequestMessage", "currentResponseMessage"} {
			isPtr := func(info *types.Info, e ast.Expr) bool { // <recv>.planInfo.<f>
				return fw.IsFieldSel(info, e, "grpcds", "planningInfo", f)
			}
			// methods that assign the pointer (directly, or by calling one that does)
			assigns := map[*fw.FuncInfo]bool{}
			for changed := true; changed; {
				changed = false
				for _, m := range methods {
					if assigns[m] {
						continue
					}
					info := m.Info()
					fw.WalkAll(m.Decl.Body, func(nd ast.Node) bool {
						switch x := nd.(type) {
						case *ast.AssignStmt:
							for _, l := range x.Lhs {
								if isPtr(info, l) {
									assigns[m] = true
								}
							}
						case *ast.CallExpr:
							if callee := p.FuncOf(fw.Callee(info, x)); callee != nil && assigns[callee] {
								assigns[m] = true
							}
						}
						return true
					})
					if assigns[m] {
						changed = true
					}
				}
			}
			// dereferenced in EnterField?
			info := enterField.Info()
			derefs := false
			fw.WalkAll(enterField.Decl.Body, func(nd ast.Node) bool {
				if sel, ok := nd.(*ast.SelectorExpr); ok && isPtr(info, sel.X) {
					derefs = true
				}
				return true
			})
			if !derefs {
				continue
			}
			n++
			// (a) the constructing literal
			atStart := false
			for _, fi := range p.Funcs("grpcds") {
				cinfo := fi.Info()
				fw.WalkAll(fi.Decl.Body, func(nd ast.Node) bool {
					cl, ok := nd.(*ast.CompositeLit)
					if !ok || !fw.TypeIs(cinfo.TypeOf(cl), "grpcds", "planningInfo") {
						return true
					}
					// only a literal nested in the literal of the visitor itself counts as construction
					for _, el := range cl.Elts {
						if kv, isKV := el.(*ast.KeyValueExpr); isKV {
							if k, isID := kv.Key.(*ast.Ident); isID && k.Name == f && !strings.HasPrefix(fi.Name(), vt+".") && constructs(cinfo, fi, vt) {
								atStart = true
							}
						}
					}
					return true
				})
			}
			// (b) a callback that precedes every field
			for _, cb := range []string{"EnterDocument", "EnterOperationDefinition"} {
				if m := methods[cb]; m != nil && assigns[m] {
					atStart = true
				}
			}
			// (c) EnterField assigns before its first dereference, on every path
			okInField := true
			if !atStart {
				in := fw.NewInterp(enterField)
				in.H = fw.Hooks{
					Lit: func(l *ast.FuncLit, ctx fw.LitCtx, st *fw.State) fw.LitMode { return fw.LitSkip },
					Node: func(nd ast.Node, st *fw.State) {
						switch x := nd.(type) {
						case *ast.AssignStmt:
							for _, l := range x.Lhs {
								if isPtr(info, l) {
									st.Set("assigned")
								}
							}
						case *ast.CallExpr:
							if callee := p.FuncOf(fw.Callee(info, x)); callee != nil && assigns[callee] {
								st.Set("assigned")
							}
						case *ast.SelectorExpr:
							if in.Final() && isPtr(info, x.X) && !st.Must("assigned") {
								okInField = false
							}
						}
					},
				}
				in.Run(nil)
			}
			r.Check(atStart || okInField, "C20-R18", vt+"/planning-message-never-nil:"+f, p.Pos(enterField.Decl.Pos()), "planningInfo."+f+" is non-nil whenever "+vt+".EnterField dereferences it",
				"planningInfo."+f+" is dereferenced in "+vt+".EnterField but is set neither when the visitor is constructed, nor in EnterDocument / EnterOperationDefinition, nor by EnterField itself before the dereference: a field that the walker enters before the callback that sets it (a __typename directly below _entities, in front of the first entity fragment) panics the planner with a nil pointer dereference")
		}
	}
	r.Expect("C20-R18", "planning message pointers dereferenced by EnterField", n, 2)
}

// constructs: fi returns (a pointer to) a value of the named visitor type built by a composite literal.
func constructs(info *types.Info, fi *fw.FuncInfo, typeName string) bool {
	found := false
	fw.WalkAll(fi.Decl.Body, func(nd ast.Node) bool {
		if cl, ok := nd.(*ast.CompositeLit); ok && fw.TypeIs(info.TypeOf(cl), "grpcds", typeName) {
			found = true
		}
		return true
	})
	return found
}
