package rules

import (
	"go/ast"
	"go/token"
	"go/types"
	"sort"
	"strings"

	"verif/checker/fw"
)

const (
	c18T = "subtransport"
	c18P = "subprotocol"
	c18C = "subcommon"

	c18Dir         = "v2/pkg/engine/datasource/graphql_datasource/subscriptionclient/"
	wsTransportGo  = c18Dir + "transport/ws_transport.go"
	wsConnGo       = c18Dir + "transport/ws_conn.go"
	sseTransportGo = c18Dir + "transport/sse_transport.go"
	gwsGo          = c18Dir + "protocol/graphql_ws.go"

	lkSubs = "transport.wsConnection.subsMu"
	lkWST  = "transport.WSTransport.mu"
	lkSSE  = "transport.SSETransport.mu"

	fSubsOpen  = "under:" + lkSubs + ":open"
	fSubsEmpty = "under:" + lkSubs + ":empty"
	fCASWon    = "cas:won"
)

func init() {
	Registry["C18"] = Spec{
		Pkgs: map[string][]string{"v2": {c18T, c18P, c18C}},
		Run:  runC18,
		Explanation: "Decides the structural half of 'upstream connections are multiplexed without cross-talk': every common.Options field the WebSocket dial path reads is fed to the connection key on every path, components separated, and the table is indexed by that key; " +
			"the routing tables (wsConnection.subs, WSTransport.conns/dialing, SSETransport.conns) are touched only under their locks while handlers, unregister callbacks and network I/O run outside them; " +
			"the teardown of a connection is dominated by closed.CompareAndSwap(false,true), a coalesced dial publishes conn/err before the single close(done) on every exit, removes its dialing entry, stores only established connections and reuses only live ones; " +
			"dispatch looks the handler up by the message's own id, tolerates unknown ids, ends the subscription on exactly Complete/Error and only that id, the read loop covers every wire message type, wire id = table id in subscribe/decode; " +
			"a waiter of a coalesced dial can leave through its own context and (context provenance) does not receive the dialling subscriber's cancellation; a connection unregisters only itself and an empty connection is closed; " +
			"the closed flag of an idle connection is flipped atomically with the admission test of subscribe and a refused admission is retried instead of returned. It does not decide message order, idle-period timing or conns→0 over histories.",
		Mutants: []Mutant{
			{Name: "an undecodable next payload is a connection error again (reverts part of the F73 fix)", File: "v2/pkg/engine/datasource/graphql_datasource/subscriptionclient/protocol/graphql_transport_ws.go", Rule: "C18-R14", Key: "graphqlTransportWS.decode/addressed-fault-stays-with-its-subscription",
				Old: "\t\t\t\tif raw.ID == \"\" {\n\t\t\t\t\treturn nil, fmt.Errorf(\"unmarshal next payload: %w\", err)\n\t\t\t\t}\n", New: "\t\t\t\tif raw.ID != \"\\x00\" {\n\t\t\t\t\treturn nil, fmt.Errorf(\"unmarshal next payload: %w\", err)\n\t\t\t\t}\n"},
			{Name: "waiters re-dial only on context.Canceled again (reverts part of the F53 fix)", File: wsTransportGo, Rule: "C18-R13", Key: "WSTransport.getOrDial/waiter-returns-shared-error-only-after-testing-the-record",
				Old: "if ctx.Err() == nil && (result.diallerGone || errors.Is(result.err, context.Canceled)) {", New: "if ctx.Err() == nil && errors.Is(result.err, context.Canceled) {"},
			{Name: "ping stamped after the write returned (reverts the F38 fix)", File: "v2/pkg/engine/datasource/graphql_datasource/subscriptionclient/transport/ws_conn.go", Rule: "C18-R12", Key: "wsConnection.sendPing/ping-stamped-before-write",
				Old: "\tprevious := c.lastPingSentAt.Swap(time.Now().UnixNano())\n\tif err := pinger.Ping(pingCtx, c.conn); err != nil {\n\t\tc.lastPingSentAt.Store(previous)\n\t\treturn err\n\t}\n\treturn nil\n",
				New: "\tif err := pinger.Ping(pingCtx, c.conn); err != nil {\n\t\treturn err\n\t}\n\tc.lastPingSentAt.Store(time.Now().UnixNano())\n\treturn nil\n"},
			{Name: "subscribe returns the subscriber's context error without the idle check (reverts the F37 fix)", File: "v2/pkg/engine/datasource/graphql_datasource/subscriptionclient/transport/ws_conn.go", Rule: "C18-R11", Key: "wsConnection.subscribe/error-exit-runs-idle-check",
				Old: "\t\tc.removeSub(id)\n\t\treturn nil, err\n\t}\n\n\tc.subsMu.Lock()\n", New: "\t\treturn nil, err\n\t}\n\n\tc.subsMu.Lock()\n"},
			{Name: "subscribe message written under the subscriber's own context (the repaired defect F20)", File: wsConnGo, Rule: "C18-R9", Key: "wsConnection.subscribe/Subscribe-under-connection-context",
				Old: "\tsubscribeCtx, subscribeCancel := context.WithTimeout(c.ctx, c.writeTimeout)", New: "\tsubscribeCtx, subscribeCancel := context.WithTimeout(ctx, c.writeTimeout)"},
			{Name: "failed subscribe removes its table entry with a bare delete", File: "v2/pkg/engine/datasource/graphql_datasource/subscriptionclient/transport/ws_conn.go", Rule: "C18-R8", Key: "wsConnection.subscribe/delete-from-subs",
				Old: "\t\t)\n\t\tc.removeSub(id)\n\t\treturn nil, err\n", New: "\t\t)\n\t\tc.subsMu.Lock()\n\t\tdelete(c.subs, id)\n\t\tc.subsMu.Unlock()\n\t\treturn nil, err\n"},
			{Name: "headers dropped from the connection key", File: wsTransportGo, Rule: "C18-R1", Key: "key<-Headers",
				Old: "\t\t_ = opts.Headers.Write(h)\n", New: "\t\t_ = opts.Headers\n"},
			{Name: "separator between endpoint and subprotocol removed", File: wsTransportGo, Rule: "C18-R1", Key: "separated:WSSubprotocol",
				Old: "\t_, _ = h.WriteString(opts.Endpoint)\n\t_, _ = h.WriteString(\"\\x00\")\n", New: "\t_, _ = h.WriteString(opts.Endpoint)\n"},
			{Name: "headers keyed only when there are at least two", File: wsTransportGo, Rule: "C18-R1", Key: "key<-Headers",
				Old: "\tif len(opts.Headers) > 0 {\n\t\t_ = opts.Headers.Write(h)", New: "\tif len(opts.Headers) > 1 {\n\t\t_ = opts.Headers.Write(h)"},
			{Name: "dial starts to depend on an option that is not in the key", File: wsTransportGo, Rule: "C18-R1", Key: "key<-SSEMethod",
				Old: "websocket.Dial(ctx, opts.Endpoint, &websocket.DialOptions{", New: "websocket.Dial(ctx, opts.Endpoint+string(opts.SSEMethod), &websocket.DialOptions{"},
			{Name: "handler invoked with the routing lock still held (defer-unlock refactor)", File: wsConnGo, Rule: "C18-R2", Key: "dispatch/outside-locks:handler",
				Old: "\thandler, exists := c.subs[msg.ID]\n\tc.subsMu.RUnlock()\n", New: "\thandler, exists := c.subs[msg.ID]\n\tdefer c.subsMu.RUnlock()\n"},
			{Name: "unsubscribe reads the routing table without the lock", File: wsConnGo, Rule: "C18-R2", Key: "unsubscribe/read:wsConnection.subs",
				Old: "\tc.subsMu.Lock()\n\t_, exists := c.subs[id]\n\tc.subsMu.Unlock()\n", New: "\t_, exists := c.subs[id]\n"},
			{Name: "coalesced dial runs with the transport lock held", File: wsTransportGo, Rule: "C18-R2", Key: "getOrDial/outside-locks:io:WSTransport.dial",
				Old: "\tt.dialing[key] = result\n\tt.mu.Unlock()\n\n\tconn, err := t.dial(ctx, key, opts)\n\n\tresult.conn = conn\n\tresult.err = err\n\tresult.diallerGone = err != nil && ctx.Err() != nil\n\tclose(result.done)\n\n\tt.mu.Lock()\n",
				New: "\tt.dialing[key] = result\n\n\tconn, err := t.dial(ctx, key, opts)\n\n\tresult.conn = conn\n\tresult.err = err\n\tresult.diallerGone = err != nil && ctx.Err() != nil\n\tclose(result.done)\n\n"},
			{Name: "SSE connection removed from the table without the lock", File: sseTransportGo, Rule: "C18-R2", Key: "SSETransport.removeConn/write:SSETransport.conns",
				Old: "\tt.mu.Lock()\n\tdelete(t.conns, conn)\n\tt.mu.Unlock()\n", New: "\tdelete(t.conns, conn)\n"},
			{Name: "shutdown no longer guarded by the compare-and-swap", File: wsConnGo, Rule: "C18-R3", Key: "teardown/once:",
				Old: "\tif !c.closed.CompareAndSwap(false, true) {\n\t\treturn\n\t}\n\tc.teardown(err)\n", New: "\tc.closed.Store(true)\n\tc.teardown(err)\n"},
			{Name: "waiters woken before the dial error is stored", File: wsTransportGo, Rule: "C18-R3", Key: "publish-before-close:err",
				Old: "\tresult.err = err\n\tresult.diallerGone = err != nil && ctx.Err() != nil\n\tclose(result.done)\n", New: "\tresult.diallerGone = err != nil && ctx.Err() != nil\n\tclose(result.done)\n\tresult.err = err\n"},
			{Name: "early return on dial error before waking the waiters", File: wsTransportGo, Rule: "C18-R3", Key: "exit-after-create",
				Old: "\tconn, err := t.dial(ctx, key, opts)\n\n\tresult.conn = conn\n", New: "\tconn, err := t.dial(ctx, key, opts)\n\tif err != nil {\n\t\treturn nil, err\n\t}\n\n\tresult.conn = conn\n"},
			{Name: "failed dial stored in the connection table", File: wsTransportGo, Rule: "C18-R3", Key: "publish-conn-only-on-success",
				Old: "\tif err == nil {\n\t\tt.conns[key] = conn\n\t}\n", New: "\tt.conns[key] = conn\n"},
			{Name: "closed connection handed out for reuse", File: wsTransportGo, Rule: "C18-R3", Key: "reuse-only-live",
				Old: "if conn, ok := t.conns[key]; ok && !conn.isClosed() {", New: "if conn, ok := t.conns[key]; ok {"},
			{Name: "every message ends its subscription", File: wsConnGo, Rule: "C18-R4", Key: "dispatch/remove-only-on-terminal",
				Old: "\tif msg.Type == protocol.MessageComplete || msg.Type == protocol.MessageError {\n\t\tc.removeSub(msg.ID)\n\t}\n", New: "\tc.removeSub(msg.ID)\n"},
			{Name: "an upstream error no longer ends its subscription", File: wsConnGo, Rule: "C18-R4", Key: "dispatch/terminal-removes",
				Old: "\tif msg.Type == protocol.MessageComplete || msg.Type == protocol.MessageError {\n", New: "\tif msg.Type == protocol.MessageComplete {\n"},
			{Name: "read loop drops error messages", File: wsConnGo, Rule: "C18-R4", Key: "readLoop/",
				Old: "\t\tcase protocol.MessageData, protocol.MessageError, protocol.MessageComplete:\n", New: "\t\tcase protocol.MessageData, protocol.MessageComplete:\n"},
			{Name: "message for an unknown id calls a nil handler", File: wsConnGo, Rule: "C18-R4", Key: "dispatch/handler-exists",
				Old: "\tif !exists {\n\t\treturn\n\t}\n\n\thandler(msg.IntoClientMessage())\n", New: "\t_ = exists\n\n\thandler(msg.IntoClientMessage())\n"},
			{Name: "legacy decoder forgets the message id", File: gwsGo, Rule: "C18-R4", Key: "graphqlWS.decode/wire-id",
				Old: "\tmsg := &WireMessage{\n\t\tID: raw.ID,\n\t}\n", New: "\tmsg := &WireMessage{}\n"},
			{Name: "waiter of a coalesced dial cannot leave on its own cancellation", File: wsTransportGo, Rule: "C18-R5", Key: "wait-with-own-ctx",
				Old: "\t\tselect {\n\t\tcase <-ctx.Done():\n\t\t\treturn nil, ctx.Err()\n\t\tcase <-result.done:\n\t\t}\n", New: "\t\t<-result.done\n"},
			{Name: "waiter watches the transport context instead of its own", File: wsTransportGo, Rule: "C18-R5", Key: "wait-with-own-ctx",
				Old: "\t\tcase <-ctx.Done():\n\t\t\treturn nil, ctx.Err()\n\t\tcase <-result.done:\n", New: "\t\tcase <-t.ctx.Done():\n\t\t\treturn nil, ctx.Err()\n\t\tcase <-result.done:\n"},
			{Name: "connection no longer unregisters itself when it closes", File: wsTransportGo, Rule: "C18-R6", Key: "dial/onEmpty-unregisters-own-key",
				Old: "\t\tonEmpty:      func() { t.removeConn(key, conn) },\n", New: "\t\tonEmpty:      func() { _ = conn },\n"},
			{Name: "empty connection without idle timeout is never closed", File: wsConnGo, Rule: "C18-R6", Key: "removeSub/empty-leads-to-close",
				Old: "\t\t\tcloseNow = c.closed.CompareAndSwap(false, true)\n", New: "\t\t\tcloseNow = false\n"},
			{Name: "subscribe tests closed before taking the routing lock", File: wsConnGo, Rule: "C18-R7", Key: "subscribe/admit-after-closed-check",
				Old: "\tc.subsMu.Lock()\n\n\tif c.closed.Load() {\n\t\tc.subsMu.Unlock()\n\t\treturn nil, common.ErrConnectionClosed\n\t}\n", New: "\tif c.closed.Load() {\n\t\treturn nil, common.ErrConnectionClosed\n\t}\n\n\tc.subsMu.Lock()\n"},
		},
	}
}

func runC18(r *fw.Run) {
	defer c18SharedWritesUnderConnectionContext(r)
	defer c18AddressedFaultsStayWithTheirSubscription(r)
	defer c18WaitersLearnWhetherTheDiallerWasGone(r)
	defer c18PingStampedBeforeWrite(r)
	defer c18SubscribeExitsRunIdleCheck(r)
	p := r.Prog
	for _, a := range []string{c18T, c18P, c18C} {
		if p.Pkg(a) == nil {
			r.Error("package %s not loaded", fw.PkgPath(a))
			return
		}
	}
	for _, tn := range []string{"wsConnection", "WSTransport", "SSETransport", "dialResult"} {
		if p.Named(c18T, tn) == nil {
			r.Error("type transport.%s not found", tn)
			return
		}
	}
	la := c18LockAnalysis(r)
	c18R1(r)
	c18R2(r, la)
	c18R3(r, la)
	c18R4(r)
	c18R5(r)
	c18R6(r)
	c18R7(r, la)
	c18WhoMayRemoveSubs(r)
}

// ---- helpers ---------------------------------------------------------------------------------

// c18OptionsField: e (possibly wrapped in a conversion such as string(x)) selects a field of common.Options.
func c18OptionsField(info *types.Info, e ast.Expr) (string, bool) {
	e = ast.Unparen(e)
	if c, ok := e.(*ast.CallExpr); ok && len(c.Args) == 1 {
		if tv, ok := info.Types[c.Fun]; ok && tv.IsType() {
			e = ast.Unparen(c.Args[0])
		}
	}
	v, sel := fw.Field(info, e)
	if v == nil {
		return "", false
	}
	pk, tn := fw.FieldOwner(info, sel)
	if pk == fw.PkgPath(c18C) && tn == "Options" {
		return v.Name(), true
	}
	return "", false
}

// c18InsideLoggerCall: one of the enclosing nodes is a call into package abstractlogger (log fields do
// not influence the connection).
func c18InsideLoggerCall(info *types.Info, stack []ast.Node) bool {
	for _, n := range stack {
		if c, ok := n.(*ast.CallExpr); ok {
			if fn := fw.Callee(info, c); fn != nil && fn.Pkg() != nil && strings.HasSuffix(fn.Pkg().Path(), "/abstractlogger") {
				return true
			}
		}
	}
	return false
}

func c18Param(fi *fw.FuncInfo, i int) types.Object {
	sig := fi.Obj.Type().(*types.Signature)
	if i < sig.Params().Len() {
		return sig.Params().At(i)
	}
	return nil
}

func c18IsObj(info *types.Info, e ast.Expr, obj types.Object) bool {
	id, ok := ast.Unparen(e).(*ast.Ident)
	return ok && obj != nil && (info.Uses[id] == obj || info.Defs[id] == obj)
}

// c18IsHandlerCall: call of a value of type common.Handler (a subscription's callback).
func c18IsHandlerCall(info *types.Info, call *ast.CallExpr) bool {
	if fw.Callee(info, call) != nil {
		return false
	}
	return fw.TypeIs(info.TypeOf(call.Fun), c18C, "Handler")
}

// c18FieldCall: call of the func-typed field transport.typ.field.
func c18FieldCall(info *types.Info, call *ast.CallExpr, typ, field string) bool {
	return fw.IsFieldSel(info, call.Fun, c18T, typ, field)
}

// c18RecvFrom: n is a receive `<-x.field` from field transport.typ.field.
func c18RecvFrom(info *types.Info, n ast.Node, typ, field string) bool {
	u, ok := n.(*ast.UnaryExpr)
	return ok && u.Op == token.ARROW && fw.IsFieldSel(info, u.X, c18T, typ, field)
}

// c18CASWon: e is wsConnection.closed.CompareAndSwap(false, true).
func c18CASWon(info *types.Info, e ast.Expr) bool {
	c, ok := fw.AtomicFieldCall(info, e, c18T, "wsConnection", "closed", "CompareAndSwap")
	if !ok || len(c.Args) != 2 {
		return false
	}
	a0, _ := fw.ConstVal(info, c.Args[0])
	a1, _ := fw.ConstVal(info, c.Args[1])
	return a0 == "false" && a1 == "true"
}

// c18GuardedByEmptyConjunct: call is evaluated as a right operand of `len(c.subs)==0 && … call …` (or `len(c.subs)!=0 || … call …`)
// (short-circuit domination inside one expression, which the path engine does not split).
func c18GuardedByEmptyConjunct(fi *fw.FuncInfo, call *ast.CallExpr) bool {
	info := fi.Info()
	found := false
	fw.WalkAll(fi.Decl.Body, func(n ast.Node) bool {
		b, ok := n.(*ast.BinaryExpr)
		if !ok || (b.Op != token.LAND && b.Op != token.LOR) || call.Pos() < b.Y.Pos() || call.End() > b.Y.End() {
			return true
		}
		// the right operand is evaluated only when the left one was true (&&) / false (||)
		if op, leaves := fw.NNF(info, b.X, b.Op == token.LAND); op == "atom" || op == "and" {
			for _, a := range leaves {
				if a.Kind == "Empty" && fw.IsFieldSel(info, a.X, c18T, "wsConnection", "subs") {
					found = true
				}
			}
		}
		return true
	})
	return found
}

// c18Tearers: the functions of package transport from which the end of a wsConnection (the call of its
// cancel field) is statically reachable — "calling one of them closes the connection".
func c18Tearers(p *fw.Prog, skip *fw.FuncInfo) map[*types.Func]bool {
	out := map[*types.Func]bool{}
	for _, fi := range p.Funcs(c18T) {
		fw.EachCall([]*fw.FuncInfo{fi}, func(fi *fw.FuncInfo, c *ast.CallExpr, stack []ast.Node) {
			if fw.InnermostLit(stack) == nil && c18FieldCall(fi.Info(), c, "wsConnection", "cancel") {
				out[fi.Obj] = true
			}
		})
	}
	for changed := true; changed; {
		changed = false
		for _, fi := range p.Funcs(c18T) {
			if out[fi.Obj] || fi == skip {
				continue
			}
			fw.EachCall([]*fw.FuncInfo{fi}, func(fi *fw.FuncInfo, c *ast.CallExpr, stack []ast.Node) {
				if fw.InnermostLit(stack) == nil && out[fw.Callee(fi.Info(), c)] && !out[fi.Obj] {
					out[fi.Obj] = true
					changed = true
				}
			})
		}
	}
	return out
}

func c18IsErr(t types.Type) bool {
	return t != nil && types.Identical(t, types.Universe.Lookup("error").Type())
}

// c18WireConst: e names a constant of protocol.WireMessageType.
func c18WireConst(info *types.Info, e ast.Expr) string {
	c := fw.ConstObj(info, e)
	if c == nil || !fw.TypeIs(c.Type(), c18P, "WireMessageType") {
		return ""
	}
	return c.Name()
}

// c18RunAll interprets fi and, from an empty state, every literal the interpreter skipped.
func c18RunAll(fi *fw.FuncInfo, hooks func(in *fw.Interp) fw.Hooks) {
	in := fw.NewInterp(fi)
	in.H = hooks(in)
	in.Run(nil)
	queue := append([]*ast.FuncLit{}, in.SkippedLits...)
	done := map[*ast.FuncLit]bool{}
	for len(queue) > 0 {
		lit := queue[0]
		queue = queue[1:]
		if done[lit] {
			continue
		}
		done[lit] = true
		in2 := fw.NewInterp(fi)
		in2.H = hooks(in2)
		in2.RunLit(lit, nil)
		queue = append(queue, in2.SkippedLits...)
	}
}

func c18Ours(ids []string) []string {
	var out []string
	for _, id := range ids {
		if id == lkSubs || id == lkWST || id == lkSSE {
			out = append(out, id)
		}
	}
	return out
}

// c18LockAnalysis: lock sets over package transport plus two facts that live inside a subsMu critical
// section: closed.Load()==false was seen (admission), len(subs)==0 was seen (idle close).
func c18LockAnalysis(r *fw.Run) *fw.LockAnalysis {
	la := fw.NewLockAnalysis(r.Prog, c18T)
	la.KeepFacts = []string{"under:", "cas:"}
	emptyVar := func(name string) string { return "under:" + lkSubs + ":emptyvar:" + name }
	la.ExtraCond = func(in *fw.Interp, e ast.Expr, branch bool, st *fw.State) {
		info := in.Info
		// winning closed.CompareAndSwap(false,true) is an event: the fact is sticky and travels into callees
		if branch && c18CASWon(info, e) {
			st.Set(fCASWon)
		}
		if id, ok := ast.Unparen(e).(*ast.Ident); ok && branch && st.Must("cas:var:"+id.Name) {
			st.Set(fCASWon)
		}
		if _, ok := fw.AtomicFieldCall(info, e, c18T, "wsConnection", "closed", "Load"); ok && !branch && fw.Held(st, lkSubs, false) {
			st.Set(fSubsOpen)
		}
		if !fw.Held(st, lkSubs, true) {
			return
		}
		if id, ok := ast.Unparen(e).(*ast.Ident); ok && branch && st.Must(emptyVar(id.Name)) {
			st.Set(fSubsEmpty)
		}
		if a := fw.Atom(info, e, branch); a.Kind == "Empty" && fw.IsFieldSel(info, a.X, c18T, "wsConnection", "subs") {
			st.Set(fSubsEmpty)
		}
	}
	la.ExtraNode = func(in *fw.Interp, n ast.Node, st *fw.State) {
		as, ok := n.(*ast.AssignStmt)
		if !ok || len(as.Lhs) != len(as.Rhs) {
			return
		}
		for i, l := range as.Lhs {
			id, ok := l.(*ast.Ident)
			if !ok {
				continue
			}
			st.Kill(emptyVar(id.Name))
			st.Kill("cas:var:" + id.Name)
			if v, isC := fw.ConstVal(in.Info, as.Rhs[i]); isC && v == "false" {
				st.Set("cas:var:" + id.Name) // "v ⇒ CAS won" holds vacuously
			}
			// v := … && closed.CompareAndSwap(false,true) (in any spelling: the negation normal form of "v is true" is
			// a conjunction): v implies the CAS was won / implies that subs was seen empty
			if op, leaves := fw.NNF(in.Info, as.Rhs[i], true); op == "atom" || op == "and" {
				for _, a := range leaves {
					if a.Kind == "True" && c18CASWon(in.Info, a.X) {
						st.Set("cas:var:" + id.Name)
					}
					if a.Kind == "Empty" && fw.IsFieldSel(in.Info, a.X, c18T, "wsConnection", "subs") && fw.Held(st, lkSubs, true) {
						st.Set(emptyVar(id.Name))
					}
				}
			}
		}
	}
	la.Solve()
	return la
}

// ---- R1 connection key ------------------------------------------------------------------------

func c18R1(r *fw.Run) {
	p := r.Prog
	r.Rule("C18-R1", "every common.Options field read on the WebSocket dial path (Subscribe→getOrDial→dial) is fed to the connKey hash on every path on which it is non-empty, consecutive components are separated by a constant write, and conns/dialing are indexed by connKey(opts) of the opts that are dialled")
	sub := p.Func(c18T, "WSTransport.Subscribe")
	god := p.Func(c18T, "WSTransport.getOrDial")
	dial := p.Func(c18T, "WSTransport.dial")
	ck := p.Func(c18T, "connKey")
	optsT := p.Named(c18C, "Options")
	if sub == nil || god == nil || dial == nil || ck == nil || optsT == nil {
		r.Error("C18-R1: WSTransport.Subscribe/getOrDial/dial, connKey or common.Options not found")
		return
	}
	ost, _ := optsT.Underlying().(*types.Struct)
	if ost == nil {
		r.Error("C18-R1: common.Options is not a struct")
		return
	}
	var fields []string
	for i := 0; i < ost.NumFields(); i++ {
		fields = append(fields, ost.Field(i).Name())
	}

	// (1) what the connection depends on
	type rd struct {
		pos token.Pos
		fn  string
	}
	reads := map[string]rd{}
	seen := map[*fw.FuncInfo]bool{ck: true}
	var collect func(fi *fw.FuncInfo)
	collect = func(fi *fw.FuncInfo) {
		if seen[fi] {
			return
		}
		seen[fi] = true
		fw.EachNode([]*fw.FuncInfo{fi}, func(fi *fw.FuncInfo, n ast.Node, stack []ast.Node) {
			info := fi.Info()
			switch x := n.(type) {
			case *ast.SelectorExpr:
				if v, sel := fw.Field(info, x); v != nil {
					if pk, tn := fw.FieldOwner(info, sel); pk == fw.PkgPath(c18C) && tn == "Options" && !c18InsideLoggerCall(info, stack[:len(stack)-1]) {
						if _, dup := reads[v.Name()]; !dup {
							reads[v.Name()] = rd{x.Pos(), fi.Name()}
						}
					}
				}
			case *ast.CallExpr:
				cfi := p.FuncOf(fw.Callee(info, x))
				if cfi == nil {
					return
				}
				for _, a := range x.Args {
					if fw.TypeIs(info.TypeOf(a), c18C, "Options") {
						collect(cfi)
						break
					}
				}
			}
		})
	}
	collect(sub)
	var need []string
	for f := range reads {
		need = append(need, f)
	}
	sort.Strings(need)
	r.Expect("C18-R1", "Options fields read on the dial path", len(need), 4)

	// (2) the hash object and the feeds, on every path of connKey
	info := ck.Info()
	var hObj types.Object
	fw.WalkAll(ck.Decl.Body, func(n ast.Node) bool {
		if ret, ok := n.(*ast.ReturnStmt); ok && len(ret.Results) == 1 {
			if c, ok := ast.Unparen(ret.Results[0]).(*ast.CallExpr); ok {
				if sel, ok := ast.Unparen(c.Fun).(*ast.SelectorExpr); ok && sel.Sel.Name == "Sum64" {
					hObj = fw.RootObj(info, sel.X)
				}
			}
		}
		return true
	})
	if hObj == nil {
		r.Error("C18-R1: connKey does not return <hash>.Sum64()")
		return
	}
	pd := fw.NewPureDeriver(ck)
	compsOf := func(e ast.Expr) []string {
		var out []string
		for _, f := range fields {
			f := f
			if pd.Derives(e, func(x ast.Expr) bool { return fw.IsFieldSel(info, x, c18C, "Options", f) }) {
				out = append(out, f)
			}
		}
		return out
	}
	nSum, nFeed := 0, 0
	in := fw.NewInterp(ck)
	in.H = fw.Hooks{
		Cond: func(e ast.Expr, branch bool, st *fw.State) {
			a := fw.Atom(info, e, branch)
			switch a.Kind {
			case "Empty", "Nil":
				if f, ok := c18OptionsField(info, a.X); ok {
					st.Set("ok:" + f)
				}
			case "Eq":
				for _, pr := range [][2]ast.Expr{{a.X, a.Y}, {a.Y, a.X}} {
					if f, ok := c18OptionsField(info, pr[0]); ok {
						if v, isC := fw.ConstVal(info, pr[1]); isC && v == `""` {
							st.Set("ok:" + f)
						}
					}
				}
			case "NonNil":
				// the component could not be encoded (json.Marshal failed): nothing to feed
				if id, ok := ast.Unparen(a.X).(*ast.Ident); ok && c18IsErr(info.TypeOf(id)) {
					for _, f := range compsOf(id) {
						st.Set("ok:" + f)
					}
				}
			}
		},
		Node: func(n ast.Node, st *fw.State) {
			c, ok := n.(*ast.CallExpr)
			if !ok {
				return
			}
			if sel, ok := ast.Unparen(c.Fun).(*ast.SelectorExpr); ok && sel.Sel.Name == "Sum64" && c18IsObj(info, sel.X, hObj) {
				if in.Final() {
					nSum++
					for _, f := range need {
						r.Check(st.Must("ok:"+f), "C18-R1", "connKey/key<-"+f, p.Pos(c.Pos()), "Options."+f+" (read by "+reads[f].fn+" at "+p.Pos(reads[f].pos)+") is fed to the connection key on every path on which it is non-empty",
							"the dial path depends on Options."+f+" but a path reaches Sum64 without having hashed it (and without having seen it empty): two subscriptions that differ in "+f+" share one upstream connection, i.e. one of them runs with the other's "+f)
					}
				}
				return
			}
			var operands []ast.Expr
			if sel, ok := ast.Unparen(c.Fun).(*ast.SelectorExpr); ok {
				if s := info.Selections[sel]; s != nil && s.Kind() == types.MethodVal {
					operands = append(operands, sel.X)
				}
			}
			operands = append(operands, c.Args...)
			hasH := false
			var payload []ast.Expr
			for _, o := range operands {
				if c18IsObj(info, o, hObj) {
					hasH = true
				} else {
					payload = append(payload, o)
				}
			}
			if !hasH || len(payload) == 0 {
				return
			}
			comps := map[string]bool{}
			hasConst, allConst := false, true
			for _, o := range payload {
				for _, f := range compsOf(o) {
					comps[f] = true
				}
				if v, isC := fw.ConstVal(info, o); isC && v != `""` {
					hasConst = true
				} else {
					allConst = false
				}
			}
			if len(comps) == 0 {
				if allConst {
					st.KillPrefix("open:")
				}
				return
			}
			var cs []string
			for f := range comps {
				cs = append(cs, f)
			}
			sort.Strings(cs)
			for _, f := range cs {
				bad := ""
				for _, g := range fields {
					if g != f && !comps[g] && st.May("open:"+g) {
						bad = g
					}
				}
				if in.Final() {
					nFeed++
					r.Check(bad == "", "C18-R1", "connKey/separated:"+f, p.Pos(c.Pos()), "write of Options."+f+" into the key hash is separated from the previous component",
						"Options."+bad+" and Options."+f+" are hashed back to back with no constant separator on some path: different option tuples concatenate to the same byte string (\"a\"+\"bc\" = \"ab\"+\"c\") and share a connection")
				}
				st.Set("ok:" + f)
			}
			if hasConst {
				st.KillPrefix("open:") // a format string separates by itself
			} else {
				for _, f := range cs {
					st.Set("open:" + f)
				}
			}
		},
	}
	in.Run(nil)
	r.Expect("C18-R1", "Sum64 of the key hash", nSum, 1)
	r.Expect("C18-R1", "component writes into the key hash", nFeed, 4)

	// (3) the table is indexed by connKey(opts) of the opts that are dialled
	ginfo := god.Info()
	optsObj := c18Param(god, 1)
	gpd := fw.NewPureDeriver(god)
	isKeyCall := func(e ast.Expr) bool {
		c, ok := e.(*ast.CallExpr)
		return ok && fw.CallIs(ginfo, c, c18T, "connKey") && len(c.Args) == 1 && c18IsObj(ginfo, c.Args[0], optsObj)
	}
	isTable := func(e ast.Expr) string {
		for _, f := range []string{"conns", "dialing"} {
			if fw.IsFieldSel(ginfo, e, c18T, "WSTransport", f) {
				return f
			}
		}
		return ""
	}
	nIdx, nDial := 0, 0
	fw.WalkAll(god.Decl.Body, func(n ast.Node) bool {
		switch x := n.(type) {
		case *ast.IndexExpr:
			if f := isTable(x.X); f != "" {
				nIdx++
				r.Check(gpd.Derives(x.Index, isKeyCall), "C18-R1", god.Name()+"/table-key:"+f, p.Pos(x.Pos()), "index of WSTransport."+f+" is connKey(opts) of getOrDial's own options",
					"the table is indexed by something else than the hash of the caller's options: a subscriber is handed a connection dialled for other options")
			}
		case *ast.CallExpr:
			if fw.Builtin(ginfo, x) == "delete" && len(x.Args) == 2 {
				if f := isTable(x.Args[0]); f != "" {
					nIdx++
					r.Check(gpd.Derives(x.Args[1], isKeyCall), "C18-R1", god.Name()+"/table-key:"+f, p.Pos(x.Pos()), "delete from WSTransport."+f+" uses connKey(opts) of getOrDial's own options",
						"another entry than the caller's is removed from the table")
				}
			}
			if fw.CallIs(ginfo, x, c18T, "WSTransport.dial") && len(x.Args) == 3 {
				nDial++
				r.Check(c18IsObj(ginfo, x.Args[2], optsObj) && gpd.Derives(x.Args[1], isKeyCall), "C18-R1", god.Name()+"/dial-what-was-keyed", p.Pos(x.Pos()), "dial is given the options that were hashed and the key they hashed to",
					"the connection is dialled with other options than the ones its table key was computed from")
			}
		}
		return true
	})
	r.Expect("C18-R1", "index/delete sites of conns and dialing in getOrDial", nIdx, 5)
	r.Expect("C18-R1", "dial call in getOrDial", nDial, 1)
	sinfo := sub.Info()
	nG := 0
	fw.WalkAll(sub.Decl.Body, func(n ast.Node) bool {
		if c, ok := n.(*ast.CallExpr); ok && fw.CallIs(sinfo, c, c18T, "WSTransport.getOrDial") && len(c.Args) == 2 {
			nG++
			r.Check(c18IsObj(sinfo, c.Args[1], c18Param(sub, 2)), "C18-R1", sub.Name()+"/pass-opts", p.Pos(c.Pos()), "Subscribe hands its own options to getOrDial", "the connection is selected by other options than the subscriber's")
		}
		return true
	})
	r.Expect("C18-R1", "getOrDial call in Subscribe", nG, 1)
}

// ---- R2 lock sets -------------------------------------------------------------------------------

// c18Blocking names the network / blocking operation a call performs ("" if none).
func c18Blocking(info *types.Info, call *ast.CallExpr) string {
	fn := fw.Callee(info, call)
	if fn == nil || fn.Pkg() == nil {
		return ""
	}
	switch {
	case fw.FuncIs(fn, c18T, "WSTransport.dial"):
		return "WSTransport.dial"
	case fw.TypeIs(recvType(fn), c18P, "Protocol"), fw.TypeIs(recvType(fn), c18P, "Pinger"):
		return fw.FuncName(fn)
	case fn.Pkg().Path() == "github.com/coder/websocket" && (fw.FuncName(fn) == "Dial" || fw.FuncName(fn) == "Conn.Close"):
		return "websocket." + fw.FuncName(fn)
	case fn.Pkg().Path() == "net/http" && fw.FuncName(fn) == "Client.Do":
		return "http.Client.Do"
	}
	return ""
}

func c18R2(r *fw.Run, la *fw.LockAnalysis) {
	p := r.Prog
	r.Rule("C18-R2", "wsConnection.subs is accessed only under subsMu, WSTransport.conns/dialing and SSETransport.conns only under their mu; subscription handlers, the unregister callbacks (onEmpty/onClose), network I/O and the wait for a coalesced dial never run with one of these locks held")
	counts := la.CheckGuards(r, "C18-R2", []fw.Guard{
		{Pkg: c18T, Type: "wsConnection", Field: "subs", Write: [][]string{{lkSubs}}, Read: [][]string{{lkSubs}}},
		{Pkg: c18T, Type: "WSTransport", Field: "conns", Write: [][]string{{lkWST}}, Read: [][]string{{lkWST}}},
		{Pkg: c18T, Type: "WSTransport", Field: "dialing", Write: [][]string{{lkWST}}, Read: [][]string{{lkWST}}},
		{Pkg: c18T, Type: "SSETransport", Field: "conns", Write: [][]string{{lkSSE}}, Read: [][]string{{lkSSE}}},
	})
	r.Expect("C18-R2", "accesses of wsConnection.subs", counts["wsConnection.subs"], 12)
	r.Expect("C18-R2", "accesses of WSTransport.conns", counts["WSTransport.conns"], 8)
	r.Expect("C18-R2", "accesses of WSTransport.dialing", counts["WSTransport.dialing"], 5)
	r.Expect("C18-R2", "accesses of SSETransport.conns", counts["SSETransport.conns"], 8)

	nOut := 0
	la.Visit(func(in *fw.Interp, n ast.Node, st *fw.State) {
		info := in.Info
		role, why := "", ""
		pos := n.Pos()
		switch x := n.(type) {
		case *ast.CallExpr:
			switch {
			case c18IsHandlerCall(info, x):
				role = "handler"
				why = "the handler is user code (it cancels subscriptions, i.e. calls unsubscribe→subsMu.Lock, and may block): with the lock held the read goroutine dead-locks on itself or stalls every other subscription of the connection"
			case c18FieldCall(info, x, "wsConnection", "onEmpty"), c18FieldCall(info, x, "sseConnection", "onClose"):
				role = "unregister-callback"
				why = "the callback takes the transport's mu (removeConn): called with a transport/connection lock held it dead-locks or inverts the lock order against getOrDial/pingLoop"
			default:
				if b := c18Blocking(info, x); b != "" {
					role = "io:" + b
					why = "network I/O under a routing lock: a slow or unreachable upstream stalls every other subscriber that needs the table (all keys for WSTransport.mu, all subscriptions of the connection for subsMu)"
				}
			}
		case *ast.UnaryExpr:
			if c18RecvFrom(info, x, "dialResult", "done") {
				role = "wait:dialResult.done"
				why = "a waiter blocks on the coalesced dial while holding a routing lock: the leader can never publish its result (it needs the same lock) and every other subscriber stalls"
			}
		}
		if role == "" {
			return
		}
		nOut++
		bad := c18Ours(fw.MayHeldLocks(st))
		site := fw.SiteLabel(in)
		r.Check(len(bad) == 0, "C18-R2", site+"/outside-locks:"+role, p.Pos(pos), role+" in "+site+" runs with no routing lock held",
			"reachable with "+strings.Join(bad, ",")+" held (at entry on some call path or acquired earlier): "+why)
	})
	r.Expect("C18-R2", "handler calls, unregister callbacks, I/O and waits that must run outside the locks", nOut, 19)
}

// ---- R3 shut down once; coalesced dial protocol ---------------------------------------------------

func c18R3(r *fw.Run, la *fw.LockAnalysis) {
	p := r.Prog
	r.Rule("C18-R3", "the teardown effects of a wsConnection (close socket, swap subs, cancel, onEmpty) are dominated by closed.CompareAndSwap(false,true); after a dialResult is created every exit of getOrDial has written conn and err before the one close(done) and removed the dialing entry; conns receives only a successfully dialled connection and hands out only live ones; waiters read the result only after the wake-up")
	// (a) shut down once (the CAS-won fact travels into helpers all of whose callers hold it)
	nEff := 0
	la.Visit(func(in *fw.Interp, n ast.Node, st *fw.State) {
		info := in.Info
		eff := ""
		switch x := n.(type) {
		case *ast.CallExpr:
			switch {
			case c18FieldCall(info, x, "wsConnection", "cancel"):
				eff = "cancel"
			case c18FieldCall(info, x, "wsConnection", "onEmpty"):
				eff = "onEmpty"
			default:
				if fn := fw.Callee(info, x); fn != nil && fn.Pkg() != nil && fn.Pkg().Path() == "github.com/coder/websocket" && fw.FuncName(fn) == "Conn.Close" {
					if sel, ok := ast.Unparen(x.Fun).(*ast.SelectorExpr); ok && fw.IsFieldSel(info, sel.X, c18T, "wsConnection", "conn") {
						eff = "close-socket"
					}
				}
			}
		case *ast.AssignStmt:
			for _, l := range x.Lhs {
				if fw.IsFieldSel(info, l, c18T, "wsConnection", "subs") {
					eff = "swap-subs"
				}
			}
		}
		if eff == "" {
			return
		}
		nEff++
		site := fw.SiteLabel(in)
		r.Check(st.Must(fCASWon), "C18-R3", site+"/once:"+eff, p.Pos(n.Pos()), "teardown effect "+eff+" in "+site+" only after winning closed.CompareAndSwap(false,true)",
			"the effect is reachable without having won the false→true transition of closed (in this function or in every caller): readLoop's deferred shutdown, the ping loop and the idle timer race, so the teardown runs twice — every handler gets two connection errors and the second onEmpty removes the successor connection that was registered under the same key meanwhile")
	})
	r.Expect("C18-R3", "teardown effects of wsConnection", nEff, 4)

	// (b) coalesced dial protocol in getOrDial
	god := p.Func(c18T, "WSTransport.getOrDial")
	if god == nil {
		r.Error("C18-R3: WSTransport.getOrDial not found")
		return
	}
	info := god.Info()
	pd := fw.NewPureDeriver(god)
	fromConns := func(e ast.Expr) bool {
		ix, ok := e.(*ast.IndexExpr)
		return ok && fw.IsFieldSel(info, ix.X, c18T, "WSTransport", "conns")
	}
	isRes := func(f string) func(ast.Expr) bool {
		return func(e ast.Expr) bool { return fw.IsFieldSel(info, e, c18T, "dialResult", f) }
	}
	nCreate, nClose, nExit, nStore, nReuse, nRead := 0, 0, 0, 0, 0, 0
	in := fw.NewInterp(god)
	in.H = fw.Hooks{
		Cond: func(e ast.Expr, branch bool, st *fw.State) {
			a := fw.Atom(info, e, branch)
			if a.Kind == "Nil" {
				if id, ok := ast.Unparen(a.X).(*ast.Ident); ok && fw.VarFromCall(god, info.Uses[id], id.Pos(), c18T, "WSTransport.dial", 1) {
					st.Set("g:dial-ok")
				}
				if isRes("err")(ast.Unparen(a.X)) {
					st.Set("g:shared-ok")
				}
			}
			if id, ok := ast.Unparen(e).(*ast.Ident); ok && branch && isLookupOK(god, id, c18T, "WSTransport", "conns") {
				st.Set("g:found")
			}
			if c, ok := ast.Unparen(e).(*ast.CallExpr); ok && !branch {
				if fw.CallIs(info, c, c18T, "wsConnection.isClosed") {
					st.Set("g:live")
				}
				if _, isLoad := fw.AtomicFieldCall(info, c, c18T, "wsConnection", "closed", "Load"); isLoad {
					st.Set("g:live")
				}
			}
		},
		Node: func(n ast.Node, st *fw.State) {
			if c18RecvFrom(info, n, "dialResult", "done") {
				st.Set("waited")
			}
			if cl, ok := n.(*ast.CompositeLit); ok && fw.TypeIs(info.TypeOf(cl), c18T, "dialResult") {
				st.Set("created")
				if in.Final() {
					nCreate++
				}
			}
			for _, t := range fw.WriteTargets(info, n) {
				for _, f := range []string{"conn", "err"} {
					if isRes(f)(t) {
						if in.Final() {
							r.Check(!st.May("closed"), "C18-R3", god.Name()+"/no-write-after-close:"+f, p.Pos(t.Pos()), "dialResult."+f+" is not written after close(done)",
								"the shared record is written after the waiters were woken: they read it concurrently (data race, a waiter can see a nil connection with a nil error)")
						}
						st.Set("wrote:" + f)
					}
				}
				if ix, ok := ast.Unparen(t).(*ast.SelectorExpr); ok && fw.IsFieldSel(info, ix, c18T, "WSTransport", "conns") {
					if as, isAs := n.(*ast.AssignStmt); isAs && in.Final() {
						for _, l := range as.Lhs {
							if _, isIdx := ast.Unparen(l).(*ast.IndexExpr); isIdx {
								nStore++
								r.Check(st.Must("g:dial-ok"), "C18-R3", god.Name()+"/publish-conn-only-on-success", p.Pos(l.Pos()), "WSTransport.conns receives the dialled connection only on the err == nil edge of dial",
									"a failed dial stores a nil *wsConnection in the table: the next subscriber with the same key calls isClosed() on it (nil dereference, process panic)")
							}
						}
					}
				}
			}
			c, ok := n.(*ast.CallExpr)
			if !ok {
				return
			}
			switch fw.Builtin(info, c) {
			case "close":
				if len(c.Args) == 1 && isRes("done")(c.Args[0]) {
					if in.Final() {
						nClose++
						for _, f := range []string{"conn", "err"} {
							r.Check(st.Must("wrote:"+f), "C18-R3", god.Name()+"/publish-before-close:"+f, p.Pos(c.Pos()), "dialResult."+f+" written before close(done)",
								"the waiters are woken on a path that has not yet stored "+f+": a waiter reads the zero value (nil connection with nil error → nil dereference in Subscribe, or a failed dial taken for a success)")
						}
					}
					st.Inc("closed")
				}
			case "delete":
				if len(c.Args) == 2 && fw.IsFieldSel(info, c.Args[0], c18T, "WSTransport", "dialing") {
					st.Set("unregistered")
				}
			}
		},
		Exit: func(ret *ast.ReturnStmt, lit *ast.FuncLit, st *fw.State) {
			if lit != nil || !in.Final() {
				return
			}
			pos := god.Decl.End()
			if ret != nil {
				pos = ret.Pos()
			}
			if st.May("created") {
				nExit++
				c := st.Get("closed")
				r.Check(c == fw.Cnt{Min: 1, Max: 1} && st.Must("unregistered"), "C18-R3", god.Name()+"/exit-after-create", p.Pos(pos), "exit of getOrDial after registering a dialResult: close(done) exactly once and the dialing entry removed",
					"close(done) runs "+cntStr(c)+" times and the dialing entry is "+map[bool]string{true: "removed", false: "not removed on every path"}[st.Must("unregistered")]+" on a path to this exit: 0 closes ⇒ every waiter (and every later subscriber with this key) blocks until its own context ends; 2 ⇒ close of closed channel; entry kept ⇒ all later subscribers get this dial's stale result")
				return
			}
			if ret == nil || len(ret.Results) == 0 {
				return
			}
			if pd.Derives(ret.Results[0], fromConns) {
				nReuse++
				r.Check(st.Must("g:found") && st.Must("g:live"), "C18-R3", god.Name()+"/reuse-only-live", p.Pos(ret.Pos()), "a connection taken from WSTransport.conns is returned only if it was found and is not closed",
					"a closed (or absent) table entry is handed to the subscriber: its Subscribe fails with ErrConnectionClosed because other subscribers left and the idle connection was shut down, instead of dialling a new one")
			}
			if pd.Derives(ret.Results[0], isRes("conn")) {
				nRead++
				r.Check(st.Must("waited") && st.Must("g:shared-ok"), "C18-R3", god.Name()+"/waiter-reads-after-wakeup", p.Pos(ret.Pos()), "a waiter returns dialResult.conn only after <-done and after seeing dialResult.err == nil",
					"the shared connection is read before the leader published it or although the dial failed: nil *wsConnection returned with a nil error (nil dereference in Subscribe)")
			}
		},
	}
	in.Run(nil)
	r.Expect("C18-R3", "dialResult creations in getOrDial", nCreate, 1)
	r.Expect("C18-R3", "close(dialResult.done) in getOrDial", nClose, 1)
	r.Expect("C18-R3", "exits of getOrDial after the creation", nExit, 1)
	r.Expect("C18-R3", "stores into WSTransport.conns", nStore, 1)
	r.Expect("C18-R3", "returns of a reused connection", nReuse, 1)
	r.Expect("C18-R3", "waiter returns of the shared connection", nRead, 1)
	// ownership: done is closed nowhere else
	nOther := 0
	fw.EachCall(p.Funcs(c18T), func(fi *fw.FuncInfo, c *ast.CallExpr, stack []ast.Node) {
		if fw.Builtin(fi.Info(), c) == "close" && len(c.Args) == 1 && fw.IsFieldSel(fi.Info(), c.Args[0], c18T, "dialResult", "done") {
			nOther++
			r.Check(fi == god && fw.InnermostLit(stack) == nil, "C18-R3", fw.StackLabel(fi, stack)+"/close-done-owner", p.Pos(c.Pos()), "close(dialResult.done) happens only on the leader path of getOrDial",
				"a second closer of the wake-up channel exists: close of closed channel (panic) under the right schedule")
		}
	})
	r.Expect("C18-R3", "closers of dialResult.done", nOther, 1)
}

// ---- R4 dispatch by id -------------------------------------------------------------------------

func c18R4(r *fw.Run) {
	p := r.Prog
	r.Rule("C18-R4", "dispatch calls the handler stored under the message's own id (and only if one exists) with that message, ends exactly that subscription on exactly Complete/Error; readLoop's switch covers every WireMessageType and routes Data/Error/Complete to dispatch; subscribe/unsubscribe/removeSub and the protocol codecs use one id for table and wire")
	disp := p.Func(c18T, "wsConnection.dispatch")
	rl := p.Func(c18T, "wsConnection.readLoop")
	if disp == nil || rl == nil {
		r.Error("C18-R4: wsConnection.dispatch / readLoop not found")
		return
	}
	info := disp.Info()
	msgObj := c18Param(disp, 0)
	pd := fw.NewPureDeriver(disp)
	isMsgID := func(e ast.Expr) bool {
		return fw.IsFieldSel(info, e, c18P, "WireMessage", "ID") && fw.RootObj(info, e) == msgObj
	}
	isMsgType := func(e ast.Expr) bool {
		return fw.IsFieldSel(info, e, c18P, "WireMessage", "Type") && fw.RootObj(info, e) == msgObj
	}
	byOwnID := func(e ast.Expr) bool {
		ix, ok := e.(*ast.IndexExpr)
		return ok && fw.IsFieldSel(info, ix.X, c18T, "wsConnection", "subs") && isMsgID(ast.Unparen(ix.Index))
	}
	terminal := map[string]bool{"MessageComplete": true, "MessageError": true}
	// typeTest decomposes `msg.Type == C` (outcome folded): returns C and whether equality holds
	typeTest := func(e ast.Expr, branch bool) (string, bool, bool) {
		a := fw.Atom(info, e, branch)
		if a.Kind != "Eq" && a.Kind != "Ne" {
			return "", false, false
		}
		for _, pr := range [][2]ast.Expr{{a.X, a.Y}, {a.Y, a.X}} {
			if isMsgType(ast.Unparen(pr[0])) {
				if c := c18WireConst(info, pr[1]); c != "" {
					return c, a.Kind == "Eq", true
				}
			}
		}
		return "", false, false
	}
	settle := func(st *fw.State) {
		if st.Must("not:MessageComplete") && st.Must("not:MessageError") {
			st.Set("settled")
		}
	}
	var disjuncts func(e ast.Expr) []ast.Expr
	disjuncts = func(e ast.Expr) []ast.Expr {
		if b, ok := ast.Unparen(e).(*ast.BinaryExpr); ok && b.Op == token.LOR {
			return append(disjuncts(b.X), disjuncts(b.Y)...)
		}
		return []ast.Expr{e}
	}
	nH, nRm, nEx := 0, 0, 0
	in := fw.NewInterp(disp)
	in.H = fw.Hooks{
		Cond: func(e ast.Expr, branch bool, st *fw.State) {
			if id, ok := ast.Unparen(e).(*ast.Ident); ok && branch && isLookupOK(disp, id, c18T, "wsConnection", "subs") {
				st.Set("g:exists")
			}
			if b, ok := ast.Unparen(e).(*ast.BinaryExpr); ok && b.Op == token.LOR {
				if !branch {
					return
				}
				all := true
				for _, d := range disjuncts(b) {
					c, eq, ok := typeTest(d, true)
					if !ok || !eq || !terminal[c] {
						all = false
					}
				}
				if all {
					st.Set("g:terminal")
				}
				return
			}
			if c, eq, ok := typeTest(e, branch); ok {
				if eq {
					st.Set("is:" + c)
					if terminal[c] {
						st.Set("g:terminal")
					}
				} else {
					st.Set("not:" + c)
					settle(st)
				}
			}
		},
		Case: func(tag ast.Expr, vals []ast.Expr, match bool, st *fw.State) {
			if !isMsgType(ast.Unparen(tag)) || vals == nil {
				return
			}
			all := true
			for _, v := range vals {
				c := c18WireConst(info, v)
				if c == "" || !terminal[c] {
					all = false
				}
				if !match && c != "" {
					st.Set("not:" + c)
				}
			}
			if match && all {
				st.Set("g:terminal")
			}
			settle(st)
		},
		Node: func(n ast.Node, st *fw.State) {
			c, ok := n.(*ast.CallExpr)
			if !ok {
				return
			}
			if c18IsHandlerCall(info, c) && in.Final() {
				nH++
				r.Check(pd.Derives(c.Fun, byOwnID), "C18-R4", disp.Name()+"/handler-by-own-id", p.Pos(c.Pos()), "the handler called by dispatch is wsConnection.subs[msg.ID] of the dispatched message",
					"the callback does not come from the table entry of the message's own id: a message is delivered to another subscription (cross-talk)")
				r.Check(len(c.Args) == 1 && pd.Derives(c.Args[0], func(e ast.Expr) bool { return c18IsObj(info, e, msgObj) }), "C18-R4", disp.Name()+"/handler-gets-own-message", p.Pos(c.Pos()), "the handler receives the dispatched message",
					"what the handler receives is not derived from the dispatched message")
				r.Check(st.Must("g:exists"), "C18-R4", disp.Name()+"/handler-exists", p.Pos(c.Pos()), "the handler is called only on the found edge of the table lookup",
					"a message for an id that is not (or no longer) subscribed — the normal case right after an unsubscribe — calls a nil func: the read goroutine panics and every subscription of the connection dies with it")
			}
			if fw.CallIs(info, c, c18T, "wsConnection.removeSub") {
				st.Set("settled")
				if in.Final() {
					nRm++
					r.Check(len(c.Args) == 1 && isMsgID(ast.Unparen(c.Args[0])), "C18-R4", disp.Name()+"/remove-own-id", p.Pos(c.Pos()), "dispatch removes the subscription of the message's own id",
						"a terminal message for one subscription removes another one's routing entry: that subscription silently stops receiving")
					r.Check(st.Must("g:terminal") && st.Must("g:exists"), "C18-R4", disp.Name()+"/remove-only-on-terminal", p.Pos(c.Pos()), "removeSub in dispatch is dominated by msg.Type ∈ {MessageComplete, MessageError}",
						"the routing entry is removed on a path that did not establish a terminal message type: a data message ends its subscription (all later messages are dropped, and the connection may be closed under the others)")
				}
			}
		},
		Exit: func(ret *ast.ReturnStmt, lit *ast.FuncLit, st *fw.State) {
			if lit != nil || !in.Final() || !st.Must("g:exists") {
				return
			}
			nEx++
			pos := disp.Decl.End()
			if ret != nil {
				pos = ret.Pos()
			}
			r.Check(st.Must("settled"), "C18-R4", disp.Name()+"/terminal-removes", p.Pos(pos), "every path of dispatch on which the message may be Complete or Error reaches removeSub",
				"a path leaves dispatch with a found handler, without removeSub and without having excluded both MessageComplete and MessageError: a finished subscription stays in the table, the connection never becomes empty and outlives its last subscription for ever")
		},
	}
	in.Run(nil)
	r.Expect("C18-R4", "handler calls in dispatch", nH, 1)
	r.Expect("C18-R4", "removeSub calls in dispatch", nRm, 1)
	r.Expect("C18-R4", "exits of dispatch with a found handler", nEx, 1)

	// readLoop: total switch, routed arms
	wt := p.Named(c18P, "WireMessageType")
	if wt == nil {
		r.Error("C18-R4: protocol.WireMessageType not found")
		return
	}
	rinfo := rl.Info()
	all := fw.ConstNames(p.Pkg(c18P).Types, wt)
	sws := fw.ConstSwitches(rl, wt)
	r.Expect("C18-R4", "switch over WireMessageType in readLoop", len(sws), 1)
	r.Expect("C18-R4", "WireMessageType constants", len(all), 5)
	for _, sw := range sws {
		miss := fw.MissingFrom(sw.Covered, all)
		r.Check(len(miss) == 0 || sw.HasDefault, "C18-R4", rl.Name()+"/switch-total", p.Pos(sw.Stmt.Pos()), "readLoop's message-type switch covers every WireMessageType constant (or has a default)",
			"message type(s) "+strings.Join(miss, ",")+" fall through the switch silently: the upstream message is dropped and its subscription waits for ever")
		for _, want := range []string{"MessageData", "MessageError", "MessageComplete"} {
			routed := false
			for _, cl := range sw.Stmt.(*ast.SwitchStmt).Body.List {
				cc := cl.(*ast.CaseClause)
				lists := false
				for _, e := range cc.List {
					if c18WireConst(rinfo, e) == want {
						lists = true
					}
				}
				if !lists {
					continue
				}
				for _, s := range cc.Body {
					fw.WalkCalls(s, func(c *ast.CallExpr) {
						if fw.CallIs(rinfo, c, c18T, "wsConnection.dispatch") && len(c.Args) == 1 {
							if id, ok := ast.Unparen(c.Args[0]).(*ast.Ident); ok && fw.VarFromCall(rl, rinfo.Uses[id], id.Pos(), c18P, "Protocol.Read", 0) {
								routed = true
							}
						}
					})
				}
			}
			r.Check(routed, "C18-R4", rl.Name()+"/routes:"+want, p.Pos(sw.Stmt.Pos()), "the arm of "+want+" hands the message that was read to dispatch",
				want+" messages never reach dispatch: the subscription they belong to does not see them (a lost error/complete leaves it open for ever)")
		}
	}

	// one id for table and wire in subscribe / unsubscribe / removeSub
	type idUse struct {
		fn    string
		idIdx int
	}
	nID := 0
	for _, u := range []idUse{{"wsConnection.subscribe", 1}, {"wsConnection.unsubscribe", 0}, {"wsConnection.removeSub", 0}} {
		fi := p.Func(c18T, u.fn)
		if fi == nil {
			r.Error("C18-R4: %s not found", u.fn)
			continue
		}
		finfo := fi.Info()
		idObj := c18Param(fi, u.idIdx)
		fw.EachNode([]*fw.FuncInfo{fi}, func(fi *fw.FuncInfo, n ast.Node, stack []ast.Node) {
			check := func(e ast.Expr, what, why string) {
				nID++
				r.Check(c18IsObj(finfo, e, idObj), "C18-R4", fw.StackLabel(fi, stack)+"/same-id:"+what, p.Pos(e.Pos()), what+" in "+fi.Name()+" uses the function's own id parameter", why)
			}
			switch x := n.(type) {
			case *ast.IndexExpr:
				if fw.IsFieldSel(finfo, x.X, c18T, "wsConnection", "subs") {
					check(x.Index, "table index", "the routing entry is stored/looked up under another id than the one put on the wire: upstream messages for this subscription find no (or somebody else's) handler")
				}
			case *ast.CallExpr:
				fn := fw.Callee(finfo, x)
				switch {
				case fw.Builtin(finfo, x) == "delete" && len(x.Args) == 2 && fw.IsFieldSel(finfo, x.Args[0], c18T, "wsConnection", "subs"):
					check(x.Args[1], "table delete", "another subscription's routing entry is deleted: it silently stops receiving")
				case fn != nil && fw.TypeIs(recvType(fn), c18P, "Protocol") && (fn.Name() == "Subscribe" || fn.Name() == "Unsubscribe") && len(x.Args) >= 3:
					check(x.Args[2], "wire id of "+fn.Name(), "the id sent upstream differs from the table id: the upstream's answers are routed nowhere, or a stop is sent for another subscription")
				case fn != nil && (fw.FuncIs(fn, c18T, "wsConnection.removeSub") || fw.FuncIs(fn, c18T, "wsConnection.unsubscribe")) && len(x.Args) == 1:
					check(x.Args[0], "id passed to "+fn.Name(), "cancelling this subscription ends another one")
				}
			}
		})
		if u.fn == "wsConnection.subscribe" {
			hObj, reqObj := c18Param(fi, 3), c18Param(fi, 2)
			fw.WalkAll(fi.Decl.Body, func(n ast.Node) bool {
				if as, ok := n.(*ast.AssignStmt); ok && len(as.Lhs) == 1 && len(as.Rhs) == 1 {
					if ix, ok := ast.Unparen(as.Lhs[0]).(*ast.IndexExpr); ok && fw.IsFieldSel(finfo, ix.X, c18T, "wsConnection", "subs") {
						nID++
						r.Check(c18IsObj(finfo, as.Rhs[0], hObj), "C18-R4", fi.Name()+"/stores-own-handler", p.Pos(as.Pos()), "subscribe stores the caller's handler under the id", "another callback than the subscriber's is registered for its id")
					}
				}
				if c, ok := n.(*ast.CallExpr); ok {
					if fn := fw.Callee(finfo, c); fn != nil && fw.TypeIs(recvType(fn), c18P, "Protocol") && fn.Name() == "Subscribe" && len(c.Args) == 4 {
						nID++
						r.Check(c18IsObj(finfo, c.Args[3], reqObj), "C18-R4", fi.Name()+"/sends-own-request", p.Pos(c.Pos()), "subscribe sends the caller's request under the id", "another operation than the subscriber's is started under its id")
					}
				}
				return true
			})
		}
	}
	r.Expect("C18-R4", "id uses in subscribe/unsubscribe/removeSub", nID, 11)

	// fresh id per subscription; codecs keep the id
	if sub := p.Func(c18T, "WSTransport.Subscribe"); sub != nil {
		sinfo := sub.Info()
		spd := fw.NewPureDeriver(sub)
		n := 0
		fw.WalkAll(sub.Decl.Body, func(nd ast.Node) bool {
			if c, ok := nd.(*ast.CallExpr); ok && fw.CallIs(sinfo, c, c18T, "wsConnection.subscribe") && len(c.Args) == 4 {
				n++
				fresh := spd.Derives(c.Args[1], func(e ast.Expr) bool {
					cc, ok := e.(*ast.CallExpr)
					if !ok {
						return false
					}
					fn := fw.Callee(sinfo, cc)
					return fn != nil && fn.Pkg() != nil && fn.Pkg().Path() == "github.com/rs/xid" && fn.Name() == "New"
				})
				r.Check(fresh && c18IsObj(sinfo, c.Args[2], c18Param(sub, 1)) && c18IsObj(sinfo, c.Args[3], c18Param(sub, 3)), "C18-R4", sub.Name()+"/fresh-id-own-handler", p.Pos(c.Pos()), "every subscription gets a freshly generated id (xid.New) and is registered with the caller's request and handler",
					"ids are not generated per call (or request/handler are not the caller's): two subscriptions on one connection collide on an id, the second is refused or receives the first one's messages")
			}
			return true
		})
		r.Expect("C18-R4", "wsConnection.subscribe call in WSTransport.Subscribe", n, 1)
	}
	nDec, nEnc := 0, 0
	for _, fi := range p.Funcs(c18P) {
		finfo := fi.Info()
		sig := fi.Obj.Type().(*types.Signature)
		// decoders: func(incomingMessage) (*WireMessage, error)
		if sig.Params().Len() == 1 && fw.TypeIs(sig.Params().At(0).Type(), c18P, "incomingMessage") && sig.Results().Len() >= 1 && fw.TypeIs(sig.Results().At(0).Type(), c18P, "WireMessage") {
			rawObj := sig.Params().At(0)
			ok := false
			fromRaw := func(e ast.Expr) bool {
				return fw.IsFieldSel(finfo, e, c18P, "incomingMessage", "ID") && fw.RootObj(finfo, e) == types.Object(rawObj)
			}
			fw.WalkAll(fi.Decl.Body, func(n ast.Node) bool {
				switch x := n.(type) {
				case *ast.CompositeLit:
					if fw.TypeIs(finfo.TypeOf(x), c18P, "WireMessage") {
						for _, el := range x.Elts {
							if kv, isKV := el.(*ast.KeyValueExpr); isKV {
								if k, isID := kv.Key.(*ast.Ident); isID && k.Name == "ID" && fromRaw(ast.Unparen(kv.Value)) {
									ok = true
								}
							}
						}
					}
				case *ast.AssignStmt:
					for i, l := range x.Lhs {
						if i < len(x.Rhs) && fw.IsFieldSel(finfo, l, c18P, "WireMessage", "ID") && fromRaw(ast.Unparen(x.Rhs[i])) {
							ok = true
						}
					}
				}
				return true
			})
			nDec++
			r.Check(ok, "C18-R4", fi.Name()+"/wire-id", fi.Pos(), fi.Name()+" copies the wire message's id into WireMessage.ID",
				"decoded messages carry no (or another) id: dispatch finds no handler and every upstream message of this protocol is dropped, or is routed to the wrong subscription")
		}
		// encoders: Subscribe / Unsubscribe of a Protocol implementation
		if sig.Recv() != nil && (fi.Obj.Name() == "Subscribe" || fi.Obj.Name() == "Unsubscribe") && sig.Params().Len() >= 3 {
			idObj := sig.Params().At(2)
			ok := false
			fw.WalkAll(fi.Decl.Body, func(n ast.Node) bool {
				if x, isCL := n.(*ast.CompositeLit); isCL && fw.TypeIs(finfo.TypeOf(x), c18P, "outgoingMessage") {
					for _, el := range x.Elts {
						if kv, isKV := el.(*ast.KeyValueExpr); isKV {
							if k, isID := kv.Key.(*ast.Ident); isID && k.Name == "ID" && c18IsObj(finfo, kv.Value, idObj) {
								ok = true
							}
						}
					}
				}
				return true
			})
			nEnc++
			r.Check(ok, "C18-R4", fi.Name()+"/wire-id", fi.Pos(), fi.Name()+" puts its id parameter on the wire",
				"the subscribe/stop frame carries another id than the one the routing table uses")
		}
	}
	r.Expect("C18-R4", "protocol decoders", nDec, 2)
	r.Expect("C18-R4", "protocol Subscribe/Unsubscribe encoders", nEnc, 4)
}

// ---- R5 cancel while dialling ---------------------------------------------------------------------

func c18R5(r *fw.Run) {
	p := r.Prog
	r.Rule("C18-R5", "a subscriber waiting for a coalesced dial can leave through its own context, and the dialling subscriber's cancellation is not the waiters' error: the shared dial runs under a context detached from the first caller's, or waiters do not return a shared cancellation verbatim")
	god := p.Func(c18T, "WSTransport.getOrDial")
	if god == nil {
		r.Error("C18-R5: WSTransport.getOrDial not found")
		return
	}
	info := god.Info()
	ctxObj := c18Param(god, 0)
	// (a) every wait on dialResult.done is a select arm next to <-ctx.Done() of the waiter's own ctx
	nWait := 0
	fw.EachNode([]*fw.FuncInfo{god}, func(fi *fw.FuncInfo, n ast.Node, stack []ast.Node) {
		if !c18RecvFrom(info, n, "dialResult", "done") {
			return
		}
		nWait++
		own := false
		for i := len(stack) - 1; i >= 2; i-- {
			if _, isCC := stack[i].(*ast.CommClause); !isCC {
				continue
			}
			sel, isSel := stack[i-2].(*ast.SelectStmt)
			if !isSel {
				break
			}
			for _, cl := range sel.Body.List {
				es, isES := cl.(*ast.CommClause).Comm.(*ast.ExprStmt)
				if !isES {
					continue
				}
				u, isU := ast.Unparen(es.X).(*ast.UnaryExpr)
				if !isU || u.Op != token.ARROW {
					continue
				}
				c, isC := ast.Unparen(u.X).(*ast.CallExpr)
				if !isC {
					continue
				}
				fn := fw.Callee(info, c)
				if fn == nil || fn.Pkg() == nil || fn.Pkg().Path() != "context" || fn.Name() != "Done" {
					continue
				}
				if s, ok := ast.Unparen(c.Fun).(*ast.SelectorExpr); ok && c18IsObj(info, s.X, ctxObj) {
					own = true
				}
			}
			break
		}
		r.Check(own, "C18-R5", fw.StackLabel(fi, stack)+"/wait-with-own-ctx", p.Pos(n.Pos()), "the wait for the coalesced dial is a select that also watches the waiter's own ctx.Done()",
			"a subscriber that cancels while another subscriber's dial (TCP + upgrade + connection_init/ack, up to AckTimeout) is in flight stays blocked in Subscribe until that dial ends: its cancellation is not honoured, the trigger goroutine is stuck")
	})
	r.Expect("C18-R5", "waits on dialResult.done", nWait, 1)

	// (b) provenance of the shared dial's context vs. what waiters return
	d := fw.NewPureDeriver(god)
	isDetach := func(e ast.Expr) bool {
		if fw.IsFieldSel(info, e, c18T, "WSTransport", "ctx") {
			return true
		}
		c, ok := e.(*ast.CallExpr)
		if !ok {
			return false
		}
		fn := fw.Callee(info, c)
		if fn == nil || fn.Pkg() == nil {
			return false
		}
		return (strings.HasSuffix(fn.Pkg().Path(), "/internal/xcontext") && fn.Name() == "Detach") ||
			(fn.Pkg().Path() == "context" && (fn.Name() == "WithoutCancel" || fn.Name() == "Background" || fn.Name() == "TODO"))
	}
	detached, nDial := false, 0
	fw.WalkAll(god.Decl.Body, func(n ast.Node) bool {
		if c, ok := n.(*ast.CallExpr); ok && fw.CallIs(info, c, c18T, "WSTransport.dial") && len(c.Args) > 0 {
			nDial++
			detached = d.Derives(c.Args[0], isDetach)
		}
		return true
	})
	r.Expect("C18-R5", "shared dial call in getOrDial", nDial, 1)
	isSharedErr := func(e ast.Expr) bool { return fw.IsFieldSel(info, e, c18T, "dialResult", "err") }
	nRet := 0
	in := fw.NewInterp(god)
	in.H = fw.Hooks{
		Node: func(n ast.Node, st *fw.State) {
			if c18RecvFrom(info, n, "dialResult", "done") {
				st.Set("waited")
			}
		},
		Cond: func(e ast.Expr, branch bool, st *fw.State) {
			// the waiter's own context is done: whatever it returns, it was cancelled itself
			if a := fw.Atom(info, e, branch); a.Kind == "NonNil" {
				if c, ok := ast.Unparen(a.X).(*ast.CallExpr); ok {
					if fn := fw.Callee(info, c); fn != nil && fn.Pkg() != nil && fn.Pkg().Path() == "context" && fn.Name() == "Err" {
						if sel, ok := ast.Unparen(c.Fun).(*ast.SelectorExpr); ok && c18IsObj(info, sel.X, ctxObj) {
							st.Set("not-ctx-error")
						}
					}
				}
			}
			if c, ok := ast.Unparen(e).(*ast.CallExpr); ok && !branch {
				takes := false
				for _, a := range c.Args {
					if d.Derives(a, isSharedErr) {
						takes = true
					}
				}
				if takes && classifiesCancellation(p, fw.Callee(info, c)) {
					st.Set("not-ctx-error")
				}
			}
		},
		Exit: func(ret *ast.ReturnStmt, lit *ast.FuncLit, st *fw.State) {
			if ret == nil || lit != nil || !in.Final() || !st.May("waited") {
				return
			}
			for _, res := range ret.Results {
				if !c18IsErr(info.TypeOf(res)) || !d.Derives(res, isSharedErr) {
					continue
				}
				nRet++
				r.Check(detached || st.Must("not-ctx-error"), "C18-R5", god.Name()+"/waiter-returns-shared-error", p.Pos(ret.Pos()), "a waiter of the coalesced dial returns dialResult.err",
					"the coalesced dial (websocket.Dial and the connection_init/ack handshake) runs under the first caller's context and waiters return its error verbatim: when the first subscriber cancels while dialling, every other subscriber waiting on the same key fails with context.Canceled (reported to its client as 'upstream service error') although its own context is alive and the upstream is healthy")
			}
		},
	}
	in.Run(nil)
	r.Expect("C18-R5", "waiter returns of the shared error", nRet, 1)
}

// ---- R6 table entries follow connection lifetime ----------------------------------------------------

func c18R6(r *fw.Run) {
	p := r.Prog
	r.Rule("C18-R6", "a connection unregisters exactly its own table entry: dial wires onEmpty to removeConn(key) of the key it is stored under, delete(WSTransport.conns,key) is dominated by an identity test against the closing connection, SSE connections unregister themselves by identity; a wsConnection whose last subscription was removed is closed (immediately or by the idle timer)")
	dial := p.Func(c18T, "WSTransport.dial")
	rs := p.Func(c18T, "wsConnection.removeSub")
	if dial == nil || rs == nil {
		r.Error("C18-R6: WSTransport.dial / wsConnection.removeSub not found")
		return
	}
	// (a) onEmpty wiring
	dinfo := dial.Info()
	keyObj, optsObj := c18Param(dial, 1), c18Param(dial, 2)
	nNew := 0
	fw.WalkAll(dial.Decl.Body, func(n ast.Node) bool {
		c, ok := n.(*ast.CallExpr)
		if !ok || !fw.CallIs(dinfo, c, c18T, "newWSConnection") {
			return true
		}
		nNew++
		wired := false
		fw.WalkAll(c, func(m ast.Node) bool {
			kv, ok := m.(*ast.KeyValueExpr)
			if !ok {
				return true
			}
			k, isID := kv.Key.(*ast.Ident)
			lit, isLit := ast.Unparen(kv.Value).(*ast.FuncLit)
			if !isID || k.Name != "onEmpty" || !isLit {
				return true
			}
			fw.WalkAll(lit.Body, func(x ast.Node) bool {
				if rc, ok := x.(*ast.CallExpr); ok && fw.CallIs(dinfo, rc, c18T, "WSTransport.removeConn") && len(rc.Args) >= 1 {
					a := ast.Unparen(rc.Args[0])
					if c18IsObj(dinfo, a, keyObj) {
						wired = true
					}
					if kc, ok := a.(*ast.CallExpr); ok && fw.CallIs(dinfo, kc, c18T, "connKey") && len(kc.Args) == 1 && c18IsObj(dinfo, kc.Args[0], optsObj) {
						wired = true
					}
				}
				return true
			})
			return true
		})
		r.Check(wired, "C18-R6", dial.Name()+"/onEmpty-unregisters-own-key", p.Pos(c.Pos()), "the connection created by dial gets an onEmpty callback that calls removeConn with dial's own key",
			"a connection that shut down is never removed from WSTransport.conns (or removes another key): the table and Client.Stats() keep counting dead connections, conns does not return to 0 at quiescence")
		return true
	})
	r.Expect("C18-R6", "newWSConnection calls in dial", nNew, 1)

	// (b) delete from WSTransport.conns only for the same connection
	nDel := 0
	for _, fi := range p.Funcs(c18T) {
		info := fi.Info()
		has := false
		fw.WalkAll(fi.Decl.Body, func(n ast.Node) bool {
			if c, ok := n.(*ast.CallExpr); ok && fw.Builtin(info, c) == "delete" && len(c.Args) == 2 && fw.IsFieldSel(info, c.Args[0], c18T, "WSTransport", "conns") {
				has = true
			}
			return true
		})
		if !has {
			continue
		}
		pd := fw.NewPureDeriver(fi)
		fromTable := func(e ast.Expr) bool {
			ix, ok := e.(*ast.IndexExpr)
			return ok && fw.IsFieldSel(info, ix.X, c18T, "WSTransport", "conns")
		}
		c18RunAll(fi, func(in *fw.Interp) fw.Hooks {
			return fw.Hooks{
				Cond: func(e ast.Expr, branch bool, st *fw.State) {
					a := fw.Atom(info, e, branch)
					if a.Kind != "Eq" || a.X == nil || a.Y == nil {
						return
					}
					for _, pr := range [][2]ast.Expr{{a.X, a.Y}, {a.Y, a.X}} {
						if pd.Derives(pr[0], fromTable) && fw.TypeIs(info.TypeOf(pr[1]), c18T, "wsConnection") && !pd.Derives(pr[1], fromTable) {
							st.Set("g:same-conn")
						}
					}
				},
				Node: func(n ast.Node, st *fw.State) {
					c, ok := n.(*ast.CallExpr)
					if !ok || !in.Final() || fw.Builtin(info, c) != "delete" || len(c.Args) != 2 || !fw.IsFieldSel(info, c.Args[0], c18T, "WSTransport", "conns") {
						return
					}
					nDel++
					site := fw.SiteLabel(in)
					r.Check(st.Must("g:same-conn"), "C18-R6", site+"/delete-own-entry-only", p.Pos(c.Pos()), "delete(WSTransport.conns, key) in "+site+" only if the entry still is the connection that is closing",
						"the entry is deleted by key alone. shutdown() sets closed first and calls onEmpty last (after the blocking close handshake); in between getOrDial sees the closed entry, dials a successor and stores it under the same key — the old connection's removeConn(key) then deletes the successor: a live connection with subscribers is missing from the table (not pinged any more, not reused, ConnCount wrong), and its own later removeConn deletes yet another successor")
				},
			}
		})
	}
	r.Expect("C18-R6", "deletes from WSTransport.conns", nDel, 1)

	// (c) SSE: the connection unregisters itself
	if sub := p.Func(c18T, "SSETransport.Subscribe"); sub == nil {
		r.Error("C18-R6: SSETransport.Subscribe not found")
	} else {
		sinfo := sub.Info()
		n := 0
		fw.WalkAll(sub.Decl.Body, func(nd ast.Node) bool {
			as, ok := nd.(*ast.AssignStmt)
			if !ok || len(as.Lhs) != 1 || len(as.Rhs) != 1 {
				return true
			}
			c, ok := ast.Unparen(as.Rhs[0]).(*ast.CallExpr)
			if !ok || !fw.CallIs(sinfo, c, c18T, "newSSEConnection") {
				return true
			}
			n++
			connObj := fw.RootObj(sinfo, as.Lhs[0])
			self := false
			for _, a := range c.Args {
				if lit, isLit := ast.Unparen(a).(*ast.FuncLit); isLit {
					fw.WalkAll(lit.Body, func(x ast.Node) bool {
						if rc, ok := x.(*ast.CallExpr); ok && fw.CallIs(sinfo, rc, c18T, "SSETransport.removeConn") && len(rc.Args) == 1 && c18IsObj(sinfo, rc.Args[0], connObj) {
							self = true
						}
						return true
					})
				}
			}
			r.Check(self, "C18-R6", sub.Name()+"/onClose-unregisters-itself", p.Pos(c.Pos()), "the SSE connection's onClose callback removes that same connection from SSETransport.conns",
				"a finished SSE stream stays in (or removes another stream from) the table: SSEConns never returns to 0 / closeAll misses a live stream")
			return true
		})
		r.Expect("C18-R6", "newSSEConnection calls", n, 1)
	}

	// (d) empty ⇒ close
	info := rs.Info()
	tearers := c18Tearers(p, rs)
	closes := func(c *ast.CallExpr) bool { return tearers[fw.Callee(info, c)] }
	emptyVars := map[types.Object]bool{}
	isEmptyAtom := func(e ast.Expr, branch bool) (empty, known bool) {
		a := fw.Atom(info, e, branch)
		if (a.Kind == "Empty" || a.Kind == "NonEmpty") && fw.IsFieldSel(info, a.X, c18T, "wsConnection", "subs") {
			return a.Kind == "Empty", true
		}
		return false, false
	}
	fw.WalkAll(rs.Decl.Body, func(n ast.Node) bool {
		if as, ok := n.(*ast.AssignStmt); ok && len(as.Lhs) == len(as.Rhs) {
			for i, l := range as.Lhs {
				if _, known := isEmptyAtom(as.Rhs[i], true); known {
					if o := fw.RootObj(info, l); o != nil {
						emptyVars[o] = true
					}
				}
			}
		}
		return true
	})
	nEx, nTest := 0, 0
	in := fw.NewInterp(rs)
	in.H = fw.Hooks{
		Lit: func(l *ast.FuncLit, ctx fw.LitCtx, st *fw.State) fw.LitMode { return fw.LitSkip },
		Cond: func(e ast.Expr, branch bool, st *fw.State) {
			if in.CurLit() != nil {
				return
			}
			if id, ok := ast.Unparen(e).(*ast.Ident); ok && emptyVars[info.Uses[id]] {
				if branch {
					nTest++
				}
				if !branch {
					st.Set("handled")
				}
				return
			}
			if empty, known := isEmptyAtom(e, branch); known {
				if branch {
					nTest++
				}
				if !empty {
					st.Set("handled")
				}
			}
		},
		Node: func(n ast.Node, st *fw.State) {
			c, ok := n.(*ast.CallExpr)
			if !ok {
				return
			}
			if closes(c) {
				st.Set("handled")
				return
			}
			// an attempt to flip closed here: either this path won (and R3/R7 speak about what follows) or the connection is being closed already
			for _, m := range []string{"CompareAndSwap", "Store", "Swap"} {
				if cc, ok := fw.AtomicFieldCall(info, c, c18T, "wsConnection", "closed", m); ok {
					if v, _ := fw.ConstVal(info, cc.Args[len(cc.Args)-1]); v == "true" {
						st.Set("handled")
					}
				}
			}
			if fn := fw.Callee(info, c); fn != nil && fn.Pkg() != nil && fn.Pkg().Path() == "time" && fn.Name() == "AfterFunc" && len(c.Args) == 2 {
				if !fw.IsFieldSel(info, c.Args[0], c18T, "wsConnection", "idleTimeout") {
					return
				}
				switch f := ast.Unparen(c.Args[1]).(type) {
				case *ast.FuncLit:
					fw.WalkAll(f.Body, func(x ast.Node) bool {
						if cc, ok := x.(*ast.CallExpr); ok && closes(cc) {
							st.Set("handled")
						}
						return true
					})
				case *ast.SelectorExpr: // method value
					if fn, ok := info.Uses[f.Sel].(*types.Func); ok && tearers[fn.Origin()] {
						st.Set("handled")
					}
				case *ast.Ident:
					if fn, ok := info.Uses[f].(*types.Func); ok && tearers[fn.Origin()] {
						st.Set("handled")
					}
				}
			}
		},
		Exit: func(ret *ast.ReturnStmt, lit *ast.FuncLit, st *fw.State) {
			if lit != nil || !in.Final() {
				return
			}
			nEx++
			pos := rs.Decl.End()
			if ret != nil {
				pos = ret.Pos()
			}
			r.Check(st.Must("handled"), "C18-R6", rs.Name()+"/empty-leads-to-close", p.Pos(pos), "every path of removeSub on which the table may have become empty closes the connection or arms the idle timer that does",
				"a path leaves removeSub with a possibly empty routing table and neither closeConn() nor time.AfterFunc(idleTimeout, …closeConn…): the upstream connection outlives its last subscription for ever (one leaked socket and read goroutine per key)")
		},
	}
	in.Run(nil)
	r.Expect("C18-R6", "exits of removeSub", nEx, 1)
	r.Expect("C18-R6", "emptiness tests in removeSub", nTest, 1)
}

// ---- R7 idle close atomic with admission -------------------------------------------------------------

func c18R7(r *fw.Run, la *fw.LockAnalysis) {
	p := r.Prog
	r.Rule("C18-R7", "subscribe adds to wsConnection.subs only under subsMu after closed.Load()==false in the same critical section, and every false→true flip of closed that is reachable from removeSub (the close-because-empty path) happens under subsMu in the critical section that saw len(subs)==0; WSTransport.Subscribe does not return the admission refusal (ErrConnectionClosed) of a connection that was idle-closed between getOrDial and subscribe")
	rs := p.Func(c18T, "wsConnection.removeSub")
	if rs == nil {
		r.Error("C18-R7: wsConnection.removeSub not found")
		return
	}
	// functions reachable from removeSub through static in-package calls (literals included)
	reach := map[*fw.FuncInfo]bool{rs: true}
	for changed := true; changed; {
		changed = false
		for fi := range reach {
			// calls and function/method values alike: every in-package function the body mentions
			fw.WalkAll(fi.Decl.Body, func(n ast.Node) bool {
				id, ok := n.(*ast.Ident)
				if !ok {
					return true
				}
				fn, ok := fi.Info().Uses[id].(*types.Func)
				if !ok {
					return true
				}
				if cfi := p.FuncOf(fn); cfi != nil && cfi.Obj.Pkg().Path() == fw.PkgPath(c18T) && !reach[cfi] {
					reach[cfi] = true
					changed = true
				}
				return true
			})
		}
	}
	nAdmit, nFlip := 0, 0
	la.Visit(func(in *fw.Interp, n ast.Node, st *fw.State) {
		info := in.Info
		site := fw.SiteLabel(in)
		if as, ok := n.(*ast.AssignStmt); ok {
			for _, l := range as.Lhs {
				ix, isIdx := ast.Unparen(l).(*ast.IndexExpr)
				if !isIdx || !fw.IsFieldSel(info, ix.X, c18T, "wsConnection", "subs") {
					continue
				}
				nAdmit++
				r.Check(fw.Held(st, lkSubs, false) && st.Must(fSubsOpen), "C18-R7", site+"/admit-after-closed-check", p.Pos(l.Pos()), "a subscription is added to wsConnection.subs under subsMu after closed.Load()==false in the same critical section",
					"the handler is inserted without having seen closed==false inside the subsMu critical section (held: "+strings.Join(fw.HeldLocks(st), ",")+"): shutdown can swap the table between the test and the insert, the subscription lands in a table nobody reads any more and never receives a message, error or completion (stalls for ever)")
			}
			return
		}
		c, ok := n.(*ast.CallExpr)
		if !ok || !reach[in.FI] {
			return
		}
		for _, m := range []string{"CompareAndSwap", "Store", "Swap"} {
			cc, isFlip := fw.AtomicFieldCall(info, c, c18T, "wsConnection", "closed", m)
			if !isFlip {
				continue
			}
			if v, _ := fw.ConstVal(info, cc.Args[len(cc.Args)-1]); v != "true" {
				continue
			}
			nFlip++
			r.Check(fw.Held(st, lkSubs, true) && (st.Must(fSubsEmpty) || c18GuardedByEmptyConjunct(in.FI, c)), "C18-R7", site+"/idle-close-atomic-with-admission", p.Pos(c.Pos()), "closed is flipped on the close-because-empty path (reachable from removeSub) inside the subsMu critical section that observed len(subs)==0",
				"removeSub decides 'empty' under subsMu, releases it and only then (closeConn→shutdown) flips closed, with no lock and no re-check (held: "+strings.Join(fw.HeldLocks(st), ",")+"). In between, another subscriber's getOrDial still sees the connection open and subscribe() adds it to subs; shutdown then delivers a connection error to that new subscriber: one subscriber's cancel fails another")
		}
	})
	r.Expect("C18-R7", "inserts into wsConnection.subs", nAdmit, 1)

	// the other half of the same window: a connection handed out by getOrDial may be shut down (because the
	// other subscribers left) before subscribe() is admitted; that refusal must not become the subscriber's error
	sub := p.Func(c18T, "WSTransport.Subscribe")
	if sub == nil {
		r.Error("C18-R7: WSTransport.Subscribe not found")
		return
	}
	info := sub.Info()
	ctxObj := c18Param(sub, 0)
	isAdmit := func(e ast.Expr) bool {
		c, ok := e.(*ast.CallExpr)
		return ok && fw.CallIs(info, c, c18T, "wsConnection.subscribe")
	}
	mentionsClosed := func(e ast.Expr) bool {
		found := false
		fw.WalkAll(e, func(n ast.Node) bool {
			if id, ok := n.(*ast.Ident); ok {
				if v, ok := info.Uses[id].(*types.Var); ok && v.Pkg() != nil && v.Pkg().Path() == fw.PkgPath(c18C) && v.Name() == "ErrConnectionClosed" {
					found = true
				}
			}
			return true
		})
		return found
	}
	nRet := 0
	admitVars := map[types.Object]bool{}
	in := fw.NewInterp(sub)
	in.H = fw.Hooks{
		Node: func(n ast.Node, st *fw.State) {
			as, ok := n.(*ast.AssignStmt)
			if !ok {
				return
			}
			isAdm := len(as.Rhs) == 1 && isAdmit(ast.Unparen(as.Rhs[0]))
			for _, l := range as.Lhs {
				o := fw.RootObj(info, l)
				if o == nil {
					continue
				}
				if isAdm {
					admitVars[o] = true
					st.Set("admitted")
				} else if admitVars[o] {
					st.Kill("admitted")
					st.Kill("not-refused")
				}
			}
		},
		Cond: func(e ast.Expr, branch bool, st *fw.State) {
			a := fw.Atom(info, e, branch)
			// errors.Is(err, ErrConnectionClosed) false / err != ErrConnectionClosed
			if c, ok := ast.Unparen(e).(*ast.CallExpr); ok && !branch && mentionsClosed(c) {
				if fn := fw.Callee(info, c); fn != nil && fn.Name() == "Is" {
					st.Set("not-refused")
				}
			}
			if a.Kind == "Ne" && (mentionsClosed(a.X) || mentionsClosed(a.Y)) {
				st.Set("not-refused")
			}
			// the subscriber's own context is done
			if a.Kind == "NonNil" {
				if c, ok := ast.Unparen(a.X).(*ast.CallExpr); ok {
					if fn := fw.Callee(info, c); fn != nil && fn.Pkg() != nil && fn.Pkg().Path() == "context" && fn.Name() == "Err" {
						if sel, ok := ast.Unparen(c.Fun).(*ast.SelectorExpr); ok && c18IsObj(info, sel.X, ctxObj) {
							st.Set("not-refused")
						}
					}
				}
			}
		},
		Exit: func(ret *ast.ReturnStmt, lit *ast.FuncLit, st *fw.State) {
			if ret == nil || lit != nil || !in.Final() {
				return
			}
			from := false
			for _, res := range ret.Results {
				if isAdmit(ast.Unparen(res)) {
					from = true
				}
				if id, ok := ast.Unparen(res).(*ast.Ident); ok && admitVars[info.Uses[id]] && st.May("admitted") {
					from = true
				}
			}
			if !from {
				return
			}
			nRet++
			r.Check(st.Must("not-refused"), "C18-R7", sub.Name()+"/admission-refusal-not-returned", p.Pos(ret.Pos()), "Subscribe returns the result of wsConnection.subscribe only after excluding ErrConnectionClosed (re-dial instead)",
				"getOrDial hands out a connection that tested open; if the other subscribers leave before subscribe() takes subsMu, the idle close flips closed and subscribe() answers ErrConnectionClosed, which Subscribe returns verbatim: the new subscriber fails with 'connection closed' (shown to its client as upstream service error) only because another subscriber cancelled at that moment, although a fresh dial would succeed")
		},
	}
	in.Run(nil)
	r.Expect("C18-R7", "returns of the admission result in WSTransport.Subscribe", nRet, 1)
	r.Expect("C18-R7", "flips of closed reachable from removeSub", nFlip, 1)
}

// c18WhoMayRemoveSubs (C18-R8, added after a seeded change was missed): entries leave wsConnection.subs only
// through removeSub (which decides about the idle close) or through the wholesale swap in the teardown;
// a bare delete elsewhere drops the last subscription without ever closing the connection.
func c18WhoMayRemoveSubs(r *fw.Run) {
	p := r.Prog
	r.Rule("C18-R8", "an entry is deleted from wsConnection.subs only in wsConnection.removeSub (the function that arms the idle close when the table becomes empty)")
	pkg := fw.PkgPath("subtransport")
	n := 0
	fw.EachCall(p.Funcs(pkg), func(fi *fw.FuncInfo, c *ast.CallExpr, stack []ast.Node) {
		info := fi.Info()
		if fw.Builtin(info, c) != "delete" || len(c.Args) != 2 {
			return
		}
		v, sel := fw.Field(info, c.Args[0])
		if v == nil || v.Name() != "subs" {
			return
		}
		if _, tn := fw.FieldOwner(info, sel); tn != "wsConnection" {
			return
		}
		n++
		r.Check(fi.Name() == "wsConnection.removeSub", "C18-R8", fi.Name()+"/delete-from-subs", p.Pos(c.Pos()), "delete from wsConnection.subs in "+fi.Name(),
			"a subscription is removed from the routing table outside removeSub: when it was the last one nothing starts the empty/idle close, so the upstream connection outlives its last subscription for ever")
	})
	r.Expect("C18-R8", "deletes from wsConnection.subs", n, 1)
}

// c18SharedWritesUnderConnectionContext (R9): the WebSocket connection is shared by many subscribers, and the WebSocket
// library closes the whole connection when the context of an in-flight write ends. Every write on a shared wsConnection
// (a call of a protocol.Protocol / protocol.Pinger method that takes the connection) therefore runs under a context that
// belongs to the connection (its own ctx) or to nobody (context.Background), never under a context that derives from a
// context parameter of the function — that is one subscriber's, and its cancellation would tear the connection down for all.
func c18SharedWritesUnderConnectionContext(r *fw.Run) {
	p := r.Prog
	r.Rule("C18-R9", "every write on a shared wsConnection (protocol Subscribe / Unsubscribe / Ping / Pong on c.conn) runs under the connection's own context or a background context, never under a context derived from a caller's context parameter (one subscriber's cancellation must not close the connection of all)")
	pk := p.Pkg("subtransport")
	if pk == nil {
		r.Error("C18-R9: transport package not loaded")
		return
	}
	info := pk.TypesInfo
	n := 0
	for _, fi := range p.Funcs("subtransport") {
		if fi.Decl.Recv == nil || !strings.HasPrefix(fi.Name(), "wsConnection.") {
			continue
		}
		sig := fi.Obj.Type().(*types.Signature)
		ctxParams := map[types.Object]bool{}
		for i := 0; i < sig.Params().Len(); i++ {
			if sig.Params().At(i).Type().String() == "context.Context" {
				ctxParams[sig.Params().At(i)] = true
			}
		}
		var d *fw.Deriver
		fw.WalkAll(fi.Decl.Body, func(nd ast.Node) bool {
			c, ok := nd.(*ast.CallExpr)
			if !ok || len(c.Args) < 2 {
				return true
			}
			fn := fw.Callee(info, c)
			if fn == nil {
				return true
			}
			fsig, _ := fn.Type().(*types.Signature)
			if fsig == nil || fsig.Recv() == nil {
				return true
			}
			rn := fw.RecvName(fsig.Recv().Type())
			if rn != "Protocol" && rn != "Pinger" {
				return true
			}
			// a call that takes the shared socket
			takesConn := false
			for _, a := range c.Args {
				if fw.IsFieldSel(info, a, "subtransport", "wsConnection", "conn") {
					takesConn = true
				}
			}
			if !takesConn || fn.Name() == "Read" {
				return true
			}
			n++
			if d == nil {
				d = fw.NewPureDeriver(fi)
			}
			fromCaller := d.Derives(c.Args[0], func(e ast.Expr) bool {
				id, ok := e.(*ast.Ident)
				return ok && ctxParams[info.Uses[id]]
			})
			r.Check(!fromCaller, "C18-R9", fi.Name()+"/"+fn.Name()+"-under-connection-context", p.Pos(c.Pos()), rn+"."+fn.Name()+" on the shared socket in "+fi.Name()+" runs under the connection's (or a background) context",
				"the message is written under a context that derives from a context parameter — one subscriber's: when that subscriber's context ends during (or before) the write the WebSocket library closes the whole connection, and every other subscriber that shares it receives a connection error for something it did not do")
			return true
		})
	}
	r.Expect("C18-R9", "writes on the shared socket", n, 4)
}

// (R10 retired.) "ErrAckTimeout only on the true edge of errors.Is(err, context.DeadlineExceeded)" was a necessary condition
// only while the waiters of a coalesced dial classified the shared error by its value. Since the repair F53 the dialler
// records whether its own context had ended (dialResult.diallerGone) and the waiters test that record (R13): a cancelled
// dialler reported as an ack timeout no longer reaches any waiter, so the rule would alarm on code where the property holds.

// c18SubscribeExitsRunIdleCheck (R11): a connection is closed by the idle logic, and the idle logic runs when a
// subscription is removed (removeSub → close now, or closeIfIdle after the idle period). A connection that was dialled for a
// subscriber who then fails to register never has a subscription removed from it — unless the failing exit of
// wsConnection.subscribe runs the idle check itself. Every exit of subscribe that returns an error has called removeSub
// / closeIfIdle, or lies on an edge that proves the check is not needed: the connection is already closed
// (closed.Load() true), or another subscription exists (the comma-ok lookup in subs succeeded).
func c18SubscribeExitsRunIdleCheck(r *fw.Run) {
	p := r.Prog
	r.Rule("C18-R11", "every error exit of wsConnection.subscribe has run the idle check (removeSub / closeIfIdle), or is on the edge where the connection is already closed or holds another subscription: a connection dialled for a subscriber that never registers does not stay open without subscriptions")
	fi := p.Func(c18T, "wsConnection.subscribe")
	if fi == nil {
		r.Error("C18-R11: wsConnection.subscribe not found")
		return
	}
	info := fi.Info()
	existsVars := map[types.Object]bool{}
	fw.WalkAll(fi.Decl.Body, func(nd ast.Node) bool {
		as, ok := nd.(*ast.AssignStmt)
		if !ok || len(as.Lhs) != 2 || len(as.Rhs) != 1 {
			return true
		}
		if ix, isIx := ast.Unparen(as.Rhs[0]).(*ast.IndexExpr); isIx && fw.IsFieldSel(info, ix.X, c18T, "wsConnection", "subs") {
			if id, isID := as.Lhs[1].(*ast.Ident); isID {
				if o := info.Defs[id]; o != nil {
					existsVars[o] = true
				}
			}
		}
		return true
	})
	n := 0
	in := fw.NewInterp(fi)
	in.H = fw.Hooks{
		Cond: func(e ast.Expr, branch bool, st *fw.State) {
			if _, ok := fw.AtomicFieldCall(info, e, c18T, "wsConnection", "closed", "Load"); ok && branch {
				st.Set("no-check-needed")
			}
			if id, ok := ast.Unparen(e).(*ast.Ident); ok && branch && existsVars[info.Uses[id]] {
				st.Set("no-check-needed")
			}
		},
		Node: func(nd ast.Node, st *fw.State) {
			if c, ok := nd.(*ast.CallExpr); ok && (fw.CallIs(info, c, c18T, "wsConnection.removeSub") || fw.CallIs(info, c, c18T, "wsConnection.closeIfIdle")) {
				st.Set("idle-checked")
			}
		},
		Exit: func(ret *ast.ReturnStmt, lit *ast.FuncLit, st *fw.State) {
			if lit != nil || ret == nil || !in.Final() || len(ret.Results) != 2 {
				return
			}
			if id, ok := ast.Unparen(ret.Results[1]).(*ast.Ident); ok && info.Uses[id] == types.Universe.Lookup("nil") {
				return // success
			}
			n++
			r.Check(st.Must("idle-checked") || st.Must("no-check-needed"), "C18-R11", "wsConnection.subscribe/error-exit-runs-idle-check#"+itoa(n), p.Pos(ret.Pos()), "this error exit of wsConnection.subscribe has run the idle check, or the connection is closed / holds another subscription",
				"subscribe fails without the idle check: when the subscriber was the reason the connection was dialled (its context ended between the dial and this call), the connection stays in the transport's table with zero subscriptions — nothing ever closes it, it is pinged for ever and counted in Stats().WSConns until the upstream drops it")
		},
	}
	in.Run(nil)
	r.Expect("C18-R11", "error exits of wsConnection.subscribe", n, 4)
}

// c18PingStampedBeforeWrite (R12): a connection is declared dead when lastPongAt < lastPingSentAt and the ping timeout has
// passed. The pong of a healthy upstream can be processed by the read loop before the goroutine that wrote the ping
// resumes; if that goroutine stamps lastPingSentAt only after the write returned, the stamp is later than the pong that
// answered it, the pong looks overdue at the next tick (ping interval > ping timeout is the default shape) and a healthy
// connection with all its subscriptions is torn down. The stamp must happen before the write: every call of
// Pinger.Ping in package transport is dominated by a write (Store / Swap) of lastPingSentAt.
func c18PingStampedBeforeWrite(r *fw.Run) {
	p := r.Prog
	r.Rule("C18-R12", "every Pinger.Ping on a wsConnection is dominated by the write of lastPingSentAt (the ping is stamped before it is written, so a pong can never be older than the ping it answers)")
	n := 0
	for _, fi := range p.Funcs(c18T) {
		info := fi.Info()
		in := fw.NewInterp(fi)
		in.H = fw.Hooks{Node: func(nd ast.Node, st *fw.State) {
			c, ok := nd.(*ast.CallExpr)
			if !ok {
				return
			}
			for _, m := range []string{"Store", "Swap"} {
				if cc, isM := fw.AtomicFieldCall(info, c, c18T, "wsConnection", "lastPingSentAt", m); isM && cc == c {
					st.Set("stamped")
				}
			}
			if in.Final() && fw.CallIs(info, c, c18P, "Pinger.Ping") {
				n++
				r.Check(st.Must("stamped"), "C18-R12", fi.Name()+"/ping-stamped-before-write", p.Pos(c.Pos()), "lastPingSentAt is written before the ping is written in "+fi.Name(),
					"the ping is stamped after the write returned: a pong that the read loop processes before this goroutine resumes is older than the stamp, so the answered ping looks unanswered — with the default ping interval > ping timeout the next tick closes a healthy connection and ends every subscription multiplexed on it")
			}
		}}
		in.Run(nil)
	}
	r.Expect("C18-R12", "Pinger.Ping calls in package transport", n, 1)
}

// c18WaitersLearnWhetherTheDiallerWasGone (R13): a coalesced dial fails for two very different reasons — the upstream did
// not answer (every waiter would fail the same way), or the dialling subscriber's own context ended (cancelled, or past
// *its* deadline), which says nothing about the upstream. The error value cannot tell them apart (the dialler's deadline
// surfaces as the protocol's ack timeout). The dialler therefore records the state of its own context in the shared
// result before it wakes the waiters, and a waiter hands the shared error on only after a test of that record; otherwise
// a waiter without any deadline fails with "connection_ack timeout" after the dialler's 100 ms.
func c18WaitersLearnWhetherTheDiallerWasGone(r *fw.Run) {
	p := r.Prog
	r.Rule("C18-R13", "in getOrDial the dialler records the state of its own context (ctx.Err()) in the shared dial result before closing done, and a waiter returns the shared error only after a test of that record")
	fi := p.Func(c18T, "WSTransport.getOrDial")
	if fi == nil {
		r.Error("C18-R13: WSTransport.getOrDial not found")
		return
	}
	info := fi.Info()
	sig := fi.Obj.Type().(*types.Signature)
	var ctxParam types.Object
	for i := 0; i < sig.Params().Len(); i++ {
		if fw.TypeIs(sig.Params().At(i).Type(), "context", "Context") {
			ctxParam = sig.Params().At(i)
		}
	}
	mentionsOwnCtxErr := func(e ast.Expr) bool {
		found := false
		fw.WalkAll(e, func(n ast.Node) bool {
			if c, ok := n.(*ast.CallExpr); ok {
				if sel, isSel := ast.Unparen(c.Fun).(*ast.SelectorExpr); isSel && sel.Sel.Name == "Err" {
					if id, isID := ast.Unparen(sel.X).(*ast.Ident); isID && info.Uses[id] == ctxParam {
						found = true
					}
				}
			}
			return !found
		})
		return found
	}
	// fields of dialResult assigned from the dialler's context state
	record := map[*types.Var]bool{}
	fw.WalkAll(fi.Decl.Body, func(nd ast.Node) bool {
		as, ok := nd.(*ast.AssignStmt)
		if !ok || len(as.Lhs) != len(as.Rhs) {
			return true
		}
		for i, l := range as.Lhs {
			if fv, sel := fw.Field(info, l); fv != nil {
				if _, tn := fw.FieldOwner(info, sel); tn == "dialResult" && mentionsOwnCtxErr(as.Rhs[i]) {
					record[fv] = true
				}
			}
		}
		return true
	})
	mentionsRecord := func(e ast.Expr) bool {
		found := false
		fw.WalkAll(e, func(n ast.Node) bool {
			if sel, ok := n.(*ast.SelectorExpr); ok {
				if fv, _ := fw.Field(info, sel); fv != nil && record[fv] {
					found = true
				}
			}
			return !found
		})
		return found
	}
	nClose, nRet := 0, 0
	in := fw.NewInterp(fi)
	in.H = fw.Hooks{
		Cond: func(e ast.Expr, branch bool, st *fw.State) {
			if mentionsRecord(e) {
				st.Set("record-tested")
			}
		},
		Node: func(nd ast.Node, st *fw.State) {
			if as, ok := nd.(*ast.AssignStmt); ok && len(as.Lhs) == len(as.Rhs) {
				for _, l := range as.Lhs {
					if fv, _ := fw.Field(info, l); fv != nil && record[fv] {
						st.Set("recorded")
					}
				}
			}
			c, ok := nd.(*ast.CallExpr)
			if !ok || !in.Final() || fw.Builtin(info, c) != "close" || len(c.Args) != 1 {
				return
			}
			if fv, sel := fw.Field(info, c.Args[0]); fv != nil && fv.Name() == "done" {
				if _, tn := fw.FieldOwner(info, sel); tn == "dialResult" {
					nClose++
					r.Check(st.Must("recorded"), "C18-R13", "WSTransport.getOrDial/dialler-records-its-context-state-before-the-wake-up", p.Pos(c.Pos()), "the dialler has recorded the state of its own context in the shared result before close(done)",
						"the waiters are woken without knowing whether the dialler's own context had ended: they cannot tell the dialler's deadline from an upstream that does not acknowledge")
				}
			}
		},
		Exit: func(ret *ast.ReturnStmt, lit *ast.FuncLit, st *fw.State) {
			if lit != nil || ret == nil || !in.Final() || len(ret.Results) != 2 {
				return
			}
			fv, sel := fw.Field(info, ret.Results[1])
			if fv == nil || fv.Name() != "err" {
				return
			}
			if _, tn := fw.FieldOwner(info, sel); tn != "dialResult" {
				return
			}
			nRet++
			r.Check(st.Must("record-tested"), "C18-R13", "WSTransport.getOrDial/waiter-returns-shared-error-only-after-testing-the-record", p.Pos(ret.Pos()), "the waiter returns the shared dial error only after a test of the dialler's recorded context state",
				"the waiter hands the dialler's error on without asking whether the dialler itself was gone: a dialler whose own context ran into its deadline (reported by the protocol as ErrAckTimeout) fails every coalesced waiter — a waiter with no deadline and AckTimeout=30s failed after the dialler's 101 ms with 'connection_ack timeout'")
		},
	}
	in.Run(nil)
	r.Expect("C18-R13", "close(done) of a dial result", nClose, 1)
	r.Expect("C18-R13", "returns of the shared dial error", nRet, 1)
}

// c18AddressedFaultsStayWithTheirSubscription (R14): the read loop treats every error of Protocol.Read as the end of the
// connection and tells all subscriptions on it. A frame that is well-formed and names its subscription — a data message
// with an id whose payload does not decode — is the fault of that subscription alone; returning an error for it turns one
// subscription's bad message into the failure of all the others that share the connection (cross-talk). In the decode
// function of each protocol (the function that maps a raw message to a *WireMessage, with a dispatch over the raw type),
// inside the arm that builds a data message, an error is returned only where the id of the raw message is known to be
// empty; otherwise the fault is delivered as that subscription's message.
func c18AddressedFaultsStayWithTheirSubscription(r *fw.Run) {
	p := r.Prog
	r.Rule("C18-R14", "in the protocol decoders an error (which ends the whole connection) is returned from the arm that builds a subscription's data message only where the raw message carries no id; a fault of an addressed message is delivered to its subscription")
	n := 0
	for _, fi := range p.Funcs(c18P) {
		sig := fi.Obj.Type().(*types.Signature)
		if sig.Results().Len() != 2 || sig.Params().Len() != 1 {
			continue
		}
		if pt, ok := sig.Results().At(0).Type().(*types.Pointer); !ok || !fw.TypeIs(pt.Elem(), c18P, "WireMessage") {
			continue
		}
		info := fi.Info()
		raw := sig.Params().At(0)
		isRawID := func(e ast.Expr) bool {
			sel, ok := ast.Unparen(e).(*ast.SelectorExpr)
			if !ok || sel.Sel.Name != "ID" {
				return false
			}
			id, isID := ast.Unparen(sel.X).(*ast.Ident)
			return isID && info.Uses[id] == raw
		}
		fw.WalkAll(fi.Decl.Body, func(nd ast.Node) bool {
			cc, ok := nd.(*ast.CaseClause)
			if !ok {
				return true
			}
			// the arm of a data message: assigns <msg>.Type = MessageData
			data := false
			for _, st := range cc.Body {
				fw.WalkAll(st, func(m ast.Node) bool {
					if as, isAs := m.(*ast.AssignStmt); isAs && len(as.Lhs) == 1 && len(as.Rhs) == 1 && fw.IsFieldSel(info, as.Lhs[0], c18P, "WireMessage", "Type") {
						if k := fw.ConstObj(info, as.Rhs[0]); k != nil && k.Name() == "MessageData" {
							data = true
						}
					}
					return true
				})
			}
			if !data {
				return true
			}
			var stack []ast.Node
			for _, st := range cc.Body {
				ast.Inspect(st, func(m ast.Node) bool {
					if m == nil {
						stack = stack[:len(stack)-1]
						return true
					}
					stack = append(stack, m)
					ret, isRet := m.(*ast.ReturnStmt)
					if !isRet || len(ret.Results) != 2 {
						return true
					}
					if id, isID := ast.Unparen(ret.Results[1]).(*ast.Ident); isID && info.Uses[id] == types.Universe.Lookup("nil") {
						return true
					}
					n++
					noID := false
					for _, anc := range stack {
						is, isIf := anc.(*ast.IfStmt)
						if !isIf {
							continue
						}
						// the return sits in the then-branch of an if that establishes an empty id
						inThen := false
						ast.Inspect(is.Body, func(q ast.Node) bool {
							if q == ast.Node(ret) {
								inThen = true
							}
							return true
						})
						if !inThen {
							continue
						}
						op, leaves := fw.NNF(info, is.Cond, true)
						if op != "atom" && op != "and" {
							continue
						}
						for _, a := range leaves {
							if a.Kind == "Empty" && isRawID(a.X) {
								noID = true
							}
							if a.Kind == "Eq" && isRawID(a.X) {
								if v, isConst := fw.ConstVal(info, a.Y); isConst && strings.Trim(v, "\"") == "" {
									noID = true
								}
							}
						}
					}
					r.Check(noID, "C18-R14", fi.Name()+"/addressed-fault-stays-with-its-subscription", p.Pos(ret.Pos()), "the error returned from the data arm of "+fi.Name()+" is returned only for a message without an id",
						fi.Name()+" returns an error for a data message that names its subscription (a payload that does not decode): the read loop ends the connection for every error of Read, so every other subscription that shares the connection is terminated because of a message addressed to one of them")
					return true
				})
			}
			return true
		})
	}
	r.Expect("C18-R14", "error returns in the data arms of the protocol decoders", n, 2)
}
