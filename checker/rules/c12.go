package rules

import (
	"go/ast"
	"go/token"
	"go/types"
	"strings"

	"verif/checker/fw"
)

const (
	lkWriteMu   = "resolve.subscriptionState.writeMu"
	lkResolver  = "resolve.Resolver.mu"
	lkTrigger   = "resolve.trigger.mu"
	lkUpdater   = "resolve.subscriptionUpdater.mu"
	fNotRemoved = "under:" + lkWriteMu + ":notremoved"
	// fNotTerminated: inside the current writeMu critical section subscriptionState.terminated was tested false
	fNotTerminated = "under:" + lkWriteMu + ":notterminated"
	fUpdLive    = "under:" + lkUpdater + ":live"
)

const resolveGo = "v2/pkg/engine/resolve/resolve.go"

func init() {
	Registry["C12"] = Spec{
		Pkgs: map[string][]string{"v2": {"resolve"}},
		Run:  runC12,
		Thorough: func(r *fw.Run) {
			workspaceWhoMayCall(r, []wsCallRule{
				{Rule: "C12-T1", What: "the lifecycle methods of a client's SubscriptionResponseWriter (Flush / Complete / Heartbeat / Error) are called only from package resolve, where the writer discipline is checked", Callees: []string{"resolve:SubscriptionResponseWriter.Flush", "resolve:SubscriptionResponseWriter.Complete", "resolve:SubscriptionResponseWriter.Heartbeat", "resolve:SubscriptionResponseWriter.Error"}, Allowed: []string{"resolve:"}, Why: "a client writer is driven from another package: nothing orders that call with the removal of the subscription or with the writes of package resolve (C12-R1 only sees package resolve) — writes after completion, overlapping writes", Expected: 10},
			})
		},
		Explanation: "Decides the structural half of 'nothing is written after removal, writes never overlap, completion is signalled exactly once': " +
			"a must-lock-set + guard analysis over every path of package resolve shows that each use of subscriptionState.writer happens with writeMu held and after removed.Load() was seen false in the same critical section; " +
			"that the completed channel is closed at one site under writeMu, reached only through closeSubs, whose arguments are fed only by elements won through removed.CompareAndSwap(false,true); " +
			"that every subscriptionUpdater callback enters the resolver only under updater.mu after the done/ctx gate; and that handleTriggerUpdate joins its workers. " +
			"It does not decide ordering or exactness of the delivered messages (value/ history level).",
		Mutants: []Mutant{
			{Name: "the event's string value is quoted as it is written in the JSON text (reverts the F102 fix)", File: "v2/pkg/engine/resolve/subscription_filter.go", Rule: "C12-R11", Key: "SubscriptionFieldFilter.SkipEvent/raw-content-decoded-before-encoded:expected",
				Old: "\t\texpected = unescaped\n", New: "\t\t_ = unescaped\n"},
			{Name: "heartbeats no longer ask whether the terminal frame was written (reverts part of the F76 fix)", File: resolveGo, Rule: "C12-R10", Key: "sendHeartbeat",
				Old: "\tif s.removed.Load() || s.terminated {\n\t\treturn nil\n\t}\n\treturn s.writer.Heartbeat()", New: "\tif s.removed.Load() {\n\t\treturn nil\n\t}\n\treturn s.writer.Heartbeat()"},
			{Name: "complete() does not record the terminal frame (reverts part of the F76 fix)", File: resolveGo, Rule: "C12-R10", Key: "subscriptionState.complete/terminal-frame-recorded",
				Old: "\ts.writer.Complete()\n\ts.terminated = true\n", New: "\ts.writer.Complete()\n"},
			{Name: "filter loop quotes the event value in place (reverts the F32 fix)", File: "v2/pkg/engine/resolve/subscription_filter.go", Rule: "C12-R9", Key: "SkipEvent/loop-invariant-input-reassigned:expected",
				Old: "\t\t\t\t\tquotedExpected, err = json.Marshal(string(expected))\n", New: "\t\t\t\t\texpected, err = json.Marshal(string(expected))\n\t\t\t\t\tquotedExpected = expected\n"},
			{Name: "filter loop returns at the first filter error (seeded change C12-22)", File: resolveGo, Rule: "C12-R7", Key: "trigger.filterSubscriptions/filter-loop-visits-every-subscriber",
				Old: "\t\tif filterErr != nil {\n\t\t\tfilterErrors = append(filterErrors, *filterErr)\n\t\t}\n\t}\n\n\treturn subs, filterErrors\n", New: "\t\tif filterErr != nil {\n\t\t\tfilterErrors = append(filterErrors, *filterErr)\n\t\t\treturn subs, filterErrors\n\t\t}\n\t}\n\n\treturn subs, filterErrors\n"},
			{Name: "per-connection index entry dropped with the first subscription that ends (seeded change C12-23)", File: resolveGo, Rule: "C12-R8", Key: "Resolver.unregisterSubscriptionLocked/connection-entry-deleted-only-when-empty",
				Old: "\tdelete(byConn, id)\n\tif len(byConn) == 0 {\n\t\tdelete(r.subscriptionsByConnection, id.ConnectionID)\n\t}\n", New: "\tdelete(byConn, id)\n\tdelete(r.subscriptionsByConnection, id.ConnectionID)\n"},
			{Name: "synchronous API returns right after unsubscribing (seeded change C12-11)", File: resolveGo, Rule: "C12-R5", Key: "ResolveGraphQLSubscription/exit-after-completed",
				Old: "\t\t_ = r.UnsubscribeSubscription(id)\n\t\tselect {\n\t\tcase <-completed:\n\t\t\t// Wait for the subscription to be completed to avoid race conditions\n\t\t\t// with go sdk request shutdown.\n\t\tcase <-r.ctx.Done():\n\t\t\t// Resolver shutdown\n\t\t\treturn r.ctx.Err()\n\t\t}\n", New: "\t\treturn r.UnsubscribeSubscription(id)\n"},
			{Name: "one failing filter drops the event for all subscribers (seeded change C12-13)", File: resolveGo, Rule: "C12-R6", Key: "handleTriggerUpdate/exit-after-delivery",
				Old: "\tfor _, fe := range filterErrors {\n\t\tfe.sub.writeError(r.errorFormatter, fe.ctx, fe.err, fe.response)\n\t}\n\n\tvar wg sync.WaitGroup", New: "\tfor _, fe := range filterErrors {\n\t\tfe.sub.writeError(r.errorFormatter, fe.ctx, fe.err, fe.response)\n\t}\n\tif len(filterErrors) != 0 {\n\t\treturn\n\t}\n\n\tvar wg sync.WaitGroup"},
			{Name: "heartbeat written without re-checking removed", File: resolveGo, Rule: "C12-R1", Key: "sendHeartbeat",
				Old: "\tif s.removed.Load() || s.terminated {\n\t\treturn nil\n\t}\n\treturn s.writer.Heartbeat()", New: "\tif s.terminated {\n\t\treturn nil\n\t}\n\treturn s.writer.Heartbeat()"},
			{Name: "removed tested before writeMu is taken in executeSubscriptionUpdate", File: resolveGo, Rule: "C12-R1", Key: "executeSubscriptionUpdate",
				Old: "\tsub.writeMu.Lock()\n\tif sub.removed.Load() || sub.terminated {\n\t\tsub.writeMu.Unlock()\n\t\tr.resolveArenaPool.Release(resolveArena)\n\t\treturn\n\t}",
				New: "\tif sub.removed.Load() {\n\t\tr.resolveArenaPool.Release(resolveArena)\n\t\treturn\n\t}\n\tsub.writeMu.Lock()\n\tif sub.terminated {\n\t\tsub.writeMu.Unlock()\n\t\tr.resolveArenaPool.Release(resolveArena)\n\t\treturn\n\t}"},
			{Name: "subscription queued for close without winning the CAS", File: resolveGo, Rule: "C12-R2", Key: "removeSubscriptionLocked",
				Old: "\tif s.removed.CompareAndSwap(false, true) {\n\t\ttoClose = append(toClose, s)\n\t}\n\tdelete(trig.subscriptions, id)",
				New: "\ts.removed.Store(true)\n\ttoClose = append(toClose, s)\n\tdelete(trig.subscriptions, id)"},
			{Name: "lifecycle gate dropped from subscriptionUpdater.Heartbeat", File: resolveGo, Rule: "C12-R3", Key: "subscriptionUpdater.Heartbeat",
				Old: "func (s *subscriptionUpdater) Heartbeat() {\n\ts.mu.Lock()\n\tdefer s.mu.Unlock()\n\tif s.done || s.ctx.Err() != nil {\n\t\treturn\n\t}",
				New: "func (s *subscriptionUpdater) Heartbeat() {\n\ts.mu.Lock()\n\tdefer s.mu.Unlock()"},
			{Name: "handleTriggerUpdate returns without joining its workers", File: resolveGo, Rule: "C12-R3", Key: "join",
				Old: "\t\t})\n\t}\n\twg.Wait()\n}", New: "\t\t})\n\t}\n}"},
			{Name: "unsubscribe on flush error runs with writeMu still held (defer-unlock refactor)", File: resolveGo, Rule: "C12-R4", Key: "acquire",
				Old: "\tif err := sub.writer.Flush(); err != nil {\n\t\tsub.writeMu.Unlock()\n\t\t// If flush fails (e.g. client disconnected), remove the subscription.\n\t\tr.unsubscribeState(sub)\n\t\treturn\n\t}",
				New: "\tif err := sub.writer.Flush(); err != nil {\n\t\t// If flush fails (e.g. client disconnected), remove the subscription.\n\t\tr.unsubscribeState(sub)\n\t\tsub.writeMu.Unlock()\n\t\treturn\n\t}"},
			{Name: "done() called directly from handleTriggerComplete", File: resolveGo, Rule: "C12-R2", Key: "call-done",
				Old: "\t\tif !s.removed.Load() {\n\t\t\ts.complete()\n\t\t}", New: "\t\tif !s.removed.Load() {\n\t\t\ts.complete()\n\t\t\ts.done()\n\t\t}"},
		},
	}
}

// subsLockAnalysis is shared by C12 and C13: lock sets over package resolve plus two guard facts.
func subsLockAnalysis(r *fw.Run) *fw.LockAnalysis {
	la := fw.NewLockAnalysis(r.Prog, "resolve")
	la.KeepFacts = []string{"under:"}
	la.ExtraCond = func(in *fw.Interp, e ast.Expr, branch bool, st *fw.State) {
		info := in.Info
		// removed.Load() == false while writeMu is held
		if _, ok := fw.AtomicFieldCall(info, e, "resolve", "subscriptionState", "removed", "Load"); ok && !branch {
			if fw.Held(st, lkWriteMu, false) {
				st.Set(fNotRemoved)
			}
		}
		// terminated == false while writeMu is held (the terminal frame has not been written)
		if fw.IsFieldSel(info, e, "resolve", "subscriptionState", "terminated") && !branch {
			if fw.Held(st, lkWriteMu, false) {
				st.Set(fNotTerminated)
			}
		}
		// updater gate: `s.done` false (and ctx.Err()==nil) while updater.mu is held
		if fw.IsFieldSel(info, e, "resolve", "subscriptionUpdater", "done") && !branch {
			if fw.Held(st, lkUpdater, false) {
				st.Set(fUpdLive)
			}
		}
	}
	la.ExtraNode = func(in *fw.Interp, n ast.Node, st *fw.State) {
		// `s.done = true` ends the live state
		if as, ok := n.(*ast.AssignStmt); ok {
			for _, l := range as.Lhs {
				if fw.IsFieldSel(in.Info, l, "resolve", "subscriptionUpdater", "done") {
					st.Kill(fUpdLive)
					st.Set("upd:doneSet")
				}
			}
		}
	}
	la.Solve()
	return la
}

func runC12(r *fw.Run) {
	defer c12SyncAPIWaitsForCompletion(r)
	defer c12FilterErrorsDoNotSilenceOthers(r)
	defer c12EverySubscriberIsFiltered(r)
	defer c12LoopInvariantInputs(r)
	defer c12RawStringContentIsDecodedBeforeItIsEncoded(r)
	defer c12ConnectionIndexMirrorsRegistration(r)
	p := r.Prog
	if p.Named("resolve", "subscriptionState") == nil {
		r.Error("type resolve.subscriptionState not found")
		return
	}
	la := subsLockAnalysis(r)
	info := p.Pkg("resolve").TypesInfo

	// ---- R1: uses of subscriptionState.writer ------------------------------------------------
	r.Rule("C12-R1", "every use of subscriptionState.writer (method call on it, or passing it as the output writer) holds writeMu and follows removed.Load()==false inside the same critical section")
	nWriter := 0
	assignedLHS := map[ast.Expr]bool{}
	la.Visit(func(in *fw.Interp, n ast.Node, st *fw.State) {
		if as, ok := n.(*ast.AssignStmt); ok {
			for _, l := range as.Lhs {
				assignedLHS[ast.Unparen(l)] = true
			}
		}
		sel, ok := n.(*ast.SelectorExpr)
		if !ok || !fw.IsFieldSel(in.Info, sel, "resolve", "subscriptionState", "writer") {
			return
		}
		nWriter++
		held := fw.Held(st, lkWriteMu, false)
		chk := st.Must(fNotRemoved)
		key := fw.SiteLabel(in) + "/use-writer"
		what := "use of subscriptionState.writer in " + fw.SiteLabel(in)
		switch {
		case !held:
			r.Fail("C12-R1", key, p.Pos(sel.Pos()), what, "writeMu is not held on every path to this use (held: "+strings.Join(fw.HeldLocks(st), ",")+")")
		case !chk:
			r.Fail("C12-R1", key, p.Pos(sel.Pos()), what, "writeMu is held but removed.Load() was not tested false inside this critical section: a removal that completes between the caller's test and Lock() is followed by a write")
		default:
			r.Pass("C12-R1", key, p.Pos(sel.Pos()), what, true)
		}
	})
	r.Expect("C12-R1", "uses of subscriptionState.writer", nWriter, 7)

	// ---- R10: nothing after the terminal frame -------------------------------------------------
	// Complete() / Error() write the terminal frame of a subscription, but the subscription is only removed later, when
	// the trigger is done — after the terminal frames of all other subscribers have been written, which can take as long as
	// a slow client likes. In between, the heartbeat loop, a late update or a failing hook would write behind the terminal
	// frame. The state has a record for it (a field written only next to the terminal writes, under writeMu): every use of
	// the writer follows a false test of that record inside the same critical section, and the two terminal writes set it
	// before the section ends.
	r.Rule("C12-R10", "every use of subscriptionState.writer follows a false test of the terminal-frame record (subscriptionState.terminated) inside the same writeMu critical section, and the functions that write the terminal frame (writer.Complete / writer.Error) set the record before they release writeMu")
	nTerm, nSet := 0, 0
	la.Visit(func(in *fw.Interp, n ast.Node, st *fw.State) {
		if as, ok := n.(*ast.AssignStmt); ok {
			for i, l := range as.Lhs {
				if fw.IsFieldSel(in.Info, l, "resolve", "subscriptionState", "terminated") && i < len(as.Rhs) {
					if v, isConst := fw.ConstVal(in.Info, as.Rhs[i]); isConst && v == "true" {
						st.Set("under:" + lkWriteMu + ":terminalset")
					}
				}
			}
		}
		sel, ok := n.(*ast.SelectorExpr)
		if !ok || !fw.IsFieldSel(in.Info, sel, "resolve", "subscriptionState", "writer") {
			return
		}
		nTerm++
		r.Check(st.Must(fNotTerminated), "C12-R10", fw.SiteLabel(in)+"/use-writer-before-terminal-frame", p.Pos(sel.Pos()), "use of subscriptionState.writer in "+fw.SiteLabel(in)+" follows a false test of the terminal-frame record in the same critical section",
			"the writer is used without testing, inside this critical section, whether the terminal frame (complete / error) has already been written: between the terminal frame and the removal of the subscription (which waits for the terminal frames of all other subscribers) a heartbeat, a late update or an error is written behind `complete`")
	})
	for _, name := range []string{"subscriptionState.complete", "subscriptionState.error"} {
		fi := p.Func("resolve", name)
		if fi == nil {
			r.Error("C12-R10: %s not found", name)
			continue
		}
		nSet++
		info := fi.Info()
		set := false
		in := fw.NewInterp(fi)
		okAll := true
		in.H = fw.Hooks{
			Node: func(nd ast.Node, st *fw.State) {
				switch x := nd.(type) {
				case *ast.CallExpr:
					if fn := fw.Callee(info, x); fn != nil && (fn.Name() == "Complete" || fn.Name() == "Error") {
						if sel, isSel := ast.Unparen(x.Fun).(*ast.SelectorExpr); isSel && fw.IsFieldSel(info, sel.X, "resolve", "subscriptionState", "writer") {
							st.Set("terminal-written")
						}
					}
				case *ast.AssignStmt:
					for i, l := range x.Lhs {
						if fw.IsFieldSel(info, l, "resolve", "subscriptionState", "terminated") && i < len(x.Rhs) {
							if v, isConst := fw.ConstVal(info, x.Rhs[i]); isConst && v == "true" {
								st.Set("record-set")
								set = true
							}
						}
					}
				}
			},
			Exit: func(ret *ast.ReturnStmt, lit *ast.FuncLit, st *fw.State) {
				if lit == nil && in.Final() && st.May("terminal-written") && !st.Must("record-set") {
					okAll = false
				}
			},
		}
		in.Run(nil)
		r.Check(okAll && set, "C12-R10", name+"/terminal-frame-recorded", p.Pos(fi.Decl.Pos()), name+" records that it wrote the terminal frame before it returns",
			name+" writes the terminal frame without setting the record that later writers test: everything written afterwards (heartbeats, late updates) lands behind `complete` / `error`")
	}
	r.Expect("C12-R10", "uses of subscriptionState.writer (terminal-frame typestate)", nTerm, 7)
	_ = nSet

	// ---- R2: completion signalled exactly once -----------------------------------------------
	r.Rule("C12-R2", "subscriptionState.completed is closed at one site, under writeMu, reached only via closeSubs, whose inputs are only elements won by removed.CompareAndSwap(false,true)")
	nClose := 0
	la.Visit(func(in *fw.Interp, n ast.Node, st *fw.State) {
		call, ok := n.(*ast.CallExpr)
		if !ok || fw.Builtin(in.Info, call) != "close" || len(call.Args) != 1 {
			return
		}
		if !fw.IsFieldSel(in.Info, call.Args[0], "resolve", "subscriptionState", "completed") {
			return
		}
		nClose++
		r.Check(fw.Held(st, lkWriteMu, false) && in.FI.Name() == "subscriptionState.done", "C12-R2", in.FI.Name()+"/close-completed", p.Pos(call.Pos()),
			"close(subscriptionState.completed)", "the completed channel must be closed only in subscriptionState.done with writeMu held (held: "+strings.Join(fw.HeldLocks(st), ",")+")")
	})
	r.Expect("C12-R2", "close(completed)", nClose, 1)
	// who may call done(): only closeSubs; who may call closeSubs: args must come from toClose
	doneFn := p.Func("resolve", "subscriptionState.done")
	closeSubs := p.Func("resolve", "closeSubs")
	if doneFn == nil || closeSubs == nil {
		r.Error("C12-R2: subscriptionState.done / closeSubs not found")
	} else {
		nDone, nCS := 0, 0
		fw.EachCall(p.Funcs("resolve"), func(fi *fw.FuncInfo, call *ast.CallExpr, stack []ast.Node) {
			switch fw.Callee(fi.Info(), call) {
			case doneFn.Obj:
				nDone++
				r.Check(fi == closeSubs, "C12-R2", fi.Name()+"/call-done", p.Pos(call.Pos()), "call of subscriptionState.done in "+fi.Name(),
					"done() closes the completed channel; it may only be reached through closeSubs (exactly-once relies on the CAS-guarded toClose lists)")
			case closeSubs.Obj:
				nCS++
				ok, why := derivesFromToClose(fi, call.Args[0])
				r.Check(ok, "C12-R2", fw.StackLabel(fi, stack)+"/closeSubs-arg", p.Pos(call.Pos()), "argument of closeSubs in "+fi.Name(), why)
			}
		})
		r.Expect("C12-R2", "calls of done()", nDone, 1)
		r.Expect("C12-R2", "calls of closeSubs", nCS, 4)
	}
	// every element that enters a toClose list was won by the CAS
	nAppend := 0
	for _, fi := range p.Funcs("resolve") {
		vars := toCloseVars(fi)
		if len(vars) == 0 {
			continue
		}
		in := fw.NewInterp(fi)
		in.H = fw.Hooks{
			Cond: func(e ast.Expr, branch bool, st *fw.State) {
				if c, ok := fw.AtomicFieldCall(info, e, "resolve", "subscriptionState", "removed", "CompareAndSwap"); ok && branch && len(c.Args) == 2 {
					a0, _ := fw.ConstVal(info, c.Args[0])
					a1, _ := fw.ConstVal(info, c.Args[1])
					if a0 == "false" && a1 == "true" {
						st.Set("cas-won:" + fw.ExprKey(info, ast.Unparen(c.Fun).(*ast.SelectorExpr).X.(*ast.SelectorExpr).X))
					}
				}
			},
			Node: func(n ast.Node, st *fw.State) {
				as, ok := n.(*ast.AssignStmt)
				if !ok || !in.Final() {
					return
				}
				for i, l := range as.Lhs {
					if i >= len(as.Rhs) {
						break
					}
					obj := fw.RootObj(info, l)
					if !vars[obj] {
						continue
					}
					call, ok := ast.Unparen(as.Rhs[i]).(*ast.CallExpr)
					if !ok || fw.Builtin(info, call) != "append" {
						if cl, ok := ast.Unparen(as.Rhs[i]).(*ast.CallExpr); ok && fw.Builtin(info, cl) == "make" {
							continue
						}
						continue
					}
					if call.Ellipsis.IsValid() {
						// spreading another result's toClose list: source must be a toClose field
						ok2, why := derivesFromToClose(fi, call.Args[1])
						nAppend++
						r.Check(ok2, "C12-R2", fi.Name()+"/toClose-spread", p.Pos(call.Pos()), "list spread into a toClose list in "+fi.Name(), why)
						continue
					}
					for _, el := range call.Args[1:] {
						nAppend++
						won := st.Must("cas-won:" + fw.ExprKey(info, el))
						r.Check(won, "C12-R2", fi.Name()+"/toClose-append", p.Pos(call.Pos()), "element appended to a toClose list in "+fi.Name(),
							"the element is not guarded by the true edge of removed.CompareAndSwap(false,true) on the same subscription: it can be closed twice (close of closed channel) or closed although another path already closed it")
					}
				}
			},
		}
		in.Run(nil)
	}
	r.Expect("C12-R2", "appends to toClose lists", nAppend, 4)
	// removed is only ever set by that CAS
	nStore := 0
	fw.EachCall(p.Funcs("resolve"), func(fi *fw.FuncInfo, call *ast.CallExpr, stack []ast.Node) {
		for _, m := range []string{"Store", "Swap", "CompareAndSwap"} {
			if c, ok := fw.AtomicFieldCall(fi.Info(), call, "resolve", "subscriptionState", "removed", m); ok {
				nStore++
				good := m == "CompareAndSwap"
				if good {
					a0, _ := fw.ConstVal(fi.Info(), c.Args[0])
					a1, _ := fw.ConstVal(fi.Info(), c.Args[1])
					good = a0 == "false" && a1 == "true"
				}
				r.Check(good, "C12-R2", fi.Name()+"/removed-write", p.Pos(call.Pos()), "write of subscriptionState.removed in "+fi.Name(),
					"removed may only go false→true through CompareAndSwap(false,true); any other write lets a removed subscription be written to again or closed twice")
			}
		}
	})
	r.Expect("C12-R2", "writes of removed", nStore, 2)

	// ---- R3: updater gate -------------------------------------------------------------------
	r.Rule("C12-R3", "every subscriptionUpdater callback calls into the Resolver only with updater.mu held and after the done/ctx gate; Done() sets done before tearing down; handleTriggerUpdate joins its workers")
	nGate := 0
	la.Visit(func(in *fw.Interp, n ast.Node, st *fw.State) {
		call, ok := n.(*ast.CallExpr)
		if !ok {
			return
		}
		recv := in.FI.Decl.Recv
		if recv == nil || !strings.HasPrefix(in.FI.Name(), "subscriptionUpdater.") {
			return
		}
		fn := fw.Callee(in.Info, call)
		if fn == nil || !fw.TypeIs(recvType(fn), "resolve", "Resolver") {
			return
		}
		nGate++
		key := in.FI.Name() + "/enter-resolver:" + fn.Name()
		held := fw.Held(st, lkUpdater, false)
		live := st.Must(fUpdLive)
		if in.FI.Name() == "subscriptionUpdater.Done" {
			live = st.Must("upd:doneSet") // Done is gated on done only, and must flip it before the teardown
		}
		r.Check(held && live, "C12-R3", key, p.Pos(call.Pos()), "call of Resolver."+fn.Name()+" from "+in.FI.Name(),
			"the resolver is entered without updater.mu held after the lifecycle gate (held="+strings.Join(fw.HeldLocks(st), ",")+", gate passed="+boolStr(live)+"): events are no longer serialised / can be delivered after Done")
	})
	r.Expect("C12-R3", "resolver entries from updater callbacks", nGate, 7)
	// the ctx half of the gate
	nCtx := 0
	for _, name := range []string{"Update", "Heartbeat", "UpdateSubscription", "Complete", "Error", "CloseSubscription"} {
		fi := p.Func("resolve", "subscriptionUpdater."+name)
		if fi == nil {
			continue
		}
		in := fw.NewInterp(fi)
		in.H = fw.Hooks{
			Cond: func(e ast.Expr, branch bool, st *fw.State) {
				if x, eq, ok := fw.NilCheck(info, e); ok {
					if c, ok := ast.Unparen(x).(*ast.CallExpr); ok {
						if fn := fw.Callee(info, c); fn != nil && fn.Name() == "Err" && fw.IsFieldSel(info, ast.Unparen(c.Fun).(*ast.SelectorExpr).X, "resolve", "subscriptionUpdater", "ctx") {
							if eq == branch { // ctx.Err() == nil holds
								st.Set("ctx-live")
							}
						}
					}
				}
			},
			Node: func(n ast.Node, st *fw.State) {
				call, ok := n.(*ast.CallExpr)
				if !ok || !in.Final() {
					return
				}
				fn := fw.Callee(info, call)
				if fn == nil || !fw.TypeIs(recvType(fn), "resolve", "Resolver") {
					return
				}
				nCtx++
				r.Check(st.Must("ctx-live"), "C12-R3", fi.Name()+"/ctx-gate:"+fn.Name(), p.Pos(call.Pos()), "ctx gate before Resolver."+fn.Name()+" in "+fi.Name(),
					"the trigger context is not tested (ctx.Err()==nil) before the event is delivered: events emitted by a source after its trigger was cancelled reach subscribers")
			},
		}
		in.Run(nil)
	}
	r.Expect("C12-R3", "ctx-gated resolver entries", nCtx, 6)
	// join: in handleTriggerUpdate every exit after a wg.Go passes wg.Wait
	if fi := p.Func("resolve", "Resolver.handleTriggerUpdate"); fi == nil {
		r.Error("C12-R3: Resolver.handleTriggerUpdate not found")
	} else {
		in := fw.NewInterp(fi)
		spawned := 0
		in.H = fw.Hooks{
			Node: func(n ast.Node, st *fw.State) {
				if call, ok := n.(*ast.CallExpr); ok {
					if fn := fw.Callee(info, call); fn != nil && fn.Pkg() != nil && fn.Pkg().Path() == "sync" {
						switch fw.FuncName(fn) {
						case "WaitGroup.Go":
							st.Set("spawned")
							st.Kill("joined")
							if in.Final() {
								spawned++
							}
						case "WaitGroup.Wait":
							st.Set("joined")
						}
					}
				}
				if _, ok := n.(*ast.GoStmt); ok {
					st.Set("spawned")
					st.Kill("joined")
				}
			},
			Exit: func(ret *ast.ReturnStmt, lit *ast.FuncLit, st *fw.State) {
				if lit != nil || !in.Final() {
					return
				}
				pos := fi.Decl.End()
				if ret != nil {
					pos = ret.Pos()
				}
				if st.May("spawned") {
					r.Check(st.Must("joined"), "C12-R3", fi.Name()+"/join", p.Pos(pos), "exit of handleTriggerUpdate after spawning workers",
						"an exit is reachable after wg.Go without wg.Wait(): the next event can start while this event's writes are still in flight (ordering)")
				}
			},
		}
		in.Run(nil)
		r.Expect("C12-R3", "worker spawns in handleTriggerUpdate", spawned, 1)
	}

	// ---- R4 lock order (shared with C13-R2) ------------------------------------------------------
	checkSubsLockOrder(r, "C12-R4", la)
}

func boolStrUnused() {}

func boolStr(b bool) string {
	if b {
		return "yes"
	}
	return "no"
}

func recvType(fn *types.Func) types.Type {
	sig, _ := fn.Type().(*types.Signature)
	if sig == nil || sig.Recv() == nil {
		return nil
	}
	return sig.Recv().Type()
}

// toCloseVars returns the local variables of fi whose value is stored into a `toClose`
// field of removeResult / removeClientResult or handed to closeSubs.
func toCloseVars(fi *fw.FuncInfo) map[types.Object]bool {
	info := fi.Info()
	out := map[types.Object]bool{}
	ast.Inspect(fi.Decl.Body, func(n ast.Node) bool {
		switch x := n.(type) {
		case *ast.CompositeLit:
			t := info.TypeOf(x)
			if !fw.TypeIs(t, "resolve", "removeResult") && !fw.TypeIs(t, "resolve", "removeClientResult") {
				return true
			}
			for _, el := range x.Elts {
				kv, ok := el.(*ast.KeyValueExpr)
				if !ok {
					continue
				}
				if k, ok := kv.Key.(*ast.Ident); ok && k.Name == "toClose" {
					if id, ok := ast.Unparen(kv.Value).(*ast.Ident); ok {
						if o := info.Uses[id]; o != nil {
							out[o] = true
						}
					}
				}
			}
		case *ast.CallExpr:
			if fw.CallIs(info, x, "resolve", "closeSubs") && len(x.Args) == 1 {
				if id, ok := ast.Unparen(x.Args[0]).(*ast.Ident); ok {
					if o := info.Uses[id]; o != nil {
						out[o] = true
					}
				}
			}
		}
		return true
	})
	return out
}

// derivesFromToClose: e is X.toClose of a remove result, or a local collected into such lists.
func derivesFromToClose(fi *fw.FuncInfo, e ast.Expr) (bool, string) {
	info := fi.Info()
	e = ast.Unparen(e)
	if fw.IsFieldSel(info, e, "resolve", "removeResult", "toClose") || fw.IsFieldSel(info, e, "resolve", "removeClientResult", "toClose") {
		return true, ""
	}
	if id, ok := e.(*ast.Ident); ok {
		if toCloseVars(fi)[info.Uses[id]] {
			return true, "" // its appends are checked by the toClose-append / toClose-spread obligations
		}
	}
	return false, "the list does not come from a toClose field of a removal result: subscriptions that were not won by removed.CompareAndSwap(false,true) would be closed (double close / close while still registered)"
}

// c12SyncAPIWaitsForCompletion (R5, added after a seeded change returned right after UnsubscribeSubscription): once the
// subscription is registered, the synchronous API ResolveGraphQLSubscription returns only after it received from the
// subscription's completed channel (closed under writeMu after the last write) or from the resolver's own context. The
// caller (an HTTP handler) releases the writer when the function returns; returning earlier lets an in-flight write
// touch a released writer.
func c12SyncAPIWaitsForCompletion(r *fw.Run) {
	p := r.Prog
	r.Rule("C12-R5", "after the subscription is registered, every exit of the synchronous ResolveGraphQLSubscription follows a receive from the completed channel handed to addSubscription, or from the resolver's context (shutdown)")
	fi := p.Func("resolve", "Resolver.ResolveGraphQLSubscription")
	if fi == nil {
		r.Error("C12-R5: Resolver.ResolveGraphQLSubscription not found")
		return
	}
	info := fi.Info()
	// the completed channel: the value of the `completed` field of the addSubscription literal
	var completed types.Object
	fw.WalkAll(fi.Decl.Body, func(nd ast.Node) bool {
		if cl, ok := nd.(*ast.CompositeLit); ok && fw.TypeIs(info.TypeOf(cl), "resolve", "addSubscription") {
			for _, el := range cl.Elts {
				if kv, ok := el.(*ast.KeyValueExpr); ok {
					if k, ok := kv.Key.(*ast.Ident); ok && k.Name == "completed" {
						completed = fw.RootObj(info, kv.Value)
					}
				}
			}
		}
		return true
	})
	if completed == nil {
		r.Error("C12-R5: no completed channel is handed to addSubscription")
		return
	}
	n := 0
	in := fw.NewInterp(fi)
	in.H = fw.Hooks{
		Node: func(nd ast.Node, st *fw.State) {
			if c, ok := nd.(*ast.CallExpr); ok && fw.CallIs(info, c, "resolve", "Resolver.addSubscription") {
				st.Set("registered")
			}
			// a plain receive statement <-completed
			if u, ok := nd.(*ast.UnaryExpr); ok && u.Op == token.ARROW {
				if fw.RootObj(info, u.X) == completed {
					st.Set("waited")
				}
			}
		},
		Cond: func(e ast.Expr, branch bool, st *fw.State) {
			// the error edge of the registration itself
			if x, eq, ok := fw.NilCheck(info, e); ok && eq != branch && st.Must("registered") {
				if t := info.TypeOf(x); t != nil && t.String() == "error" {
					st.Set("registration-failed")
				}
			}
		},
		Comm: func(cc *ast.CommClause, st *fw.State) {
			var x ast.Expr
			switch c := cc.Comm.(type) {
			case *ast.ExprStmt:
				if u, ok := ast.Unparen(c.X).(*ast.UnaryExpr); ok && u.Op == token.ARROW {
					x = u.X
				}
			case *ast.AssignStmt:
				if len(c.Rhs) == 1 {
					if u, ok := ast.Unparen(c.Rhs[0]).(*ast.UnaryExpr); ok && u.Op == token.ARROW {
						x = u.X
					}
				}
			}
			if x == nil {
				return
			}
			if fw.RootObj(info, x) == completed {
				st.Set("waited")
			}
			// <-r.ctx.Done(): the resolver's own context
			if c, ok := ast.Unparen(x).(*ast.CallExpr); ok {
				if sel, ok := ast.Unparen(c.Fun).(*ast.SelectorExpr); ok && sel.Sel.Name == "Done" && fw.IsFieldSel(info, sel.X, "resolve", "Resolver", "ctx") {
					st.Set("waited")
				}
			}
		},
		Exit: func(ret *ast.ReturnStmt, lit *ast.FuncLit, st *fw.State) {
			if lit != nil || !st.Must("registered") || st.Must("registration-failed") {
				return
			}
			n++
			pos := fi.Decl.End()
			if ret != nil {
				pos = ret.Pos()
			}
			r.Check(st.Must("waited"), "C12-R5", fi.Name()+"/exit-after-completed#"+itoa(n), p.Pos(pos), "exit of ResolveGraphQLSubscription after the completed channel (or the resolver context) was received from",
				"the synchronous API returns while the subscription may still be writing: completed is closed under writeMu after the last write, so only a receive from it orders the return after every write — without it a heartbeat or update that is in flight touches the writer after the HTTP handler has released it")
		},
	}
	in.Run(nil)
	r.Expect("C12-R5", "exits of ResolveGraphQLSubscription after registration", n, 2)
}

// c12FilterErrorsDoNotSilenceOthers (R6, added after a seeded change returned early on any filter error): in
// handleTriggerUpdate the event is delivered to the subscribers that passed the filter on every path — a filter error of
// one subscriber is reported to that subscriber and never ends the delivery for the others (delivered == filter(events)
// per subscriber).
func c12FilterErrorsDoNotSilenceOthers(r *fw.Run) {
	p := r.Prog
	r.Rule("C12-R6", "in handleTriggerUpdate every path from filterSubscriptions reaches the delivery loop over the subscribers that passed the filter (filter errors of some subscribers never end the delivery for the others)")
	fi := p.Func("resolve", "Resolver.handleTriggerUpdate")
	if fi == nil {
		r.Error("C12-R6: Resolver.handleTriggerUpdate not found")
		return
	}
	info := fi.Info()
	var subs types.Object
	n := 0
	in := fw.NewInterp(fi)
	in.H = fw.Hooks{
		Lit: func(l *ast.FuncLit, ctx fw.LitCtx, st *fw.State) fw.LitMode { return fw.LitSkip },
		Node: func(nd ast.Node, st *fw.State) {
			switch x := nd.(type) {
			case *ast.AssignStmt:
				if len(x.Rhs) == 1 {
					if c, ok := ast.Unparen(x.Rhs[0]).(*ast.CallExpr); ok && fw.CallIs(info, c, "resolve", "trigger.filterSubscriptions") && len(x.Lhs) >= 1 {
						subs = fw.RootObj(info, x.Lhs[0])
						st.Set("filtered")
					}
				}
			case *fw.RangeEval:
				if subs != nil && fw.RootObj(info, x.Stmt.X) == subs {
					st.Set("delivery-reached")
				}
			}
		},
		Exit: func(ret *ast.ReturnStmt, lit *ast.FuncLit, st *fw.State) {
			if lit != nil || !st.Must("filtered") {
				return
			}
			n++
			pos := fi.Decl.End()
			if ret != nil {
				pos = ret.Pos()
			}
			r.Check(st.Must("delivery-reached"), "C12-R6", fi.Name()+"/exit-after-delivery#"+itoa(n), p.Pos(pos), "exit of handleTriggerUpdate after the delivery loop",
				"an exit between filtering and delivery: when the filter of ONE subscriber fails (e.g. its variables cannot be evaluated) the event is dropped for every healthy subscriber that shares the trigger")
		},
	}
	in.Run(nil)
	r.Expect("C12-R6", "exits of handleTriggerUpdate after filtering", n, 1)
}

// c12EverySubscriberIsFiltered (R7): delivered == filter(events) per subscriber needs every subscriber of the trigger to be
// looked at for every event. The loops of package resolve that range over trigger.subscriptions and evaluate the filter
// for each one (evalFilter) must not leave early: no return, break or goto inside the loop body. A return on the first
// filter error makes the subscribers that the map iteration happens to visit later miss the event.
func c12EverySubscriberIsFiltered(r *fw.Run) {
	p := r.Prog
	r.Rule("C12-R7", "every loop over trigger.subscriptions that evaluates the per-subscriber filter visits all subscribers: no return / break / goto inside its body")
	n := 0
	for _, fi := range p.Funcs("resolve") {
		info := fi.Info()
		fw.WalkAll(fi.Decl.Body, func(nd ast.Node) bool {
			rs, ok := nd.(*ast.RangeStmt)
			if !ok || !fw.IsFieldSel(info, rs.X, "resolve", "trigger", "subscriptions") {
				return true
			}
			evaluates := false
			fw.WalkAll(rs.Body, func(m ast.Node) bool {
				if c, isCall := m.(*ast.CallExpr); isCall && fw.CallIs(info, c, "resolve", "trigger.evalFilter") {
					evaluates = true
				}
				return true
			})
			if !evaluates {
				return true
			}
			n++
			var early ast.Node
			var walk func(m ast.Node, inner bool)
			walk = func(m ast.Node, inner bool) {
				ast.Inspect(m, func(x ast.Node) bool {
					switch y := x.(type) {
					case *ast.FuncLit:
						return false
					case *ast.ForStmt, *ast.RangeStmt, *ast.SwitchStmt, *ast.TypeSwitchStmt, *ast.SelectStmt:
						if x != m {
							walk(x, true) // a break inside belongs to the inner statement
							return false
						}
					case *ast.ReturnStmt:
						early = y
					case *ast.BranchStmt:
						if y.Tok.String() == "goto" || (y.Tok.String() == "break" && (!inner || y.Label != nil)) {
							early = y
						}
					}
					return true
				})
			}
			walk(rs.Body, false)
			pos := rs.Pos()
			if early != nil {
				pos = early.Pos()
			}
			r.Check(early == nil, "C12-R7", fi.Name()+"/filter-loop-visits-every-subscriber", p.Pos(pos), "the filter loop over trigger.subscriptions in "+fi.Name()+" has no early exit",
				"the loop ends at the first subscriber that takes this exit: the subscribers the map iteration visits later are never evaluated for this event and miss it (which ones depends on the iteration order)")
			return true
		})
	}
	r.Expect("C12-R7", "filter loops over trigger.subscriptions", n, 1)
}

// c12ConnectionIndexMirrorsRegistration (R8): UnsubscribeClient ends exactly the subscriptions of a connection by reading
// the per-connection index. registerSubscriptionLocked adds ONE subscription to the inner set of its connection;
// unregistering one subscription may therefore remove the connection's entry from subscriptionsByConnection only on the
// edge where the inner set is empty. Dropping the whole entry with the first subscription that ends leaves the other
// subscriptions of that connection out of the index: UnsubscribeClient no longer finds them, they keep receiving events
// and their completed channel is never closed.
func c12ConnectionIndexMirrorsRegistration(r *fw.Run) {
	p := r.Prog
	r.Rule("C12-R8", "an entry of Resolver.subscriptionsByConnection is deleted only on the edge where the connection's inner set is empty")
	n := 0
	for _, fi := range p.Funcs("resolve") {
		info := fi.Info()
		ord := 0
		in := fw.NewInterp(fi)
		in.H = fw.Hooks{
			Cond: func(e ast.Expr, branch bool, st *fw.State) {
				a := fw.Atom(info, e, branch)
				if a.Kind != "Empty" {
					return
				}
				// the inner set: a local defined by indexing subscriptionsByConnection, or such an index expression itself
				x := ast.Unparen(a.X)
				if ix, ok := x.(*ast.IndexExpr); ok && fw.IsFieldSel(info, ix.X, "resolve", "Resolver", "subscriptionsByConnection") {
					st.Set("inner-empty")
				}
				if id, ok := x.(*ast.Ident); ok && identFromIndexOfField(fi, info.Uses[id], "resolve", "Resolver", "subscriptionsByConnection") {
					st.Set("inner-empty")
				}
			},
			Node: func(nd ast.Node, st *fw.State) {
				c, ok := nd.(*ast.CallExpr)
				if !ok || !in.Final() || fw.Builtin(info, c) != "delete" || len(c.Args) != 2 || !fw.IsFieldSel(info, c.Args[0], "resolve", "Resolver", "subscriptionsByConnection") {
					return
				}
				n++
				ord++
				r.Check(st.Must("inner-empty"), "C12-R8", fi.Name()+"/connection-entry-deleted-only-when-empty#"+itoa(ord), p.Pos(c.Pos()), "the connection's entry is deleted in "+fi.Name()+" only when its inner set is empty",
					"the whole per-connection entry is dropped although other subscriptions of that connection may still be registered: UnsubscribeClient no longer finds them — they keep receiving events after the client disconnected and their completed channel is never closed")
			},
		}
		in.Run(nil)
	}
	r.Expect("C12-R8", "deletes of subscriptionsByConnection entries", n, 1)
}

// identFromIndexOfField: obj is a local defined (comma-ok or plain) from an index expression on pkg.typ.field.
func identFromIndexOfField(fi *fw.FuncInfo, obj types.Object, pkg, typ, field string) bool {
	if obj == nil {
		return false
	}
	info := fi.Info()
	found := false
	fw.WalkAll(fi.Decl.Body, func(nd ast.Node) bool {
		as, ok := nd.(*ast.AssignStmt)
		if !ok || len(as.Rhs) != 1 || len(as.Lhs) == 0 {
			return true
		}
		id, isID := as.Lhs[0].(*ast.Ident)
		if !isID || (info.Defs[id] != obj && info.Uses[id] != obj) {
			return true
		}
		if ix, isIx := ast.Unparen(as.Rhs[0]).(*ast.IndexExpr); isIx && fw.IsFieldSel(info, ix.X, pkg, typ, field) {
			found = true
		}
		return true
	})
	return found
}

// c12LoopInvariantInputs (R9): a filter with several values (`id IN (a, b)`) compares the same event value with each
// filter value in a loop. The event value is read once, before the loop; it is an input of every iteration. An assignment
// inside the loop that replaces it by a function of itself (expected = json.Marshal(expected)) compounds from iteration to
// iteration: the second value is compared with the quoted form, the third with the doubly quoted form — a string field
// can only ever match the first value, the event is silently dropped for every other match. The rule, for every loop of
// SubscriptionFieldFilter.SkipEvent and its siblings in subscription_filter.go: a variable declared before the loop that
// the loop body reads is not assigned inside the loop from an expression that depends on itself (accumulating forms —
// append, +=, slicing — are not inputs and are exempt).
func c12LoopInvariantInputs(r *fw.Run) {
	p := r.Prog
	r.Rule("C12-R9", "in the subscription filters no loop replaces a loop-invariant input (a variable declared before the loop and compared in every iteration) by a function of itself: every filter value is compared with the same event value")
	n := 0
	for _, fi := range p.Funcs("resolve") {
		if !strings.HasSuffix(p.FileOf(fi.Decl.Pos()), "subscription_filter.go") {
			continue
		}
		info := fi.Info()
		ord := 0
		fw.WalkAll(fi.Decl.Body, func(nd ast.Node) bool {
			var body *ast.BlockStmt
			switch x := nd.(type) {
			case *ast.ForStmt:
				body = x.Body
			case *ast.RangeStmt:
				body = x.Body
			}
			if body == nil {
				return true
			}
			n++
			declaredInside := map[types.Object]bool{}
			fw.WalkAll(body, func(m ast.Node) bool {
				if id, ok := m.(*ast.Ident); ok {
					if o := info.Defs[id]; o != nil {
						declaredInside[o] = true
					}
				}
				return true
			})
			fw.WalkAll(body, func(m ast.Node) bool {
				as, ok := m.(*ast.AssignStmt)
				if !ok || as.Tok.String() != "=" {
					return true
				}
				for i, l := range as.Lhs {
					id, isID := l.(*ast.Ident)
					if !isID {
						continue
					}
					o := info.Uses[id]
					if o == nil || declaredInside[o] {
						continue
					}
					var rhs ast.Expr
					if len(as.Rhs) == len(as.Lhs) {
						rhs = as.Rhs[i]
					} else if len(as.Rhs) == 1 {
						rhs = as.Rhs[0]
					}
					if rhs == nil {
						continue
					}
					// accumulating forms are exempt
					switch x := ast.Unparen(rhs).(type) {
					case *ast.CallExpr:
						if fw.Builtin(info, x) == "append" {
							continue
						}
					case *ast.SliceExpr, *ast.BinaryExpr:
						continue
					}
					self := false
					fw.WalkAll(rhs, func(k ast.Node) bool {
						if rid, isR := k.(*ast.Ident); isR && info.Uses[rid] == o {
							self = true
						}
						return true
					})
					if !self {
						continue
					}
					ord++
					r.Fail("C12-R9", fi.Name()+"/loop-invariant-input-reassigned:"+o.Name()+"#"+itoa(ord), p.Pos(as.Pos()), "no loop-invariant input of a filter loop is replaced by a function of itself",
						o.Name()+" is declared before the loop, compared in every iteration, and replaced here by a function of itself: the change carries over to the next iteration — the second filter value is compared with the transformed (e.g. JSON-quoted) event value, the third with the doubly transformed one, so an event matching any value but the first is silently dropped")
				}
				return true
			})
			return true
		})
	}
	r.Pass("C12-R9", "filter-loops-scanned", "-", itoa(n)+" loops of subscription_filter.go examined", n > 0)
	r.Expect("C12-R9", "loops in subscription_filter.go", n, 1)
}

// c12RawStringContentIsDecodedBeforeItIsEncoded (R11): jsonparser.Get returns the value of a JSON string raw — without the
// quotes and with its escape sequences as written. Rendering such bytes "as a JSON string" (json.Marshal(string(x)),
// strconv.Quote) escapes the escape sequences a second time: a subscription filter on a string field then never matches a
// value that contains a quote, a backslash or a line break, and the event is silently dropped for a subscriber whose filter
// it passes. Rule (typestate, one correlated fact): in package resolve, where bytes obtained from jsonparser.Get reach a JSON
// string encoder, every path to that call has re-assigned them from jsonparser.Unescape / ParseString, or has taken the
// edge on which the value's data type (the second result of the same Get) is not String.
func c12RawStringContentIsDecodedBeforeItIsEncoded(r *fw.Run) {
	p := r.Prog
	r.Rule("C12-R11", "bytes obtained from jsonparser.Get reach a JSON string encoder (json.Marshal, strconv.Quote) only after they were re-assigned from jsonparser.Unescape / ParseString, or on the edge on which their data type is not String")
	isJP := func(fn *types.Func, names ...string) bool {
		if fn == nil || fn.Pkg() == nil || !strings.HasSuffix(fn.Pkg().Path(), "buger/jsonparser") {
			return false
		}
		for _, n := range names {
			if fn.Name() == n {
				return true
			}
		}
		return false
	}
	n := 0
	for _, fi := range p.Funcs("resolve") {
		info := fi.Info()
		// raw locals and the data type local of the same Get
		raw := map[types.Object]types.Object{} // value local -> data type local
		fw.WalkAll(fi.Decl.Body, func(nd ast.Node) bool {
			as, ok := nd.(*ast.AssignStmt)
			if !ok || len(as.Rhs) != 1 || len(as.Lhs) < 2 {
				return true
			}
			c, isC := ast.Unparen(as.Rhs[0]).(*ast.CallExpr)
			if !isC || !isJP(fw.Callee(info, c), "Get") {
				return true
			}
			v, isV := as.Lhs[0].(*ast.Ident)
			dt, isD := as.Lhs[1].(*ast.Ident)
			if isV && isD && v.Name != "_" {
				raw[info.ObjectOf(v)] = info.ObjectOf(dt)
			}
			return true
		})
		if len(raw) == 0 {
			continue
		}
		mentions := func(e ast.Node) types.Object {
			var hit types.Object
			fw.WalkAll(e, func(x ast.Node) bool {
				if id, ok := x.(*ast.Ident); ok {
					if _, is := raw[info.Uses[id]]; is {
						hit = info.Uses[id]
					}
				}
				return true
			})
			return hit
		}
		seen := map[string]bool{}
		in := fw.NewInterp(fi)
		in.H = fw.Hooks{
			Lit: func(l *ast.FuncLit, ctx fw.LitCtx, st *fw.State) fw.LitMode { return fw.LitSkip },
			Cond: func(e ast.Expr, branch bool, st *fw.State) {
				a := fw.Atom(info, e, branch)
				if a.Kind != "Ne" {
					return
				}
				for v, dt := range raw {
					for _, side := range []ast.Expr{a.X, a.Y} {
						if id, ok := ast.Unparen(side).(*ast.Ident); ok && info.Uses[id] == dt {
							other := a.Y
							if side == a.Y {
								other = a.X
							}
							if k := fw.ConstObjOrVar(info, other); k == "String" {
								st.Set("settled:" + v.Name())
							}
						}
					}
				}
			},
			Node: func(nd ast.Node, st *fw.State) {
				switch x := nd.(type) {
				case *ast.AssignStmt:
					if len(x.Lhs) == len(x.Rhs) {
						for i, l := range x.Lhs {
							id, ok := l.(*ast.Ident)
							if !ok {
								continue
							}
							if _, is := raw[info.ObjectOf(id)]; !is {
								continue
							}
							// decoded directly, or from a local that holds the result of a decoder
							if src, isID := ast.Unparen(x.Rhs[i]).(*ast.Ident); isID && st.Must("decoded-local:"+src.Name) {
								st.Set("settled:" + id.Name)
							}
							if c, isC := ast.Unparen(x.Rhs[i]).(*ast.CallExpr); isC && isJP(fw.Callee(info, c), "Unescape", "ParseString") {
								st.Set("settled:" + id.Name)
							}
						}
					}
					if len(x.Rhs) == 1 {
						if c, isC := ast.Unparen(x.Rhs[0]).(*ast.CallExpr); isC {
							fn := fw.Callee(info, c)
							if isJP(fn, "Unescape", "ParseString") && len(c.Args) > 0 && mentions(c.Args[0]) != nil {
								if id, ok := x.Lhs[0].(*ast.Ident); ok {
									st.Set("decoded-local:" + id.Name)
								}
							}
							if isJP(fn, "Get") {
								if id, ok := x.Lhs[0].(*ast.Ident); ok {
									st.Kill("settled:" + id.Name)
								}
							}
						}
					}
				case *ast.CallExpr:
					fn := fw.Callee(info, x)
					if fn == nil || fn.Pkg() == nil || !in.Final() {
						return
					}
					isEncoder := (fn.Pkg().Path() == "encoding/json" && fn.Name() == "Marshal") || (fn.Pkg().Path() == "strconv" && strings.HasPrefix(fn.Name(), "Quote"))
					if !isEncoder || len(x.Args) == 0 {
						return
					}
					v := mentions(x.Args[0])
					if v == nil {
						return
					}
					key := fi.Name() + "/raw-content-decoded-before-encoded:" + v.Name()
					okNow := st.Must("settled:" + v.Name())
					if seen[key] && okNow {
						return
					}
					if !seen[key] {
						n++
					}
					seen[key] = true
					r.Check(okNow, "C12-R11", key, p.Pos(x.Pos()), v.Name()+" in "+fi.Name()+" is decoded before it is rendered as a JSON string",
						v.Name()+" holds what jsonparser.Get returned — the content of a JSON string as it is written, escape sequences included — and is rendered as a JSON string again on a path that did not decode it: the escape sequences are escaped a second time. Event `{\"id\":\"a\\\"b\"}`, filter value `a\"b`: the quoted form is `\"a\\\\\\\"b\"`, no rendering of the subscriber's value equals it, SkipEvent answers true and the event is dropped for a subscriber whose filter it passes")
				}
			},
		}
		in.Run(nil)
	}
	r.Expect("C12-R11", "JSON string encoders fed from jsonparser.Get in package resolve", n, 1)
}
