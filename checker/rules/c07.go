package rules

import (
	"go/ast"
	"go/token"
	"go/types"
	"sort"
	"strings"

	"verif/checker/fw"
)

func init() {
	Registry["C07"] = Spec{
		Pkgs: map[string][]string{"v2": {"resolve"}},
		Run:  runC07,
		Explanation: "Decides the structural half of 'subgraph failures are isolated': in Loader.mergeResult every merge into the response tree is dominated by the absence of each failure condition (transport error, rejection, skip, empty body, parse error) and the indexed merges by the entity-count checks; " +
			"every error renderer appends an error entry on each non-error return and every nil return of mergeResult lies on an enumerated benign edge or follows a merge / an error renderer; dependants of a failed fetch are skipped before any prepare step, the skip is recorded (transitivity) and a load error is recorded for dependants; " +
			"parallel fetches and defer groups use a plain errgroup.Group (siblings are never cancelled) that is joined on every path; a failed single-flight leader always releases its followers. " +
			"It does not decide that unaffected data is identical nor that requests under fault are a subset of the fault-free requests (value level).",
		Mutants: []Mutant{
			{Name: "a fetch whose response could not be used is not recorded as failed (reverts part of the F95 fix)", File: loaderGo, Rule: "C07-R12", Key: "Loader.mergeResult/failure-recorded-before-exit#2",
				Old: "\t// the fetch failed as a whole, however that was found out: what depends on it is not fetched\n\t// (mergeResult runs with the data lock held)\n\tl.recordErroredFetchIDLocked(fetchItem)\n", New: ""},
			{Name: "a response with errors and no data is not recorded as a failed fetch (reverts part of the F95 fix)", File: loaderGo, Rule: "C07-R12", Key: "Loader.mergeResult/errors-only-recorded-before-exit",
				Old: "\t\tif hasErrors {\n\t\t\tl.recordErroredFetchIDLocked(fetchItem)\n\t\t}\n\t\treturn nil\n", New: "\t\treturn nil\n"},
			{Name: "an entity array without any element counts as a null entity (reverts part of the F74 fix)", File: "v2/pkg/engine/resolve/loader.go", Rule: "C07-R11", Key: "isEmptyEntityFetch/benign-only-with-an-element",
				Old: "entitiesData.Type() == astjson.TypeArray && len(entitiesData.GetArray()) > 0 {", New: "entitiesData.Type() == astjson.TypeArray {"},
			{Name: "the null-entity exit is taken before the status code is looked at (reverts part of the F74 fix)", File: "v2/pkg/engine/resolve/loader.go", Rule: "C07-R11", Key: "Loader.mergeResult/benign-exit-after-status-fallback",
				Old: "\t\tif res.multi == nil && isEmptyEntityFetch(fetchItem, response) {\n\t\t\treturn nil\n\t\t}\n", New: "",
				Also: [][2]string{{"\t\t// A response without errors and with a status code outside the 2XX range is a failed fetch,\n", "\t\tif res.multi == nil && isEmptyEntityFetch(fetchItem, response) {\n\t\t\treturn nil\n\t\t}\n\t\t// A response without errors and with a status code outside the 2XX range is a failed fetch,\n"}}},
			{Name: "decode error of a subgraph's errors array returned as the operation's error (reverts the F43 fix)", File: "v2/pkg/engine/resolve/loader.go", Rule: "C07-R10", Key: "Loader.appendSubgraphError/decode-error-of-subgraph-errors-not-returned",
				Old: "\t\tgraphqlErrors = graphqlErrors[:0]\n", New: "\t\treturn errors.WithStack(err)\n"},
			{Name: "subscription updates render without the loader's errors", File: "v2/pkg/engine/resolve/resolve.go", Rule: "C07-R8", Key: "executeSubscriptionUpdate/hands-over-all-loader-output",
				Old: "\t\t\tresolvable.errors = loader.errors\n", New: "\t\t\t_ = loader.errors\n"},
			{Name: "only the first target of a de-duplicated entity is tainted (seeded change C07-12)", File: loaderGo, Rule: "C07-R7", Key: "taint-covers-merge-target:target",
				Old: "\t\t\t\tif slices.Contains(taintedIndices, batchIndex) {\n\t\t\t\t\tl.taintedObjs.add(target)\n\t\t\t\t}\n\t\t\t}\n", New: "\t\t\t}\n\t\t\tif slices.Contains(taintedIndices, batchIndex) {\n\t\t\t\tl.taintedObjs.add(targets[0])\n\t\t\t}\n"},
			{Name: "failed subgraph loads stay in the in-flight table (seeded change C07-13)", File: "v2/pkg/engine/resolve/subgraph_request_singleflight.go", Rule: "C07-R6", Key: "SubgraphRequestSingleFlight.Finish/removed-before-close",
				Old: "\tshard.items.Delete(item.SFKey)\n\tclose(item.loaded)\n", New: "\tif len(item.response) == 0 {\n\t\tclose(item.loaded)\n\t\treturn\n\t}\n\tshard.items.Delete(item.SFKey)\n\tclose(item.loaded)\n"},
			{Name: "empty body merged as data", File: loaderGo, Rule: "C07-R1", Key: "has-body",
				Old: "\tif len(res.out) == 0 {\n\t\treturn l.renderErrorsFailedToFetch(fetchItem, res, emptyGraphQLResponse)\n\t}\n", New: ""},
			{Name: "entity count check dropped before the indexed merge", File: loaderGo, Rule: "C07-R1", Key: "entity-count",
				Old: "\tif batchCount, itemCount := len(batch), len(items); batchCount != itemCount {\n\t\treturn l.renderErrorsFailedToFetch(fetchItem, res, fmt.Sprintf(invalidBatchItemCount, itemCount, batchCount))\n\t}\n", New: ""},
			{Name: "rate-limit rejection renders no error entry", File: loaderGo, Rule: "C07-R2", Key: "renderRateLimitRejectedErrors",
				Old: "\tl.ensureErrorsInitialized()\n\tastjson.AppendToArray(l.jsonArena, l.errors, errorObject)\n\treturn nil\n}\n\nfunc (l *Loader) isFetchAuthorized", New: "\tl.ensureErrorsInitialized()\n\t_ = errorObject\n\treturn nil\n}\n\nfunc (l *Loader) isFetchAuthorized"},
			{Name: "wrong batch shape silently ignored", File: loaderGo, Rule: "C07-R3", Key: "mergeResult",
				Old: "\tbatch := responseData.GetArray()\n\tif batch == nil {\n\t\treturn l.renderErrorsFailedToFetch(fetchItem, res, invalidGraphQLResponseShape)\n\t}", New: "\tbatch := responseData.GetArray()\n\tif batch == nil {\n\t\treturn nil\n\t}"},
			{Name: "skipped dependant not recorded (skip no longer transitive)", File: loaderGo, Rule: "C07-R4", Key: "shouldSkipErroredDependencyLocked",
				Old: "\t\t\tl.recordErroredFetchIDLocked(item)\n\t\t\treturn true", New: "\t\t\treturn true"},
			{Name: "load error not recorded for dependants", File: loaderGo, Rule: "C07-R4", Key: "loadPhase",
				Old: "\tif prepared.res.err != nil {\n\t\tl.recordErroredFetchID(prepared.item)\n\t}\n", New: ""},
			{Name: "prepare runs before the dependency check", File: loaderGo, Rule: "C07-R4", Key: "preparePhase",
				Old: "\tif l.shouldSkipErroredDependencyLocked(item) {\n\t\treturn nil, nil\n\t}\n\n\titems := l.selectItemsForPath(item.FetchPath)", New: "\titems := l.selectItemsForPath(item.FetchPath)"},
			{Name: "parallel fetches cancel each other through errgroup.WithContext", File: loaderGo, Rule: "C07-R5", Key: "WithContext",
				Old: "\tvar g errgroup.Group\n\tfor i := range nodes {\n\t\tnode := nodes[i]\n\t\tg.Go(func() error {", New: "\tg, ctx := errgroup.WithContext(ctx)\n\tfor i := range nodes {\n\t\tnode := nodes[i]\n\t\tg.Go(func() error {"},
			{Name: "failed single-flight leader never releases followers", File: loaderGo, Rule: "C07-R6", Key: "loadByContext",
				Old: "\tdefer l.singleFlight.Finish(item)\n\n\t// Perform the actual load\n\terr := l.loadByContextDirect(ctx, source, headers, input, res)\n\tif err != nil {\n\t\titem.err = err\n\t\t// the leader's own context ended (its client went away, or its deadline passed):\n\t\t// the error is the leader's, the followers load on their own\n\t\titem.leaderGone = ctx.Err() != nil\n\t\treturn err\n\t}\n",
				New: "\t// Perform the actual load\n\terr := l.loadByContextDirect(ctx, source, headers, input, res)\n\tif err != nil {\n\t\titem.err = err\n\t\t// the leader's own context ended (its client went away, or its deadline passed):\n\t\t// the error is the leader's, the followers load on their own\n\t\titem.leaderGone = ctx.Err() != nil\n\t\treturn err\n\t}\n\tdefer l.singleFlight.Finish(item)\n"},
		},
	}
}

func runC07(r *fw.Run) {
	defer c07EmptyEntityFetchIsNotBenign(r)
	defer c07EveryWholeFetchFailureIsRecorded(r)
	p := r.Prog
	pk := p.Pkg("resolve")
	if pk == nil {
		r.Error("package resolve not loaded")
		return
	}
	info := pk.TypesInfo
	rf := func(kind, field string) func(*types.Info, fw.CondAtom) bool {
		return fw.AtomField(kind, "resolve", "result", field)
	}
	isRenderer := func(c *ast.CallExpr) bool {
		fn := fw.Callee(info, c)
		if fn == nil || !fw.TypeIs(recvType(fn), "resolve", "Loader") {
			return false
		}
		return strings.HasPrefix(fn.Name(), "renderErrors") || fn.Name() == "renderAuthorizationRejectedErrors" || fn.Name() == "renderRateLimitRejectedErrors" || fn.Name() == "mergeErrors"
	}

	// ---- R1 + R3 over mergeResult ------------------------------------------------------------
	r.Rule("C07-R1", "in mergeResult every merge into the response tree (MergeValuesWithPath, dataBuffer.Set, taintedObjs.add) is dominated by: no transport error, not rejected, not skipped, body present, body parsed; indexed merges also by the entity-count check")
	r.Rule("C07-R3", "every nil return of mergeResult follows a merge, follows an error renderer, or lies on an enumerated benign edge (skipped fetch, empty entity list, null data with errors already merged)")
	if fi := p.Func("resolve", "Loader.mergeResult"); fi == nil {
		r.Error("C07-R1: Loader.mergeResult not found")
	} else {
		lenLike := func(e ast.Expr) bool {
			if c, ok := ast.Unparen(e).(*ast.CallExpr); ok && fw.Builtin(info, c) == "len" {
				return true
			}
			if id, ok := ast.Unparen(e).(*ast.Ident); ok {
				return varDefinedByLen(fi, info.Uses[id])
			}
			return false
		}
		g := fw.NewGuards(info,
			fw.GuardSpec{Name: "no-transport-error", Match: rf("Nil", "err")},
			fw.GuardSpec{Name: "not-auth-rejected", Match: rf("False", "authorizationRejected")},
			fw.GuardSpec{Name: "not-rate-limited", Match: rf("False", "rateLimitRejected")},
			fw.GuardSpec{Name: "not-skipped", Match: rf("False", "fetchSkipped")},
			fw.GuardSpec{Name: "has-body", Match: rf("NonEmpty", "out")},
			fw.GuardSpec{Name: "parsed", Sticky: true, Match: fw.AtomVarFromCall(fi, "Nil", "resolve", "result.parsedResponse", 1)},
			fw.GuardSpec{Name: "entity-count", Match: func(_ *types.Info, a fw.CondAtom) bool {
				return a.Kind == "Eq" && lenLike(a.X) && lenLike(a.Y)
			}},
			// benign edges for R3
			fw.GuardSpec{Name: "skipped", Match: rf("True", "fetchSkipped")},
			fw.GuardSpec{Name: "empty-entity-list", Match: func(_ *types.Info, a fw.CondAtom) bool {
				return a.Kind == "True" && (mentionsCall(info, a.X, "resolve", "isEmptyEntityFetch") || mentionsCall(info, a.X, "resolve", "result.emptyAliasIsBenign"))
			}},
			fw.GuardSpec{Name: "data-null", Match: func(_ *types.Info, a fw.CondAtom) bool {
				if a.Kind != "True" {
					return false
				}
				found := false
				fw.WalkAll(a.X, func(n ast.Node) bool {
					if c, ok := n.(*ast.CallExpr); ok {
						if fn := fw.Callee(info, c); fn != nil && fn.Name() == "ValueIsNull" {
							found = true
						}
					}
					return true
				})
				return found
			}},
			fw.GuardSpec{Name: "not-errorless-or-suppressed", Match: func(_ *types.Info, a fw.CondAtom) bool {
				// fall-through of `!hasErrors && !l.apolloCompatibilitySuppressFetchErrors`
				if a.Kind != "False" {
					return false
				}
				b, ok := ast.Unparen(a.X).(*ast.BinaryExpr)
				return ok && b.Op.String() == "&&" && mentionsField(info, b, "resolve", "Loader", "apolloCompatibilitySuppressFetchErrors")
			}},
		)
		base := []string{"no-transport-error", "not-auth-rejected", "not-rate-limited", "not-skipped", "has-body", "parsed"}
		isBatchSrc := func(e ast.Expr) bool { // batch[i] or a variable taken from it
			found := false
			fw.WalkAll(e, func(n ast.Node) bool {
				switch x := n.(type) {
				case *ast.IndexExpr:
					if id, ok := ast.Unparen(x.X).(*ast.Ident); ok && varDefinedByCallNamed(fi, info.Uses[id], "GetArray") {
						found = true
					}
				case *ast.Ident:
					if varDefinedByIndexOf(fi, info.Uses[x], "GetArray") {
						found = true
					}
				}
				return true
			})
			return found
		}
		nMerge, nNil := 0, 0
		in := fw.NewInterp(fi)
		in.H = fw.Hooks{Cond: g.Cond,
			Node: func(nd ast.Node, st *fw.State) {
				g.Node(nd, st)
				c, ok := nd.(*ast.CallExpr)
				if !ok {
					return
				}
				if isRenderer(c) {
					st.Set("rendered")
				}
				fn := fw.Callee(info, c)
				if fn == nil {
					return
				}
				role := ""
				switch {
				case fn.Name() == "MergeValuesWithPath" && fn.Pkg().Path() == "github.com/wundergraph/astjson":
					role = "MergeValuesWithPath"
				case fw.FuncIs(fn, "resolve", "DataBuffer.Set"):
					role = "dataBuffer.Set"
				case fw.FuncIs(fn, "resolve", "taintedObjects.add"):
					role = "taintedObjs.add"
				}
				if role == "" {
					return
				}
				st.Set("merged")
				if !in.Final() {
					return
				}
				nMerge++
				need := append([]string{}, base...)
				if role == "MergeValuesWithPath" && len(c.Args) >= 3 && isBatchSrc(c.Args[2]) {
					need = append(need, "entity-count")
				}
				for _, name := range need {
					r.Check(g.Has(st, name), "C07-R1", "Loader.mergeResult/"+role+"/requires:"+name, p.Pos(c.Pos()), role+" in mergeResult is dominated by "+name,
						"data is merged into the response tree on a path that did not establish '"+name+"': a failed, rejected, skipped or mis-sized response corrupts parts of data that do not depend on it (or pairs entities with the wrong parents)")
				}
			},
			Exit: func(ret *ast.ReturnStmt, lit *ast.FuncLit, st *fw.State) {
				if ret == nil || !in.Final() || len(ret.Results) != 1 {
					return
				}
				if tv := info.Types[ret.Results[0]]; !tv.IsNil() {
					return
				}
				nNil++
				ok := st.May("merged") && g.Has(st, "parsed") || st.Must("rendered") || g.Has(st, "skipped") || g.Has(st, "empty-entity-list") ||
					(g.Has(st, "data-null") && g.Has(st, "not-errorless-or-suppressed")) || g.Has(st, "entity-count")
				r.Check(ok, "C07-R3", "Loader.mergeResult/nil-return-is-benign", p.Pos(ret.Pos()), "nil return of mergeResult",
					"mergeResult returns nil on a path that neither merged data, nor rendered an error, nor lies on a benign edge (fetch skipped / empty entity list / null data whose errors were merged): a failed subgraph response is dropped without any error entry")
			}}
		in.Run(nil)
		r.Expect("C07-R1", "merge sites in mergeResult", nMerge, 7)
		r.Expect("C07-R3", "nil returns of mergeResult", nNil, 10)
	}

	// ---- R2 renderers append -----------------------------------------------------------------
	r.Rule("C07-R2", "each error renderer appends an entry to Loader.errors on every non-error return; authorizationRejected is only set together with a rejection reason")
	for _, name := range []string{"Loader.renderErrorsFailedToFetch", "Loader.renderErrorsStatusFallback", "Loader.renderErrorsFailedDeps", "Loader.renderRateLimitRejectedErrors"} {
		fi := p.Func("resolve", name)
		if fi == nil {
			r.Error("C07-R2: %s not found", name)
			continue
		}
		n := 0
		in := fw.NewInterp(fi)
		in.H = fw.Hooks{
			Node: func(nd ast.Node, st *fw.State) {
				if c, ok := nd.(*ast.CallExpr); ok {
					if fn := fw.Callee(info, c); fn != nil && fn.Name() == "AppendToArray" && len(c.Args) >= 2 && fw.IsFieldSel(info, c.Args[1], "resolve", "Loader", "errors") {
						st.Set("appended")
					}
				}
			},
			Exit: func(ret *ast.ReturnStmt, lit *ast.FuncLit, st *fw.State) {
				if ret == nil || !in.Final() || len(ret.Results) != 1 || !info.Types[ret.Results[0]].IsNil() {
					return
				}
				n++
				r.Check(st.Must("appended"), "C07-R2", name+"/appends-error", p.Pos(ret.Pos()), name+" appends to Loader.errors before returning nil",
					"the renderer returns success without having appended an error object: the failure nulls data but reports nothing ('at least one error is reported' broken)")
			}}
		in.Run(nil)
		r.Expect("C07-R2", "nil returns of "+name, n, 1)
	}
	if fi := p.Func("resolve", "Loader.renderAuthorizationRejectedErrors"); fi == nil {
		r.Error("C07-R2: renderAuthorizationRejectedErrors not found")
	} else {
		// each reason loop body appends unless parsing the message failed
		nLoops, nAppend := 0, 0
		fw.WalkAll(fi.Decl.Body, func(n ast.Node) bool {
			rs, ok := n.(*ast.RangeStmt)
			if !ok || !mentionsField(info, rs.X, "resolve", "result", "authorizationRejectedReasons") {
				return true
			}
			has := false
			fw.WalkAll(rs.Body, func(m ast.Node) bool {
				if c, ok := m.(*ast.CallExpr); ok {
					if fn := fw.Callee(info, c); fn != nil && fn.Name() == "AppendToArray" && len(c.Args) >= 2 && fw.IsFieldSel(info, c.Args[1], "resolve", "Loader", "errors") {
						has = true
						nAppend++
					}
				}
				return true
			})
			if has {
				nLoops++
			}
			return true
		})
		r.Check(nLoops >= 1 && nAppend >= 1, "C07-R2", "Loader.renderAuthorizationRejectedErrors/appends-per-reason", fi.Pos(), "the rejection renderer appends one error per rejection reason", "no loop over authorizationRejectedReasons appends to Loader.errors")
	}
	nRej := 0
	fw.EachNode(p.Funcs("resolve"), func(fi *fw.FuncInfo, n ast.Node, stack []ast.Node) {
		as, ok := n.(*ast.AssignStmt)
		if !ok {
			return
		}
		for i, l := range as.Lhs {
			if !fw.IsFieldSel(info, l, "resolve", "result", "authorizationRejected") || i >= len(as.Rhs) {
				continue
			}
			if v, ok := fw.ConstVal(info, as.Rhs[i]); !ok || v != "true" {
				continue
			}
			nRej++
			// a sibling statement in the same block appends a reason
			blk := enclosingBlock(stack)
			has := false
			if blk != nil {
				fw.WalkAll(blk, func(m ast.Node) bool {
					if a2, ok := m.(*ast.AssignStmt); ok {
						for _, l2 := range a2.Lhs {
							if fw.IsFieldSel(info, l2, "resolve", "result", "authorizationRejectedReasons") {
								has = true
							}
						}
					}
					return true
				})
			}
			r.Check(has, "C07-R2", fi.Name()+"/rejection-has-reason", p.Pos(as.Pos()), "authorizationRejected=true is accompanied by an append to authorizationRejectedReasons",
				"a rejection without a reason entry: renderAuthorizationRejectedErrors loops over the reasons, so no error at all is reported for the nulled data")
		}
	})
	r.Expect("C07-R2", "authorizationRejected=true sites", nRej, 1)

	// ---- R4 dependants skipped, transitively --------------------------------------------------
	r.Rule("C07-R4", "preparePhase prepares a fetch only after shouldSkipErroredDependencyLocked said no; a skip is recorded as errored (transitive); a load error is recorded before loadPhase returns")
	if fi := p.Func("resolve", "Loader.preparePhase"); fi == nil {
		r.Error("C07-R4: Loader.preparePhase not found")
	} else {
		g := fw.NewGuards(info, fw.GuardSpec{Name: "deps-ok", Match: fw.AtomCall("False", "resolve", "Loader.shouldSkipErroredDependencyLocked")})
		n := 0
		in := fw.NewInterp(fi)
		in.H = fw.Hooks{Cond: g.Cond, Node: func(nd ast.Node, st *fw.State) {
			c, ok := nd.(*ast.CallExpr)
			if !ok || !in.Final() {
				return
			}
			fn := fw.Callee(info, c)
			if fn == nil || !fw.TypeIs(recvType(fn), "resolve", "Loader") || !(strings.HasPrefix(fn.Name(), "prepare") && strings.HasSuffix(fn.Name(), "Fetch")) && fn.Name() != "selectItemsForPath" {
				return
			}
			n++
			r.Check(g.Has(st, "deps-ok"), "C07-R4", "Loader.preparePhase/deps-checked-before:"+fn.Name(), p.Pos(c.Pos()), fn.Name()+" runs only after the errored-dependency check said no",
				"a fetch is prepared (its input rendered from parent data) although a fetch it depends on failed: it sends a request built from missing data — a request the fault-free run would never send")
		}}
		in.Run(nil)
		r.Expect("C07-R4", "prepare steps in preparePhase", n, 5)
	}
	if fi := p.Func("resolve", "Loader.shouldSkipErroredDependencyLocked"); fi == nil {
		r.Error("C07-R4: shouldSkipErroredDependencyLocked not found")
	} else {
		n := 0
		in := fw.NewInterp(fi)
		in.H = fw.Hooks{
			Node: func(nd ast.Node, st *fw.State) {
				if c, ok := nd.(*ast.CallExpr); ok && fw.CallIs(info, c, "resolve", "Loader.recordErroredFetchIDLocked") {
					st.Set("recorded")
				}
			},
			Exit: func(ret *ast.ReturnStmt, lit *ast.FuncLit, st *fw.State) {
				if ret == nil || !in.Final() || len(ret.Results) != 1 {
					return
				}
				if v, ok := fw.ConstVal(info, ret.Results[0]); ok && v == "false" {
					return
				}
				n++
				r.Check(st.Must("recorded"), "C07-R4", fi.Name()+"/skip-is-recorded", p.Pos(ret.Pos()), "a skipped dependant is itself recorded as errored",
					"the skip is not recorded: fetches that depend on the skipped fetch still run (with a fabricated/null representation) — isolation is not transitive")
			}}
		in.Run(nil)
		r.Expect("C07-R4", "skip returns", n, 1)
	}
	if fi := p.Func("resolve", "Loader.loadPhase"); fi == nil {
		r.Error("C07-R4: loadPhase not found")
	} else {
		n := 0
		in := fw.NewInterp(fi)
		in.H = fw.Hooks{
			Cond: func(e ast.Expr, branch bool, st *fw.State) {
				if fw.AtomField("Nil", "resolve", "result", "err")(info, fw.Atom(info, e, branch)) {
					st.Set("ok-or-recorded")
				}
			},
			Node: func(nd ast.Node, st *fw.State) {
				if c, ok := nd.(*ast.CallExpr); ok {
					if fw.CallIs(info, c, "resolve", "Loader.executeSourceLoad") {
						st.Set("loaded")
						st.Kill("ok-or-recorded")
					}
					if fw.CallIs(info, c, "resolve", "Loader.recordErroredFetchID") {
						st.Set("ok-or-recorded")
					}
				}
			},
			Exit: func(ret *ast.ReturnStmt, lit *ast.FuncLit, st *fw.State) {
				if !in.Final() || !st.May("loaded") {
					return
				}
				n++
				pos := fi.Decl.End()
				if ret != nil {
					pos = ret.Pos()
				}
				r.Check(st.Must("ok-or-recorded"), "C07-R4", fi.Name()+"/load-error-recorded", p.Pos(pos), "after executeSourceLoad, loadPhase returns only with res.err == nil or the fetch recorded as errored",
					"a transport failure is not recorded in erroredFetchIDs: dependent fetches run against data that was never loaded")
			}}
		in.Run(nil)
		r.Expect("C07-R4", "exits of loadPhase after the load", n, 1)
	}

	// ---- R5 siblings never cancelled ------------------------------------------------------------
	r.Rule("C07-R5", "no errgroup.WithContext in package resolve (plain errgroup.Group: a failed fetch never cancels its siblings); every function that spawns on an errgroup joins it on all paths")
	nWith, nSpawnFns := 0, 0
	for _, fi := range p.Funcs("resolve") {
		spawns := false
		fw.WalkAll(fi.Decl.Body, func(n ast.Node) bool {
			c, ok := n.(*ast.CallExpr)
			if !ok {
				return true
			}
			fn := fw.Callee(info, c)
			if fn == nil || fn.Pkg() == nil || fn.Pkg().Path() != "golang.org/x/sync/errgroup" {
				return true
			}
			if fn.Name() == "WithContext" {
				nWith++
				r.Fail("C07-R5", fi.Name()+"/errgroup.WithContext", p.Pos(c.Pos()), "errgroup.WithContext in "+fi.Name(), "the first failing fetch cancels the shared context of its siblings: an unrelated subgraph's data is lost")
			}
			if fn.Name() == "Go" {
				spawns = true
			}
			return true
		})
		if !spawns {
			continue
		}
		nSpawnFns++
		in := fw.NewInterp(fi)
		in.H = fw.Hooks{
			Lit: func(l *ast.FuncLit, ctx fw.LitCtx, st *fw.State) fw.LitMode { return fw.LitSkip },
			Node: func(nd ast.Node, st *fw.State) {
				if c, ok := nd.(*ast.CallExpr); ok {
					if fn := fw.Callee(info, c); fn != nil && fn.Pkg() != nil && fn.Pkg().Path() == "golang.org/x/sync/errgroup" {
						switch fn.Name() {
						case "Go":
							st.Set("spawned")
							st.Kill("joined")
						case "Wait":
							st.Set("joined")
						}
					}
				}
			},
			Exit: func(ret *ast.ReturnStmt, lit *ast.FuncLit, st *fw.State) {
				if lit != nil || !in.Final() || !st.May("spawned") {
					return
				}
				pos := fi.Decl.End()
				if ret != nil {
					pos = ret.Pos()
				}
				r.Check(st.Must("joined"), "C07-R5", fi.Name()+"/joined", p.Pos(pos), "exit of "+fi.Name()+" after g.Go joins with g.Wait()",
					"an exit is reachable after spawning fetch goroutines without waiting for them: the response is rendered while fetches still merge into the tree")
			}}
		in.Run(nil)
	}
	if nWith == 0 {
		r.Pass("C07-R5", "resolve/no-WithContext", "-", "no call of errgroup.WithContext in package resolve", true)
	}
	r.Expect("C07-R5", "functions spawning on an errgroup", nSpawnFns, 2)

	// ---- R6 failed leader releases followers (shared with C11-R1) -------------------------------
	r.Rule("C07-R6", "the single-flight leader in loadByContext reaches Finish(item) exactly once on every exit, so a failed load always releases the followers (gateway still returns promptly); Finish removes the item from the in-flight table before the wake-up on every path (a failed load never poisons later identical requests)")
	checkLoadByContextFinish(r, "C07-R6")
	checkRemovedBeforeClose(r, "C07-R6", false)
	c07TaintEveryMergeTarget(r)
	c07LoaderOutputReachesRenderer(r)
	// (R9, the single-flight leader publishes its outcome, moved to C11 as C11-R14 after F95: see DESIGN §8)
	c07MalformedSubgraphErrorsStaySoft(r)
}

func enclosingBlock(stack []ast.Node) *ast.BlockStmt {
	for i := len(stack) - 1; i >= 0; i-- {
		if b, ok := stack[i].(*ast.BlockStmt); ok {
			return b
		}
	}
	return nil
}

// varDefinedByLen: obj's single definition is `len(...)`.
func varDefinedByLen(fi *fw.FuncInfo, obj types.Object) bool {
	if obj == nil {
		return false
	}
	info := fi.Info()
	n, ok := 0, false
	ast.Inspect(fi.Decl.Body, func(nd ast.Node) bool {
		as, isAs := nd.(*ast.AssignStmt)
		if !isAs || len(as.Lhs) != len(as.Rhs) {
			return true
		}
		for i, l := range as.Lhs {
			id, isID := l.(*ast.Ident)
			if !isID {
				continue
			}
			o := info.Defs[id]
			if o == nil {
				o = info.Uses[id]
			}
			if o != obj {
				continue
			}
			n++
			if c, isC := ast.Unparen(as.Rhs[i]).(*ast.CallExpr); isC && fw.Builtin(info, c) == "len" {
				ok = true
			}
		}
		return true
	})
	return n == 1 && ok
}

// varDefinedByCallNamed: obj is (only) assigned from a call of a method/function with that name.
func varDefinedByCallNamed(fi *fw.FuncInfo, obj types.Object, name string) bool {
	if obj == nil {
		return false
	}
	info := fi.Info()
	n, ok := 0, false
	ast.Inspect(fi.Decl.Body, func(nd ast.Node) bool {
		as, isAs := nd.(*ast.AssignStmt)
		if !isAs {
			return true
		}
		for i, l := range as.Lhs {
			id, isID := l.(*ast.Ident)
			if !isID {
				continue
			}
			o := info.Defs[id]
			if o == nil {
				o = info.Uses[id]
			}
			if o != obj {
				continue
			}
			n++
			var rhs ast.Expr
			if len(as.Rhs) == len(as.Lhs) {
				rhs = as.Rhs[i]
			} else if len(as.Rhs) == 1 {
				rhs = as.Rhs[0]
			}
			if c, isC := ast.Unparen(rhs).(*ast.CallExpr); isC {
				if fn := fw.Callee(info, c); fn != nil && fn.Name() == name {
					ok = true
				}
			}
		}
		return true
	})
	return n == 1 && ok
}

// varDefinedByIndexOf: obj is defined as X[i] (assignment or range value) where X is a variable
// defined by a call named `name`.
func varDefinedByIndexOf(fi *fw.FuncInfo, obj types.Object, name string) bool {
	if obj == nil {
		return false
	}
	info := fi.Info()
	ok := false
	ast.Inspect(fi.Decl.Body, func(nd ast.Node) bool {
		as, isAs := nd.(*ast.AssignStmt)
		if !isAs || len(as.Lhs) != len(as.Rhs) {
			return true
		}
		for i, l := range as.Lhs {
			id, isID := l.(*ast.Ident)
			if !isID {
				continue
			}
			o := info.Defs[id]
			if o == nil {
				o = info.Uses[id]
			}
			if o != obj {
				continue
			}
			if ix, isIx := ast.Unparen(as.Rhs[i]).(*ast.IndexExpr); isIx {
				if xid, isX := ast.Unparen(ix.X).(*ast.Ident); isX && varDefinedByCallNamed(fi, info.Uses[xid], name) {
					ok = true
				}
			}
		}
		return true
	})
	return ok
}

// c07TaintEveryMergeTarget (R7, added after a seeded change hoisted the taint check out of the per-target loop): in
// mergeResult every object that entity data is merged into is also the object the taint check marks, inside the same block
// (per target of a de-duplicated batch, per item of a plain batch, the single item).
func c07TaintEveryMergeTarget(r *fw.Run) {
	p := r.Prog
	r.Rule("C07-R7", "in mergeResult every object that receives merged entity data is the object handed to taintedObjs.add under the taint test in the same block (every target of a de-duplicated batch, not just the first)")
	fi := p.Func("resolve", "Loader.mergeResult")
	if fi == nil {
		r.Error("C07-R7: Loader.mergeResult not found")
		return
	}
	info := fi.Info()
	n := 0
	var walkBlock func(b *ast.BlockStmt)
	walkBlock = func(b *ast.BlockStmt) {
		// merges and taint marks whose innermost enclosing loop/function block is b (ifs are transparent)
		var merges, taints []ast.Expr
		var mergePos []ast.Node
		var visit func(nd ast.Node)
		visit = func(nd ast.Node) {
			ast.Inspect(nd, func(m ast.Node) bool {
				switch x := m.(type) {
				case *ast.ForStmt:
					walkBlock(x.Body)
					return false
				case *ast.RangeStmt:
					walkBlock(x.Body)
					return false
				case *ast.FuncLit:
					return false
				case *ast.CallExpr:
					if fn := fw.Callee(info, x); fn != nil && fn.Name() == "MergeValuesWithPath" && fn.Pkg() != nil && strings.HasSuffix(fn.Pkg().Path(), "astjson") && len(x.Args) >= 3 {
						merges = append(merges, x.Args[1])
						mergePos = append(mergePos, x)
					}
					if sel, ok := ast.Unparen(x.Fun).(*ast.SelectorExpr); ok && sel.Sel.Name == "add" && len(x.Args) == 1 && fw.IsFieldSel(info, sel.X, "resolve", "Loader", "taintedObjs") {
						taints = append(taints, x.Args[0])
					}
				}
				return true
			})
		}
		for _, st := range b.List {
			visit(st)
		}
		for i, m := range merges {
			n++
			ok := false
			for _, t := range taints {
				if fw.ExprKey(info, t) == fw.ExprKey(info, m) {
					ok = true
				}
			}
			r.Check(ok, "C07-R7", "Loader.mergeResult/taint-covers-merge-target:"+types.ExprString(m), p.Pos(mergePos[i].Pos()), "the merge target "+types.ExprString(m)+" is the object the taint check marks",
				"entity data is merged into "+types.ExprString(m)+" but the taint check in the same block marks another object (or none): an entity whose required fields came back with errors is not marked for every parent it was merged into, and a dependent fetch sends a fabricated representation for the unmarked ones (a request the fault-free run would never send)")
		}
	}
	walkBlock(fi.Decl.Body)
	r.Expect("C07-R7", "merge sites in mergeResult", n, 3)
}

// c07LoaderOutputReachesRenderer (R8): the loader collects the error entries of failed fetches (and the subgraph
// extensions and the value-completion switch); the renderer prints them. Every function that hands the output of a Loader
// to a Resolvable hands over all of it: the sibling entry points (plain, arena, defer, defer group, subscription update)
// assign the same set of Resolvable fields from Loader fields. An entry point that forgets `errors` renders the nulled data
// of a failed fetch without any error.
func c07LoaderOutputReachesRenderer(r *fw.Run) {
	p := r.Prog
	r.Rule("C07-R8", "every function that hands a Loader's output to a Resolvable assigns all of errors, subgraphExtensions and skipValueCompletion (the sibling entry points agree)")
	info := p.Pkg("resolve").TypesInfo
	required := []string{"errors", "skipValueCompletion", "subgraphExtensions"}
	n := 0
	for _, fi := range p.Funcs("resolve") {
		got := map[string]bool{}
		fw.WalkAll(fi.Decl.Body, func(nd ast.Node) bool {
			as, ok := nd.(*ast.AssignStmt)
			if !ok || len(as.Lhs) != len(as.Rhs) {
				return true
			}
			for i, l := range as.Lhs {
				lv, lsel := fw.Field(info, l)
				if lv == nil {
					continue
				}
				_, lo := fw.FieldOwner(info, lsel)
				ro := ""
				if rv, rsel := fw.Field(info, as.Rhs[i]); rv != nil {
					_, ro = fw.FieldOwner(info, rsel)
				} else if c, isCall := ast.Unparen(as.Rhs[i]).(*ast.CallExpr); isCall {
					// a hand-over through a method of the loader (the ordered extensions)
					if fn := fw.Callee(info, c); fn != nil {
						ro = fw.RecvNameOfFunc(fn)
					}
				}
				if lo == "Resolvable" && ro == "Loader" {
					got[lv.Name()] = true
				}
			}
			return true
		})
		if len(got) == 0 {
			continue
		}
		n++
		var missing []string
		for _, f := range required {
			if !got[f] {
				missing = append(missing, f)
			}
		}
		r.Check(len(missing) == 0, "C07-R8", fi.Name()+"/hands-over-all-loader-output", fi.Pos(), fi.Name()+" hands errors, subgraphExtensions and skipValueCompletion of its loader to the renderer",
			"the renderer of this entry point never receives the loader's "+strings.Join(missing, ", ")+": a failed fetch is rendered as nulled data without the error entry the loader recorded (resp. without the forwarded extensions / with value completion switched on although the loader asked to skip it) — only on this entry point, its siblings hand it over")
	}
	r.Expect("C07-R8", "functions handing loader output to a renderer", n, 5)
}

// c07MalformedSubgraphErrorsStaySoft (R10): whatever a subgraph puts into the `errors` member of its answer is a failure of
// that subgraph, to be rendered as one entry of the response's errors. The loader re-decodes the member with
// encoding/json into its own error type (to record it for observability); a subgraph can make that decode fail at will
// (`"errors":["boom"]`, `{"message":123}`, `"path":"a.b"`). The decode error must not become the error of the operation:
// no return statement of a Loader method returns a value derived from the error of a json.Unmarshal whose input is
// marshalled from an astjson.Value parameter (subgraph-controlled bytes). Returned, it aborts the whole operation with a
// Go error and an empty body — the data of every unrelated subgraph included.
func c07MalformedSubgraphErrorsStaySoft(r *fw.Run) {
	p := r.Prog
	r.Rule("C07-R10", "the error of re-decoding subgraph-controlled bytes (json.Unmarshal of bytes marshalled from an astjson.Value parameter) is never returned by a Loader method: malformed entries of a subgraph's errors array do not abort the operation")
	n := 0
	for _, fi := range p.Funcs("resolve") {
		if fw.RecvName(recvTypeOrNil(fi.Obj)) != "Loader" {
			continue
		}
		info := fi.Info()
		sig := fi.Obj.Type().(*types.Signature)
		valueParams := map[types.Object]bool{}
		for i := 0; i < sig.Params().Len(); i++ {
			if strings.HasSuffix(sig.Params().At(i).Type().String(), "astjson.Value") {
				valueParams[sig.Params().At(i)] = true
			}
		}
		if len(valueParams) == 0 {
			continue
		}
		d := fw.NewPureDeriver(fi)
		fromValueParam := func(e ast.Expr) bool {
			c, ok := e.(*ast.CallExpr)
			if !ok {
				return false
			}
			sel, isSel := ast.Unparen(c.Fun).(*ast.SelectorExpr)
			if !isSel || sel.Sel.Name != "MarshalTo" {
				return false
			}
			id, isID := ast.Unparen(sel.X).(*ast.Ident)
			return isID && valueParams[info.Uses[id]]
		}
		// error variables of such decodes
		errVars := map[types.Object]ast.Node{}
		fw.WalkAll(fi.Decl.Body, func(nd ast.Node) bool {
			as, ok := nd.(*ast.AssignStmt)
			if !ok || len(as.Rhs) != 1 || len(as.Lhs) != 1 {
				return true
			}
			c, isCall := ast.Unparen(as.Rhs[0]).(*ast.CallExpr)
			if !isCall || !fw.CallIs(info, c, "encoding/json", "Unmarshal") || len(c.Args) != 2 || !d.Derives(c.Args[0], fromValueParam) {
				return true
			}
			if id, isID := as.Lhs[0].(*ast.Ident); isID {
				o := info.Defs[id]
				if o == nil {
					o = info.Uses[id]
				}
				if o != nil {
					errVars[o] = c
				}
			}
			return true
		})
		for o, at := range errVars {
			n++
			var bad *ast.ReturnStmt
			fw.WalkAll(fi.Decl.Body, func(nd ast.Node) bool {
				ret, ok := nd.(*ast.ReturnStmt)
				if !ok || bad != nil {
					return true
				}
				for _, res := range ret.Results {
					fw.WalkAll(res, func(m ast.Node) bool {
						if id, isID := m.(*ast.Ident); isID && info.Uses[id] == o {
							bad = ret
						}
						return true
					})
				}
				return true
			})
			pos := at.Pos()
			if bad != nil {
				pos = bad.Pos()
			}
			r.Check(bad == nil, "C07-R10", fi.Name()+"/decode-error-of-subgraph-errors-not-returned", p.Pos(pos), "the error of decoding subgraph-controlled bytes in "+fi.Name()+" is not returned",
				"the decode error is returned up through mergeResult / resolveParallel / LoadGraphQLResponseData: one subgraph answering `{\"errors\":[\"boom\"]}` makes the whole operation fail with a Go error and an EMPTY body — no data (not even of unrelated subgraphs), no GraphQL errors")
		}
	}
	r.Expect("C07-R10", "decodes of subgraph-controlled bytes in Loader methods", n, 1)
}

// c07EmptyEntityFetchIsNotBenign (R11): "the entity that was asked for is null" is a legitimate answer of an entity fetch
// and ends mergeResult without an error. Two things are not that answer: an `_entities` array without any element (one
// representation was sent, nothing came back) and a response with a status outside 2XX and no errors of its own. The
// predicate that recognises the benign case returns true only where the entities array is known to be non-empty, and
// mergeResult consults it only after the status-code fallback has been considered (the status was compared with 300 and
// found below, or the response has errors of its own — one correlated fact over the atoms of the guard).
func c07EmptyEntityFetchIsNotBenign(r *fw.Run) {
	p := r.Prog
	r.Rule("C07-R11", "the benign exit of mergeResult for a null entity is taken only after the status-code fallback was considered, and the predicate behind it answers true only for an entities array with at least one element")
	pred := p.Func("resolve", "isEmptyEntityFetch")
	if pred == nil {
		r.Error("C07-R11: isEmptyEntityFetch not found")
		return
	}
	// (a) the predicate
	{
		info := pred.Info()
		bad := ""
		nTrue := 0
		in := fw.NewInterp(pred)
		in.H = fw.Hooks{
			Cond: func(e ast.Expr, branch bool, st *fw.State) {
				if a := fw.Atom(info, e, branch); a.Kind == "NonEmpty" {
					st.Set("nonempty")
				}
			},
			Exit: func(ret *ast.ReturnStmt, lit *ast.FuncLit, st *fw.State) {
				if lit != nil || ret == nil || !in.Final() || len(ret.Results) != 1 {
					return
				}
				if v, isConst := fw.ConstVal(info, ret.Results[0]); isConst && v == "false" {
					return
				}
				nTrue++
				if !st.Must("nonempty") {
					bad = p.Pos(ret.Pos())
				}
			},
		}
		in.Run(nil)
		r.Check(bad == "" && nTrue > 0, "C07-R11", "isEmptyEntityFetch/benign-only-with-an-element", p.Pos(pred.Decl.Pos()), "isEmptyEntityFetch answers true only where the entities array is known to have an element",
			"isEmptyEntityFetch answers true ("+bad+") without knowing that `_entities` has an element: {\"data\":{\"_entities\":[]}} for one representation ends mergeResult as if the entity were null — no error is reported although nothing came back")
	}
	// (b) the call site
	n := 0
	for _, fi := range p.Funcs("resolve") {
		info := fi.Info()
		has := false
		fw.WalkAll(fi.Decl.Body, func(nd ast.Node) bool {
			if c, ok := nd.(*ast.CallExpr); ok && fw.Callee(info, c) == pred.Obj {
				has = true
			}
			return true
		})
		if !has {
			continue
		}
		// the variables that say "the response has errors of its own": the ones the status-code guard negates (found in the
		// guard itself, not by name)
		ownErrors := map[types.Object]bool{}
		fw.WalkAll(fi.Decl.Body, func(nd ast.Node) bool {
			is, ok := nd.(*ast.IfStmt)
			if !ok {
				return true
			}
			mentionsStatus := false
			fw.WalkAll(is.Cond, func(m ast.Node) bool {
				if sel, isSel := m.(*ast.SelectorExpr); isSel && fw.IsFieldSel(info, sel, "resolve", "result", "statusCode") {
					mentionsStatus = true
				}
				return true
			})
			if !mentionsStatus {
				return true
			}
			fw.WalkAll(is.Cond, func(m ast.Node) bool {
				if u, isNot := m.(*ast.UnaryExpr); isNot && u.Op == token.NOT {
					if id, isID := ast.Unparen(u.X).(*ast.Ident); isID && info.ObjectOf(id) != nil {
						ownErrors[info.ObjectOf(id)] = true
					}
				}
				return true
			})
			return true
		})
		in := fw.NewInterp(fi)
		in.H = fw.Hooks{
			Lit: func(l *ast.FuncLit, ctx fw.LitCtx, st *fw.State) fw.LitMode { return fw.LitSkip },
			Cond: func(e ast.Expr, branch bool, st *fw.State) {
				a := fw.Atom(info, e, branch)
				// status compared with 300 and found below it
				if a.Kind == "Lt" && fw.IsFieldSel(info, a.X, "resolve", "result", "statusCode") {
					if v, isConst := fw.ConstVal(info, a.Y); isConst && v == "300" {
						st.Set("fallback-considered")
					}
				}
				// the response has errors of its own (the fallback does not apply)
				if id, isID := ast.Unparen(a.X).(*ast.Ident); isID && a.Kind == "True" && ownErrors[info.ObjectOf(id)] {
					st.Set("fallback-considered")
				}
			},
			Node: func(nd ast.Node, st *fw.State) {
				if c, ok := nd.(*ast.CallExpr); ok && in.Final() && fw.Callee(info, c) == pred.Obj {
					n++
					r.Check(st.Must("fallback-considered"), "C07-R11", fi.Name()+"/benign-exit-after-status-fallback", p.Pos(c.Pos()), fi.Name()+" asks whether the entity is null only after the status-code fallback was considered",
						fi.Name()+" takes the benign null-entity exit before looking at the status code: an entity fetch answered with HTTP 500 and {\"data\":{\"_entities\":[…]}} produces no error at all")
				}
			},
		}
		in.Run(nil)
	}
	r.Expect("C07-R11", "call sites of the null-entity predicate", n, 1)
}

// c07EveryWholeFetchFailureIsRecorded (R12): the loader skips a fetch whose dependency failed (R4) by looking the dependency
// up in Loader.erroredFetchIDs. A failure that is not recorded there fabricates the dependent request: the entity fetch for
// a @requires field is sent with `"title":null` for every entity although no title was ever null. Transport errors were
// recorded (loadPhase); everything mergeResult finds out — empty body, a body that is not JSON, a non-2xx fallback, data of
// the wrong shape, the wrong entity count, errors without data — was not. Rule, over the paths of mergeResult: (a) every
// exit that follows a whole-fetch failure renderer (renderErrors… of the Loader) without a merge has passed
// recordErroredFetchID(Locked), directly or inside a callee that passes it on all its paths; (b) every nil exit on the
// null-data edge that is not the benign empty-entity edge is reached after the record or on the edge "the response had no
// errors" (one correlated fact). The transport-error edge counts as recorded: loadPhase did that (R4). Rejected
// (authorization, rate limit) and skipped fetches are not this rule's business.
func c07EveryWholeFetchFailureIsRecorded(r *fw.Run) {
	p := r.Prog
	r.Rule("C07-R12", "every exit of mergeResult that follows a whole-fetch failure renderer without a merge, and the errors-without-data exit, has recorded the fetch in erroredFetchIDs (directly or in a callee that does on all paths), so that its dependants are skipped")
	fi := p.Func("resolve", "Loader.mergeResult")
	if fi == nil {
		r.Error("C07-R12: Loader.mergeResult not found")
		return
	}
	info := fi.Info()
	isRecord := func(fn *types.Func) bool {
		return fn != nil && fw.RecvNameOfFunc(fn) == "Loader" && (fn.Name() == "recordErroredFetchIDLocked" || fn.Name() == "recordErroredFetchID")
	}
	// callees that record on all paths
	recordsAlways := map[*types.Func]bool{}
	for changed := true; changed; {
		changed = false
		for _, g := range p.Funcs("resolve") {
			if recordsAlways[g.Obj] || fw.RecvNameOfFunc(g.Obj) != "Loader" || !strings.HasPrefix(g.Obj.Name(), "renderErrors") {
				continue
			}
			ginfo := g.Info()
			all := true
			in := fw.NewInterp(g)
			in.H = fw.Hooks{
				Lit: func(l *ast.FuncLit, ctx fw.LitCtx, st *fw.State) fw.LitMode { return fw.LitSkip },
				Node: func(nd ast.Node, st *fw.State) {
					if c, ok := nd.(*ast.CallExpr); ok {
						if fn := fw.Callee(ginfo, c); isRecord(fn) || recordsAlways[fn] {
							st.Set("recorded")
						}
					}
				},
				Exit: func(ret *ast.ReturnStmt, lit *ast.FuncLit, st *fw.State) {
					if lit == nil && in.Final() && !st.Must("recorded") {
						all = false
					}
				},
			}
			in.Run(nil)
			if all {
				recordsAlways[g.Obj] = true
				changed = true
			}
		}
	}
	// the "response has errors" flag: a bool local assigned from len(….GetArray()) > 0
	var errsFlag types.Object
	fw.WalkAll(fi.Decl.Body, func(nd ast.Node) bool {
		as, ok := nd.(*ast.AssignStmt)
		if !ok || len(as.Lhs) != 1 || len(as.Rhs) != 1 {
			return true
		}
		// len(….GetArray()) compared with a constant, in any spelling (> 0, 0 <, != 0, >= 1)
		b, isB := ast.Unparen(as.Rhs[0]).(*ast.BinaryExpr)
		if !isB {
			return true
		}
		switch b.Op {
		case token.GTR, token.LSS, token.NEQ, token.GEQ, token.LEQ:
		default:
			return true
		}
		if !mentionsCallNamed(info, b.X, "GetArray") && !mentionsCallNamed(info, b.Y, "GetArray") {
			return true
		}
		if id, isID := as.Lhs[0].(*ast.Ident); isID {
			errsFlag = info.ObjectOf(id)
		}
		return true
	})
	if errsFlag == nil {
		r.Error("C07-R12: the flag that says the response has errors was not found in mergeResult")
		return
	}
	nFail, nNull := 0, 0
	in := fw.NewInterp(fi)
	in.H = fw.Hooks{
		Lit: func(l *ast.FuncLit, ctx fw.LitCtx, st *fw.State) fw.LitMode { return fw.LitSkip },
		Cond: func(e ast.Expr, branch bool, st *fw.State) {
			a := fw.Atom(info, e, branch)
			if fw.AtomField("NonNil", "resolve", "result", "err")(info, a) {
				// a transport error: recorded by loadPhase before it returned (C07-R4)
				st.Set("recorded")
			}
			switch a.Kind {
			case "True", "False":
				if id, ok := ast.Unparen(a.X).(*ast.Ident); ok && info.ObjectOf(id) == errsFlag && a.Kind == "False" {
					st.Set("settled")
				}
				if a.Kind == "True" && mentionsCallNamed(info, a.X, "ValueIsNull") {
					st.Set("data-null")
				}
				if a.Kind == "True" && (mentionsCall(info, a.X, "resolve", "isEmptyEntityFetch") || mentionsCall(info, a.X, "resolve", "result.emptyAliasIsBenign")) {
					st.Set("empty-entities")
				}
			}
		},
		Node: func(nd ast.Node, st *fw.State) {
			c, ok := nd.(*ast.CallExpr)
			if !ok {
				return
			}
			fn := fw.Callee(info, c)
			if fn == nil {
				return
			}
			switch {
			case isRecord(fn) || recordsAlways[fn]:
				st.Set("recorded")
				st.Set("settled")
			}
			if fw.RecvNameOfFunc(fn) == "Loader" && strings.HasPrefix(fn.Name(), "renderErrors") {
				st.Set("failure-rendered")
			}
			if fn.Name() == "MergeValuesWithPath" || fw.FuncIs(fn, "resolve", "DataBuffer.Set") {
				st.Set("merged")
			}
		},
		Exit: func(ret *ast.ReturnStmt, lit *ast.FuncLit, st *fw.State) {
			if lit != nil || !in.Final() || ret == nil {
				return
			}
			retIsRenderer := false
			if len(ret.Results) == 1 {
				if c, ok := ast.Unparen(ret.Results[0]).(*ast.CallExpr); ok {
					if fn := fw.Callee(info, c); fn != nil && fw.RecvNameOfFunc(fn) == "Loader" && strings.HasPrefix(fn.Name(), "renderErrors") {
						retIsRenderer = true
					}
				}
			}
			retIsNil := len(ret.Results) == 1 && info.Types[ret.Results[0]].IsNil()
			// an exit that hands on another error (an internal one: the operation is aborted) is not a verdict about the fetch
			if st.Must("failure-rendered") && !st.May("merged") && (retIsRenderer || retIsNil) {
				nFail++
				r.Check(st.Must("recorded"), "C07-R12", "Loader.mergeResult/failure-recorded-before-exit", p.Pos(ret.Pos()), "the exit of mergeResult after a whole-fetch failure has recorded the fetch as failed",
					"mergeResult leaves after rendering a whole-fetch failure (empty body, not JSON, status fallback, wrong shape or entity count) without recording the fetch in erroredFetchIDs: shouldSkipErroredDependencyLocked does not skip its dependants — `{ accounts { id full } }` with `full @requires(fields: \"title\")`, the title fetch answering HTTP 500: the `full` entity fetch is sent with `\"title\":null` for every entity, a request the fault-free run never sends, and a second error for it is added")
				return
			}
			if tv := info.Types[ret.Results[0]]; len(ret.Results) == 1 && tv.IsNil() && st.Must("data-null") && !st.May("empty-entities") && !st.May("merged") {
				nNull++
				r.Check(st.Must("settled"), "C07-R12", "Loader.mergeResult/errors-only-recorded-before-exit", p.Pos(ret.Pos()), "the errors-without-data exit of mergeResult has recorded the fetch as failed",
					"mergeResult returns on the null-data edge on a path on which the response had errors and the fetch was not recorded in erroredFetchIDs: `{\"errors\":[{\"message\":\"boom\"}]}` or `{\"data\":null,\"errors\":[…]}` from the title fetch — the dependent `full` fetch is sent with `\"title\":null`")
			}
		},
	}
	in.Run(nil)
	r.Expect("C07-R12", "exits of mergeResult after a whole-fetch failure renderer", nFail, 8)
	r.Expect("C07-R12", "nil exits of mergeResult on the null-data edge", nNull, 1)
	var names []string
	for fn := range recordsAlways {
		names = append(names, fn.Name())
	}
	sort.Strings(names)
	r.Note("C07-R12: renderers that record on all paths: %v", names)
}
