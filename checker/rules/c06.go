package rules

import (
	"go/ast"
	"go/types"
	"sort"
	"strings"

	"verif/checker/fw"
)

const varsValGo = "v2/pkg/variablesvalidation/variablesvalidation.go"

func init() {
	Registry["C06"] = Spec{
		Pkgs: map[string][]string{"v2": {"varsvalidation", "astnorm"}, "execution": {"engine"}},
		Run:  runC06,
		Explanation: "Decides the structural half of 'rejections never echo variable content when that is disabled, every input kind is checked, and the gate is on the path': in package variablesvalidation every piece of request-variable content (MarshalTo / GetStringBytes / String of a JSON value, followed through local variables and helper parameters) reaches an error message only inside a call of a sanitiser — a function that branches on DisableExposingVariablesContent; " +
			"the named-type dispatch covers the three input kinds and the five built-in scalars and the error renderer covers the same sets; list traversal descends into every element unconditionally; the validator's error slot is re-initialised on every Validate call before the walk; the engine plans only after variable validation succeeded (or there was no JSON object to validate). " +
			"It does not decide accept ⇔ coercible for all (type, value) pairs.",
		Mutants: []Mutant{
			{Name: "the JSON parser's error is returned whatever the exposure option says (reverts the F75 fix)", File: "v2/pkg/variablesvalidation/variablesvalidation.go", Rule: "C06-R10", Key: "VariablesValidator.validate/parser-error-only-when-exposure-allowed",
				Old: "\t\tif v.visitor.opts.DisableExposingVariablesContent {\n\t\t\t// the message of the parser quotes", New: "\t\tif v.visitor.opts.DisableExposingVariablesContent && len(variables) < 0 {\n\t\t\t// the message of the parser quotes"},
			{Name: "Validate keeps the remap table of the previous request (the repaired defect F18)", File: varsValGo, Rule: "C06-R4", Key: "VariablesValidator.Validate/assigns-every-visitor-input",
				Old: "\tv.visitor.variablesMap = nil\n", New: ""},
			{Name: "provided values of input fields with a default are never checked (seeded change C06-11)", File: varsValGo, Rule: "C06-R6", Key: "traverseFieldDefinitionType/exit-checked-or-nothing-to-check",
				Old: "\t\tif jsonValue == nil || jsonValue.Type() == astjson.TypeNull {\n\n\t\t\tif bytes.Equal(v.definition.TypeNameBytes(v.definition.Types[typeRef].OfType), []byte(\"Upload\")) {", New: "\t\tif v.definition.InputValueDefinitionHasDefaultValue(inputFieldRef) {\n\t\t\treturn\n\t\t}\n\t\tif jsonValue == nil || jsonValue.Type() == astjson.TypeNull {\n\n\t\t\tif bytes.Equal(v.definition.TypeNameBytes(v.definition.Types[typeRef].OfType), []byte(\"Upload\")) {"},
			{Name: "new message interpolates the raw value", File: varsValGo, Rule: "C06-R1", Key: "renderVariableInvalidObjectTypeError",
				Old: "v.err = v.newInvalidVariableError(fmt.Sprintf(`%s; Expected type \"%s\" to be an object.`, v.invalidValueMessage(string(v.currentVariableName), variableContent), string(typeName)))",
				New: "v.err = v.newInvalidVariableError(fmt.Sprintf(`%s; Expected type \"%s\" to be an object, got %s.`, v.invalidValueMessage(string(v.currentVariableName), variableContent), string(typeName), variableContent))"},
			{Name: "enum value echoed without the sanitiser", File: varsValGo, Rule: "C06-R1", Key: "renderVariableEnumValueDoesNotExistError",
				Old: "v.invalidEnumValueIfAllowed(string(enumValue)), string(typeName)))", New: "\"\\\"\"+string(enumValue)+\"\\\" \", string(typeName)))"},
			{Name: "sanitiser no longer honours the option", File: varsValGo, Rule: "C06-R1", Key: "sanitisers",
				Old: "func (v *variablesVisitor) invalidValueIfAllowed(variableContent string) string {\n\tif v.opts.DisableExposingVariablesContent {\n\t\treturn \"\"\n\t}\n", New: "func (v *variablesVisitor) invalidValueIfAllowed(variableContent string) string {\n"},
			{Name: "Boolean scalar no longer checked", File: varsValGo, Rule: "C06-R2", Key: "traverseNamedTypeNode",
				Old: "\t\tcase \"Boolean\":\n\t\t\tif jsonValue.Type() != astjson.TypeTrue && jsonValue.Type() != astjson.TypeFalse {\n\t\t\t\tv.renderVariableInvalidNestedTypeError(jsonValue, fieldTypeDefinitionNode.Kind, typeName, false)\n\t\t\t\treturn\n\t\t\t}\n", New: ""},
			{Name: "enum kind dropped from the dispatch", File: varsValGo, Rule: "C06-R2", Key: "traverseNamedTypeNode",
				Old: "\tcase ast.NodeKindEnumTypeDefinition:\n\t\tif jsonValue.Type() != astjson.TypeString {\n\t\t\tv.renderVariableInvalidNestedTypeError(jsonValue, fieldTypeDefinitionNode.Kind, typeName, false)\n\t\t\treturn\n\t\t}\n\t\tvalue := jsonValue.GetStringBytes()",
				New: "\tcase ast.NodeKindUnionTypeDefinition:\n\t\tif jsonValue.Type() != astjson.TypeString {\n\t\t\tv.renderVariableInvalidNestedTypeError(jsonValue, fieldTypeDefinitionNode.Kind, typeName, false)\n\t\t\treturn\n\t\t}\n\t\tvalue := jsonValue.GetStringBytes()"},
			{Name: "variables validated only when a remap exists", File: execEngineGo, Rule: "C06-R3", Key: "vars-ok",
				Old: "\tif err := validator.ValidateWithRemap(operation.Document(), e.config.schema.Document(), variables, remapVariables); err != nil {\n\t\treturn err\n\t}\n",
				New: "\tif remapVariables != nil {\n\t\tif err := validator.ValidateWithRemap(operation.Document(), e.config.schema.Document(), variables, remapVariables); err != nil {\n\t\t\treturn err\n\t\t}\n\t}\n"},
			{Name: "variables validated only when the raw bytes start with '{' (reverts the F28 fix)", File: execEngineGo, Rule: "C06-R3", Key: "vars-ok",
				Old: "\tif err := validator.ValidateWithRemap(operation.Document(), e.config.schema.Document(), variables, remapVariables); err != nil {\n\t\treturn err\n\t}\n",
				New: "\tif len(operation.Variables) > 0 && operation.Variables[0] == '{' {\n\t\tif err := validator.ValidateWithRemap(operation.Document(), e.config.schema.Document(), variables, remapVariables); err != nil {\n\t\t\treturn err\n\t\t}\n\t}\n"},
			{Name: "default-value exemption taken for an explicit null again (reverts the F29 fix)", File: varsValGo, Rule: "C06-R7", Key: "traverseFieldDefinitionType/default-exempts-only-an-absent-value",
				Old: "\t\t\tif jsonValue == nil && v.definition.InputValueDefinitionHasDefaultValue(inputFieldRef) {", New: "\t\t\tif v.definition.InputValueDefinitionHasDefaultValue(inputFieldRef) {"},
			{Name: "Int arm tests only the JSON kind again (reverts the F30 fix)", File: varsValGo, Rule: "C06-R8", Key: "traverseNamedTypeNode/int-arm-inspects-the-number",
				Old: "\t\t\tif jsonValue.Type() != astjson.TypeNumber || !numberIsInt32(jsonValue) {", New: "\t\t\tif jsonValue.Type() != astjson.TypeNumber {"},
			{Name: "variable default overwrites an explicit null (seeded change C06-23)", File: "v2/pkg/astnormalization/variables_default_value_extraction.go", Rule: "C06-R9", Key: "EnterVariableDefinition/default-written-only-when-absent",
				Old: "\t_, _, _, err := jsonparser.Get(v.operation.Input.Variables, variableName)\n\tif err == nil {\n\t\treturn\n\t}\n", New: "\t_, dataType, _, err := jsonparser.Get(v.operation.Input.Variables, variableName)\n\tif err == nil && dataType != jsonparser.Null {\n\t\treturn\n\t}\n"},
			{Name: "validator error slot not reset between requests", File: varsValGo, Rule: "C06-R4", Key: "err-reset-before-walk",
				Old: "\tv.visitor.variables, v.visitor.err = astjson.ParseBytes(variables)\n\tif v.visitor.err != nil {\n", New: "\tparsed, perr := astjson.ParseBytes(variables)\n\tv.visitor.variables = parsed\n\tif perr != nil {\n",
				Also: [][2]string{{"\t\treturn v.visitor.err\n\t}\n\treport := &operationreport.Report{}\n", "\t\treturn perr\n\t}\n\treport := &operationreport.Report{}\n"}}},
			{Name: "null list items skipped before descending", File: varsValGo, Rule: "C06-R5", Key: "traverseFieldDefinitionType",
				Old: "\t\tfor i, arrayValue := range jsonValue.GetArray() {\n\t\t\tv.pushArrayPath(i)\n", New: "\t\tfor i, arrayValue := range jsonValue.GetArray() {\n\t\t\tif arrayValue.Type() == astjson.TypeNull {\n\t\t\t\tcontinue\n\t\t\t}\n\t\t\tv.pushArrayPath(i)\n"},
		},
	}
}

func runC06(r *fw.Run) {
	defer c06ParserErrorNotEchoedWhenDisabled(r)
	p := r.Prog
	pk := p.Pkg("varsvalidation")
	if pk == nil {
		r.Error("package variablesvalidation not loaded")
		return
	}
	info := pk.TypesInfo
	defer c06IntArmInspectsContent(r)
	defer c06DefaultOnlyWhenAbsent(r)

	// ---- R1 redaction --------------------------------------------------------------------------
	r.Rule("C06-R1", "variable content (MarshalTo / GetStringBytes / String / GetArray items … of a JSON value, through locals and helper parameters) reaches an error message only inside a call of a sanitiser (a function branching on DisableExposingVariablesContent)")
	sanitisers := map[*types.Func]bool{}
	for _, fi := range p.Funcs("varsvalidation") {
		branches := false
		in := fw.NewInterp(fi)
		in.H = fw.Hooks{Cond: func(e ast.Expr, branch bool, st *fw.State) {
			if mentionsField(info, e, "varsvalidation", "VariablesValidatorOptions", "DisableExposingVariablesContent") {
				branches = true
			}
		}}
		in.Run(nil)
		// a sanitiser takes the content as a string parameter and returns a string
		sig := fi.Obj.Type().(*types.Signature)
		if branches && sig.Results().Len() == 1 && types.Identical(sig.Results().At(0).Type(), types.Typ[types.String]) {
			// on the "disabled" edge the content parameter must not flow into the result
			if sanitiserDropsContent(fi) {
				sanitisers[fi.Obj] = true
			}
		}
	}
	r.Check(len(sanitisers) >= 3, "C06-R1", "sanitisers", "-", "the package has its sanitiser functions (string → string, branching on DisableExposingVariablesContent, dropping the content on the disabled edge)",
		"fewer than the three sanitisers of the pinned tree satisfy the sanitiser role (found "+itoa(len(sanitisers))+"): a function that should drop the content when the option is set returns it on some path")
	isSource := func(e ast.Expr) bool {
		c, ok := e.(*ast.CallExpr)
		if !ok {
			return false
		}
		fn := fw.Callee(info, c)
		if fn == nil || fn.Pkg() == nil || fn.Pkg().Path() != "github.com/wundergraph/astjson" {
			return false
		}
		switch fn.Name() {
		case "MarshalTo", "GetStringBytes", "String", "GetStringBytesOrNil", "GetInt", "GetFloat64", "GetBool":
			return true
		}
		return false
	}
	// tainted parameters (one package, fixed point over call sites)
	tainted := map[*types.Var]bool{}
	derivers := map[*fw.FuncInfo]*fw.Deriver{}
	for _, fi := range p.Funcs("varsvalidation") {
		d := fw.NewPureDeriver(fi)
		d.Barrier = func(e ast.Expr) bool {
			c, ok := e.(*ast.CallExpr)
			return ok && sanitisers[fw.Callee(info, c)]
		}
		derivers[fi] = d
	}
	isContent := func(fi *fw.FuncInfo, e ast.Expr) bool {
		return derivers[fi].Derives(e, func(x ast.Expr) bool {
			if isSource(x) {
				return true
			}
			if id, ok := x.(*ast.Ident); ok {
				if v, ok := info.Uses[id].(*types.Var); ok && tainted[v] {
					return true
				}
			}
			return false
		})
	}
	for changed := true; changed; {
		changed = false
		for _, fi := range p.Funcs("varsvalidation") {
			fw.WalkAll(fi.Decl.Body, func(n ast.Node) bool {
				c, ok := n.(*ast.CallExpr)
				if !ok {
					return true
				}
				callee := fw.Callee(info, c)
				if callee == nil || p.FuncOf(callee) == nil || sanitisers[callee] {
					return true
				}
				params := callee.Type().(*types.Signature).Params()
				for i, a := range c.Args {
					if i >= params.Len() {
						break
					}
					pv := params.At(i)
					if b, ok := pv.Type().Underlying().(*types.Basic); ok && b.Info()&types.IsString == 0 {
						continue
					}
					if _, isPtr := pv.Type().(*types.Pointer); isPtr {
						continue // *astjson.Value parameters are not content until an accessor is called on them
					}
					if !tainted[pv] && isContent(fi, a) {
						tainted[pv] = true
						changed = true
					}
				}
				return true
			})
		}
	}
	nSinks, nFlows := 0, 0
	for _, fi := range p.Funcs("varsvalidation") {
		if sanitisers[fi.Obj] {
			continue
		}
		fw.EachNode([]*fw.FuncInfo{fi}, func(_ *fw.FuncInfo, n ast.Node, stack []ast.Node) {
			var msg ast.Expr
			switch x := n.(type) {
			case *ast.CallExpr:
				if fw.CallIs(info, x, "varsvalidation", "variablesVisitor.newInvalidVariableError") && len(x.Args) == 1 {
					msg = x.Args[0]
				}
			case *ast.KeyValueExpr:
				if k, ok := x.Key.(*ast.Ident); ok && k.Name == "Message" {
					if v, ok := info.Uses[k].(*types.Var); ok && v.IsField() {
						msg = x.Value
					}
				}
			}
			if msg == nil {
				return
			}
			nSinks++
			// every content-derived leaf of msg must sit below a sanitiser call
			var walk func(e ast.Node, safe bool)
			bad := ""
			walk = func(e ast.Node, safe bool) {
				switch x := e.(type) {
				case *ast.CallExpr:
					if fn := fw.Callee(info, x); fn != nil && sanitisers[fn] {
						safe = true
					}
					if isSource(x) && !safe {
						bad = types.ExprString(x)
					}
					for _, a := range x.Args {
						walk(a, safe)
					}
					if sel, ok := ast.Unparen(x.Fun).(*ast.SelectorExpr); ok {
						walk(sel.X, safe)
					}
				case *ast.Ident:
					if _, isVar := info.Uses[x].(*types.Var); isVar && isContent(fi, x) {
						nFlows++
						if !safe {
							bad = x.Name
						}
					}
				case *ast.BinaryExpr:
					walk(x.X, safe)
					walk(x.Y, safe)
				case *ast.ParenExpr:
					walk(x.X, safe)
				case *ast.SelectorExpr:
					walk(x.X, safe)
				case *ast.IndexExpr:
					walk(x.X, safe)
				case *ast.SliceExpr:
					walk(x.X, safe)
				}
			}
			walk(msg, false)
			r.Check(bad == "", "C06-R1", fi.Name()+"/message-redacted", p.Pos(msg.Pos()), "error message built in "+fi.Name()+" contains variable content only through a sanitiser",
				"the message interpolates `"+bad+"`, which derives from the request's variable values, outside any sanitiser call: with DisableExposingVariablesContent set the rejection still echoes the client's data")
		})
	}
	r.Expect("C06-R1", "error message construction sites", nSinks, 18)
	r.Expect("C06-R1", "content flows into messages", nFlows, 15)

	// ---- R2 dispatch -----------------------------------------------------------------------------
	r.Rule("C06-R2", "traverseNamedTypeNode dispatches the three input type kinds and the five built-in scalar names; renderVariableInvalidNestedTypeError covers the same sets")
	kinds := []string{"NodeKindInputObjectTypeDefinition", "NodeKindScalarTypeDefinition", "NodeKindEnumTypeDefinition"}
	scalars := []string{`"String"`, `"Int"`, `"Float"`, `"Boolean"`, `"ID"`}
	for _, name := range []string{"variablesVisitor.traverseNamedTypeNode", "variablesVisitor.renderVariableInvalidNestedTypeError"} {
		fi := p.Func("varsvalidation", name)
		if fi == nil {
			r.Error("C06-R2: %s not found", name)
			continue
		}
		gotKinds, gotScalars := map[string]bool{}, map[string]bool{}
		fw.WalkAll(fi.Decl.Body, func(n ast.Node) bool {
			sw, ok := n.(*ast.SwitchStmt)
			if !ok || sw.Tag == nil {
				return true
			}
			for _, cl := range sw.Body.List {
				for _, e := range cl.(*ast.CaseClause).List {
					if c := fw.ConstObj(info, e); c != nil && strings.HasPrefix(c.Name(), "NodeKind") {
						gotKinds[c.Name()] = true
					} else if v, ok := fw.ConstVal(info, e); ok {
						gotScalars[v] = true
					}
				}
			}
			return true
		})
		mk := fw.MissingFrom(gotKinds, kinds)
		ms := fw.MissingFrom(gotScalars, scalars)
		r.Check(len(mk) == 0, "C06-R2", name+"/input-kinds", fi.Pos(), name+" covers InputObject, Scalar and Enum type kinds",
			"missing arms: "+strings.Join(mk, ", ")+" — values of that kind are accepted unchecked (dispatch) or rejected without a message (renderer)")
		r.Check(len(ms) == 0, "C06-R2", name+"/builtin-scalars", fi.Pos(), name+" covers String, Int, Float, Boolean, ID",
			"missing arms: "+strings.Join(ms, ", ")+" — a wrong JSON kind for that built-in scalar is accepted (dispatch) or reported with the generic message (renderer)")
	}

	// ---- R3 gate -----------------------------------------------------------------------------------
	r.Rule("C06-R3", "ExecutionEngine.Execute reaches planning only after VariablesValidator.Validate* returned nil, or when the variables are not a JSON object")
	engineAdmission(r, "C06-R3", true)

	// ---- R4 per-call state ---------------------------------------------------------------------------
	r.Rule("C06-R4", "the VariablesValidator (re)assigns the visitor's error slot on every path before it runs the walker, and every public entry point hands the reused visitor a complete set of inputs")
	{
		n := 0
		for _, fi := range p.Funcs("varsvalidation") {
			if fi.Decl.Recv == nil || !strings.HasPrefix(fi.Name(), "VariablesValidator.") {
				continue
			}
			in := fw.NewInterp(fi)
			in.H = fw.Hooks{Node: func(nd ast.Node, st *fw.State) {
				for _, t := range fw.WriteTargets(info, nd) {
					if fw.IsFieldSel(info, t, "varsvalidation", "variablesVisitor", "err") {
						st.Set("err-reset")
					}
				}
				if c, ok := nd.(*ast.CallExpr); ok && in.Final() && fw.CallIs(info, c, "astvisitor", "Walker.Walk") {
					n++
					r.Check(st.Must("err-reset"), "C06-R4", fi.Name()+"/err-reset-before-walk", p.Pos(c.Pos()), "the error slot of the reused visitor is assigned before the walk",
						"the walk starts with whatever error the previous request left in the visitor: after one rejected request a reused validator rejects every later request with the earlier request's variable name, path and content")
				}
			}}
			in.Run(nil)
		}
		r.Expect("C06-R4", "walks of the variables validator", n, 1)
	}
	wiringObligations(r, "C06-R4", "varsvalidation", nil)

	// every public entry point hands the visitor a complete, fresh set of inputs (added after a sub-agent's observation: Validate
	// after ValidateWithRemap kept the previous request's remap table)
	{
		universe := map[string]bool{}
		assigned := map[*types.Func]map[string]bool{}
		calls := map[*types.Func][]*types.Func{}
		walks := map[*types.Func]bool{}
		var methods []*fw.FuncInfo
		for _, fi := range p.Funcs("varsvalidation") {
			if fi.Decl.Recv == nil || !strings.HasPrefix(fi.Name(), "VariablesValidator.") {
				continue
			}
			methods = append(methods, fi)
			assigned[fi.Obj] = map[string]bool{}
			fw.WalkAll(fi.Decl.Body, func(nd ast.Node) bool {
				for _, t := range fw.WriteTargets(info, nd) {
					if v, sel := fw.Field(info, t); v != nil {
						if _, tn := fw.FieldOwner(info, sel); tn == "variablesVisitor" {
							assigned[fi.Obj][v.Name()] = true
							universe[v.Name()] = true
						}
					}
				}
				if c, ok := nd.(*ast.CallExpr); ok {
					if fn := fw.Callee(info, c); fn != nil {
						if fw.FuncIs(fn, "astvisitor", "Walker.Walk") {
							walks[fi.Obj] = true
						}
						if sig, _ := fn.Type().(*types.Signature); sig != nil && sig.Recv() != nil && fw.RecvName(sig.Recv().Type()) == "VariablesValidator" {
							calls[fi.Obj] = append(calls[fi.Obj], fn)
						}
					}
				}
				return true
			})
		}
		for changed := true; changed; {
			changed = false
			for _, fi := range methods {
				for _, callee := range calls[fi.Obj] {
					if walks[callee] && !walks[fi.Obj] {
						walks[fi.Obj] = true
						changed = true
					}
					for f := range assigned[callee] {
						if !assigned[fi.Obj][f] {
							assigned[fi.Obj][f] = true
							changed = true
						}
					}
				}
			}
		}
		nEntry := 0
		for _, fi := range methods {
			if !fi.Obj.Exported() || !walks[fi.Obj] {
				continue
			}
			nEntry++
			var missing []string
			for f := range universe {
				if !assigned[fi.Obj][f] {
					missing = append(missing, f)
				}
			}
			sort.Strings(missing)
			r.Check(len(missing) == 0, "C06-R4", fi.Name()+"/assigns-every-visitor-input", fi.Pos(), fi.Name()+" (re)assigns every input of the reused visitor that any entry point sets",
				"this entry point walks with whatever the previous call left in: "+strings.Join(missing, ", ")+" — e.g. Validate after ValidateWithRemap looks the variables up through the previous request's remap table: a coercible request is rejected (or a bad value accepted) depending on what was validated before")
		}
		r.Expect("C06-R4", "public entry points of VariablesValidator that walk", nEntry, 2)
	}

	// ---- R5 list traversal -----------------------------------------------------------------------------
	r.Rule("C06-R5", "list traversal descends into every element: in traverseOperationType and traverseFieldDefinitionType the loop over the JSON array calls the recursive traversal unconditionally")
	for _, name := range []string{"variablesVisitor.traverseOperationType", "variablesVisitor.traverseFieldDefinitionType"} {
		fi := p.Func("varsvalidation", name)
		if fi == nil {
			r.Error("C06-R5: %s not found", name)
			continue
		}
		n := 0
		fw.WalkAll(fi.Decl.Body, func(nd ast.Node) bool {
			rs, ok := nd.(*ast.RangeStmt)
			if !ok {
				return true
			}
			// a loop over the elements of the JSON array
			overArray := false
			fw.WalkAll(rs.X, func(m ast.Node) bool {
				if c, ok := m.(*ast.CallExpr); ok {
					if fn := fw.Callee(info, c); fn != nil && fn.Name() == "GetArray" {
						overArray = true
					}
				}
				if id, ok := m.(*ast.Ident); ok && varDefinedByCallNamed(fi, info.Uses[id], "GetArray") {
					overArray = true
				}
				return true
			})
			if !overArray {
				return true
			}
			n++
			ok2 := armEndState(fi, rs.Body.List, func(c *ast.CallExpr) bool { return fw.Callee(info, c) == fi.Obj })
			r.Check(ok2, "C06-R5", name+"/descends-into-every-element", p.Pos(rs.Pos()), name+" validates every element of a list value",
				"some elements are skipped before the recursive check (e.g. nulls): a null inside [T!] — or any ill-typed element on the skipped edge — is accepted")
			return true
		})
		r.Expect("C06-R5", "array loops in "+name, n, 1)
	}

	// ---- R6 a provided value is never skipped --------------------------------------------------------------
	r.Rule("C06-R6", "the type-wrapper traversals (traverseOperationType, traverseFieldDefinitionType) leave without recording an error and without descending into the value only on an edge where the value is absent or null, or the list is empty")
	errWriters := map[*types.Func]bool{}
	for _, fi := range p.Funcs("varsvalidation") {
		fw.WalkAll(fi.Decl.Body, func(nd ast.Node) bool {
			for _, t := range fw.WriteTargets(info, nd) {
				if fw.IsFieldSel(info, t, "varsvalidation", "variablesVisitor", "err") {
					errWriters[fi.Obj] = true
				}
			}
			return true
		})
	}
	nDefaultExits := 0
	defer func() {
		r.Rule("C06-R7", "the exemption 'a required input field with a default value may be missing' is taken only on the edge where the value is absent (jsonValue == nil), never for an explicit null")
		r.Expect("C06-R7", "exits that rely on the field's default value", nDefaultExits, 1)
	}()
	for _, name := range []string{"variablesVisitor.traverseOperationType", "variablesVisitor.traverseFieldDefinitionType"} {
		fi := p.Func("varsvalidation", name)
		if fi == nil {
			r.Error("C06-R6: %s not found", name)
			continue
		}
		// the JSON value parameter
		var jv *types.Var
		sig := fi.Obj.Type().(*types.Signature)
		for i := 0; i < sig.Params().Len(); i++ {
			if strings.HasSuffix(sig.Params().At(i).Type().String(), "astjson.Value") {
				jv = sig.Params().At(i)
			}
		}
		if jv == nil {
			r.Error("C06-R6: %s has no JSON value parameter", name)
			continue
		}
		isJV := func(e ast.Expr) bool {
			id, ok := ast.Unparen(e).(*ast.Ident)
			return ok && info.Uses[id] == jv
		}
		nExit := 0
		in := fw.NewInterp(fi)
		in.H = fw.Hooks{
			Cond: func(e ast.Expr, branch bool, st *fw.State) {
				// normalised atoms, so that the spelling of the test (x == nil, !(x != nil), len(a) == 0, len(a) < 1 …) is irrelevant
				at := fw.Atom(info, e, branch)
				if at.Kind == "True" {
					if c, isCall := ast.Unparen(at.X).(*ast.CallExpr); isCall {
						if fn := fw.Callee(info, c); fn != nil && fn.Name() == "InputValueDefinitionHasDefaultValue" {
							st.Set("default-edge")
						}
					}
				}
				switch at.Kind {
				case "Nil": // jsonValue == nil
					if isJV(at.X) {
						st.Set("ok")
						st.Set("absent")
					}
				case "Empty": // len(jsonValue.GetArray()) == 0
					if ic, isIC := ast.Unparen(at.X).(*ast.CallExpr); isIC {
						if sel, isSel := ast.Unparen(ic.Fun).(*ast.SelectorExpr); isSel && sel.Sel.Name == "GetArray" && isJV(sel.X) {
							st.Set("ok")
						}
					}
				case "Eq": // jsonValue.Type() == astjson.TypeNull
					for _, pair := range [][2]ast.Expr{{at.X, at.Y}, {at.Y, at.X}} {
						c, isCall := ast.Unparen(pair[0]).(*ast.CallExpr)
						if !isCall {
							continue
						}
						if sel, isSel := ast.Unparen(c.Fun).(*ast.SelectorExpr); isSel && sel.Sel.Name == "Type" && isJV(sel.X) {
							if co := fw.ConstObj(info, pair[1]); co != nil && co.Name() == "TypeNull" {
								st.Set("ok")
							}
						}
					}
				}
			},
			Node: func(nd ast.Node, st *fw.State) {
				switch x := nd.(type) {
				case *ast.CallExpr:
					fn := fw.Callee(info, x)
					if fn == nil {
						return
					}
					if errWriters[fn] { // an error renderer
						st.Set("ok")
						st.Set("error")
					}
					// descends: a traversal of this package that receives the value (or an element of it)
					if fn.Pkg() == fi.Obj.Pkg() && strings.HasPrefix(fn.Name(), "traverse") {
						st.Set("ok")
					}
				case *fw.RangeEval:
					// the element loop (its body is C06-R5's business); zero elements = nothing to check
					found := false
					fw.WalkAll(x.Stmt.X, func(m ast.Node) bool {
						if c, ok := m.(*ast.CallExpr); ok {
							if f := fw.Callee(info, c); f != nil && f.Name() == "GetArray" {
								found = true
							}
						}
						if id, ok := m.(*ast.Ident); ok && varDefinedByCallNamed(fi, info.Uses[id], "GetArray") {
							found = true
						}
						return true
					})
					if found {
						st.Set("ok")
					}
				}
				for _, t := range fw.WriteTargets(info, nd) {
					if fw.IsFieldSel(info, t, "varsvalidation", "variablesVisitor", "err") {
						st.Set("ok")
					}
				}
			},
			Exit: func(ret *ast.ReturnStmt, lit *ast.FuncLit, st *fw.State) {
				if lit != nil {
					return
				}
				nExit++
				pos := fi.Decl.End()
				if ret != nil {
					pos = ret.Pos()
				}
				r.Check(st.Must("ok"), "C06-R6", name+"/exit-checked-or-nothing-to-check#"+itoa(nExit), p.Pos(pos), "exit of "+name+" follows an error, a descent into the value, or an absent/null/empty value",
					"this exit is reached with a provided, non-null value that was neither rejected nor handed to the next traversal step: whatever the client sent at this position is accepted unchecked (e.g. a field with a default value whose provided value is never type-checked)")
				if st.Must("default-edge") && !st.May("error") {
					nDefaultExits++
					r.Check(st.Must("absent"), "C06-R7", name+"/default-exempts-only-an-absent-value#"+itoa(nExit), p.Pos(pos), "the exit of "+name+" that relies on the field's default value is reached only with an absent value (jsonValue == nil)",
						"the 'has a default value' exemption is reachable with a value that is present: an explicit null for a Non-Null input field (or a null item of its list) is accepted because the field declares a default — defaults apply to absent fields only, null is never coercible to T!")
				}
			},
		}
		in.Run(nil)
		r.Expect("C06-R6", "exits of "+name, nExit, 4)
	}
}

// sanitiserDropsContent: on the edge where DisableExposingVariablesContent is true, no string parameter of
// the function flows into the returned value.
func sanitiserDropsContent(fi *fw.FuncInfo) bool {
	info := fi.Info()
	d := fw.NewPureDeriver(fi)
	sig := fi.Obj.Type().(*types.Signature)
	ok, seenDisabledExit := true, false
	in := fw.NewInterp(fi)
	in.H = fw.Hooks{
		Cond: func(e ast.Expr, branch bool, st *fw.State) {
			if fw.IsFieldSel(info, e, "varsvalidation", "VariablesValidatorOptions", "DisableExposingVariablesContent") && branch {
				st.Set("disabled")
			}
		},
		Exit: func(ret *ast.ReturnStmt, lit *ast.FuncLit, st *fw.State) {
			if ret == nil || len(ret.Results) != 1 || !st.Must("disabled") {
				return
			}
			seenDisabledExit = true
			// the last string parameter is the content by convention of all three sanitisers; any parameter named *Content
			for i := 0; i < sig.Params().Len(); i++ {
				pv := sig.Params().At(i)
				if !strings.Contains(strings.ToLower(pv.Name()), "content") {
					continue
				}
				if d.Derives(ret.Results[0], func(x ast.Expr) bool {
					id, isID := x.(*ast.Ident)
					return isID && info.Uses[id] == pv
				}) {
					ok = false
				}
			}
		},
	}
	in.Run(nil)
	return ok && seenDisabledExit
}

// c06IntArmInspectsContent (R8): the JSON kind "number" does not tell 1 from 1.5 or from 1e100. The arm of the built-in
// scalar dispatch that accepts a value for Int must therefore look at the number itself: on every path that leaves the
// arm without an error, the JSON value was used in a call other than its Type() accessor (a content accessor, or a
// helper that receives the value). An arm that only compares Type() accepts every JSON number for Int — the same
// test as the Float arm, for a strictly smaller domain.
func c06IntArmInspectsContent(r *fw.Run) {
	p := r.Prog
	r.Rule("C06-R8", "the arm of the built-in scalar dispatch that accepts a value for Int inspects the number's content on every accepting path (the JSON kind alone cannot tell an integer from 1.5 or 1e100)")
	n := 0
	for _, fi := range p.Funcs("varsvalidation") {
		info := fi.Info()
		var jv *types.Var
		sig := fi.Obj.Type().(*types.Signature)
		for i := 0; i < sig.Params().Len(); i++ {
			if strings.HasSuffix(sig.Params().At(i).Type().String(), "astjson.Value") {
				jv = sig.Params().At(i)
			}
		}
		if jv == nil {
			continue
		}
		usesJV := func(e ast.Expr) bool {
			id, ok := ast.Unparen(e).(*ast.Ident)
			return ok && info.Uses[id] == jv
		}
		fw.WalkAll(fi.Decl.Body, func(nd ast.Node) bool {
			cc, ok := nd.(*ast.CaseClause)
			if !ok {
				return true
			}
			isInt := false
			for _, v := range cc.List {
				if cv, isC := fw.ConstVal(info, v); isC && (cv == `"Int"` || cv == "Int") {
					if tv, okT := info.Types[v]; okT && tv.Value != nil && tv.Value.Kind().String() == "String" {
						isInt = true
					}
				}
			}
			if !isInt {
				return true
			}
			// only the dispatch that validates (it has an error exit), not the one that words the message
			accepts := false
			in := fw.NewInterp(fi)
			in.H = fw.Hooks{Node: func(m ast.Node, st *fw.State) {
				c, isCall := m.(*ast.CallExpr)
				if !isCall {
					return
				}
				if sel, isSel := ast.Unparen(c.Fun).(*ast.SelectorExpr); isSel && usesJV(sel.X) {
					if sel.Sel.Name != "Type" {
						st.Set("inspected")
					}
					return
				}
				for _, a := range c.Args {
					if usesJV(a) {
						st.Set("inspected")
					}
				}
			}}
			hasTypeTest := false
			fw.WalkAll(cc, func(m ast.Node) bool {
				if c, isCall := m.(*ast.CallExpr); isCall {
					if sel, isSel := ast.Unparen(c.Fun).(*ast.SelectorExpr); isSel && usesJV(sel.X) && sel.Sel.Name == "Type" {
						hasTypeTest = true
					}
				}
				return true
			})
			if !hasTypeTest {
				return true
			}
			accepts = true
			end := in.RunStmts(cc.Body, nil)
			n++
			_ = accepts
			r.Check(end == nil || end.Must("inspected"), "C06-R8", fi.Name()+"/int-arm-inspects-the-number", p.Pos(cc.Pos()), "every accepting path through the Int arm of "+fi.Name()+" looks at the number (not only at its JSON kind)",
				"the Int arm can be left without an error after testing only jsonValue.Type(): 1.5, 1e100 and 2147483648 are accepted for Int (and forwarded to the subgraph) — the same test as the Float arm for a strictly smaller domain")
			return true
		})
	}
	r.Expect("C06-R8", "Int arms of a validating scalar dispatch", n, 1)
}

// c06DefaultOnlyWhenAbsent (R9): "defaults for absent values" — the normalizer copies a variable's default value into the
// request's variables. That write is legitimate only on the edge where the lookup of the variable in the request failed
// (the variable is absent); an explicit null is a provided value and must stay (it is invalid for T!, and for a nullable
// T it means null, not the default). The rule requires every write of Input.Variables in a function that reads
// VariableDefinitionDefaultValue to be dominated by the failure edge (err != nil) of the jsonparser.Get lookup.
func c06DefaultOnlyWhenAbsent(r *fw.Run) {
	p := r.Prog
	r.Rule("C06-R9", "the normalizer writes a variable's default into the request's variables only on the failure edge of the lookup of that variable (absent), never for a value that is present (an explicit null stays)")
	if p.Pkg("astnorm") == nil {
		r.Error("C06-R9: package astnormalization not loaded")
		return
	}
	const jp = "github.com/buger/jsonparser"
	n := 0
	for _, fi := range p.Funcs("astnorm") {
		info := fi.Info()
		readsDefault := false
		fw.WalkAll(fi.Decl.Body, func(nd ast.Node) bool {
			if c, ok := nd.(*ast.CallExpr); ok && fw.CallIs(info, c, "ast", "Document.VariableDefinitionDefaultValue") {
				readsDefault = true
			}
			return true
		})
		if !readsDefault {
			continue
		}
		g := fw.NewGuards(info, fw.GuardSpec{Name: "absent", Sticky: true, Match: fw.AtomVarFromCall(fi, "NonNil", jp, "Get", 3)})
		in := fw.NewInterp(fi)
		in.H = fw.Hooks{Cond: g.Cond, Node: func(nd ast.Node, st *fw.State) {
			g.Node(nd, st)
			if !in.Final() {
				return
			}
			for _, t := range fw.WriteTargets(info, nd) {
				if fw.IsFieldSel(info, t, "ast", "Input", "Variables") {
					n++
					r.Check(g.Has(st, "absent"), "C06-R9", fi.Name()+"/default-written-only-when-absent#"+itoa(n), p.Pos(nd.Pos()), "the write of Input.Variables in "+fi.Name()+" (which injects the variable's default) is reached only when the lookup of the variable failed",
						"the default value is written although the request provides the variable: an explicit null is replaced by the default — `$v: Int! = 5` with {\"v\":null} is accepted, and a nullable variable silently changes from null to its default")
				}
			}
		}}
		in.Run(nil)
	}
	r.Expect("C06-R9", "writes of Input.Variables that inject a variable default", n, 1)
}

// c06ParserErrorNotEchoedWhenDisabled (R10): the message of the JSON parser quotes the part of the input it could not
// parse ("unparsed tail: …", up to a kilobyte of whatever follows the error position) — arbitrary variable content. Where
// the variables are parsed (astjson.Parse… of the variables parameter) the parser's error is returned, or stored as the
// validator's error, only on the edge where DisableExposingVariablesContent is false.
func c06ParserErrorNotEchoedWhenDisabled(r *fw.Run) {
	p := r.Prog
	r.Rule("C06-R10", "the error of parsing the variables JSON (whose message quotes the unparsed input) leaves the variables validator only where DisableExposingVariablesContent is known to be false")
	n := 0
	for _, fi := range p.Funcs("varsvalidation") {
		info := fi.Info()
		// targets assigned from an astjson parse call: the error is the last result
		var errKeys []string
		fw.WalkAll(fi.Decl.Body, func(nd ast.Node) bool {
			as, ok := nd.(*ast.AssignStmt)
			if !ok || len(as.Rhs) != 1 || len(as.Lhs) != 2 {
				return true
			}
			c, isCall := ast.Unparen(as.Rhs[0]).(*ast.CallExpr)
			if !isCall {
				return true
			}
			fn := fw.Callee(info, c)
			if fn == nil || !strings.HasPrefix(fn.Name(), "Parse") || fn.Pkg() == nil || !strings.HasSuffix(fn.Pkg().Path(), "/astjson") {
				return true
			}
			errKeys = append(errKeys, fw.ExprKey(info, as.Lhs[1]))
			return true
		})
		if len(errKeys) == 0 {
			continue
		}
		isErr := func(e ast.Expr) bool {
			k := fw.ExprKey(info, e)
			for _, ek := range errKeys {
				if k == ek {
					return true
				}
			}
			return false
		}
		ord := 0
		in := fw.NewInterp(fi)
		in.H = fw.Hooks{
			Lit: func(l *ast.FuncLit, ctx fw.LitCtx, st *fw.State) fw.LitMode { return fw.LitSkip },
			Cond: func(e ast.Expr, branch bool, st *fw.State) {
				op, leaves := fw.NNF(info, e, branch)
				if op != "atom" && op != "and" {
					return
				}
				for _, a := range leaves {
					if fv, _ := fw.Field(info, a.X); fv != nil && fv.Name() == "DisableExposingVariablesContent" {
						if a.Kind == "False" {
							st.Set("exposure-allowed")
						}
					}
					if a.Kind == "NonNil" && isErr(a.X) {
						st.Set("parse-failed")
					}
				}
			},
			Exit: func(ret *ast.ReturnStmt, lit *ast.FuncLit, st *fw.State) {
				if lit != nil || ret == nil || !in.Final() || len(ret.Results) != 1 || !st.Must("parse-failed") {
					return
				}
				if !isErr(ret.Results[0]) {
					return
				}
				n++
				ord++
				r.Check(st.Must("exposure-allowed"), "C06-R10", fi.Name()+"/parser-error-only-when-exposure-allowed#"+itoa(ord), p.Pos(ret.Pos()), fi.Name()+" returns the JSON parser's error only where exposing variable content is allowed",
					fi.Name()+" returns the error of the JSON parser although DisableExposingVariablesContent may be set: its message quotes the unparsed tail of the variables — `{\"v\": {\"b\": 1} \"password\": \"s3cr3t-4711\"}` is answered with `… unparsed tail: \"\\\"password\\\": \\\"s3cr3t-4711\\\"}\"`")
			},
		}
		in.Run(nil)
	}
	r.Expect("C06-R10", "returns of the variables JSON parser's error", n, 1)
}
