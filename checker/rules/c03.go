package rules

import (
	"go/ast"
	"go/token"
	"go/types"
	"sort"
	"strings"

	"verif/checker/fw"
)

const (
	astnormGo  = "v2/pkg/astnormalization/astnormalization.go"
	astFieldGo = "v2/pkg/ast/ast_field.go"
	dedupGo    = "v2/pkg/astnormalization/field_deduplication.go"
)

func init() {
	Registry["C03"] = Spec{
		Pkgs: map[string][]string{"v2": {"astnorm", "ast", "astvisitor"}},
		Run:  runC03,
		Explanation: "Decides the structural half of 'normalization preserves meaning': every astvisitor callback a normalization visitor implements is registered with its walker (no rewrite silently dead) and per-walk state of the reusable visitors is re-initialised when a document/operation is entered; " +
			"the walker stages are appended in the partial order the rules' contracts require (operation selection first, cycle detection before fragment inlining, variable-usage detection before deletion, inlining ≺ defer expansion ≺ variable extraction ≺ inline-fragment flattening ≺ merging ≺ de-duplication, extraction before variable post-processing); " +
			"two fields are treated as the same field only when name, alias, absence of selections, arguments and directives agree, and a selection is removed only on that verdict after its defer information was merged. " +
			"It does not decide exec(norm(q)) == exec(q), validity preservation or idempotence (value level).",
		Mutants: []Mutant{
			{Name: "a nested fragment without a type condition counts as a fragment on a foreign type again (reverts the F94 fix)", File: "v2/pkg/astnormalization/inline_selections_from_inline_fragments.go", Rule: "C03-R18", Key: "inlineSelectionsFromInlineFragmentsVisitor.couldInline/type-condition-known:nestedFragmentRef",
				Old: "\t\tif !m.operation.InlineFragmentHasTypeCondition(nestedFragmentRef) {\n\t\t\t// a fragment without a type condition is of the type of its parent\n\t\t\tcontinue\n\t\t}\n", New: ""},
			{Name: "list coercion registered before default value extraction on the variables walker (reverts the F93 fix)", File: "v2/pkg/astnormalization/astnormalization.go", Rule: "C03-R17", Key: "OperationNormalizer.setupOperationWalkers/extractVariablesDefaultValue-before-inputCoercionForList",
				Old: "\t\textractVariablesDefaultValue(&variablesProcessing)\n\t\tinputCoercionForList(&variablesProcessing)\n", New: "\t\tinputCoercionForList(&variablesProcessing)\n\t\textractVariablesDefaultValue(&variablesProcessing)\n"},
			{Name: "the variables mapper records only variables that are the whole argument value (reverts part of the F92 fix)", File: "v2/pkg/astnormalization/variables_mapping.go", Rule: "C03-R16", Key: "variablesMappingVisitor/container-kinds-descended",
				Old: "\tcase ast.ValueKindList:\n\t\tfor _, ref := range v.operation.ListValues[value.Ref].Refs {\n\t\t\tv.collectVariables(v.operation.Value(ref))\n\t\t}\n", New: "\tcase ast.ValueKindList:\n"},
			{Name: "generated variable names may collide with variables that keep their name (reverts part of the F92 fix)", File: "v2/pkg/astnormalization/variables_mapping.go", Rule: "C03-R16", Key: "variablesMappingVisitor.generateUnusedVariableMappingName/kept-names-consulted",
				Old: "\t\t\tif !exists && !slices.Contains(v.keptNames, string(out)) {\n", New: "\t\t\tif !exists {\n"},
			{Name: "a union fragment inside an overlapping union is not inlined (reverts the F81 fix)", File: "v2/pkg/astnormalization/fragment_spread_inlining.go", Rule: "C03-R15", Key: "spread-matrix/UnionTypeDefinition-in-UnionTypeDefinition",
				Old: "fragmentUnionIntersectsEnclosingUnion = f.definition.UnionNodeIntersectsUnionNode(f.EnclosingTypeDefinition, fragmentNode)", New: "fragmentUnionIntersectsEnclosingUnion = false"},
			{Name: "a variable without a value inside a list literal is rendered as null although it has a default (reverts part of the F68 fix)", File: "v2/pkg/ast/ast_value.go", Rule: "C03-R14", Key: "Document.writeJSONValue/absent-variable-takes-its-default",
				Old: "\t\t\tif defaultValue, hasDefault := d.variableDefaultValue(variableName); hasDefault {\n\t\t\t\treturn d.writeJSONValue(buf, defaultValue)\n\t\t\t}\n", New: ""},
			{Name: "a variable's default is searched among the definitions of all operations of the document (reverts the F67 fix)", File: "v2/pkg/ast/ast_val_variable_value.go", Rule: "C03-R13", Key: "Document.GetVariableBooleanValue/variable-definitions-per-operation",
				Old: "\t\tfor _, i := range d.OperationDefinitions[node.Ref].VariableDefinitions.Refs {\n\t\t\tdefinitionName := ", New: "\t\tfor i := range d.VariableDefinitions {\n\t\t\tdefinitionName := "},
			{Name: "an extracted variable is reused when named type and outer nullability agree (seeded change C03-1)", File: "v2/pkg/astnormalization/variables_extraction.go", Rule: "C03-R11", Key: "variablesExtractionVisitor.extractedVariablesContainsKey/reuse-needs-deep-type-equality",
				Old: "v.definition.TypesAreEqualDeep(typeRef, v.extractedVariableTypeRefs[i])", New: "v.definition.TypeIsNonNull(typeRef) == v.definition.TypeIsNonNull(v.extractedVariableTypeRefs[i]) && bytes.Equal(v.definition.ResolveTypeNameBytes(typeRef), v.definition.ResolveTypeNameBytes(v.extractedVariableTypeRefs[i]))"},
			{Name: "deep type equality compares outer nullability, list depth and name (seeded change C03-22)", File: "v2/pkg/ast/ast_type.go", Rule: "C03-R12", Key: "Document.TypesAreEqualDeep/level-by-level",
				Old: "func (d *Document) TypesAreEqualDeep(left int, right int) bool {\n\tfor {\n\t\tif left == -1 || right == -1 {\n\t\t\treturn false\n\t\t}\n\t\tif d.Types[left].TypeKind != d.Types[right].TypeKind {\n\t\t\treturn false\n\t\t}\n\t\tif d.Types[left].TypeKind == TypeKindNamed {\n\t\t\tleftName := d.TypeNameBytes(left)\n\t\t\trightName := d.TypeNameBytes(right)\n\t\t\treturn bytes.Equal(leftName, rightName)\n\t\t}\n\t\tleft = d.Types[left].OfType\n\t\tright = d.Types[right].OfType\n\t}\n}\n",
				New: "func (d *Document) TypesAreEqualDeep(left int, right int) bool {\n\tif left == -1 || right == -1 {\n\t\treturn false\n\t}\n\treturn d.TypeIsNonNull(left) == d.TypeIsNonNull(right) && d.TypeNumberOfListWraps(left) == d.TypeNumberOfListWraps(right) && bytes.Equal(d.ResolveTypeNameBytes(left), d.ResolveTypeNameBytes(right))\n}\n"},
			{Name: "walker ranges over the directives of a field with a captured slice header (reverts part of the F55 fix)", File: "v2/pkg/astvisitor/visitor.go", Rule: "C03-R10", Key: "Walker/walkField/re-reads:Fields.Directives.Refs",
				Old: "\t\tfor idx := 0; idx < len(w.document.Fields[ref].Directives.Refs); {\n\t\t\ti := w.document.Fields[ref].Directives.Refs[idx]\n\t\t\tw.walkDirective(i, skipFor)\n\t\t\tif w.stop {\n\t\t\t\treturn\n\t\t\t}\n\t\t\tif idx < len(w.document.Fields[ref].Directives.Refs) && w.document.Fields[ref].Directives.Refs[idx] == i {\n\t\t\t\tidx++\n\t\t\t}\n\t\t}\n",
				New: "\t\tfor _, i := range w.document.Fields[ref].Directives.Refs {\n\t\t\tw.walkDirective(i, skipFor)\n\t\t\tif w.stop {\n\t\t\t\treturn\n\t\t\t}\n\t\t}\n"},
			{Name: "label of @defer read without a kind test (reverts the F49 fix)", File: "v2/pkg/astnormalization/defer_expand_into_internal.go", Rule: "C03-R9", Key: "deferExpandIntoInternalVisitor.EnterInlineFragment/kind-matches-ref:StringValueContentString",
				Old: "\tif hasLabel && labelValue.Kind == ast.ValueKindString {\n", New: "\tif hasLabel {\n"},
			{Name: "ids of the internal defer directive read without a kind test (reverts the F50 fix)", File: "v2/pkg/ast/ast_field.go", Rule: "C03-R9", Key: "Document.MergeFieldsDefer/kind-matches-ref:IntValueAsInt",
				Old: "\t\tif leftDeferIdValue.Kind != ValueKindInteger || rightDeferIdValue.Kind != ValueKindInteger {\n\t\t\t// not written by the normalizer (the internal directive can be spelled by a client): nothing to reconcile\n\t\t\treturn\n\t\t}\n", New: ""},
			{Name: "default of a @skip variable read without a kind test (reverts the F51 fix)", File: "v2/pkg/ast/ast_val_variable_value.go", Rule: "C03-R9", Key: "Document.GetVariableBooleanValue/kind-matches-ref:BooleanValue",
				Old: "if d.VariableDefinitions[i].DefaultValue.IsDefined && d.VariableDefinitions[i].DefaultValue.Value.Kind == ValueKindBoolean {", New: "if d.VariableDefinitions[i].DefaultValue.IsDefined {"},
			{Name: "Int values compare equal regardless of their sign (seeded change C04-21)", File: "v2/pkg/ast/ast_val_int_value.go", Rule: "C03-R8", Key: "copy-equal/IntValue.Negative",
				Old: "\treturn d.IntValueIsNegative(left) == d.IntValueIsNegative(right) &&\n\t\tbytes.Equal(d.IntValueRaw(left), d.IntValueRaw(right))", New: "\treturn bytes.Equal(d.IntValueRaw(left), d.IntValueRaw(right))"},
			{Name: "enclosing type resolved in the operation document while inlining a fragment spread", File: "v2/pkg/astnormalization/fragment_spread_inlining.go", Rule: "C03-R7", Key: "fragmentSpreadInlineVisitor.replaceFragmentSpread/Document.NodeNameBytes",
				Old: "parentTypeName := f.definition.NodeNameBytes(f.EnclosingTypeDefinition)", New: "parentTypeName := f.operation.NodeNameBytes(f.EnclosingTypeDefinition)"},
			{Name: "skipped list elements do not advance the element counter (the repaired defect F17)", File: "v2/pkg/astnormalization/inject_input_default_values.go", Rule: "C03-R6", Key: "jsonWalker/element-counter-advances",
				Old: "\t\tdefer func() { i++ }()\n\t\tif listOfList && dataType == jsonparser.Array {", New: "\t\tif dataType != jsonparser.Null {\n\t\t\tdefer func() { i++ }()\n\t\t}\n\t\tif listOfList && dataType == jsonparser.Array {"},
			{Name: "CopyInlineFragment shares the selection set of its source (seeded change C03-13)", File: "v2/pkg/ast/ast_inline_fragment.go", Rule: "C03-R5", Key: "Document.CopyInlineFragment/SelectionSet",
				Old: "\t\tselectionSet = d.CopySelectionSet(d.InlineFragments[ref].SelectionSet)\n", New: "\t\tselectionSet = d.InlineFragments[ref].SelectionSet\n"},
			{Name: "CopyDirective shares the argument list", File: "v2/pkg/ast/ast_directive.go", Rule: "C03-R5", Key: "Document.CopyDirective/Arguments",
				Old: "\t\targuments = d.CopyArgumentList(d.Directives[ref].Arguments)\n", New: "\t\targuments = d.Directives[ref].Arguments\n"},
			{Name: "operation callback of list coercion not registered (the repaired defect F6)", File: "v2/pkg/astnormalization/input_coercion_for_list.go", Rule: "C03-R1", Key: "wiring/inputCoercionForListVisitor.EnterOperationDefinition",
				Old: "\twalker.RegisterEnterOperationVisitor(&visitor)\n\twalker.RegisterVariableDefinitionVisitor(&visitor)\n", New: "\twalker.RegisterVariableDefinitionVisitor(&visitor)\n"},
			{Name: "upload paths no longer reset per document (the repaired defect F8)", File: "v2/pkg/astnormalization/variables_extraction.go", Rule: "C03-R1", Key: "state-reset/variablesExtractionVisitor.uploadsPath",
				Old: "\tv.uploadsPath = nil\n", New: ""},
			{Name: "coercion path cleared only on leave (the repaired defect F10)", File: "v2/pkg/astnormalization/input_coercion_for_list.go", Rule: "C03-R1", Key: "state-reset/inputCoercionForListVisitor.query",
				Old: "\t// a walk stopped inside a variable definition skips LeaveVariableDefinition\n\ti.query = i.query[:0]\n", New: ""},
			{Name: "fragment inlining before cycle detection", File: astnormGo, Rule: "C03-R2", Key: "preventFragmentCycles<fragmentSpreadInline",
				Old: "\tdirectivesIncludeSkip := astvisitor.NewWalkerWithID(8, \"DirectivesIncludeSkip\")\n\tpreventFragmentCycles(&directivesIncludeSkip)\n", New: "\tdirectivesIncludeSkip := astvisitor.NewWalkerWithID(8, \"DirectivesIncludeSkip\")\n"},
			{Name: "inline-fragment flattening stage lost", File: astnormGo, Rule: "C03-R2", Key: "inlineSelectionsFromInlineFragments<mergeInlineFragmentSelections",
				Old: "\tother := astvisitor.NewWalkerWithID(8, \"Other\")\n\tremoveSelfAliasing(&other)\n\tinlineSelectionsFromInlineFragments(&other)\n\to.operationWalkers = append(o.operationWalkers, walkerStage{\n\t\tname:   \"removeSelfAliasing, inlineSelectionsFromInlineFragments\",\n\t\twalker: &other,\n\t})\n",
				New: ""},
			{Name: "arguments no longer compared when merging flat fields", File: astFieldGo, Rule: "C03-R3", Key: "ArgumentSetsAreEquals",
				Old: "\t\t!d.FieldHasSelections(left) && !d.FieldHasSelections(right) && // selections\n\t\td.ArgumentSetsAreEquals(d.FieldArguments(left), d.FieldArguments(right)) // arguments\n",
				New: "\t\t!d.FieldHasSelections(left) && !d.FieldHasSelections(right) // selections\n"},
			{Name: "alias no longer compared when merging flat fields", File: astFieldGo, Rule: "C03-R3", Key: "FieldAliasBytes",
				Old: "\t\tbytes.Equal(d.FieldAliasBytes(left), d.FieldAliasBytes(right)) && // alias\n", New: ""},
			{Name: "fields de-duplicated ignoring directives", File: dedupGo, Rule: "C03-R4", Key: "EnterSelectionSet",
				Old: "\t\t\tif d.operation.FieldsAreEqualFlat(left, right, true) {", New: "\t\t\tif d.operation.FieldsAreEqualFlat(left, right, false) {"},
			{Name: "duplicate removed without merging its defer information", File: dedupGo, Rule: "C03-R4", Key: "merge-defer",
				Old: "\t\t\t\td.operation.MergeFieldsDefer(left, right)\n", New: ""},
		},
	}
}

func runC03(r *fw.Run) {
	p := r.Prog

	// ---- R1 wiring + state ---------------------------------------------------------------------
	r.Rule("C03-R1", "every astvisitor callback a normalization visitor implements is registered with its walker; per-walk slice/map state of the visitors is re-initialised in a scope-opening callback")
	wiringObligations(r, "C03-R1", "astnorm", map[string]string{})
	visitorStateReset(r, "C03-R1", "astnorm", map[string]string{})
	c03DeepCopies(r)
	c03ElementIndexCounters(r)

	r.Rule("C03-R8", "for every node type of package ast that has both a Copy and an equality function, the equality reads every field the Copy treats as content of the node (positions are not content; four frozen, reasoned exceptions)")
	copyEqualAgreement(r, "C03-R8", 12)

	r.Rule("C03-R10", "for every node kind whose directive list a visitor may shrink (ast.Document.RemoveDirectiveFromNode), the Walker's loop over that list re-reads it on every step instead of ranging over a captured slice header")
	walkerRereadsShrinkableLists(r, "C03-R10")
	c03VariableReuseNeedsDeepTypeEquality(r)
	c03VariableDefinitionsLookedUpPerOperation(r)
	c03AbsentNestedVariableTakesItsDefault(r)
	c03InlinerCoversTheSpreadMatrix(r)
	c03MapperSeesEveryUseAndEveryKeptName(r)
	c03DefaultsAreInPlaceBeforeListCoercion(r)
	c03UntypedFragmentsAreNotTakenForForeignTypes(r)

	r.Rule("C03-R9", "normalization runs before validation: in astnormalization and package ast the ref of an ast.Value is handed to an accessor of kind K (doc.<K>Value…(v.Ref), doc.<K>Values[v.Ref]) only where v.Kind is known to be K (equality or switch clause on the same value, a boolean local defined from it, or every caller of an unexported helper); VariableDefinition.VariableValue is a variable by construction")
	nKR := kindRefAgreement(r, "C03-R9", []string{"astnorm", "ast"}, nil)
	r.Expect("C03-R9", "kind-specific uses of a value's ref", nKR, 40)

	r.Rule("C03-R7", "in every normalization visitor a node is looked up only in the document it came from: a definition node (Walker.EnclosingTypeDefinition, TypeDefinitions, a lookup in the definition) is never handed to a method of the operation document, nor the other way round")
	documentProvenance(r, "C03-R7", []string{"astnorm"}, 23)

	// ---- R2 stage order --------------------------------------------------------------------------
	r.Rule("C03-R2", "walker stages are appended in the required partial order (each constraint: rule A is applied to a walker appended strictly before the walker of rule B, or the same one where noted)")
	order, fi := normalizerStageOrder(r)
	if fi != nil {
		stageIdx := func(name string) int {
			for i, s := range order {
				for _, rule := range s {
					if rule == name {
						return i
					}
				}
			}
			return -1
		}
		type cons struct {
			a, b   string
			strict bool
			why    string
		}
		for _, c := range []cons{
			{"removeOperationDefinitions", "preventFragmentCycles", true, "variable rules rely on visiting a single operation: the non-matching operations must be removed first"},
			{"preventFragmentCycles", "fragmentSpreadInline", true, "cyclic fragments must be reported before inlining, or inlining never terminates"},
			{"directiveIncludeSkipKeepNodes", "fragmentSpreadInline", true, "@skip/@include are evaluated before fragments are inlined (skipped spreads are not inlined)"},
			{"detectVariableUsage", "deleteUnusedVariables", true, "usage must be recorded on an earlier stage than the deletion, or variables still in use are deleted"},
			{"fragmentSpreadInline", "deferExpandIntoInternalWithDisabled", true, "defer expansion works on inlined fragments"},
			{"deferExpandIntoInternalWithDisabled", "extractVariables", true, "variables are extracted after the defer directives were rewritten"},
			{"fragmentSpreadInline", "extractVariables", true, "literals inside fragments are only reachable for extraction after inlining"},
			{"extractVariables", "inlineSelectionsFromInlineFragments", true, "extraction runs before selections are hoisted out of inline fragments"},
			{"inlineSelectionsFromInlineFragments", "mergeInlineFragmentSelections", true, "inline fragments are flattened before same-typed fragments are merged"},
			{"mergeInlineFragmentSelections", "deduplicateFields", true, "duplicates only become adjacent after merging"},
			{"extractVariables", "inputCoercionForList", true, "list coercion post-processes the extracted variables"},
			{"extractVariables", "extractVariablesDefaultValue", true, "default values are applied to the extracted variables"},
			{"extractVariables", "injectInputFieldDefaults", true, "input field defaults are injected into the extracted variables"},
		} {
			ia, ib := stageIdx(c.a), stageIdx(c.b)
			if ib < 0 {
				r.Note("C03-R2: stage rule %s is not applied in setupOperationWalkers any more; constraint %s<%s is vacuous", c.b, c.a, c.b)
				continue
			}
			if ia < 0 {
				r.Fail("C03-R2", "setupOperationWalkers/"+c.a+"<"+c.b, fi.Pos(), c.a+" runs on an earlier stage than "+c.b, c.b+" is applied but "+c.a+" is not applied to any walker stage at all: "+c.why)
				continue
			}
			r.Check(ia < ib, "C03-R2", "setupOperationWalkers/"+c.a+"<"+c.b, fi.Pos(), c.a+" runs on an earlier stage than "+c.b,
				c.a+" is at stage "+itoa(ia)+", "+c.b+" at stage "+itoa(ib)+": "+c.why)
		}
		r.Expect("C03-R2", "walker stages", len(order), 10)
		r.Check(stageIdx("removeOperationDefinitions") == 0, "C03-R2", "setupOperationWalkers/operation-selection-first", fi.Pos(), "the operation-selection stage is the first stage", "another stage runs before the non-matching operations are removed")
	}

	// ---- R3 same-field verdict --------------------------------------------------------------------
	r.Rule("C03-R3", "Document.FieldsAreEqualFlat answers true only when name ∧ alias ∧ no selections (both) ∧ arguments agree, and then only on the verdict of the directive comparison")
	if fi := p.Func("ast", "Document.FieldsAreEqualFlat"); fi == nil {
		r.Error("C03-R3: ast.Document.FieldsAreEqualFlat not found")
	} else {
		info := fi.Info()
		// the conjunction that gates every non-false return
		var gateObj types.Object
		var conjuncts []ast.Expr
		fw.WalkAll(fi.Decl.Body, func(n ast.Node) bool {
			as, ok := n.(*ast.AssignStmt)
			if !ok || len(as.Lhs) != 1 || len(as.Rhs) != 1 || gateObj != nil {
				return true
			}
			// the gate is a conjunction in any spelling: its negation normal form (for the outcome true) is "and"
			if op, leaves := fw.NNF(info, as.Rhs[0], true); op == "and" && len(leaves) >= 2 {
				gateObj = fw.RootObj(info, as.Lhs[0])
				for _, l := range leaves {
					conjuncts = append(conjuncts, l.X)
					if l.Y != nil {
						conjuncts = append(conjuncts, l.Y)
					}
				}
			}
			return true
		})
		if gateObj == nil {
			r.Error("C03-R3: the conjunction gating FieldsAreEqualFlat was not recognised")
		} else {
			for _, need := range []struct{ callee, what, why string }{
				{"Document.FieldNameBytes", "field name", "fields with different names are merged"},
				{"Document.FieldAliasBytes", "alias", "two differently aliased uses of a field collapse into one response key"},
				{"Document.FieldHasSelections", "absence of selections", "composite fields are treated as flat and their selection sets are lost"},
				{"Document.ArgumentSetsAreEquals", "arguments", "two un-aliased uses of a field with different arguments collapse: the response carries the value for the wrong arguments"},
			} {
				found := false
				for _, c := range conjuncts {
					if mentionsCall(info, c, "ast", need.callee) {
						found = true
					}
				}
				r.Check(found, "C03-R3", "FieldsAreEqualFlat/conjunct:"+need.callee, fi.Pos(), "the equality gate compares the "+need.what,
					"the conjunction no longer contains a "+need.callee+" comparison: "+need.why)
			}
			g := fw.NewGuards(info, fw.GuardSpec{Name: "gate", Match: func(_ *types.Info, a fw.CondAtom) bool {
				id, ok := ast.Unparen(a.X).(*ast.Ident)
				return a.Kind == "True" && ok && info.Uses[id] == gateObj
			}})
			n := 0
			in := fw.NewInterp(fi)
			in.H = fw.Hooks{Cond: g.Cond, Node: g.Node, Exit: func(ret *ast.ReturnStmt, lit *ast.FuncLit, st *fw.State) {
				if ret == nil || !in.Final() || len(ret.Results) != 1 {
					return
				}
				if v, ok := fw.ConstVal(info, ret.Results[0]); ok && v == "false" {
					return
				}
				n++
				isDirCmp := mentionsCall(info, ret.Results[0], "ast", "Document.DirectiveSetsAreEqual") || mentionsCall(info, ret.Results[0], "ast", "Document.DirectiveSetsHasCompatibleStreamDirective")
				r.Check(g.Has(st, "gate") && isDirCmp, "C03-R3", "FieldsAreEqualFlat/true-only-through-gate", p.Pos(ret.Pos()), "a non-false answer is returned only after the equality gate held, and is the directive comparison",
					"a path returns a possibly-true answer without the name/alias/selection/argument gate (or without comparing directives): different fields are merged")
			}}
			in.Run(nil)
			r.Expect("C03-R3", "non-false returns of FieldsAreEqualFlat", n, 2)
		}
	}

	// ---- R4 de-duplication guard --------------------------------------------------------------------
	r.Rule("C03-R4", "deduplicateFieldsVisitor removes a selection only on the true edge of FieldsAreEqualFlat(left, right, true) and after MergeFieldsDefer(left, right)")
	if fi := p.Func("astnorm", "deduplicateFieldsVisitor.EnterSelectionSet"); fi == nil {
		r.Error("C03-R4: deduplicateFieldsVisitor.EnterSelectionSet not found")
	} else {
		info := fi.Info()
		g := fw.NewGuards(info, fw.GuardSpec{Name: "same-field", Match: func(_ *types.Info, a fw.CondAtom) bool {
			if a.Kind != "True" {
				return false
			}
			c, ok := ast.Unparen(a.X).(*ast.CallExpr)
			if !ok || !fw.CallIs(info, c, "ast", "Document.FieldsAreEqualFlat") || len(c.Args) != 3 {
				return false
			}
			v, isConst := fw.ConstVal(info, c.Args[2])
			return isConst && v == "true"
		}})
		n := 0
		in := fw.NewInterp(fi)
		in.H = fw.Hooks{Cond: g.Cond, Node: func(nd ast.Node, st *fw.State) {
			g.Node(nd, st)
			c, ok := nd.(*ast.CallExpr)
			if !ok {
				return
			}
			if fw.CallIs(info, c, "ast", "Document.MergeFieldsDefer") {
				st.Set("defer-merged")
			}
			if fw.CallIs(info, c, "ast", "Document.RemoveFromSelectionSet") && in.Final() {
				n++
				r.Check(g.Has(st, "same-field"), "C03-R4", "deduplicateFieldsVisitor.EnterSelectionSet/remove-requires-equality", p.Pos(c.Pos()), "RemoveFromSelectionSet is dominated by the true edge of FieldsAreEqualFlat(left, right, true)",
					"a selection is removed without the full (directive-checking) equality verdict: fields that differ in directives such as @include/@skip/@defer are collapsed")
				r.Check(st.Must("defer-merged"), "C03-R4", "deduplicateFieldsVisitor.EnterSelectionSet/merge-defer-before-remove", p.Pos(c.Pos()), "MergeFieldsDefer(left, right) precedes the removal",
					"the removed duplicate's defer information is lost: a field that was also selected outside a @defer is delivered only incrementally (or vice versa)")
			}
		}}
		in.Run(nil)
		r.Expect("C03-R4", "RemoveFromSelectionSet sites in the de-duplication visitor", n, 1)
	}
	_ = strings.Join
}

func flattenAnd(e ast.Expr) []ast.Expr {
	if b, ok := ast.Unparen(e).(*ast.BinaryExpr); ok && b.Op == token.LAND {
		return append(flattenAnd(b.X), flattenAnd(b.Y)...)
	}
	return []ast.Expr{e}
}

// c03DeepCopies (R5, added after a seeded change made CopyInlineFragment share the selection set of its source): the
// Document.Copy* functions of package ast never alias a child of the source node. In the node literal handed to an Add*
// function, a value taken directly from the source (d.<Nodes>[ref].F, list.Refs, or a local assigned from such an
// expression) is allowed only for flags and kind enums; everything else has to come out of a call (a copy helper).
func c03DeepCopies(r *fw.Run) {
	p := r.Prog
	r.Rule("C03-R5", "the Document.Copy* functions deep-copy: every child reference / list / name placed in the new node comes from a copy helper call, never directly from the source node (flags and kind enums excepted)")
	pk := p.Pkg("ast")
	if pk == nil {
		r.Error("C03-R5: package ast not loaded")
		return
	}
	info := pk.TypesInfo
	frozen := map[string]string{
		"Document.CopyInlineFragment/TypeCondition": "refers to a Type node; normalization never rewrites Type nodes in place (the source comment says: value type, doesn't need to be copied)",
	}
	nFuncs, nVals := 0, 0
	for _, fi := range p.Funcs("ast") {
		if fi.Decl.Recv == nil || !strings.HasPrefix(fi.Name(), "Document.Copy") {
			continue
		}
		sig := fi.Obj.Type().(*types.Signature)
		// source roots: the receiver's node slices indexed by a parameter, and struct/list parameters
		params := map[types.Object]bool{}
		for i := 0; i < sig.Params().Len(); i++ {
			params[sig.Params().At(i)] = true
		}
		recv := sig.Recv()
		fromSource := func(e ast.Expr) bool {
			// a selector / index chain (no calls) rooted at the receiver or at a parameter
			for {
				switch x := ast.Unparen(e).(type) {
				case *ast.SelectorExpr:
					e = x.X
				case *ast.IndexExpr:
					e = x.X
				case *ast.Ident:
					o := info.Uses[x]
					return o != nil && (o == recv || params[o])
				default:
					return false
				}
			}
		}
		harmless := func(t types.Type) bool {
			if t == nil {
				return true
			}
			if b, ok := t.Underlying().(*types.Basic); ok {
				if b.Info()&types.IsBoolean != 0 {
					return true
				}
				// kind enums: named integer types of package ast that have constants
				if n, isNamed := t.(*types.Named); isNamed && b.Info()&types.IsInteger != 0 && len(fw.ConstsOfType(pk.Types, n)) > 0 {
					return true
				}
			}
			return false
		}
		// direct: does the expression place source data into the copy without a call? returns the offending expr
		var direct func(e ast.Expr, seen map[types.Object]bool) ast.Expr
		direct = func(e ast.Expr, seen map[types.Object]bool) ast.Expr {
			e = ast.Unparen(e)
			switch x := e.(type) {
			case *ast.CallExpr:
				if fw.Builtin(info, x) == "append" {
					for _, a := range x.Args[1:] {
						if bad := direct(a, seen); bad != nil {
							return bad
						}
					}
				}
				return nil
			case *ast.CompositeLit:
				for _, el := range x.Elts {
					v := el
					if kv, ok := el.(*ast.KeyValueExpr); ok {
						v = kv.Value
					}
					if bad := direct(v, seen); bad != nil {
						return bad
					}
				}
				return nil
			case *ast.Ident:
				o := info.Uses[x]
				if o == nil || seen[o] || params[o] && !fromSource(x) {
					return nil
				}
				if params[o] {
					if harmless(info.TypeOf(x)) {
						return nil
					}
					return x
				}
				if _, isVar := o.(*types.Var); !isVar || o.Parent() == o.Pkg().Scope() {
					return nil
				}
				seen[o] = true
				var bad ast.Expr
				fw.WalkAll(fi.Decl.Body, func(nd ast.Node) bool {
					switch as := nd.(type) {
					case *ast.AssignStmt:
						for i, l := range as.Lhs {
							if id, ok := l.(*ast.Ident); ok && (info.Defs[id] == o || info.Uses[id] == o) && i < len(as.Rhs) && bad == nil {
								bad = direct(as.Rhs[i], seen)
							}
						}
					case *ast.RangeStmt:
						for _, kv := range []ast.Expr{as.Key, as.Value} {
							if id, ok := kv.(*ast.Ident); ok && info.Defs[id] == o && bad == nil && fromSource(as.X) && !harmless(info.TypeOf(id)) {
								bad = as.X
							}
						}
					}
					return true
				})
				return bad
			}
			if fromSource(e) && !harmless(info.TypeOf(e)) {
				return e
			}
			return nil
		}
		counted := false
		fw.WalkAll(fi.Decl.Body, func(nd ast.Node) bool {
			c, ok := nd.(*ast.CallExpr)
			if !ok {
				return true
			}
			fn := fw.Callee(info, c)
			if fn == nil || !strings.HasPrefix(fn.Name(), "Add") || len(c.Args) != 1 {
				return true
			}
			lit, ok := ast.Unparen(c.Args[0]).(*ast.CompositeLit)
			if !ok {
				return true
			}
			if !counted {
				counted = true
				nFuncs++
			}
			for _, el := range lit.Elts {
				kv, ok := el.(*ast.KeyValueExpr)
				if !ok {
					continue
				}
				fname := types.ExprString(kv.Key)
				key := fi.Name() + "/" + fname
				nVals++
				if why, ok := frozen[key]; ok {
					r.Pass("C03-R5", key, p.Pos(kv.Pos()), fname+" in "+fi.Name()+" (frozen: "+why+")", false)
					continue
				}
				bad := direct(kv.Value, map[types.Object]bool{})
				detail := ""
				if bad != nil {
					detail = "the copy's " + fname + " is taken directly from the source (" + types.ExprString(bad) + ") instead of being copied: both nodes now share that child, so a rewrite at one place (merging selections, removing a directive, renaming) silently changes the other — e.g. a fragment inlined at two sites leaks a merge done at one site into the other"
				}
				r.Check(bad == nil, "C03-R5", key, p.Pos(kv.Pos()), fname+" of the node built by "+fi.Name()+" is a fresh copy", detail)
			}
			return true
		})
	}
	r.Expect("C03-R5", "Document.Copy* functions that build a node", nFuncs, 15)
	r.Expect("C03-R5", "fields of copied nodes", nVals, 30)
}

// c03ElementIndexCounters (R6): where a callback handed to jsonparser.ArrayEach keeps the position of the current element
// in a captured counter (the callback does not receive an index), the counter advances exactly once for every element on
// every path of the callback — also for the elements the callback skips. Only the abort edges (an error is non-nil) are
// exempt. A path that returns without the increment makes every later element use the index of an earlier one: rewritten
// values land on the wrong list position and overwrite what was there.
func c03ElementIndexCounters(r *fw.Run) {
	p := r.Prog
	r.Rule("C03-R6", "a callback given to jsonparser.ArrayEach that keeps the element position in a captured counter advances it exactly once on every path (also for skipped elements); only error edges are exempt")
	pk := p.Pkg("astnorm")
	info := pk.TypesInfo
	n := 0
	for _, fi := range p.Funcs("astnorm") {
		// candidate literals: function literals with the ArrayEach callback signature (4 parameters, last one an error)
		fw.WalkAll(fi.Decl.Body, func(nd ast.Node) bool {
			lit, ok := nd.(*ast.FuncLit)
			if !ok {
				return true
			}
			sig, _ := info.TypeOf(lit).(*types.Signature)
			if sig == nil || sig.Params().Len() != 4 || sig.Results().Len() != 0 || sig.Params().At(3).Type().String() != "error" {
				return true
			}
			if !strings.HasSuffix(sig.Params().At(1).Type().String(), "jsonparser.ValueType") {
				return true
			}
			// captured int counters incremented inside the literal
			counters := map[types.Object]bool{}
			fw.WalkAll(lit.Body, func(m ast.Node) bool {
				if inc, ok := m.(*ast.IncDecStmt); ok && inc.Tok == token.INC {
					if o := fw.RootObj(info, inc.X); o != nil && (o.Pos() < lit.Pos() || o.Pos() > lit.End()) {
						if id, isID := ast.Unparen(inc.X).(*ast.Ident); isID && info.Uses[id] == o {
							counters[o] = true
						}
					}
				}
				return true
			})
			for c := range counters {
				nExit := 0
				in := fw.NewInterp(fi)
				in.H = fw.Hooks{
					Lit: func(l *ast.FuncLit, ctx fw.LitCtx, st *fw.State) fw.LitMode {
						if ctx.Deferred {
							return fw.LitOnce
						}
						return fw.LitSkip
					},
					Node: func(m ast.Node, st *fw.State) {
						if inc, ok := m.(*ast.IncDecStmt); ok && inc.Tok == token.INC && fw.RootObj(info, inc.X) == c {
							st.Inc("advanced")
						}
					},
					Cond: func(e ast.Expr, branch bool, st *fw.State) {
						if x, eq, ok := fw.NilCheck(info, e); ok && eq != branch {
							if t := info.TypeOf(x); t != nil && t.String() == "error" {
								st.Set("abort")
							}
						}
					},
					Exit: func(ret *ast.ReturnStmt, l *ast.FuncLit, st *fw.State) {
						if l != lit || st.Must("abort") || !in.Final() {
							return
						}
						nExit++
						pos := lit.End()
						if ret != nil {
							pos = ret.Pos()
						}
						n++
						r.Check(st.Get("advanced") == fw.Cnt{Min: 1, Max: 1}, "C03-R6", fi.Name()+"/element-counter-advances:"+c.Name()+"#"+itoa(nExit), p.Pos(pos), "exit of the ArrayEach callback in "+fi.Name()+" has advanced "+c.Name()+" exactly once",
							"the callback returns for this element without advancing (or after advancing twice) the counter it uses as the element's position: every later element is addressed with a wrong index — a rewritten value (an injected default, a coerced list) is stored at the position of an earlier element and overwrites it")
					},
				}
				in.RunLit(lit, nil)
			}
			return true
		})
	}
	r.Expect("C03-R6", "exits of ArrayEach callbacks with a captured element counter", n, 2)
}

// c03VariableReuseNeedsDeepTypeEquality (R11, R12): variable extraction re-uses an already extracted variable for a second
// literal with the same JSON. The variable's declared type is that of the first position; [Int] and [Int!], Int and [Int],
// [[T]] and [T] accept the same literal but are different variable types, and the re-used variable is then passed to a
// position it does not fit (validation of the normalized operation fails or the subgraph receives a wrongly typed
// variable). R11: the function that reads the recorded type of an extracted variable answers "re-usable" only under a call
// of the deep type equality on that recorded type. R12: the deep equality (followed through plain delegation) compares
// level by level: inside a loop, or by recursion, both refs advance through OfType and the kinds of the level are compared
// — a fixed set of summary questions (outer nullability, list depth, base name) cannot tell [Int!] from [Int].
func c03VariableReuseNeedsDeepTypeEquality(r *fw.Run) {
	p := r.Prog
	r.Rule("C03-R11", "variable extraction answers that an extracted variable can be re-used only under a true outcome of the deep type equality between the position's type and the type recorded for that variable")
	r.Rule("C03-R12", "the deep type equality used for that decision compares level by level: in a loop or by recursion both type refs advance through OfType and the TypeKind of each level is read")
	nReuse := 0
	deep := map[*fw.FuncInfo]bool{}
	for _, fi := range p.Funcs("astnorm") {
		info := fi.Info()
		reads := false
		fw.WalkAll(fi.Decl.Body, func(nd ast.Node) bool {
			if ix, ok := nd.(*ast.IndexExpr); ok && fw.IsFieldSel(info, ix.X, "astnorm", "variablesExtractionVisitor", "extractedVariableTypeRefs") {
				reads = true
			}
			return true
		})
		sig := fi.Obj.Type().(*types.Signature)
		if !reads || sig.Results().Len() != 1 || !types.Identical(sig.Results().At(0).Type(), types.Typ[types.Bool]) {
			continue
		}
		nReuse++
		bad := ""
		nTrue := 0
		isRecordedType := func(e ast.Expr) bool {
			ix, isIx := ast.Unparen(e).(*ast.IndexExpr)
			return isIx && fw.IsFieldSel(info, ix.X, "astnorm", "variablesExtractionVisitor", "extractedVariableTypeRefs")
		}
		in := fw.NewInterp(fi)
		in.H = fw.Hooks{
			Cond: func(e ast.Expr, branch bool, st *fw.State) {
				op, leaves := fw.NNF(info, e, branch)
				if op != "atom" && op != "and" {
					return
				}
				for _, a := range leaves {
					if a.Kind != "True" {
						continue
					}
					c, isCall := ast.Unparen(a.X).(*ast.CallExpr)
					if !isCall || len(c.Args) != 2 {
						continue
					}
					callee := p.FuncOf(fw.Callee(info, c))
					if callee == nil || callee.Pkg.Name != "ast" {
						continue
					}
					recorded := false
					for _, arg := range c.Args {
						if isRecordedType(arg) {
							recorded = true
						}
						// t := v.extractedVariableTypeRefs[i]; … equal(typeRef, t)
						if id, isID := ast.Unparen(arg).(*ast.Ident); isID {
							fw.WalkAll(fi.Decl.Body, func(nd ast.Node) bool {
								if as, ok := nd.(*ast.AssignStmt); ok && len(as.Lhs) == 1 && len(as.Rhs) == 1 {
									if l, isL := as.Lhs[0].(*ast.Ident); isL && info.ObjectOf(l) == info.ObjectOf(id) && isRecordedType(as.Rhs[0]) {
										recorded = true
									}
								}
								return true
							})
						}
					}
					if recorded {
						st.Set("deep-equal")
						deep[callee] = true
					}
				}
			},
			Exit: func(ret *ast.ReturnStmt, lit *ast.FuncLit, st *fw.State) {
				if lit != nil || ret == nil || !in.Final() || len(ret.Results) != 1 {
					return
				}
				if v, isConst := fw.ConstVal(info, ret.Results[0]); isConst && v == "false" {
					return
				}
				nTrue++
				if !st.Must("deep-equal") {
					bad = p.Pos(ret.Pos())
				}
			},
		}
		in.Run(nil)
		r.Check(bad == "" && nTrue > 0, "C03-R11", fi.Name()+"/reuse-needs-deep-type-equality", p.Pos(fi.Decl.Pos()), fi.Name()+" answers true only under the deep type equality with the recorded type of the extracted variable",
			"an extracted variable is re-used for a position whose type was not compared deeply with the variable's declared type ("+bad+"): the same literal at [Int] and [Int!] (or Int and [Int]) shares one variable, and the normalized operation passes a variable to a position it does not fit")
	}
	r.Expect("C03-R11", "functions deciding the re-use of an extracted variable", nReuse, 1)

	nDeep := 0
	if len(deep) == 0 {
		// R11 found no guarded re-use (and has reported that); the equality itself is still decided
		if fi := p.Func("ast", "Document.TypesAreEqualDeep"); fi != nil {
			deep[fi] = true
		}
	}
	for fi := range deep {
		// follow plain delegation: return d.other(left, right, …)
		target := fi
		for hop := 0; hop < 3; hop++ {
			if len(target.Decl.Body.List) != 1 {
				break
			}
			ret, isRet := target.Decl.Body.List[0].(*ast.ReturnStmt)
			if !isRet || len(ret.Results) != 1 {
				break
			}
			c, isCall := ast.Unparen(ret.Results[0]).(*ast.CallExpr)
			if !isCall {
				break
			}
			next := p.FuncOf(fw.Callee(target.Info(), c))
			if next == nil || next == target {
				break
			}
			target = next
		}
		nDeep++
		info := target.Info()
		sig := target.Obj.Type().(*types.Signature)
		var refs []*types.Var
		for i := 0; i < sig.Params().Len(); i++ {
			if types.Identical(sig.Params().At(i).Type(), types.Typ[types.Int]) {
				refs = append(refs, sig.Params().At(i))
			}
		}
		advanced := map[*types.Var]bool{}
		kindRead := false
		mentionsOfType := func(e ast.Expr) bool {
			found := false
			ast.Inspect(e, func(m ast.Node) bool {
				if sel, ok := m.(*ast.SelectorExpr); ok && fw.IsFieldSel(info, sel, "ast", "Type", "OfType") {
					found = true
				}
				return true
			})
			return found
		}
		var visit func(n ast.Node, inLoop bool)
		visit = func(n ast.Node, inLoop bool) {
			ast.Inspect(n, func(m ast.Node) bool {
				switch x := m.(type) {
				case *ast.ForStmt:
					if ast.Node(x) != n {
						visit(x, true)
						return false
					}
				case *ast.RangeStmt:
					if ast.Node(x) != n {
						visit(x, true)
						return false
					}
				case *ast.AssignStmt:
					if inLoop && len(x.Lhs) == len(x.Rhs) {
						for i, l := range x.Lhs {
							if id, ok := l.(*ast.Ident); ok && mentionsOfType(x.Rhs[i]) {
								for _, pv := range refs {
									if info.ObjectOf(id) == pv {
										advanced[pv] = true
									}
								}
							}
						}
					}
				case *ast.SelectorExpr:
					if inLoop && fw.IsFieldSel(info, x, "ast", "Type", "TypeKind") {
						kindRead = true
					}
				case *ast.CallExpr:
					if fw.Callee(info, x) == target.Obj {
						// recursion: the refs are advanced in the arguments
						k := 0
						for _, arg := range x.Args {
							if mentionsOfType(arg) && k < len(refs) {
								advanced[refs[k]] = true
								k++
							}
						}
						ast.Inspect(target.Decl.Body, func(q ast.Node) bool {
							if sel, ok := q.(*ast.SelectorExpr); ok && fw.IsFieldSel(info, sel, "ast", "Type", "TypeKind") {
								kindRead = true
							}
							return true
						})
					}
				}
				return true
			})
		}
		visit(target.Decl.Body, false)
		ok := len(refs) >= 2 && kindRead
		for _, pv := range refs[:min(2, len(refs))] {
			if !advanced[pv] {
				ok = false
			}
		}
		r.Check(ok, "C03-R12", fi.Name()+"/level-by-level", p.Pos(target.Decl.Pos()), target.Name()+" walks both types level by level (loop or recursion advancing both refs through OfType, TypeKind read per level)",
			target.Name()+" does not compare the two types level by level: inner nullability or the order of list and non-null wrappers is not compared, so [Int!] and [Int] (or [[T]!] and [[T!]]) count as equal and one extracted variable is shared between positions of different types")
	}
	r.Expect("C03-R12", "deep type equalities used for variable re-use", nDeep, 1)
}

// c03VariableDefinitionsLookedUpPerOperation (R13): variables are scoped to their operation. Document.VariableDefinitions is
// the storage of the definitions of *all* operations of the document — also of those that were removed because another
// operation was selected (only their root nodes are marked) — and two operations may declare the same name with
// different defaults or types. A search for a variable definition by name therefore goes through the Refs of an
// operation's VariableDefinitions list; in packages ast and astnormalization no loop ranges over the document-wide
// Document.VariableDefinitions slice and compares definition names (directly or through the name accessors).
func c03VariableDefinitionsLookedUpPerOperation(r *fw.Run) {
	p := r.Prog
	r.Rule("C03-R13", "a variable definition is searched by name only among the definitions of an operation (OperationDefinition.VariableDefinitions.Refs), never by ranging over the document-wide Document.VariableDefinitions slice, which also holds the definitions of sibling and removed operations")
	nRefs, n := 0, 0
	for _, alias := range []string{"ast", "astnorm"} {
		for _, fi := range p.Funcs(alias) {
			info := fi.Info()
			fw.WalkAll(fi.Decl.Body, func(nd ast.Node) bool {
				rs, ok := nd.(*ast.RangeStmt)
				if !ok {
					return true
				}
				// per-operation iteration (the accepted form) is counted for the evidence
				if fw.IsFieldSel(info, rs.X, "ast", "VariableDefinitionList", "Refs") {
					nRefs++
					return true
				}
				if !fw.IsFieldSel(info, rs.X, "ast", "Document", "VariableDefinitions") {
					return true
				}
				// does the body compare a definition's name?
				byName := false
				fw.WalkAll(rs.Body, func(m ast.Node) bool {
					if c, isCall := m.(*ast.CallExpr); isCall {
						if fn := fw.Callee(info, c); fn != nil && strings.HasPrefix(fn.Name(), "VariableDefinitionName") {
							byName = true
						}
					}
					if sel, isSel := m.(*ast.SelectorExpr); isSel && fw.IsFieldSel(info, sel, "ast", "VariableValue", "Name") {
						byName = true
					}
					return true
				})
				if !byName {
					return true
				}
				n++
				r.Fail("C03-R13", fi.Name()+"/variable-definitions-per-operation", p.Pos(rs.Pos()), fi.Name()+" searches a variable definition among the definitions of one operation",
					fi.Name()+" ranges over Document.VariableDefinitions — the definitions of every operation of the document, removed ones included — and compares names: with `query A($hide: Boolean! = true) {…} query B($hide: Boolean! = false) {…}` and operation B selected, the default of A's $hide decides B's @skip/@include")
				return true
			})
		}
	}
	r.Check(nRefs >= 1, "C03-R13", "per-operation-iterations", "", "iterations over the variable definitions of one operation found ("+itoa(nRefs)+"); document-wide by-name searches: "+itoa(n), "no iteration over OperationDefinition.VariableDefinitions.Refs was recognised: the rule no longer sees how definitions are looked up")
}

// c03AbsentNestedVariableTakesItsDefault (R14): variable extraction turns a literal that mentions variables
// ({name: $name}, [$tag]) into JSON before the defaults of the operation's variables have been copied into the request's
// variables (the extraction stage precedes the default stage), and the variable loses its last usage — and with it its
// definition and default — right afterwards. The converter therefore is the last place where the default is known: in
// the function that renders an ast.Value as JSON, every place that gives up on a variable without a JSON value (writes
// null for it, or skips the object field that holds it) is reached only after the default of the variable's definition
// was consulted — a call of a function that reads VariableDefinition.DefaultValue.
func c03AbsentNestedVariableTakesItsDefault(r *fw.Run) {
	p := r.Prog
	r.Rule("C03-R14", "in the ast.Value → JSON converter a variable without a JSON value is rendered as null / its object field omitted only after the default of the variable's definition was consulted")
	// functions that read VariableDefinition.DefaultValue
	consults := map[*types.Func]bool{}
	for _, fi := range p.Funcs("ast") {
		info := fi.Info()
		fw.WalkAll(fi.Decl.Body, func(nd ast.Node) bool {
			if sel, ok := nd.(*ast.SelectorExpr); ok && fw.IsFieldSel(info, sel, "ast", "VariableDefinition", "DefaultValue") {
				consults[fi.Obj] = true
			}
			return true
		})
	}
	n := 0
	for _, fi := range p.Funcs("ast") {
		info := fi.Info()
		// the converter: reads Input.Variables with jsonparser.Get inside a dispatch over value kinds and writes literal.NULL
		readsVars := false
		fw.WalkAll(fi.Decl.Body, func(nd ast.Node) bool {
			if c, ok := nd.(*ast.CallExpr); ok && len(c.Args) >= 1 {
				if fn := fw.Callee(info, c); fn != nil && fn.Name() == "Get" && fn.Pkg() != nil && strings.HasSuffix(fn.Pkg().Path(), "/jsonparser") && fw.IsFieldSel(info, c.Args[0], "ast", "Input", "Variables") {
					readsVars = true
				}
			}
			return true
		})
		sig := fi.Obj.Type().(*types.Signature)
		takesValue := false
		for i := 0; i < sig.Params().Len(); i++ {
			if fw.TypeIs(sig.Params().At(i).Type(), "ast", "Value") {
				takesValue = true
			}
		}
		if !readsVars || !takesValue {
			continue
		}
		ord := 0
		// results of jsonparser.Get(d.Input.Variables, …): error and data type variables
		errVars, typeVars := map[types.Object]bool{}, map[types.Object]bool{}
		fw.WalkAll(fi.Decl.Body, func(nd ast.Node) bool {
			as, ok := nd.(*ast.AssignStmt)
			if !ok || len(as.Rhs) != 1 || len(as.Lhs) != 4 {
				return true
			}
			if c, isCall := ast.Unparen(as.Rhs[0]).(*ast.CallExpr); isCall {
				if fn := fw.Callee(info, c); fn != nil && fn.Name() == "Get" && len(c.Args) >= 1 && fw.IsFieldSel(info, c.Args[0], "ast", "Input", "Variables") {
					if id, isID := as.Lhs[3].(*ast.Ident); isID && id.Name != "_" {
						errVars[info.ObjectOf(id)] = true
					}
					if id, isID := as.Lhs[1].(*ast.Ident); isID && id.Name != "_" {
						typeVars[info.ObjectOf(id)] = true
					}
				}
			}
			return true
		})
		in := fw.NewInterp(fi)
		check := func(pos token.Pos, what string, st *fw.State) {
			if !in.Final() || !st.Must("absent") {
				return
			}
			n++
			ord++
			r.Check(st.Must("default-consulted"), "C03-R14", fi.Name()+"/absent-variable-takes-its-default#"+itoa(ord), p.Pos(pos), fi.Name()+" "+what+" for a variable without a JSON value only after consulting the default of its definition",
				fi.Name()+" "+what+" for a variable that has no value in Input.Variables without looking at the default of its definition: `query Q($name: String = \"x\") { find(filter: {name: $name}) }` with variables {} sends {\"filter\":{}} — the default is lost for good, because the variable's definition is deleted as unused right after the extraction")
		}
		in.H = fw.Hooks{
			Lit: func(l *ast.FuncLit, ctx fw.LitCtx, st *fw.State) fw.LitMode { return fw.LitSkip },
			Cond: func(e ast.Expr, branch bool, st *fw.State) {
				op, leaves := fw.NNF(info, e, branch)
				if op != "atom" && op != "and" {
					return
				}
				for _, a := range leaves {
					if id, isID := ast.Unparen(a.X).(*ast.Ident); isID {
						if a.Kind == "NonNil" && errVars[info.ObjectOf(id)] {
							st.Set("absent")
						}
						if a.Kind == "Eq" && typeVars[info.ObjectOf(id)] {
							if c := fw.ConstObj(info, a.Y); c != nil && c.Name() == "NotExist" {
								st.Set("absent")
							}
						}
					}
				}
			},
			Node: func(nd ast.Node, st *fw.State) {
				switch x := nd.(type) {
				case *ast.CallExpr:
					if fn := fw.Callee(info, x); fn != nil && consults[fn] {
						st.Set("default-consulted")
					}
					if fn := fw.Callee(info, x); fn != nil && fn.Name() == "Write" && len(x.Args) == 1 {
						if c := fw.ConstObjOrVar(info, x.Args[0]); c == "NULL" {
							check(x.Pos(), "writes null", st)
						}
					}
				case *ast.AssignStmt:
					// a new lookup starts a new question
					if len(x.Lhs) == 4 {
						st.Kill("absent")
						st.Kill("default-consulted")
					}
				}
			},
		}
		in.Run(nil)
		// omissions: a `continue` below an if that establishes "no JSON value" (the interpreter does not visit branch
		// statements, so this part works on the enclosing ifs: one of them, from the establishing if inwards, has to ask for
		// the default in its init statement or condition)
		var stack []ast.Node
		ast.Inspect(fi.Decl.Body, func(nd ast.Node) bool {
			if nd == nil {
				stack = stack[:len(stack)-1]
				return true
			}
			stack = append(stack, nd)
			br, ok := nd.(*ast.BranchStmt)
			if !ok || br.Tok != token.CONTINUE {
				return true
			}
			absentAt := -1
			for i := len(stack) - 1; i >= 0; i-- {
				if _, isLoop := stack[i].(*ast.RangeStmt); isLoop {
					break
				}
				if _, isLoop := stack[i].(*ast.ForStmt); isLoop {
					break
				}
				is, isIf := stack[i].(*ast.IfStmt)
				if !isIf {
					continue
				}
				op, leaves := fw.NNF(info, is.Cond, true)
				if op != "atom" && op != "and" {
					continue
				}
				for _, a := range leaves {
					if id, isID := ast.Unparen(a.X).(*ast.Ident); isID && a.Kind == "Eq" && typeVars[info.ObjectOf(id)] {
						if c := fw.ConstObj(info, a.Y); c != nil && c.Name() == "NotExist" {
							absentAt = i
						}
					}
				}
			}
			if absentAt < 0 {
				return true
			}
			asked := false
			for i := absentAt; i < len(stack); i++ {
				is, isIf := stack[i].(*ast.IfStmt)
				if !isIf {
					continue
				}
				for _, part := range []ast.Node{is.Init, is.Cond} {
					if part == nil {
						continue
					}
					fw.WalkAll(part, func(m ast.Node) bool {
						if c, isCall := m.(*ast.CallExpr); isCall {
							if fn := fw.Callee(info, c); fn != nil && consults[fn] {
								asked = true
							}
						}
						return true
					})
				}
			}
			n++
			ord++
			r.Check(asked, "C03-R14", fi.Name()+"/absent-variable-takes-its-default#"+itoa(ord), p.Pos(br.Pos()), fi.Name()+" omits the object field of a variable without a JSON value only after consulting the default of its definition",
				fi.Name()+" omits the object field whose variable has no value in Input.Variables without looking at the default of its definition: `query Q($name: String = \"x\") { find(filter: {name: $name}) }` with variables {} sends {\"filter\":{}} — the default is lost for good, because the variable's definition is deleted as unused right after the extraction")
			return true
		})
	}
	r.Expect("C03-R14", "places where the JSON converter gives up on a variable without a value", n, 2)
}

// c03InlinerCoversTheSpreadMatrix (R15): whether a fragment of type F may be spread where the enclosing type is P is a
// 3×3 matrix over the composite kinds (object, interface, union). The validator decides it with
// ast.Document.NodeFragmentIsAllowedOnNode — a switch over the parent kind that dispatches to a switch over the fragment
// kind, each cell answered by one overlap helper. The normalizer's fragment spread inliner has its own copy of the
// decision: a spread in a cell it does not know is left in place, the fragment definition survives, and the validator —
// which runs after normalization and treats any spread still inside an operation as a cycle — rejects a valid operation.
// The two siblings must agree: for every cell of the validator's matrix whose helper looks at both types, the inliner
// calls the same helper (or its frozen equivalent). The matrix is read from the validator's switches, not listed.
func c03InlinerCoversTheSpreadMatrix(r *fw.Run) {
	p := r.Prog
	r.Rule("C03-R15", "the fragment spread inliner knows every cell of the validator's spread-possibility matrix (read from ast.Document.NodeFragmentIsAllowedOnNode: parent kind × fragment kind → overlap helper): it calls the helper of each cell, or its equivalent")
	root := p.Func("ast", "Document.NodeFragmentIsAllowedOnNode")
	if root == nil {
		r.Error("C03-R15: ast.Document.NodeFragmentIsAllowedOnNode not found")
		return
	}
	// equivalents with a reason (the inliner uses name-based variants of two node-based helpers)
	equivalent := map[string][]string{
		"NodeImplementsInterfaceNode":          {"NodeImplementsInterface"},
		"InterfaceNodeIntersectsInterfaceNode": {"InterfacesIntersect"},
	}
	type cell struct{ parent, fragment, helper string }
	var cells []cell
	rinfo := root.Info()
	for _, sw := range fw.ConstSwitches(root, p.Named("ast", "NodeKind")) {
		for _, c := range sw.Stmt.(*ast.SwitchStmt).Body.List {
			cc := c.(*ast.CaseClause)
			for _, e := range cc.List {
				pk := fw.ConstObj(rinfo, e)
				if pk == nil {
					continue
				}
				// the per-parent function called in this arm
				fw.WalkAll(cc, func(nd ast.Node) bool {
					call, ok := nd.(*ast.CallExpr)
					if !ok {
						return true
					}
					sub := p.FuncOf(fw.Callee(rinfo, call))
					if sub == nil {
						return true
					}
					sinfo := sub.Info()
					for _, sw2 := range fw.ConstSwitches(sub, p.Named("ast", "NodeKind")) {
						for _, c2 := range sw2.Stmt.(*ast.SwitchStmt).Body.List {
							cc2 := c2.(*ast.CaseClause)
							for _, e2 := range cc2.List {
								fk := fw.ConstObj(sinfo, e2)
								if fk == nil {
									continue
								}
								fw.WalkAll(cc2, func(m ast.Node) bool {
									if call2, isCall := m.(*ast.CallExpr); isCall {
										if fn := fw.Callee(sinfo, call2); fn != nil && fn.Pkg() == root.Obj.Pkg() && len(call2.Args) == 2 {
											cells = append(cells, cell{strings.TrimPrefix(pk.Name(), "NodeKind"), strings.TrimPrefix(fk.Name(), "NodeKind"), fn.Name()})
										}
									}
									return true
								})
							}
						}
					}
					return true
				})
			}
		}
	}
	// helpers the inliner calls
	called := map[string]bool{}
	for _, fi := range p.Funcs("astnorm") {
		if !strings.HasPrefix(fi.Name(), "fragmentSpreadInlineVisitor.") {
			continue
		}
		info := fi.Info()
		fw.WalkAll(fi.Decl.Body, func(nd ast.Node) bool {
			if c, ok := nd.(*ast.CallExpr); ok {
				if fn := fw.Callee(info, c); fn != nil && fn.Pkg() == root.Obj.Pkg() {
					called[fn.Name()] = true
				}
			}
			return true
		})
	}
	n := 0
	for _, c := range cells {
		n++
		ok := called[c.helper]
		for _, eq := range equivalent[c.helper] {
			if called[eq] {
				ok = true
			}
		}
		r.Check(ok, "C03-R15", "spread-matrix/"+c.fragment+"-in-"+c.parent, p.Pos(root.Decl.Pos()), "the inliner decides a fragment on a "+c.fragment+" inside a "+c.parent+" with "+c.helper+" (or its equivalent), as the validator does",
			"the validator allows a fragment on a "+c.fragment+" inside a "+c.parent+" when "+c.helper+" holds; the inliner never calls it: such a spread is left in place, its fragment definition survives normalization, and the validator, which runs afterwards and takes any remaining spread for a cycle, rejects a valid operation (`query { search { ...M } } fragment M on Media { … }` with overlapping unions)")
	}
	r.Expect("C03-R15", "cells of the validator's spread-possibility matrix with an overlap helper", n, 6)
}

// c03MapperSeesEveryUseAndEveryKeptName (R16): variable canonicalisation renames the definition of a variable and the uses
// it has recorded, and generates the new names. (a) A use that was not recorded keeps the old name while its definition is
// renamed: the mapper's visitor recognises variable values and descends into list and object literals (directive
// arguments are never extracted, so `@tag(names: [$x])` survives to this stage). (b) A definition that keeps its name (an
// Upload variable, a variable without a recorded use) is invisible at the use sites: on every path to a non-nil return of
// the name generator a condition has read a visitor field that some method fills from the operation's variable definition
// list (values derived from a range over VariableDefinitionList.Refs; other receiver fields are opaque), or reads that
// list itself.
func c03MapperSeesEveryUseAndEveryKeptName(r *fw.Run) {
	p := r.Prog
	r.Rule("C03-R16", "the variables mapper finds variable uses at every depth of an argument value (arms for Variable, List, Object; the container arms descend), and its name generator returns a name only after a condition read a visitor field filled from the operation's variable definition list")
	ctor := p.Func("astnorm", "remapVariables")
	if ctor == nil {
		r.Error("C03-R16: remapVariables not found")
		return
	}
	cinfo := ctor.Info()
	var vt string
	var vtNamed *types.Named
	fw.WalkAll(ctor.Decl.Body, func(nd ast.Node) bool {
		if cl, ok := nd.(*ast.CompositeLit); ok {
			if n, isNamed := cinfo.TypeOf(cl).(*types.Named); isNamed && n.Obj().Pkg() == ctor.Obj.Pkg() {
				vt, vtNamed = n.Obj().Name(), n
			}
		}
		return true
	})
	if vt == "" {
		r.Error("C03-R16: the visitor type built by remapVariables was not found")
		return
	}
	covered, descends := valueKindArmsOfVisitor(p, "astnorm", vt)
	r.Check(covered["ValueKindVariable"], "C03-R16", vt+"/variable-arm", p.Pos(ctor.Decl.Pos()), "the variables mapper has an arm for variable values", "no arm for ValueKindVariable was found in "+vt)
	r.Check(descends["ValueKindList"] && descends["ValueKindObject"], "C03-R16", vt+"/container-kinds-descended", p.Pos(ctor.Decl.Pos()), "the variables mapper descends into list and object literals",
		vt+" does not descend into both container kinds (List, Object): `query Q($x: String){ a @tag(names: [$x]) echo(s: $x) }` is canonicalised to `query Q($a: String){a @tag(names: [$x]) echo(s: $a)}` — the definition and the direct use are renamed, the nested use keeps the old name and the operation is no longer valid (`variable \"$x\" is not defined`)")
	// (b) fields of the visitor filled from the variable definition list
	isRefsOfDefinitionList := func(info *types.Info, e ast.Expr) bool {
		v, sel := fw.Field(info, e)
		if v == nil || v.Name() != "Refs" {
			return false
		}
		_, tn := fw.FieldOwner(info, sel)
		return tn == "VariableDefinitionList"
	}
	filled := map[*types.Var]bool{}
	var methods []*fw.FuncInfo
	for _, fi := range p.Funcs("astnorm") {
		if fw.RecvNameOfFunc(fi.Obj) == vt {
			methods = append(methods, fi)
		}
	}
	isRecvField := func(fi *fw.FuncInfo, e ast.Expr) (*types.Var, bool) {
		sel, ok := ast.Unparen(e).(*ast.SelectorExpr)
		if !ok {
			return nil, false
		}
		id, ok := ast.Unparen(sel.X).(*ast.Ident)
		if !ok || fi.Decl.Recv == nil || len(fi.Decl.Recv.List) == 0 || len(fi.Decl.Recv.List[0].Names) == 0 {
			return nil, false
		}
		info := fi.Info()
		if info.ObjectOf(id) != info.ObjectOf(fi.Decl.Recv.List[0].Names[0]) {
			return nil, false
		}
		v, _ := fw.Field(info, sel)
		return v, v != nil
	}
	for _, fi := range methods {
		info := fi.Info()
		d := fw.NewPureDeriver(fi)
		d.Barrier = func(e ast.Expr) bool {
			if isRefsOfDefinitionList(info, e) {
				return false
			}
			if id, isID := e.(*ast.Ident); isID && fi.Decl.Recv != nil && len(fi.Decl.Recv.List) > 0 && len(fi.Decl.Recv.List[0].Names) > 0 &&
				info.ObjectOf(id) == info.ObjectOf(fi.Decl.Recv.List[0].Names[0]) {
				return true // the receiver as a whole is opaque: only what is computed from the definition list counts
			}
			_, is := isRecvField(fi, e)
			return is
		}
		src := func(e ast.Expr) bool { return isRefsOfDefinitionList(info, e) }
		fw.WalkAll(fi.Decl.Body, func(nd ast.Node) bool {
			as, ok := nd.(*ast.AssignStmt)
			if !ok {
				return true
			}
			for i, l := range as.Lhs {
				target := l
				if ix, isIx := ast.Unparen(l).(*ast.IndexExpr); isIx {
					target = ix.X
				}
				fv, is := isRecvField(fi, target)
				if !is {
					continue
				}
				rhs := as.Rhs[0]
				if len(as.Rhs) == len(as.Lhs) {
					rhs = as.Rhs[i]
				}
				derived := d.Derives(rhs, src)
				if ix, isIx := ast.Unparen(l).(*ast.IndexExpr); isIx && d.Derives(ix.Index, src) {
					derived = true
				}
				if derived {
					filled[fv] = true
				}
			}
			return true
		})
	}
	_ = vtNamed
	nGen := 0
	for _, fi := range methods {
		sig := fi.Obj.Type().(*types.Signature)
		if sig.Params().Len() != 0 || sig.Results().Len() != 1 {
			continue
		}
		if sl, ok := sig.Results().At(0).Type().Underlying().(*types.Slice); !ok || !types.Identical(sl.Elem(), types.Typ[types.Byte]) {
			continue
		}
		nGen++
		info := fi.Info()
		ok := true
		var at token.Pos = fi.Decl.Pos()
		in := fw.NewInterp(fi)
		in.H = fw.Hooks{
			Lit: func(l *ast.FuncLit, ctx fw.LitCtx, st *fw.State) fw.LitMode { return fw.LitSkip },
			Cond: func(e ast.Expr, branch bool, st *fw.State) {
				fw.WalkAll(e, func(nd ast.Node) bool {
					if x, isE := nd.(ast.Expr); isE {
						if fv, is := isRecvField(fi, x); is && filled[fv] {
							st.Set("kept-names-consulted")
						}
						if isRefsOfDefinitionList(info, x) {
							st.Set("kept-names-consulted")
						}
					}
					return true
				})
			},
			Exit: func(ret *ast.ReturnStmt, lit *ast.FuncLit, st *fw.State) {
				if lit != nil || !in.Final() || ret == nil || len(ret.Results) != 1 {
					return
				}
				if tv, isT := info.Types[ret.Results[0]]; isT && tv.IsNil() {
					return
				}
				if !st.Must("kept-names-consulted") {
					ok = false
					at = ret.Pos()
				}
			},
		}
		in.Run(nil)
		r.Check(ok, "C03-R16", fi.Name()+"/kept-names-consulted", p.Pos(at), fi.Name()+" returns a name only after a condition read what the operation's variable definitions say",
			fi.Name()+" returns a generated name on a path on which no condition read a visitor field filled from the operation's variable definition list: the names already handed out are avoided, the names of definitions that keep theirs are not — `mutation Q($a: Upload, $title: String){ upload(file: $a, title: $title) }` becomes `mutation Q($a: Upload, $a: String){upload(file: $a, title: $a)}`: two definitions called `a`, and `title` now reads the upload variable")
	}
	r.Expect("C03-R16", "name generators of the variables mapper", nGen, 1)
	var names []string
	for fv := range filled {
		names = append(names, fv.Name())
	}
	sort.Strings(names)
	r.Note("C03-R16: visitor fields filled from the variable definition list: %v", names)
}

// c03DefaultsAreInPlaceBeforeListCoercion (R17): list input coercion applies to the default value of a variable as it does to
// a provided value (`$f: Filter = {tags: "x"}` with `tags: [String!]` means `{"tags":["x"]}`). The coercion visitor works on
// the variables JSON and leaves a variable alone that is not there; the default value extraction is what puts the default
// of an absent variable there. Both pipelines of the package — the operation normalizer's stages and the
// VariablesNormalizer's four walks — therefore have to run the extraction before the coercion: on an earlier walk, or
// registered earlier on the same walker when both act in EnterVariableDefinition (callbacks of one walker run in
// registration order). Sibling agreement: the VariablesNormalizer did, the operation normalizer did not.
func c03DefaultsAreInPlaceBeforeListCoercion(r *fw.Run) {
	p := r.Prog
	r.Rule("C03-R17", "in both normalization pipelines the default value extraction runs before the list coercion of variables: on an earlier walk, or registered earlier on the same walker (both act in EnterVariableDefinition)")
	const first, second = "extractVariablesDefaultValue", "inputCoercionForList"
	// both act on entering a variable definition?
	actsOnEnter := func(ctorName string) bool {
		ctor := p.Func("astnorm", ctorName)
		if ctor == nil {
			return false
		}
		info := ctor.Info()
		var vt string
		fw.WalkAll(ctor.Decl.Body, func(nd ast.Node) bool {
			if cl, ok := nd.(*ast.CompositeLit); ok {
				if n, isNamed := info.TypeOf(cl).(*types.Named); isNamed && n.Obj().Pkg() == ctor.Obj.Pkg() && vt == "" {
					vt = n.Obj().Name()
				}
			}
			return true
		})
		m := p.Func("astnorm", vt+".EnterVariableDefinition")
		return m != nil && len(m.Decl.Body.List) > 0
	}
	sameCallback := actsOnEnter(first) && actsOnEnter(second)
	if !sameCallback {
		r.Note("C03-R17: the two visitors do not both act in EnterVariableDefinition any more; registration order on one walker is not compared")
	}
	check := func(where string, pos string, order [][]string) {
		pa, pb := [2]int{-1, -1}, [2]int{-1, -1}
		for i, stage := range order {
			for j, rule := range stage {
				if rule == first && pa[0] < 0 {
					pa = [2]int{i, j}
				}
				if rule == second && pb[0] < 0 {
					pb = [2]int{i, j}
				}
			}
		}
		if pa[0] < 0 || pb[0] < 0 {
			r.Note("C03-R17: %s applies only one of the two rules; nothing to compare", where)
			return
		}
		ok := pa[0] < pb[0] || (pa[0] == pb[0] && (!sameCallback || pa[1] < pb[1]))
		r.Check(ok, "C03-R17", where+"/"+first+"-before-"+second, pos, "in "+where+" the default value extraction runs before the list coercion",
			"in "+where+" "+second+" (walk "+itoa(pb[0])+", registration "+itoa(pb[1])+") runs before "+first+" (walk "+itoa(pa[0])+", registration "+itoa(pa[1])+"): the coercion finds an absent variable and leaves, then the default is copied into the variables un-coerced — `query Q($f: Filter = {ids: 1}) { find(filter: $f) }` with `ids: [Int]` yields `{\"f\":{\"ids\":1}}`, which variables validation rejects; with `{tags: \"x\"}` normalization fails with `internal: Unknown value type`")
	}
	n := 0
	if order, fi := normalizerStageOrder(r); fi != nil {
		n++
		check("OperationNormalizer.setupOperationWalkers", fi.Pos(), order)
	}
	// the VariablesNormalizer: walkers built in NewVariablesNormalizer, walked in NormalizeOperation
	ctor, run := p.Func("astnorm", "NewVariablesNormalizer"), p.Func("astnorm", "VariablesNormalizer.NormalizeOperation")
	if ctor == nil || run == nil {
		r.Error("C03-R17: NewVariablesNormalizer / VariablesNormalizer.NormalizeOperation not found")
		return
	}
	cinfo := ctor.Info()
	applied := map[types.Object][]string{}
	fieldWalker := map[string]types.Object{}
	fw.WalkAll(ctor.Decl.Body, func(nd ast.Node) bool {
		switch x := nd.(type) {
		case *ast.CallExpr:
			if fn := fw.Callee(cinfo, x); fn != nil && fn.Pkg() != nil && fn.Pkg().Path() == fw.PkgPath("astnorm") {
				for _, a := range x.Args {
					if o := walkerArg(cinfo, a); o != nil {
						applied[o] = append(applied[o], fn.Name())
					}
				}
			}
		case *ast.KeyValueExpr:
			if k, ok := x.Key.(*ast.Ident); ok {
				if o := walkerArg(cinfo, x.Value); o != nil {
					fieldWalker[k.Name] = o
				}
			}
		}
		return true
	})
	rinfo := run.Info()
	var order [][]string
	in := fw.NewInterp(run)
	in.H = fw.Hooks{Node: func(nd ast.Node, st *fw.State) {
		if !in.Final() {
			return
		}
		if c, ok := nd.(*ast.CallExpr); ok {
			if sel, isSel := ast.Unparen(c.Fun).(*ast.SelectorExpr); isSel && sel.Sel.Name == "Walk" {
				if fv, _ := fw.Field(rinfo, sel.X); fv != nil {
					if o := fieldWalker[fv.Name()]; o != nil {
						order = append(order, applied[o])
					}
				}
			}
		}
	}}
	in.Run(nil)
	if len(order) > 0 {
		n++
		check("VariablesNormalizer.NormalizeOperation", run.Pos(), order)
	}
	r.Expect("C03-R17", "normalization pipelines whose variable stages were ordered", n, 2)
}

// c03UntypedFragmentsAreNotTakenForForeignTypes (R18): an inline fragment without a type condition (`... { id }`,
// `... @include(if: $x) { id }` after the directive was evaluated) is of the type of its parent; its type condition name is
// empty. Compared with a type name of the schema the empty name equals nothing and implements nothing, so the fragment is
// taken for a fragment on a foreign type. Rule (a contradiction rule: the same function guards one such read and not the
// other): where the name returned by Document.InlineFragmentTypeConditionName(x) is handed to a method of the *other*
// document, or compared (bytes.Equal) with a name that comes from the other document, the use is dominated by the true
// edge of InlineFragmentHasTypeCondition(x) for the same x. Comparing the condition names of two fragments of the same
// document with each other needs no guard (two untyped siblings are of the same type).
func c03UntypedFragmentsAreNotTakenForForeignTypes(r *fw.Run) {
	p := r.Prog
	r.Rule("C03-R18", "the type condition name of an inline fragment is handed to, or compared with a name from, the other document only where the fragment is known to have a type condition (true edge of InlineFragmentHasTypeCondition for the same fragment)")
	isDocRecv := func(info *types.Info, c *ast.CallExpr) (string, bool) {
		sel, ok := ast.Unparen(c.Fun).(*ast.SelectorExpr)
		if !ok {
			return "", false
		}
		fn := fw.Callee(info, c)
		if fn == nil || fw.RecvNameOfFunc(fn) != "Document" || fn.Pkg() == nil || fn.Pkg().Path() != fw.PkgPath("ast") {
			return "", false
		}
		return fw.ExprKey(info, sel.X), true
	}
	n := 0
	for _, fi := range p.Funcs("astnorm") {
		info := fi.Info()
		type read struct {
			recvKey, argKey string
			obj             types.Object // the local holding the name, nil when used in place
			call            *ast.CallExpr
		}
		var reads []read
		fw.WalkAll(fi.Decl.Body, func(nd ast.Node) bool {
			c, ok := nd.(*ast.CallExpr)
			if !ok || len(c.Args) != 1 {
				return true
			}
			fn := fw.Callee(info, c)
			if fn == nil || !strings.HasPrefix(fn.Name(), "InlineFragmentTypeConditionName") {
				return true
			}
			if rk, isDoc := isDocRecv(info, c); isDoc {
				reads = append(reads, read{recvKey: rk, argKey: fw.ExprKey(info, c.Args[0]), call: c})
			}
			return true
		})
		if len(reads) == 0 {
			continue
		}
		// locals assigned from a read, and locals assigned from a call on a document (for the other side of bytes.Equal)
		localDoc := map[types.Object]string{}
		fw.WalkAll(fi.Decl.Body, func(nd ast.Node) bool {
			as, ok := nd.(*ast.AssignStmt)
			if !ok || len(as.Lhs) != len(as.Rhs) {
				return true
			}
			for i, l := range as.Lhs {
				id, isID := l.(*ast.Ident)
				if !isID {
					continue
				}
				rc, isCall := ast.Unparen(as.Rhs[i]).(*ast.CallExpr)
				if !isCall {
					continue
				}
				for k := range reads {
					if reads[k].call == rc {
						reads[k].obj = info.ObjectOf(id)
					}
				}
				if rk, isDoc := isDocRecv(info, rc); isDoc {
					localDoc[info.ObjectOf(id)] = rk
				}
			}
			return true
		})
		docOf := func(e ast.Expr) (string, bool) {
			e = ast.Unparen(e)
			if c, ok := e.(*ast.CallExpr); ok {
				return isDocRecv(info, c)
			}
			if id, ok := e.(*ast.Ident); ok {
				k, has := localDoc[info.ObjectOf(id)]
				return k, has
			}
			return "", false
		}
		isRead := func(e ast.Expr) *read {
			e = ast.Unparen(e)
			for k := range reads {
				if c, ok := e.(*ast.CallExpr); ok && c == reads[k].call {
					return &reads[k]
				}
				if id, ok := e.(*ast.Ident); ok && reads[k].obj != nil && info.ObjectOf(id) == reads[k].obj {
					return &reads[k]
				}
			}
			return nil
		}
		seen := map[string]bool{}
		in := fw.NewInterp(fi)
		in.H = fw.Hooks{
			Lit: func(l *ast.FuncLit, ctx fw.LitCtx, st *fw.State) fw.LitMode { return fw.LitSkip },
			Cond: func(e ast.Expr, branch bool, st *fw.State) {
				a := fw.Atom(info, e, branch)
				if a.Kind != "True" {
					return
				}
				if c, ok := ast.Unparen(a.X).(*ast.CallExpr); ok && len(c.Args) == 1 {
					if fn := fw.Callee(info, c); fn != nil && fn.Name() == "InlineFragmentHasTypeCondition" {
						st.Set("typed:" + fw.ExprKey(info, c.Args[0]))
					}
				}
			},
			Node: func(nd ast.Node, st *fw.State) {
				c, ok := nd.(*ast.CallExpr)
				if !ok || !in.Final() {
					return
				}
				var rd *read
				cross := false
				if rk, isDoc := isDocRecv(info, c); isDoc {
					for _, a := range c.Args {
						if x := isRead(a); x != nil && x.recvKey != rk {
							rd, cross = x, true
						}
					}
				} else if fn := fw.Callee(info, c); fn != nil && fn.Pkg() != nil && fn.Pkg().Path() == "bytes" && fn.Name() == "Equal" && len(c.Args) == 2 {
					for i := 0; i < 2; i++ {
						if x := isRead(c.Args[i]); x != nil {
							if ok2, has := docOf(c.Args[1-i]); has && ok2 != x.recvKey {
								rd, cross = x, true
							}
						}
					}
				}
				if !cross {
					return
				}
				key := fi.Name() + "/type-condition-known:" + rd.argKey
				okNow := st.Must("typed:" + rd.argKey)
				if seen[key] && okNow {
					return
				}
				if !seen[key] {
					n++
				}
				seen[key] = true
				r.Check(okNow, "C03-R18", key, p.Pos(c.Pos()), "in "+fi.Name()+" the type condition name of "+rd.argKey+" meets the schema only where the fragment has a type condition",
					"in "+fi.Name()+" the type condition name of "+rd.argKey+" is compared with, or handed to, the schema document on a path that has not established that the fragment has a type condition: an untyped fragment (`... { id }`) has the empty name, equals no type and implements nothing, and is taken for a fragment on a foreign type — `query Q { a { ... on Node { ... { id } } name id } }` normalizes to `{a {... on Node {id} name id}}` and only a second normalization reaches `{a {id name}}`: the output is not a fixed point, and two spellings of one operation get two plan cache keys")
			},
		}
		in.Run(nil)
	}
	r.Expect("C03-R18", "uses of an inline fragment's type condition name against the schema", n, 2)
}
