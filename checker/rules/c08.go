package rules

import (
	"go/ast"
	"go/token"
	"go/types"
	"strings"

	"verif/checker/fw"
)

const postprocessGo = "v2/pkg/engine/postprocess/postprocess.go"

func init() {
	Registry["C08"] = Spec{
		Pkgs: map[string][]string{"v2": {"resolve", "postprocess"}},
		Run:  runC08,
		Explanation: "Decides the structural half of 'fetch execution respects dependencies under every schedule': everything the concurrent fetch goroutines share (DataBuffer contents, Loader.errors / erroredFetchIDs / taintedObjs / subgraphErrors / subgraphExtensions / skipValueCompletion, the JSON arena) is accessed only with DataBuffer.mu held — the prepare and merge phases under the lock, the load phase touching none of it (inter-procedural must-lock-sets over package resolve); " +
			"a parallel node is joined before its parent continues, a sequence runs its children in index order and stops at the first error, the node-kind dispatch covers every executable kind; " +
			"the post-processing stages that establish the order (dedupe ≺ fetch ids ≺ nested dependencies on the flat tree, dependency ordering ≺ parallel grouping, defer extraction while flat, the same stage set for all three plan kinds) are wired in the required order. " +
			"It does not decide the topological correctness of the ordering algorithms for arbitrary dependency graphs.",
		Mutants: []Mutant{
			{Name: "an extensions object is collected without the fetch it came from (breaks the ordering key of the F96 fix)", File: loaderGo, Rule: "C08-R5", Key: "Loader.collectSubgraphExtensions/appends-with-its-key:subgraphExtensionsOrigins",
				Old: "\tl.subgraphExtensionsOrigins = append(l.subgraphExtensionsOrigins, origin)\n", New: "\t_ = origin\n"},
			{Name: "the defer group hands its extensions to the renderer in completion order (reverts part of the F96 fix)", File: "v2/pkg/engine/resolve/resolve.go", Rule: "C08-R5", Key: "Resolver.resolveDeferSingle/handover-in-plan-order:subgraphExtensions",
				Old: "groupLoader.orderedSubgraphExtensions()", New: "groupLoader.subgraphExtensions"},
			{Name: "union of member dependencies stops at the first duplicate (seeded change C08-11)", File: "v2/pkg/engine/postprocess/create_multi_fetch.go", Rule: "C08-R4", Key: "merged-deps",
				Old: "\t\t\tif _, dup := seen[dep]; dup {\n\t\t\t\tcontinue\n\t\t\t}\n\t\t\tseen[dep] = struct{}{}\n\t\t\tdeps = append(deps, dep)", New: "\t\t\tif _, dup := seen[dep]; dup {\n\t\t\t\tbreak\n\t\t\t}\n\t\t\tseen[dep] = struct{}{}\n\t\t\tdeps = append(deps, dep)"},
			{Name: "merge phase without the data lock", File: loaderGo, Rule: "C08-R1", Key: "mergeResult",
				Old: "func (l *Loader) mergePhase(prepared *preparedFetch) error {\n\tl.dataBuffer.Lock()\n\tdefer l.dataBuffer.Unlock()\n", New: "func (l *Loader) mergePhase(prepared *preparedFetch) error {\n"},
			{Name: "load phase parses the response on the arena (unlocked)", File: loaderGo, Rule: "C08-R1", Key: "parsedResponse",
				Old: "\tif prepared.res.err != nil {\n\t\tl.recordErroredFetchID(prepared.item)\n\t}\n", New: "\tif prepared.res.err != nil {\n\t\tl.recordErroredFetchID(prepared.item)\n\t} else if _, perr := prepared.res.parsedResponse(l); perr != nil {\n\t\treturn nil\n\t}\n"},
			{Name: "errored fetch id recorded without the lock", File: loaderGo, Rule: "C08-R1", Key: "recordErroredFetchID",
				Old: "func (l *Loader) recordErroredFetchID(item *FetchItem) {\n\tl.dataBuffer.Lock()\n\tdefer l.dataBuffer.Unlock()\n\n", New: "func (l *Loader) recordErroredFetchID(item *FetchItem) {\n"},
			{Name: "sequence continues after a failed child", File: loaderGo, Rule: "C08-R2", Key: "resolveSerial",
				Old: "\t\terr := l.resolveFetchNodeWithCtx(ctx, nodes[i])\n\t\tif err != nil {\n\t\t\treturn errors.WithStack(err)\n\t\t}\n", New: "\t\t_ = l.resolveFetchNodeWithCtx(ctx, nodes[i])\n"},
			{Name: "parallel node not joined", File: loaderGo, Rule: "C08-R2", Key: "resolveParallel",
				Old: "\tif err := g.Wait(); err != nil {\n\t\treturn errors.WithStack(err)\n\t}\n\treturn nil\n}\n\nfunc (l *Loader) resolveSerial", New: "\treturn nil\n}\n\nfunc (l *Loader) resolveSerial"},
			{Name: "sequence kind dropped from the dispatch", File: loaderGo, Rule: "C08-R2", Key: "resolveFetchNodeWithCtx",
				Old: "\tcase FetchTreeNodeKindSequence:\n\t\treturn l.resolveSerial(ctx, node.ChildNodes)\n\tcase FetchTreeNodeKindParallel:", New: "\tcase FetchTreeNodeKindParallel:"},
			{Name: "parallel grouping before dependency ordering", File: postprocessGo, Rule: "C08-R3", Key: "organizeFetchTreeInWaves",
				Old: "\tp.orderSequenceByDependencies.ProcessFetchTree(fetches)\n\tp.createParallelNodes.ProcessFetchTree(fetches)\n", New: "\tp.createParallelNodes.ProcessFetchTree(fetches)\n\tp.orderSequenceByDependencies.ProcessFetchTree(fetches)\n"},
			{Name: "fetch ids appended before dedupe", File: postprocessGo, Rule: "C08-R3", Key: "processFlatFetchTree",
				Old: "\tp.dedupe.ProcessFetchTree(fetches)\n\t// Appending fetchIDs makes query content unique, thus it should happen after \"dedupe\".\n\tp.appendFetchID.ProcessFetchTree(fetches)\n", New: "\tp.appendFetchID.ProcessFetchTree(fetches)\n\tp.dedupe.ProcessFetchTree(fetches)\n"},
			{Name: "merged multi fetch keeps only the first member's dependencies", File: "v2/pkg/engine/postprocess/create_multi_fetch.go", Rule: "C08-R4", Key: "merged-deps",
				Old: "\t\t\tDependsOnFetchIDs: unionDependencies(members, ids),", New: "\t\t\tDependsOnFetchIDs: slices.Clone(members[0].DependsOnFetchIDs),"},
			{Name: "subscription plans skip the nested-dependency stage set", File: postprocessGo, Rule: "C08-R3", Key: "SubscriptionResponsePlan",
				Old: "\t\tp.appendTriggerToFetchTree(t.Response)\n\n\t\tp.fetchTreeProcessors.processFlatFetchTree(t.Response.Response)\n", New: "\t\tp.appendTriggerToFetchTree(t.Response)\n"},
		},
	}
}

func runC08(r *fw.Run) {
	defer c08CompletionOrderedCollectionsAreHandedOverInPlanOrder(r)
	p := r.Prog
	pk := p.Pkg("resolve")
	if pk == nil {
		r.Error("package resolve not loaded")
		return
	}
	info := pk.TypesInfo

	// ---- R1 shared state under the data lock ------------------------------------------------------
	r.Rule("C08-R1", "DataBuffer.data, Loader.errors/erroredFetchIDs/taintedObjs/subgraphErrors/subgraphExtensions/skipValueCompletion and the JSON arena are accessed only with DataBuffer.mu held, outside the single-goroutine setup/teardown functions")
	la := fw.NewLockAnalysis(p, "resolve")
	la.Solve()
	data := [][]string{{lkData}}
	single := map[string]string{
		"Loader.Init":                          "runs before the fetch tree is resolved (single goroutine)",
		"Loader.Free":                          "runs after the request finished (single goroutine)",
		"NewLoader":                            "constructor: the Loader is not shared yet",
		"Loader.appendSubgraphErrorsToContext": "called once after the fetch tree resolved: post-join via defer in LoadGraphQLResponseData, or under the lock in resolveDeferSingle",
		"Resolver.ResolveGraphQLResponse":      "post-join read after LoadGraphQLResponseData returned",
		"Resolver.ArenaResolveGraphQLResponse": "post-join read after LoadGraphQLResponseData returned",
		"Resolver.ResolveGraphQLDeferResponse": "post-join read after the initial ResolveFetchNode returned, before any defer group starts",
		"Resolver.executeSubscriptionUpdate":   "post-join read after LoadGraphQLResponseData returned (one loader per update)",
		"DataBuffer.Get":                       "accessor: the caller's lock set is what is checked (at the call of Get)",
		"DataBuffer.Set":                       "accessor: the caller's lock set is what is checked (at the call of Set)",
		"Loader.orderedSubgraphExtensions":     "hand-over accessor: the caller's lock set is what is checked (at the call)",
	}
	var guards []fw.Guard
	for _, f := range []string{"errors", "erroredFetchIDs", "taintedObjs", "subgraphErrors", "subgraphExtensions", "skipValueCompletion", "jsonArena"} {
		guards = append(guards, fw.Guard{Pkg: "resolve", Type: "Loader", Field: f, Write: data, Read: data, Exempt: single})
	}
	guards = append(guards, fw.Guard{Pkg: "resolve", Type: "DataBuffer", Field: "data", Write: data, Read: data, Exempt: single})
	counts := la.CheckGuards(r, "C08-R1", guards)
	total := 0
	for _, c := range counts {
		total += c
	}
	r.Expect("C08-R1", "accesses of lock-protected loader state", total, 135)
	// the accessors Get/Set are checked at their call sites
	nAcc := 0
	la.Visit(func(in *fw.Interp, n ast.Node, st *fw.State) {
		c, ok := n.(*ast.CallExpr)
		if !ok {
			return
		}
		isGet, isSet := fw.CallIs(in.Info, c, "resolve", "DataBuffer.Get"), fw.CallIs(in.Info, c, "resolve", "DataBuffer.Set")
		isHandOver := fw.CallIs(in.Info, c, "resolve", "Loader.orderedSubgraphExtensions")
		if !isGet && !isSet && !isHandOver {
			return
		}
		name := "DataBuffer.Get"
		if isSet {
			name = "DataBuffer.Set"
		}
		if isHandOver {
			name = "Loader.orderedSubgraphExtensions"
		} else {
			nAcc++
		}
		key := fw.SiteLabel(in) + "/" + name
		if why, ok := single[in.FI.Name()]; ok && in.FI.Name() != "DataBuffer.Get" && in.FI.Name() != "DataBuffer.Set" && in.FI.Name() != "Loader.orderedSubgraphExtensions" {
			r.Pass("C08-R1", key, p.Pos(c.Pos()), name+" in "+in.FI.Name()+" (exempt: "+why+")", false)
			return
		}
		r.Check(fw.Held(st, lkData, false), "C08-R1", key, p.Pos(c.Pos()), name+" in "+fw.SiteLabel(in),
			"the shared response tree is read/replaced without DataBuffer.mu (held: "+strings.Join(fw.HeldLocks(st), ",")+"): a concurrent merge mutates it in place")
	})
	r.Expect("C08-R1", "calls of DataBuffer.Get/Set", nAcc, 6)

	// ---- R2 join, serial order, dispatch -----------------------------------------------------------
	r.Rule("C08-R2", "resolveParallel joins its goroutines before returning; resolveSerial runs children in index order and returns on the first error; resolveFetchNodeWithCtx dispatches every executable node kind")
	if fi := p.Func("resolve", "Loader.resolveParallel"); fi == nil {
		r.Error("C08-R2: resolveParallel not found")
	} else {
		nExit := 0
		in := fw.NewInterp(fi)
		in.H = fw.Hooks{
			Lit: func(l *ast.FuncLit, ctx fw.LitCtx, st *fw.State) fw.LitMode { return fw.LitSkip },
			Node: func(nd ast.Node, st *fw.State) {
				if c, ok := nd.(*ast.CallExpr); ok {
					if fn := fw.Callee(info, c); fn != nil && fn.Pkg() != nil && fn.Pkg().Path() == "golang.org/x/sync/errgroup" {
						if fn.Name() == "Go" {
							st.Set("spawned")
							st.Kill("joined")
						}
						if fn.Name() == "Wait" {
							st.Set("joined")
						}
					}
				}
				if _, ok := nd.(*ast.GoStmt); ok {
					st.Set("spawned")
					st.Kill("joined")
				}
			},
			Exit: func(ret *ast.ReturnStmt, lit *ast.FuncLit, st *fw.State) {
				if lit != nil || !in.Final() {
					return
				}
				nExit++
				pos := fi.Decl.End()
				if ret != nil {
					pos = ret.Pos()
				}
				r.Check(st.Must("joined") || !st.May("spawned"), "C08-R2", fi.Name()+"/joined-before-return", p.Pos(pos), "resolveParallel returns only after g.Wait()",
					"the parent sequence continues with the next (dependent) node while fetches of this parallel node are still running: a request is issued before the requests it reads from have been merged")
			}}
		in.Run(nil)
		r.Expect("C08-R2", "exits of resolveParallel", nExit, 2)
	}
	if fi := p.Func("resolve", "Loader.resolveSerial"); fi == nil {
		r.Error("C08-R2: resolveSerial not found")
	} else {
		nodes := fi.Obj.Type().(*types.Signature).Params().At(1)
		found := false
		fw.WalkAll(fi.Decl.Body, func(n ast.Node) bool {
			rs, ok := n.(*ast.RangeStmt)
			if !ok {
				return true
			}
			id, ok := ast.Unparen(rs.X).(*ast.Ident)
			if !ok || info.Uses[id] != nodes {
				return true
			}
			found = true
			kobj := types.Object(nil)
			if k, ok := rs.Key.(*ast.Ident); ok {
				kobj = info.Defs[k]
			}
			var vobj types.Object
			if v, ok := rs.Value.(*ast.Ident); ok && v.Name != "_" {
				vobj = info.Defs[v]
			}
			// the call resolves nodes[i] / the range value, and a non-nil error leaves the loop
			var errObj types.Object
			callOK := false
			in := fw.NewInterp(fi)
			in.H = fw.Hooks{
				Node: func(nd ast.Node, st *fw.State) {
					if as, ok := nd.(*ast.AssignStmt); ok && len(as.Rhs) == 1 {
						if c, ok := ast.Unparen(as.Rhs[0]).(*ast.CallExpr); ok && fw.CallIs(info, c, "resolve", "Loader.resolveFetchNodeWithCtx") {
							errObj = fw.RootObj(info, as.Lhs[0])
							arg := ast.Unparen(c.Args[1])
							if ix, ok := arg.(*ast.IndexExpr); ok {
								if iid, ok := ast.Unparen(ix.Index).(*ast.Ident); ok && kobj != nil && info.Uses[iid] == kobj {
									callOK = true
								}
							}
							if aid, ok := arg.(*ast.Ident); ok && vobj != nil && info.Uses[aid] == vobj {
								callOK = true
							}
							st.Set("called")
							st.Kill("err-nil")
						}
					}
				},
				Cond: func(e ast.Expr, branch bool, st *fw.State) {
					if x, eq, ok := fw.NilCheck(info, e); ok && errObj != nil && fw.RootObj(info, x) == errObj && eq == branch {
						st.Set("err-nil")
					}
				},
			}
			end := in.RunStmts(rs.Body.List, nil)
			stops := end == nil || (end.Must("called") && end.Must("err-nil"))
			r.Check(callOK, "C08-R2", fi.Name()+"/index-order", p.Pos(rs.Pos()), "resolveSerial resolves nodes[i] for the loop index i (ascending index order)",
				"the sequence does not execute its children in list order: a fetch runs before the fetches it depends on")
			r.Check(stops, "C08-R2", fi.Name()+"/stops-at-first-error", p.Pos(rs.Pos()), "a failing child ends the sequence (the loop continues only on err == nil)",
				"the loop proceeds to the next child although the previous one returned an error: dependants run after a processing error of their dependency")
			return true
		})
		r.Check(found, "C08-R2", fi.Name()+"/loop", fi.Pos(), "resolveSerial ranges over its nodes parameter", "no range over the nodes parameter found")
	}
	if fi := p.Func("resolve", "Loader.resolveFetchNodeWithCtx"); fi == nil {
		r.Error("C08-R2: resolveFetchNodeWithCtx not found")
	} else {
		kind := p.Named("resolve", "FetchTreeNodeKind")
		sws := fw.ConstSwitches(fi, kind)
		r.Expect("C08-R2", "switch over FetchTreeNodeKind in resolveFetchNodeWithCtx", len(sws), 1)
		for _, sw := range sws {
			want := []string{"FetchTreeNodeKindSingle", "FetchTreeNodeKindSequence", "FetchTreeNodeKindParallel"}
			// frozen exception: FetchTreeNodeKindTrigger is the subscription trigger node, executed by the
			// subscription path, never by the loader.
			for _, k := range fw.ConstNames(pk.Types, kind) {
				if k != "FetchTreeNodeKindTrigger" && !contains(want, k) {
					want = append(want, k) // a new kind must be dispatched (or be added to the exception above with a reason)
				}
			}
			miss := fw.MissingFrom(sw.Covered, want)
			r.Check(len(miss) == 0, "C08-R2", fi.Name()+"/dispatch-covers-kinds", p.Pos(sw.Stmt.Pos()), "the node-kind dispatch covers Single, Sequence, Parallel (and any new executable kind)",
				"node kinds without an arm: "+strings.Join(miss, ", ")+" — the default arm returns nil, i.e. the subtree's fetches are silently not executed while dependants still run")
		}
	}

	// ---- R3 stage order -----------------------------------------------------------------------------
	r.Rule("C08-R3", "post-processing stages run in the required tree state: per plan kind createFetchTree ≺ processFlatFetchTree ≺ [extractDeferFetches] ≺ organizeFetchTree ≺ processOrganizedFetchTree; dedupe ≺ appendFetchID ≺ addMissingNestedDependencies; orderSequenceByDependencies ≺ createParallelNodes")
	pp := p.Pkg("postprocess")
	if pp == nil {
		r.Error("C08-R3: package postprocess not loaded")
		return
	}
	stageOrder(r, "C08-R3", "postprocess", "FetchTreeProcessors.processFlatFetchTree", []string{"collectAuthorizationCoordinates", "dedupe", "appendFetchID", "addMissingNestedDependencies"}, "FetchTreeProcessors")
	stageOrder(r, "C08-R3", "postprocess", "FetchTreeProcessors.organizeFetchTreeInWaves", []string{"orderSequenceByDependencies", "createParallelNodes"}, "FetchTreeProcessors")
	stageOrder(r, "C08-R3", "postprocess", "FetchTreeProcessors.processOrganizedFetchTree", []string{"renderSubgraphInputs", "resolveInputTemplates", "createConcreteSingleFetchTypes"}, "FetchTreeProcessors")
	if fi := p.Func("postprocess", "Processor.Process"); fi == nil {
		r.Error("C08-R3: Processor.Process not found")
	} else {
		pinfo := fi.Info()
		arms := 0
		fw.WalkAll(fi.Decl.Body, func(n ast.Node) bool {
			ts, ok := n.(*ast.TypeSwitchStmt)
			if !ok {
				return true
			}
			for _, cl := range ts.Body.List {
				cc := cl.(*ast.CaseClause)
				if len(cc.List) != 1 {
					continue
				}
				arm := fw.RecvName(pinfo.TypeOf(cc.List[0]))
				arms++
				in := fw.NewInterp(fi)
				stageOf := func(c *ast.CallExpr) string {
					fn := fw.Callee(pinfo, c)
					if fn == nil {
						return ""
					}
					switch {
					case fw.FuncIs(fn, "postprocess", "Processor.createFetchTree"):
						return "createFetchTree"
					case fw.FuncIs(fn, "postprocess", "FetchTreeProcessors.processFlatFetchTree"):
						return "processFlatFetchTree"
					case fw.FuncIs(fn, "postprocess", "FetchTreeProcessors.organizeFetchTree"):
						return "organizeFetchTree"
					case fw.FuncIs(fn, "postprocess", "FetchTreeProcessors.processOrganizedFetchTree"):
						return "processOrganizedFetchTree"
					case fw.FuncIs(fn, "postprocess", "extractDeferFetches.Process"):
						return "extractDeferFetches"
					case fw.FuncIs(fn, "postprocess", "buildDeferTree.Process"):
						return "buildDeferTree"
					}
					return ""
				}
				requires := map[string][]string{
					"processFlatFetchTree":      {"createFetchTree"},
					"extractDeferFetches":       {"processFlatFetchTree"},
					"organizeFetchTree":         {"processFlatFetchTree"},
					"processOrganizedFetchTree": {"organizeFetchTree"},
					"buildDeferTree":            {"processOrganizedFetchTree"},
				}
				forbids := map[string][]string{"extractDeferFetches": {"organizeFetchTree"}, "processFlatFetchTree": {"organizeFetchTree"}}
				in.H = fw.Hooks{Node: func(nd ast.Node, st *fw.State) {
					c, ok := nd.(*ast.CallExpr)
					if !ok {
						return
					}
					s := stageOf(c)
					if s == "" {
						return
					}
					if in.Final() {
						for _, req := range requires[s] {
							r.Check(st.Must("stage:"+req), "C08-R3", "Process/"+arm+"/"+req+"<"+s, p.Pos(c.Pos()), s+" runs after "+req+" in the "+arm+" arm",
								s+" is reachable without "+req+" having run: the stage reads a tree shape (flat list of single fetches / organized waves) that does not exist yet")
						}
						for _, fb := range forbids[s] {
							r.Check(!st.May("stage:"+fb), "C08-R3", "Process/"+arm+"/"+s+"-while-flat", p.Pos(c.Pos()), s+" runs while the tree is still flat in the "+arm+" arm",
								s+" runs after "+fb+": it requires every child to still be a SingleFetch (source comment)")
						}
					}
					st.Set("stage:" + s)
				}}
				end := in.RunStmts(cc.Body, nil)
				for _, must := range []string{"createFetchTree", "processFlatFetchTree", "organizeFetchTree", "processOrganizedFetchTree"} {
					r.Check(end != nil && end.Must("stage:"+must), "C08-R3", "Process/"+arm+"/runs:"+must, p.Pos(cc.Pos()), "the "+arm+" arm runs "+must,
						"the "+arm+" arm does not run "+must+" on every path: plans of this kind execute with unordered / un-deduplicated / un-grouped fetches while the other plan kinds do not (sibling disagreement)")
				}
			}
			return false
		})
		r.Expect("C08-R3", "plan-kind arms of Processor.Process", arms, 3)
	}
	mergedDependencies(r, "C08-R4")
}

// mergedDependencies: the fetch that replaces a group of fetches depends on everything any
// member depended on (C08-R4).
func mergedDependencies(r *fw.Run, rule string) {
	p := r.Prog
	r.Rule(rule, "a fetch created by merging several fetches carries the union of the members' dependencies: its DependsOnFetchIDs derive from the whole member list, not from one fixed member")
	n := 0
	for _, fi := range p.Funcs("postprocess") {
		info := fi.Info()
		fw.WalkAll(fi.Decl.Body, func(nd ast.Node) bool {
			cl, ok := nd.(*ast.CompositeLit)
			if !ok || !fw.TypeIs(info.TypeOf(cl), "resolve", "FetchDependencies") {
				return true
			}
			// the group being merged: a local slice of *resolve.SingleFetch in this function
			var group types.Object
			fw.WalkAll(fi.Decl.Body, func(m ast.Node) bool {
				if id, ok := m.(*ast.Ident); ok {
					if v, ok := info.Defs[id].(*types.Var); ok {
						if sl, ok := v.Type().Underlying().(*types.Slice); ok && fw.TypeIs(sl.Elem(), "resolve", "SingleFetch") && group == nil {
							group = v
						}
					}
				}
				return true
			})
			if group == nil {
				return true // not a merge site
			}
			for _, el := range cl.Elts {
				kv, ok := el.(*ast.KeyValueExpr)
				if !ok {
					continue
				}
				if k, ok := kv.Key.(*ast.Ident); !ok || k.Name != "DependsOnFetchIDs" {
					continue
				}
				n++
				d := fw.NewPureDeriver(fi)
				d.ElementOpaque = true
				whole := d.Derives(kv.Value, func(e ast.Expr) bool {
					id, ok := e.(*ast.Ident)
					return ok && info.Uses[id] == group
				})
				okUnion := whole
				// when the union is computed by a helper, the helper must read every member's dependencies
				if c, isCall := ast.Unparen(kv.Value).(*ast.CallExpr); isCall && whole {
					if hf := p.FuncOf(fw.Callee(info, c)); hf != nil {
						okUnion = helperUnionsDependencies(hf)
					}
				}
				r.Check(okUnion, rule, fi.Name()+"/merged-deps-are-a-union", p.Pos(kv.Pos()), "DependsOnFetchIDs of the merged fetch in "+fi.Name()+" derives from all members",
					"the merged fetch inherits the dependencies of one fixed member only, or the loop that unions them can be left early (break/return): the scheduler loses the edge to another member's prerequisite and issues the merged request before that prerequisite was merged")
			}
			return true
		})
	}
	r.Expect(rule, "merged FetchDependencies literals", n, 1)
}

// helperUnionsDependencies: the function ranges over a slice parameter of fetches and reads each
// element's DependsOnFetchIDs into its result.
func helperUnionsDependencies(fi *fw.FuncInfo) bool {
	info := fi.Info()
	ok, early := false, false
	fw.WalkAll(fi.Decl.Body, func(n ast.Node) bool {
		rs, isRange := n.(*ast.RangeStmt)
		if !isRange {
			return true
		}
		id, isID := ast.Unparen(rs.X).(*ast.Ident)
		if !isID {
			return true
		}
		v, isVar := info.Uses[id].(*types.Var)
		if !isVar {
			return true
		}
		if sl, isSl := v.Type().Underlying().(*types.Slice); !isSl || !fw.TypeIs(sl.Elem(), "resolve", "SingleFetch") {
			return true
		}
		fw.WalkAll(rs.Body, func(m ast.Node) bool {
			if sel, isSel := m.(*ast.SelectorExpr); isSel {
				if f, _ := fw.Field(info, sel); f != nil && f.Name() == "DependsOnFetchIDs" {
					ok = true
				}
			}
			return true
		})
		// a union visits every member and every dependency: the loop over the members and the loops nested in it
		// are never left early (break, return, goto) — a `continue` only skips one element
		fw.WalkAll(rs.Body, func(m ast.Node) bool {
			switch x := m.(type) {
			case *ast.FuncLit:
				return false
			case *ast.ReturnStmt:
				early = true
			case *ast.BranchStmt:
				if x.Tok == token.BREAK || x.Tok == token.GOTO {
					// a break inside a switch/select arm only leaves the switch — none is used here; be strict and
					// accept it only when the innermost breakable statement is a switch/select
					if !breakLeavesSwitchOnly(rs.Body, x) {
						early = true
					}
				}
			}
			return true
		})
		return true
	})
	return ok && !early
}

// breakLeavesSwitchOnly: the unlabelled break br inside root belongs to a switch/select statement (not to a loop).
func breakLeavesSwitchOnly(root ast.Node, br *ast.BranchStmt) bool {
	if br.Label != nil || br.Tok != token.BREAK {
		return false
	}
	res := false
	var stack []ast.Node
	ast.Inspect(root, func(n ast.Node) bool {
		if n == nil {
			stack = stack[:len(stack)-1]
			return true
		}
		if n == ast.Node(br) {
			for i := len(stack) - 1; i >= 0; i-- {
				switch stack[i].(type) {
				case *ast.SwitchStmt, *ast.TypeSwitchStmt, *ast.SelectStmt:
					res = true
					return false
				case *ast.ForStmt, *ast.RangeStmt:
					return false
				}
			}
		}
		stack = append(stack, n)
		return true
	})
	return res
}

func contains(xs []string, s string) bool {
	for _, x := range xs {
		if x == s {
			return true
		}
	}
	return false
}

// stageOrder: in function fn the processors stored in the named fields of struct ownerType are
// invoked in the given order (each one dominated by all earlier ones).
func stageOrder(r *fw.Run, rule, pkg, fn string, order []string, ownerType string) {
	p := r.Prog
	fi := p.Func(pkg, fn)
	if fi == nil {
		r.Error("%s: %s not found", rule, fn)
		return
	}
	info := fi.Info()
	seen := map[string]bool{}
	in := fw.NewInterp(fi)
	in.H = fw.Hooks{Node: func(nd ast.Node, st *fw.State) {
		c, ok := nd.(*ast.CallExpr)
		if !ok {
			return
		}
		sel, ok := ast.Unparen(c.Fun).(*ast.SelectorExpr)
		if !ok {
			return
		}
		v, fsel := fw.Field(info, sel.X)
		if v == nil {
			return
		}
		if _, tn := fw.FieldOwner(info, fsel); tn != ownerType {
			return
		}
		idx := -1
		for i, s := range order {
			if s == v.Name() {
				idx = i
			}
		}
		if idx < 0 {
			return
		}
		if in.Final() {
			seen[v.Name()] = true
			for _, prev := range order[:idx] {
				r.Check(st.Must("stage:"+prev), rule, fi.Name()+"/"+prev+"<"+v.Name(), p.Pos(c.Pos()), v.Name()+" runs after "+prev+" in "+fi.Name(),
					"stage "+v.Name()+" is reachable before "+prev+" ran: the order required by the stages' contracts (see the source comments) is broken")
			}
			for _, later := range order[idx+1:] {
				r.Check(!st.May("stage:"+later), rule, fi.Name()+"/"+v.Name()+"<"+later, p.Pos(c.Pos()), v.Name()+" runs before "+later+" in "+fi.Name(),
					"stage "+later+" can run before "+v.Name())
			}
		}
		st.Set("stage:" + v.Name())
	}}
	in.Run(nil)
	for _, s := range order {
		if !seen[s] {
			r.Fail(rule, fi.Name()+"/runs:"+s, fi.Pos(), "stage "+s+" is invoked in "+fi.Name(), "the stage is no longer invoked")
		}
	}
}

// c08CompletionOrderedCollectionsAreHandedOverInPlanOrder (R5): the loader appends to its slice fields while it merges, and
// for the children of a Parallel node the merge order is the completion order. A slice the renderer reduces by position —
// the forwarded subgraph extensions: per key the first, or the last, collected value wins — therefore must not reach the
// Resolvable in that order. Rule (sibling agreement over the hand-over sites that R8 of C07 enumerates): (a) wherever a
// slice-typed field of a Resolvable is assigned from a Loader, the right-hand side is a call of a Loader method that
// sorts (sort.* / slices.Sort*), never the bare field; (b) every function that appends to the Loader field that method
// returns also appends to each companion slice the sort reads, so the ordering key of an element cannot be missing (the
// method falls back to merge order when the lengths differ).
func c08CompletionOrderedCollectionsAreHandedOverInPlanOrder(r *fw.Run) {
	p := r.Prog
	r.Rule("C08-R5", "a slice the loader fills in merge (completion) order and the renderer reduces by position reaches the Resolvable through a Loader method that sorts it by a plan-derived key; whoever appends to the slice also appends the key")
	isSort := func(fn *types.Func) bool {
		if fn == nil || fn.Pkg() == nil {
			return false
		}
		return (fn.Pkg().Path() == "sort" && (fn.Name() == "Slice" || fn.Name() == "SliceStable" || fn.Name() == "Sort" || fn.Name() == "Stable")) ||
			(fn.Pkg().Path() == "slices" && strings.HasPrefix(fn.Name(), "Sort"))
	}
	sorters := map[*types.Func]*fw.FuncInfo{}
	for _, fi := range p.Funcs("resolve") {
		if fw.RecvNameOfFunc(fi.Obj) != "Loader" {
			continue
		}
		info := fi.Info()
		fw.WalkAll(fi.Decl.Body, func(nd ast.Node) bool {
			if c, ok := nd.(*ast.CallExpr); ok && isSort(fw.Callee(info, c)) {
				sorters[fi.Obj] = fi
			}
			return true
		})
	}
	n := 0
	ordered := map[*types.Func]bool{}
	for _, fi := range p.Funcs("resolve") {
		info := fi.Info()
		seen := map[string]int{}
		fw.WalkAll(fi.Decl.Body, func(nd ast.Node) bool {
			as, ok := nd.(*ast.AssignStmt)
			if !ok || len(as.Lhs) != len(as.Rhs) {
				return true
			}
			for i, l := range as.Lhs {
				fv, sel := fw.Field(info, l)
				if fv == nil {
					continue
				}
				if _, tn := fw.FieldOwner(info, sel); tn != "Resolvable" {
					continue
				}
				if _, isSlice := fv.Type().Underlying().(*types.Slice); !isSlice {
					continue
				}
				// the right-hand side comes from a Loader?
				rhs := ast.Unparen(as.Rhs[i])
				fromLoader, viaSorter := false, false
				if rv, rsel := fw.Field(info, rhs); rv != nil {
					if _, rtn := fw.FieldOwner(info, rsel); rtn == "Loader" {
						fromLoader = true
					}
				}
				if c, isCall := rhs.(*ast.CallExpr); isCall {
					if fn := fw.Callee(info, c); fn != nil && fw.RecvNameOfFunc(fn) == "Loader" {
						fromLoader = true
						if sorters[fn] != nil {
							viaSorter = true
							ordered[fn] = true
						}
					}
				}
				if !fromLoader {
					continue
				}
				n++
				key := fi.Name() + "/handover-in-plan-order:" + fv.Name()
				seen[key]++
				if seen[key] > 1 {
					key += "#" + itoa(seen[key])
				}
				r.Check(viaSorter, "C08-R5", key, p.Pos(as.Pos()), fi.Name()+" hands "+fv.Name()+" to the Resolvable through a sorting method of the Loader",
					fi.Name()+" hands the loader's "+fv.Name()+" to the Resolvable as collected, i.e. in the order in which parallel fetches were merged: with `Parallel(s1, s2)` answering `\"extensions\":{\"traceId\":\"s1\"}` / `{\"traceId\":\"s2\"}` the response carries `traceId: s1` when s1 completes first and `traceId: s2` otherwise (first_write; the reverse for last_write) — the response bytes depend on the completion order")
			}
			return true
		})
	}
	r.Expect("C08-R5", "hand-over sites of a loader slice to a Resolvable", n, 5)
	// (b) companions
	nPair := 0
	for fn := range ordered {
		sfi := sorters[fn]
		sinfo := sfi.Info()
		// the field returned / permuted, and the companions read inside function literals (the comparator)
		var data *types.Var
		companions := map[*types.Var]bool{}
		fw.WalkAll(sfi.Decl.Body, func(nd ast.Node) bool {
			if lit, ok := nd.(*ast.FuncLit); ok {
				fw.WalkAll(lit.Body, func(x ast.Node) bool {
					if e, isE := x.(ast.Expr); isE {
						if fv, sel := fw.Field(sinfo, e); fv != nil {
							if _, tn := fw.FieldOwner(sinfo, sel); tn == "Loader" {
								if _, isSlice := fv.Type().Underlying().(*types.Slice); isSlice {
									companions[fv] = true
								}
							}
						}
					}
					return true
				})
			}
			if ret, ok := nd.(*ast.ReturnStmt); ok && len(ret.Results) == 1 {
				if fv, sel := fw.Field(sinfo, ret.Results[0]); fv != nil {
					if _, tn := fw.FieldOwner(sinfo, sel); tn == "Loader" {
						data = fv
					}
				}
			}
			return true
		})
		if data == nil {
			r.Error("C08-R5: the slice " + sfi.Name() + " orders was not recognised")
			continue
		}
		delete(companions, data)
		for _, fi := range p.Funcs("resolve") {
			info := fi.Info()
			writes := map[*types.Var]bool{}
			fw.WalkAll(fi.Decl.Body, func(nd ast.Node) bool {
				for _, t := range fw.WriteTargets(info, nd) {
					if fv, sel := fw.Field(info, t); fv != nil {
						if _, tn := fw.FieldOwner(info, sel); tn == "Loader" {
							// clearing (nil / [:0]) is not an append
							if as, isAs := nd.(*ast.AssignStmt); isAs && len(as.Rhs) == 1 {
								if c, isC := ast.Unparen(as.Rhs[0]).(*ast.CallExpr); !isC || fw.Builtin(info, c) != "append" {
									continue
								}
							}
							writes[fv] = true
						}
					}
				}
				return true
			})
			if !writes[data] {
				continue
			}
			for c := range companions {
				nPair++
				r.Check(writes[c], "C08-R5", fi.Name()+"/appends-with-its-key:"+c.Name(), p.Pos(fi.Decl.Pos()), fi.Name()+" appends to "+data.Name()+" together with "+c.Name(),
					fi.Name()+" appends to Loader."+data.Name()+" without appending to "+c.Name()+", which "+sfi.Name()+" sorts by: the lengths differ, the method falls back to merge order and the forwarded extensions depend on the completion order again")
			}
		}
	}
	r.Expect("C08-R5", "appenders of an ordered loader slice checked for the companion key", nPair, 1)
}
